// Package racepass is the supplementary free-running pass for functions that are pure by contract (decode,
// print, measure, copy, pack, compare names): several goroutines run them on their own values under the race
// detector. It decides nothing about the properties' input spaces — those are enumerated by cmd/vcheck — but a
// cooperative or single-threaded enumeration cannot see package-level mutable state that such a function starts
// to share (a memoisation map, a hoisted scratch buffer); the race detector sees it in one run, because it
// reports conflicting unsynchronised accesses whatever the actual timing.
package racepass

import (
	"fmt"
	"sync"
	"testing"

	"github.com/miekg/dns"
)

func messages(g int) [][]byte {
	var out [][]byte
	// one record of a few registered and many unassigned types (distinct per goroutine), an NSEC whose bitmap
	// names unassigned types, escaped names
	for i := 0; i < 40; i++ {
		t := uint16(300 + 41*g + i)
		m := new(dns.Msg)
		m.SetQuestion(fmt.Sprintf("q%d-%d.example.", g, i), t)
		m.Response = true
		m.Answer = []dns.RR{
			&dns.RFC3597{Hdr: dns.RR_Header{Name: m.Question[0].Name, Rrtype: t, Class: 1, Ttl: 5}, Rdata: "0102"},
			&dns.NSEC{Hdr: dns.RR_Header{Name: m.Question[0].Name, Rrtype: dns.TypeNSEC, Class: 1, Ttl: 5}, NextDomain: `a\.b\000.example.`, TypeBitMap: []uint16{1, 2, t, t + 1000, 65000 - uint16(g)}},
			&dns.MX{Hdr: dns.RR_Header{Name: m.Question[0].Name, Rrtype: dns.TypeMX, Class: 1, Ttl: 5}, Preference: 1, Mx: "Mail.Example."},
			&dns.TXT{Hdr: dns.RR_Header{Name: m.Question[0].Name, Rrtype: dns.TypeTXT, Class: uint16(4000 + g), Ttl: 5}, Txt: []string{"a b", `c\"d`}},
		}
		m.SetEdns0(1232, true)
		m.Compress = i%2 == 0
		b, err := m.Pack()
		if err != nil {
			panic(err)
		}
		out = append(out, b)
	}
	return out
}

func TestPureFunctionsConcurrently(t *testing.T) {
	const G = 4
	var wg sync.WaitGroup
	for g := 0; g < G; g++ {
		wg.Add(1)
		go func(g int) {
			defer wg.Done()
			for _, b := range messages(g) {
				m := new(dns.Msg)
				if err := m.Unpack(b); err != nil {
					t.Errorf("unpack: %v", err)
					return
				}
				_ = m.String()
				_ = m.Len()
				c := m.Copy()
				c.Compress = true
				if _, err := c.Pack(); err != nil {
					t.Errorf("pack: %v", err)
				}
				for _, rr := range m.Answer {
					_ = dns.IsDuplicate(rr, rr)
					if x, err := dns.NewRR(rr.String()); err == nil && x != nil {
						_ = x.String()
					}
				}
				n := m.Question[0].Name
				_ = dns.CountLabel(n)
				_ = dns.SplitDomainName(n)
				_ = dns.CanonicalName(n)
				_ = dns.IsSubDomain("example.", n)
				_, _ = dns.IsDomainName(n)
				_ = dns.Type(m.Question[0].Qtype).String()
				_ = dns.Class(m.Answer[3].Header().Class).String()
				dns.Dedup(append([]dns.RR(nil), m.Answer...), nil)
			}
		}(g)
	}
	wg.Wait()
}
