// Package enum enumerates abstract records of the reference wire model: per-field boundary alphabets
// (simplest value first) and deviation-bounded vectors over them.
package enum

import (
	"bytes"

	"verif/harness/ref/wire"
)

func L(ss ...string) [][]byte {
	o := make([][]byte, len(ss))
	for i, s := range ss {
		o[i] = []byte(s)
	}
	return o
}

var Label63 = bytes.Repeat([]byte{'l'}, 63)

// MaxName is a name of exactly 255 wire octets.
var MaxName = [][]byte{Label63, Label63, Label63, bytes.Repeat([]byte{'m'}, 61)}

// MaxNameEsc is a 255-octet name whose labels end in characters that need \X and \DDD escapes.
var MaxNameEsc = [][]byte{append(bytes.Repeat([]byte{'e'}, 62), '.'), append(bytes.Repeat([]byte{'e'}, 62), ';'), append(bytes.Repeat([]byte{'e'}, 62), 0), append(bytes.Repeat([]byte{'e'}, 60), '"')}

// Names is the name alphabet (first = default).
var Names = [][][]byte{
	L("host", "example"),
	nil, // root
	L("a"),
	L("A", "b"),
	{[]byte("a.b"), []byte("c")},     // label containing a dot
	{{0, 255, ' ', '"', '\\', ';', '(', ')', '@', '$', '\''}}, // hostile octets
	{Label63, []byte("a")},
	{append(bytes.Repeat([]byte{'s'}, 62), ' '), []byte("b")}, // maximal label that needs one \X escape
	MaxNameEsc,
	MaxName,
}

// Hostile single octets for character-strings.
var Hostile = []byte{'"', '\\', ';', '(', ')', ' ', '\t', '\n', '@', '$', 0, 0x7f, 0x80, 0xff}

func strs() [][]byte {
	o := [][]byte{[]byte("v"), {}, []byte("a b")}
	for _, h := range Hostile {
		o = append(o, []byte{h}, []byte{'a', h, 'b'})
	}
	o = append(o, []byte(`x\"y`), []byte("\\\\"), bytes.Repeat([]byte{'x'}, 255), bytes.Repeat([]byte{'\\'}, 255), []byte("123"), []byte(`\123`))
	// letter case is content in every character-string (CAA tags, NAPTR flags, HINFO, TXT …)
	o = append(o, []byte("MiXeD"), []byte("UPPER"))
	// the longest presentation forms a character-string can have: 255 octets that all print as \DDD (1020
	// characters), and one printable octet among them
	o = append(o, bytes.Repeat([]byte{0x80}, 255), append(bytes.Repeat([]byte{0x01}, 254), 'a'))
	return o
}

func counting(n int) []byte {
	b := make([]byte, n)
	for i := range b {
		b[i] = byte(i)
	}
	return b
}

func ints(pos int, max uint64, extra ...uint64) []wire.Val {
	vs := []uint64{uint64(pos+1) & max, 0, max}
	for _, e := range []uint64{127, 128, 255, 256, 32767, 32768, 65535, 65536, 1<<31 - 1, 1 << 31, 1 << 32, 1 << 47, 1<<63 - 1} {
		if e < max {
			vs = append(vs, e)
		}
	}
	vs = append(vs, extra...)
	var out []wire.Val
	seen := map[uint64]bool{}
	for _, v := range vs {
		if !seen[v] {
			seen[v] = true
			out = append(out, wire.Val{U: v})
		}
	}
	return out
}

// Alphabet returns the values field fi of spec s ranges over; index 0 is the default.
func Alphabet(s *wire.Spec, fi int) []wire.Val {
	f := s.Fields[fi]
	// structural fields with a closed domain
	if f.Go == "GatewayType" {
		if s.Type == 260 { // AMTRELAY: discovery bit | type
			return []wire.Val{{U: 3}, {U: 0}, {U: 1}, {U: 2}, {U: 0x80}, {U: 0x81}, {U: 0x82}, {U: 0x83}}
		}
		return []wire.Val{{U: 3}, {U: 0}, {U: 1}, {U: 2}}
	}
	switch f.K {
	case wire.U8:
		return ints(fi, 0xff)
	case wire.U16:
		return ints(fi, 0xffff)
	case wire.U32:
		return ints(fi, 0xffffffff)
	case wire.U48:
		return ints(fi, 1<<48-1)
	case wire.U64:
		return ints(fi, 1<<64-1)
	case wire.Len8, wire.Len16:
		return []wire.Val{{}}
	case wire.Name, wire.CName:
		var o []wire.Val
		for _, n := range Names {
			o = append(o, wire.Val{L: n, Root: true})
		}
		return o
	case wire.Str:
		var o []wire.Val
		for _, s := range strs() {
			o = append(o, wire.Val{B: s})
		}
		return o
	case wire.Txt:
		o := []wire.Val{{L: L("t")}, {L: L("")}, {L: L("a", "b")}, {L: L("", "")}, {L: [][]byte{bytes.Repeat([]byte{'x'}, 255)}}, {L: [][]byte{bytes.Repeat([]byte{'x'}, 255), []byte("y")}}, {L: [][]byte{bytes.Repeat([]byte{0xff}, 255)}}, {L: [][]byte{[]byte("z"), bytes.Repeat([]byte{0x00}, 255)}}}
		for _, h := range Hostile {
			o = append(o, wire.Val{L: [][]byte{{'a', h, 'b'}}})
		}
		return o
	case wire.Octet:
		o := []wire.Val{{B: []byte("http://x/")}, {B: []byte{}}, {B: []byte(`a\b`)}, {B: []byte(`"q"`)}, {B: []byte("a b")}, {B: []byte(`\065`)}, {B: counting(256)}, {B: bytes.Repeat([]byte("u"), 2000)}}
		for _, h := range Hostile {
			o = append(o, wire.Val{B: []byte{'a', h, 'b'}})
		}
		return o
	case wire.Any:
		return []wire.Val{{B: []byte("data")}, {B: []byte{}}, {B: []byte{0}}, {B: []byte(`a\b"`)}, {B: counting(256)}}
	case wire.Hex, wire.B64, wire.B32:
		if f.LenFrom != "" {
			max := 255
			o := []wire.Val{{B: counting(20)}, {B: []byte{}}, {B: []byte{0}}, {B: []byte{0xff, 0xfe}}, {B: counting(max)}}
			if f.K == wire.B64 {
				o = append(o, caseTwins()...)
			}
			for _, g := range s.Fields {
				if g.Go == f.LenFrom && g.K == wire.Len16 {
					o = append(o, wire.Val{B: counting(256)}, wire.Val{B: counting(1000)})
				}
			}
			return o
		}
		// the long values sit around the sizes at which printers cut such fields into words (512-octet chunks)
		vs := []wire.Val{{B: []byte{1, 2, 3}}, {B: []byte{}}, {B: []byte{0}}, {B: []byte{0xff}}, {B: bytes.Repeat([]byte{0xff}, 32)}, {B: counting(256)}, {B: counting(1)}, {B: counting(2)},
			{B: counting(511)}, {B: counting(512)}, {B: counting(513)}, {B: counting(1023)}, {B: counting(1024)}, {B: counting(1025)}, {B: counting(1536)}, {B: counting(2048)}}
		if f.K == wire.B64 {
			vs = append(vs, caseTwins()...)
		}
		return vs
	case wire.A:
		return []wire.Val{{B: []byte{192, 0, 2, 1}}, {B: []byte{0, 0, 0, 0}}, {B: []byte{255, 255, 255, 255}}}
	case wire.AAAA:
		v4m := append(append(make([]byte, 10), 0xff, 0xff), 192, 0, 2, 1)
		return []wire.Val{{B: append([]byte{0x20, 0x01, 0x0d, 0xb8}, append(make([]byte, 11), 1)...)}, {B: make([]byte, 16)}, {B: bytes.Repeat([]byte{0xff}, 16)}, {B: v4m}}
	case wire.Nsec:
		return []wire.Val{{T: []uint16{1, 2, 46}}, {T: nil}, {T: []uint16{0}}, {T: []uint16{255}}, {T: []uint16{256}}, {T: []uint16{65535}}, {T: []uint16{1, 256, 65280}}, {T: []uint16{0, 1, 255, 256, 257, 65535}}, {T: []uint16{7, 8}}, {T: []uint16{248, 255}}}
	case wire.Gateway:
		return []wire.Val{{B: append([]byte{0x20, 0x01, 0x0d, 0xb8}, append(make([]byte, 11), 1)...), L: L("gw", "example"), Root: true},
			{B: make([]byte, 16), L: nil, Root: true}, {B: bytes.Repeat([]byte{0xff}, 16), L: Names[5], Root: true},
			// an IPv4-mapped IPv6 address: as IPv6 gateway it is 16 octets on the wire and ::ffff:192.0.2.1 in text
			{B: append(append(make([]byte, 10), 0xff, 0xff), 192, 0, 2, 1), L: L("gw", "example"), Root: true}}
	case wire.Names:
		return []wire.Val{{N: [][][]byte{L("rvs", "example")}}, {N: nil}, {N: [][][]byte{L("a"), nil, Names[5]}}}
	case wire.Apl:
		return []wire.Val{
			{Apl: []wire.AplItem{{Family: 1, Prefix: 24, Addr: []byte{192, 0, 2}}}},
			{Apl: nil},
			{Apl: []wire.AplItem{{Family: 2, Prefix: 48, Neg: true, Addr: []byte{0x20, 0x01, 0x0d, 0xb8, 0xca, 0xfe}}}},
			{Apl: []wire.AplItem{{Family: 1, Prefix: 0, Addr: nil}}},
			{Apl: []wire.AplItem{{Family: 1, Prefix: 32, Addr: []byte{255, 255, 255, 255}}}},
			{Apl: []wire.AplItem{{Family: 2, Prefix: 128, Addr: bytes.Repeat([]byte{0xff}, 16)}}},
			{Apl: []wire.AplItem{{Family: 1, Prefix: 22, Addr: []byte{198, 51, 100}}, {Family: 2, Prefix: 0, Neg: true}}},
			{Apl: []wire.AplItem{{Family: 2, Prefix: 64, Addr: []byte{0x20, 0x01}}}}, // trailing zero octets trimmed
			{Apl: []wire.AplItem{{Family: 1, Prefix: 9, Addr: []byte{10, 128}}}},
		}
	case wire.Opts:
		var o []wire.Val
		o = append(o, wire.Val{Opts: []wire.Option{{Code: 10, Data: counting(8)}}}, wire.Val{Opts: nil})
		for _, op := range Options() {
			if op.Canonical {
				o = append(o, wire.Val{Opts: []wire.Option{op.Option}})
			}
		}
		o = append(o, wire.Val{Opts: []wire.Option{{Code: 3, Data: []byte("ns1")}, {Code: 10, Data: counting(24)}, {Code: 12, Data: make([]byte, 40)}}})
		return o
	case wire.SvcParams:
		var o []wire.Val
		o = append(o, wire.Val{Params: []wire.Param{{Key: 1, Data: []byte("\x02h2")}}}, wire.Val{Params: nil})
		for _, p := range Params() {
			o = append(o, wire.Val{Params: []wire.Param{p}})
		}
		o = append(o, wire.Val{Params: []wire.Param{{Key: 0, Data: []byte{0, 1, 0, 3}}, {Key: 1, Data: []byte("\x02h2\x08http/1.1")}, {Key: 3, Data: []byte{1, 187}}, {Key: 4, Data: []byte{192, 0, 2, 1}}, {Key: 65280, Data: []byte("x")}}})
		return o
	}
	panic("enum: kind")
}

// Opt is an option payload with a note whether re-encoding it is expected to be the identity.
type Opt struct {
	wire.Option
	Canonical bool
}

// Options lists every EDNS0 option kind the library knows with boundary payloads (RFC layouts).
func Options() []Opt {
	c := func(code uint16, data ...byte) Opt { return Opt{wire.Option{Code: code, Data: data}, true} }
	nc := func(code uint16, data ...byte) Opt { return Opt{wire.Option{Code: code, Data: data}, false} }
	v6 := []byte{0x20, 0x01, 0x0d, 0xb8, 0, 0, 0, 0, 0, 0, 0, 0, 0, 0, 0, 1}
	o := []Opt{
		c(1, append([]byte{0, 1, 0, 2, 0, 3, 1, 2, 3, 4, 5, 6, 7, 8}, 0, 0, 0x0e, 0x10)...), c(1, bytes.Repeat([]byte{0xff}, 18)...),
		c(2, 0, 0, 0x0e, 0x10), c(2, 0, 0, 0x0e, 0x10, 0, 0, 0x1c, 0x20), nc(2, 0, 0, 0, 1, 0, 0, 0, 0),
		c(3), c(3, []byte("ns1.example")...), c(3, counting(256)...),
		c(4), c(4, []byte("sip:a@b")...), c(4, 0, 0xff, '"', '\\'),
		c(5), c(5, 8, 13, 15), c(6), c(6, 1, 2, 4), c(7), c(7, 1),
		c(8, 0, 1, 24, 0, 192, 0, 2), c(8, 0, 1, 0, 0), c(8, 0, 1, 32, 32, 255, 255, 255, 255), c(8, 0, 1, 9, 0, 10, 128), c(8, 0, 1, 1, 0, 0x80),
		c(8, append([]byte{0, 2, 128, 0}, v6...)...), c(8, append([]byte{0, 2, 56, 56}, v6[:7]...)...), c(8, 0, 2, 0, 0), c(8, 0, 0, 0, 0), c(8, 0, 0, 0, 7),
		c(9), c(9, 0, 0, 0, 0), c(9, 0xff, 0xff, 0xff, 0xff),
		c(10, counting(8)...), c(10, counting(40)...), c(10),
		c(11), c(11, 0, 1), c(11, 0xff, 0xff), nc(11, 0, 0),
		c(12), c(12, make([]byte, 7)...), c(12, counting(300)...),
		c(15, 0, 0), c(15, 0, 23, 'n', 'e', 't'), c(15, 0xff, 0xff, 0, 0xff, '"'),
		c(18, 0), c(18, 5, 'a', 'g', 'e', 'n', 't', 7, 'e', 'x', 'a', 'm', 'p', 'l', 'e', 0),
		c(19, 0, 0), c(19, 2, 0, 0x78, 0x9a, 0xbc, 0xde), c(19, 255, 255, 'x'), c(19),
		c(65001), c(65001, 1, 2, 3), c(65534, counting(64)...), c(20, 'u', 'n', 'k'), c(0), c(65535, 1),
	}
	return o
}

// Params lists SVCB parameter kinds with boundary values (RFC 9460 layouts); all canonical.
func Params() []wire.Param {
	p := func(k uint16, d ...byte) wire.Param { return wire.Param{Key: k, Data: d} }
	v6 := []byte{0x20, 0x01, 0x0d, 0xb8, 0, 0, 0, 0, 0, 0, 0, 0, 0, 0, 0, 1}
	return []wire.Param{
		p(0, 0, 1), p(0, 0, 1, 0, 4, 0xff, 0),
		p(1, 2, 'h', '2'), p(1, 2, 'h', '2', 8, 'h', 't', 't', 'p', '/', '1', '.', '1'), p(1, 3, 'a', ',', 'b'), p(1, 3, 'a', '\\', 'b'), p(1, 1, 0), p(1, 2, '"', 0xff), p(1, append([]byte{255}, bytes.Repeat([]byte{'x'}, 255)...)...),
		p(2),
		p(3, 0, 0), p(3, 1, 187), p(3, 0xff, 0xff),
		p(4, 192, 0, 2, 1), p(4, 0, 0, 0, 0, 255, 255, 255, 255),
		p(5), p(5, 0, 4, 0xfe, 0x0d, 0, 0), p(5, counting(300)...),
		p(6, v6...), p(6, append(append([]byte{}, v6...), bytes.Repeat([]byte{0xff}, 16)...)...),
		p(7, []byte("/dns-query{?dns}")...), p(7), p(7, 0, '"', '\\', 0xff),
		p(8),
		p(9, 1, 2), p(65280), p(65280, 'x', ' ', '"', '\\', 0, 0xff), p(65534, counting(64)...),
		// a backslash in front of the first octet that needs escaping (a printer that copies a "plain" prefix
		// unchanged), at the end of the value, in front of digits and of NUL; list punctuation without a backslash
		p(7, 'a', '\\', 'b'), p(7, 'd', 'i', 'r', '\\'), p(7, '\\', '0', '6', '5'), p(7, 'a', '\\', '1', 'z'), p(7, '\\', 0), p(7, 'x', ' ', 'y', '\\', 'z'), p(7, ';', '(', ')', '@', ','),
		p(65280, 'a', '\\', 'b'), p(65280, 'd', 'i', 'r', '\\'), p(65280, '\\', '0', '6', '5'), p(65280, 'a', '\\', '1', 'z'), p(65280, '\\', 0), p(65280, ';', '(', ')', '@', ','),
		p(1, 4, '\\', '0', '6', '5'), p(1, 2, 'a', '\\'), p(1, 2, '\\', ','),
	}
}

// fix adjusts coupled fields: the gateway value must fit the gateway type.
func fix(s *wire.Spec, vals []wire.Val) {
	for i, f := range s.Fields {
		if f.K != wire.Gateway {
			continue
		}
		var tv uint64
		for j, g := range s.Fields {
			if g.Go == f.TypeGo {
				tv = vals[j].U
			}
		}
		v := vals[i]
		switch tv & f.Mask {
		case 0:
			vals[i] = wire.Val{}
		case 1:
			vals[i] = wire.Val{B: v.B[12:16]}
		case 2:
			vals[i] = wire.Val{B: v.B}
		case 3:
			vals[i] = wire.Val{L: v.L, Root: true}
		}
	}
}

// Vectors enumerates value vectors for s: the full product of the alphabets if it has at most
// fullLimit elements (full=true), otherwise all vectors with at most k fields off their default.
func Vectors(s *wire.Spec, k int, fullLimit int, yield func(vals []wire.Val, devs int)) (count int, full bool) {
	n := len(s.Fields)
	alph := make([][]wire.Val, n)
	prod := 1
	for i := range s.Fields {
		alph[i] = Alphabet(s, i)
		if prod <= fullLimit {
			prod *= len(alph[i])
		}
	}
	full = prod <= fullLimit
	idx := make([]int, n)
	emit := func(devs int) {
		vals := make([]wire.Val, n)
		for i := range vals {
			vals[i] = alph[i][idx[i]]
		}
		fix(s, vals)
		count++
		yield(vals, devs)
	}
	if full {
		var rec func(i, devs int)
		rec = func(i, devs int) {
			if i == n {
				emit(devs)
				return
			}
			for j := range alph[i] {
				idx[i] = j
				d := devs
				if j > 0 {
					d++
				}
				rec(i+1, d)
			}
			idx[i] = 0
		}
		rec(0, 0)
		return
	}
	var rec func(start, devs int)
	rec = func(start, devs int) {
		emit(devs)
		if devs == k {
			return
		}
		for i := start; i < n; i++ {
			for j := 1; j < len(alph[i]); j++ {
				idx[i] = j
				rec(i+1, devs+1)
			}
			idx[i] = 0
		}
	}
	rec(0, 0)
	return
}

// Default returns the default vector of s.
func Default(s *wire.Spec) []wire.Val {
	vals := make([]wire.Val, len(s.Fields))
	for i := range s.Fields {
		vals[i] = Alphabet(s, i)[0]
	}
	fix(s, vals)
	return vals
}

// Max returns a vector with the largest alphabet value in every field (for maximal records).
func Max(s *wire.Spec) []wire.Val {
	vals := make([]wire.Val, len(s.Fields))
	for i := range s.Fields {
		a := Alphabet(s, i)
		vals[i] = a[len(a)-1]
	}
	fix(s, vals)
	return vals
}

// caseTwins: two different octet strings whose base64 spellings ("QUJDREVG" / "qujdrevg") differ only in letter
// case — base64 text is case-sensitive, whoever compares it case-insensitively merges them.
func caseTwins() []wire.Val {
	return []wire.Val{{B: []byte("ABCDEF")}, {B: []byte{0xaa, 0xe8, 0xdd, 0xad, 0xeb, 0xe0}}}
}
