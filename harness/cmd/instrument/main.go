// instrument rewrites a Go source file of the dns package so that it runs under the controlled
// scheduler (package vsched): usage: instrument <in.go> <out.go>
//
//   import "sync"            → import sync "github.com/miekg/dns/verifshim/vsync"
//   go f(a, b)               → { t0, t1 := a, b; vsched.Go(func() { f(t0, t1) }) }
//   close(c)                 → vsched.Close(c)
//   select { case <-c1: A; case <-c2: B }  → switch vsched.Select(c1, c2) { case 0: A; case 1: B }
//   reads / writes of fields of *Server, *response, *ServeMux values → preceded by vsched.Access(&x.f, write, "T.f")
//
// Anything it does not understand in the scheduling-relevant constructs (a send statement, a select with a
// default or send case, a receive expression outside select, sync.Cond.Wait) makes it fail loudly.
package main

import (
	"bytes"
	"fmt"
	"go/ast"
	"go/format"
	"go/parser"
	"go/token"
	"os"
	"strconv"
	"strings"
)

const shimBase = "github.com/miekg/dns/verifshim/"

var tracked = map[string]bool{"Server": true, "response": true, "ServeMux": true}

type rewriter struct {
	fset      *token.FileSet
	file      *ast.File
	fields    map[string]map[string]bool // struct → data fields worth tracking
	mapFields map[string]bool            // "Struct.field" of map type
	usedSched bool
	usedUnsafe bool
	tmp       int
	warnings  []string
}

func die(fset *token.FileSet, pos token.Pos, msg string) {
	fmt.Fprintf(os.Stderr, "instrument: %s: %s\n", fset.Position(pos), msg)
	os.Exit(3)
}

func main() {
	if len(os.Args) < 3 {
		fmt.Fprintln(os.Stderr, "usage: instrument in.go out.go [struct-decl-files...]")
		os.Exit(2)
	}
	in, out := os.Args[1], os.Args[2]
	fset := token.NewFileSet()
	f, err := parser.ParseFile(fset, in, nil, parser.ParseComments)
	if err != nil {
		fmt.Fprintln(os.Stderr, "instrument:", err)
		os.Exit(3)
	}
	rw := &rewriter{fset: fset, file: f, fields: map[string]map[string]bool{}, mapFields: map[string]bool{}}
	// struct field sets come from all files given (the struct may be declared in another file)
	for _, p := range append([]string{in}, os.Args[3:]...) {
		g, err := parser.ParseFile(token.NewFileSet(), p, nil, 0)
		if err != nil {
			fmt.Fprintln(os.Stderr, "instrument:", err)
			os.Exit(3)
		}
		rw.collectFields(g)
	}
	for _, imp := range f.Imports {
		p, _ := strconv.Unquote(imp.Path.Value)
		if p == "sync" {
			imp.Path.Value = strconv.Quote(shimBase + "vsync")
			imp.Name = ast.NewIdent("sync")
		}
		if p == "sync/atomic" {
			imp.Path.Value = strconv.Quote(shimBase + "vatomic")
			if imp.Name == nil {
				imp.Name = ast.NewIdent("atomic")
			}
		}
	}
	for _, d := range f.Decls {
		fd, ok := d.(*ast.FuncDecl)
		if !ok || fd.Body == nil {
			continue
		}
		env := map[string]string{}
		addParams := func(fl *ast.FieldList) {
			if fl == nil {
				return
			}
			for _, p := range fl.List {
				if t := ptrTo(p.Type); tracked[t] {
					for _, n := range p.Names {
						env[n.Name] = t
					}
				}
			}
		}
		addParams(fd.Recv)
		addParams(fd.Type.Params)
		rw.block(fd.Body, env)
	}
	// forbid leftovers
	ast.Inspect(f, func(n ast.Node) bool {
		switch x := n.(type) {
		case *ast.SendStmt:
			die(fset, x.Pos(), "channel send is not modelled")
		case *ast.SelectStmt:
			die(fset, x.Pos(), "select statement survived rewriting")
		case *ast.GoStmt:
			die(fset, x.Pos(), "go statement survived rewriting")
		case *ast.UnaryExpr:
			if x.Op == token.ARROW {
				die(fset, x.Pos(), "channel receive outside select is not modelled")
			}
		case *ast.SelectorExpr:
			if x.Sel.Name == "Wait" {
				if id, ok := x.X.(*ast.Ident); ok && strings.Contains(strings.ToLower(id.Name), "cond") {
					die(fset, x.Pos(), "sync.Cond.Wait is not modelled")
				}
			}
		}
		return true
	})
	var specs []ast.Spec
	if rw.usedSched {
		specs = append(specs, &ast.ImportSpec{Path: &ast.BasicLit{Kind: token.STRING, Value: strconv.Quote(shimBase + "vsched")}})
	}
	if rw.usedUnsafe {
		specs = append(specs, &ast.ImportSpec{Path: &ast.BasicLit{Kind: token.STRING, Value: strconv.Quote("unsafe")}})
	}
	if len(specs) > 0 {
		f.Decls = append([]ast.Decl{&ast.GenDecl{Tok: token.IMPORT, Lparen: 1, Specs: specs}}, f.Decls...)
	}
	var buf bytes.Buffer
	if err := format.Node(&buf, fset, f); err != nil {
		fmt.Fprintln(os.Stderr, "instrument:", err)
		os.Exit(3)
	}
	if err := os.WriteFile(out, buf.Bytes(), 0o644); err != nil {
		fmt.Fprintln(os.Stderr, "instrument:", err)
		os.Exit(3)
	}
	for _, w := range rw.warnings {
		fmt.Fprintln(os.Stderr, "instrument: note:", w)
	}
}

func ptrTo(e ast.Expr) string {
	if s, ok := e.(*ast.StarExpr); ok {
		if id, ok := s.X.(*ast.Ident); ok {
			return id.Name
		}
	}
	return ""
}

func (rw *rewriter) collectFields(f *ast.File) {
	for _, d := range f.Decls {
		gd, ok := d.(*ast.GenDecl)
		if !ok {
			continue
		}
		for _, s := range gd.Specs {
			ts, ok := s.(*ast.TypeSpec)
			if !ok || !tracked[ts.Name.Name] {
				continue
			}
			st, ok := ts.Type.(*ast.StructType)
			if !ok {
				continue
			}
			m := map[string]bool{}
			for _, fl := range st.Fields.List {
				var tb bytes.Buffer
				format.Node(&tb, token.NewFileSet(), fl.Type)
				if strings.Contains(tb.String(), "sync.") {
					continue // synchronisation objects are modelled by vsync itself
				}
				for _, n := range fl.Names {
					m[n.Name] = true
					if _, isMap := fl.Type.(*ast.MapType); isMap {
						rw.mapFields[ts.Name.Name+"."+n.Name] = true
					}
				}
			}
			rw.fields[ts.Name.Name] = m
		}
	}
}

func (rw *rewriter) sel(name string) ast.Expr {
	rw.usedSched = true
	return &ast.SelectorExpr{X: ast.NewIdent("vsched"), Sel: ast.NewIdent(name)}
}

type acc struct {
	expr  *ast.SelectorExpr
	write bool
	label string
}

// accesses collects tracked field accesses in the "header" of a statement (nested blocks and function
// literals are handled when their own statement lists are processed).
func (rw *rewriter) accesses(n ast.Node, env map[string]string, out *[]acc) {
	if n == nil {
		return
	}
	writes := map[*ast.SelectorExpr]bool{}
	markWrite := func(e ast.Expr) {
		for {
			switch x := e.(type) {
			case *ast.SelectorExpr:
				writes[x] = true
				return
			case *ast.IndexExpr:
				e = x.X
			case *ast.ParenExpr:
				e = x.X
			default:
				return
			}
		}
	}
	switch s := n.(type) {
	case *ast.AssignStmt:
		for _, l := range s.Lhs {
			markWrite(l)
		}
	case *ast.IncDecStmt:
		markWrite(s.X)
	}
	ast.Inspect(n, func(m ast.Node) bool {
		switch x := m.(type) {
		case *ast.FuncLit, *ast.BlockStmt:
			return false
		case *ast.CallExpr:
			if id, ok := x.Fun.(*ast.Ident); ok && id.Name == "delete" && len(x.Args) > 0 {
				markWrite(x.Args[0])
			}
		case *ast.SelectorExpr:
			id, ok := x.X.(*ast.Ident)
			if !ok {
				return true
			}
			t := env[id.Name]
			if t == "" || !rw.fields[t][x.Sel.Name] {
				return true
			}
			*out = append(*out, acc{x, writes[x], t + "." + x.Sel.Name})
		}
		return true
	})
}

func (rw *rewriter) accessStmts(as []acc) []ast.Stmt {
	var out []ast.Stmt
	seen := map[string]bool{}
	for _, a := range as {
		var b bytes.Buffer
		format.Node(&b, rw.fset, a.expr)
		key := b.String() + fmt.Sprint(a.write)
		if seen[key] || (!a.write && seen[b.String()+"true"]) {
			continue
		}
		seen[key] = true
		rw.usedUnsafe = true
		w := "false"
		if a.write {
			w = "true"
		}
		out = append(out, &ast.ExprStmt{X: &ast.CallExpr{Fun: rw.sel("Access"), Args: []ast.Expr{
			&ast.CallExpr{Fun: &ast.SelectorExpr{X: ast.NewIdent("unsafe"), Sel: ast.NewIdent("Pointer")}, Args: []ast.Expr{&ast.UnaryExpr{Op: token.AND, X: a.expr}}},
			ast.NewIdent(w), &ast.BasicLit{Kind: token.STRING, Value: strconv.Quote(a.label)}}}})
	}
	return out
}

func (rw *rewriter) block(b *ast.BlockStmt, env map[string]string) {
	if b == nil {
		return
	}
	b.List = rw.stmts(b.List, env)
}

func copyEnv(e map[string]string) map[string]string {
	n := map[string]string{}
	for k, v := range e {
		n[k] = v
	}
	return n
}

func (rw *rewriter) stmts(list []ast.Stmt, env map[string]string) []ast.Stmt {
	env = copyEnv(env)
	var out []ast.Stmt
	for _, s := range list {
		var as []acc
		switch st := s.(type) {
		case *ast.IfStmt:
			rw.accesses(st.Init, env, &as)
			rw.accesses(st.Cond, env, &as)
			out = append(out, rw.accessStmts(as)...)
			rw.block(st.Body, env)
			rw.elseChain(st.Else, env)
			out = append(out, st)
			continue
		case *ast.ForStmt:
			var hdr []acc
			rw.accesses(st.Cond, env, &hdr)
			rw.accesses(st.Post, env, &hdr)
			if len(hdr) > 0 {
				rw.warnings = append(rw.warnings, fmt.Sprintf("%s: tracked field in a for header is not instrumented", rw.fset.Position(st.Pos())))
			}
			rw.accesses(st.Init, env, &as)
			out = append(out, rw.accessStmts(as)...)
			rw.block(st.Body, env)
			out = append(out, st)
			continue
		case *ast.RangeStmt:
			rw.accesses(st.X, env, &as)
			out = append(out, rw.accessStmts(as)...)
			// iteration order over a tracked map is nondeterminism the scheduler must own
			if se, ok := st.X.(*ast.SelectorExpr); ok {
				if id, ok := se.X.(*ast.Ident); ok && rw.mapFields[env[id.Name]+"."+se.Sel.Name] {
					if st.Value != nil || st.Key == nil {
						die(rw.fset, st.Pos(), "range over a tracked map with a value variable is not modelled")
					}
					st.Value, st.Key = st.Key, ast.NewIdent("_")
					st.X = &ast.CallExpr{Fun: rw.sel("MapKeys"), Args: []ast.Expr{se}}
				}
			}
			rw.block(st.Body, env)
			out = append(out, st)
			continue
		case *ast.SwitchStmt:
			rw.accesses(st.Init, env, &as)
			rw.accesses(st.Tag, env, &as)
			out = append(out, rw.accessStmts(as)...)
			for _, c := range st.Body.List {
				cc := c.(*ast.CaseClause)
				cc.Body = rw.stmts(cc.Body, env)
			}
			out = append(out, st)
			continue
		case *ast.TypeSwitchStmt:
			rw.accesses(st.Init, env, &as)
			rw.accesses(st.Assign, env, &as)
			out = append(out, rw.accessStmts(as)...)
			for _, c := range st.Body.List {
				cc := c.(*ast.CaseClause)
				cc.Body = rw.stmts(cc.Body, env)
			}
			out = append(out, st)
			continue
		case *ast.BlockStmt:
			rw.block(st, env)
			out = append(out, st)
			continue
		case *ast.LabeledStmt:
			inner := rw.stmts([]ast.Stmt{st.Stmt}, env)
			// keep the label on the last produced statement's position: wrap
			if len(inner) == 1 {
				st.Stmt = inner[0]
				out = append(out, st)
			} else {
				out = append(out, inner[:len(inner)-1]...)
				st.Stmt = inner[len(inner)-1]
				out = append(out, st)
			}
			continue
		case *ast.SelectStmt:
			var chans []ast.Expr
			var clauses []ast.Stmt
			for i, cc := range st.Body.List {
				c := cc.(*ast.CommClause)
				es, ok := c.Comm.(*ast.ExprStmt)
				if !ok {
					die(rw.fset, c.Pos(), "unsupported select case (only bare receives from close-only channels are modelled)")
				}
				u, ok := es.X.(*ast.UnaryExpr)
				if !ok || u.Op != token.ARROW {
					die(rw.fset, c.Pos(), "unsupported select case")
				}
				rw.accesses(u.X, env, &as)
				chans = append(chans, u.X)
				clauses = append(clauses, &ast.CaseClause{List: []ast.Expr{&ast.BasicLit{Kind: token.INT, Value: strconv.Itoa(i)}}, Body: rw.stmts(c.Body, env)})
			}
			out = append(out, rw.accessStmts(as)...)
			out = append(out, &ast.SwitchStmt{Tag: &ast.CallExpr{Fun: rw.sel("Select"), Args: chans}, Body: &ast.BlockStmt{List: clauses}})
			continue
		case *ast.GoStmt:
			// bind the arguments (and a method receiver expression is evaluated at the go statement too)
			rw.accesses(st.Call, env, &as)
			out = append(out, rw.accessStmts(as)...)
			var pre []ast.Stmt
			call := *st.Call
			call.Args = append([]ast.Expr(nil), st.Call.Args...)
			for i, a := range call.Args {
				if _, isLit := a.(*ast.FuncLit); isLit {
					continue
				}
				rw.tmp++
				name := fmt.Sprintf("vsGoArg%d", rw.tmp)
				pre = append(pre, &ast.AssignStmt{Lhs: []ast.Expr{ast.NewIdent(name)}, Tok: token.DEFINE, Rhs: []ast.Expr{a}})
				call.Args[i] = ast.NewIdent(name)
			}
			if fl, ok := call.Fun.(*ast.FuncLit); ok {
				rw.block(fl.Body, env)
			}
			body := &ast.BlockStmt{List: []ast.Stmt{&ast.ExprStmt{X: &call}}}
			goCall := &ast.ExprStmt{X: &ast.CallExpr{Fun: rw.sel("Go"), Args: []ast.Expr{&ast.FuncLit{Type: &ast.FuncType{Params: &ast.FieldList{}}, Body: body}}}}
			out = append(out, &ast.BlockStmt{List: append(pre, goCall)})
			continue
		}
		// simple statements
		rw.accesses(s, env, &as)
		out = append(out, rw.accessStmts(as)...)
		// nested function literals (defer func(){...}(), callbacks)
		ast.Inspect(s, func(n ast.Node) bool {
			if fl, ok := n.(*ast.FuncLit); ok {
				rw.block(fl.Body, env)
				return false
			}
			return true
		})
		// close(c) → vsched.Close(c)
		if es, ok := s.(*ast.ExprStmt); ok {
			if c, ok := es.X.(*ast.CallExpr); ok {
				if id, ok := c.Fun.(*ast.Ident); ok && id.Name == "close" && len(c.Args) == 1 {
					s = &ast.ExprStmt{X: &ast.CallExpr{Fun: rw.sel("Close"), Args: c.Args}}
				}
			}
		}
		// w := &response{...} makes w tracked from here on
		if a, ok := s.(*ast.AssignStmt); ok && a.Tok == token.DEFINE && len(a.Lhs) == 1 && len(a.Rhs) == 1 {
			if u, ok := a.Rhs[0].(*ast.UnaryExpr); ok && u.Op == token.AND {
				if cl, ok := u.X.(*ast.CompositeLit); ok {
					if id, ok := cl.Type.(*ast.Ident); ok && tracked[id.Name] {
						env[a.Lhs[0].(*ast.Ident).Name] = id.Name
					}
				}
			}
		}
		out = append(out, s)
	}
	return out
}

func (rw *rewriter) elseChain(e ast.Stmt, env map[string]string) {
	switch x := e.(type) {
	case nil:
	case *ast.BlockStmt:
		rw.block(x, env)
	case *ast.IfStmt:
		var as []acc
		rw.accesses(x.Init, env, &as)
		rw.accesses(x.Cond, env, &as)
		if len(as) > 0 {
			rw.warnings = append(rw.warnings, fmt.Sprintf("%s: tracked field in an else-if condition is not instrumented", rw.fset.Position(x.Pos())))
		}
		rw.block(x.Body, env)
		rw.elseChain(x.Else, env)
	}
}
