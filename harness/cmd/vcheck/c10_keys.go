package main

// Shared by C10 and C17: the fixed DNSSEC keys of /verif/keys (dnssec-*.key / .private) and the bridge
// from library values (dns.RR, *dns.DNSKEY, *dns.RRSIG) to the abstract values of ref/canon.

import (
	"crypto"
	"encoding/base64"
	"fmt"
	"os"
	"path/filepath"
	"strings"
	"sync"

	"github.com/miekg/dns"
	"verif/harness/ref/canon"
	rn "verif/harness/ref/name"
)

type c10Key struct {
	Name     string // file stem without "dnssec-"
	Bits     int    // RSA modulus size, 0 otherwise
	KeyText  string
	PrivText string
	DNSKEY   *dns.DNSKEY       // library's reading of the .key file (plumbing)
	Priv     crypto.Signer     // library's reading of the .private file (NewPrivateKey)
	Ref      canon.Key         // reference view of the DNSKEY
	RefPriv  crypto.PrivateKey // reference reading of the .private file
}

// fixed order: every process sees the same list
var c10KeyNames = []struct {
	name string
	bits int
}{
	{"rsasha1-1024", 1024}, {"rsasha1nsec3-1024", 1024}, {"rsasha256-1024", 1024}, {"rsasha512-1024", 1024},
	{"ecdsap256", 0}, {"ecdsap256-d0", 0}, {"ecdsap256-x0", 0}, {"ecdsap384", 0}, {"ecdsap384-d0", 0}, {"ed25519", 0},
	{"rsasha1-2048", 2048}, {"rsasha256-2048", 2048}, {"rsasha512-2048", 2048}, {"rsasha256-4096", 4096},
}

var (
	c10KeysOnce sync.Once
	c10KeysAll  []*c10Key
	c10KeysErr  error
)

func c10KeyDir() string {
	root := os.Getenv("VERIF_ROOT")
	if root == "" {
		root = "/verif"
	}
	return filepath.Join(root, "keys")
}

// c10Keys loads the fixed keys (once per process). A load failure panics inside the case, which the
// framework reports.
func c10Keys() []*c10Key {
	c10KeysOnce.Do(func() {
		for _, kn := range c10KeyNames {
			k := &c10Key{Name: kn.name, Bits: kn.bits}
			kb, err := os.ReadFile(filepath.Join(c10KeyDir(), "dnssec-"+kn.name+".key"))
			if err != nil {
				c10KeysErr = err
				return
			}
			pb, err := os.ReadFile(filepath.Join(c10KeyDir(), "dnssec-"+kn.name+".private"))
			if err != nil {
				c10KeysErr = err
				return
			}
			k.KeyText, k.PrivText = string(kb), string(pb)
			rr, err := dns.NewRR(k.KeyText)
			if err != nil {
				c10KeysErr = fmt.Errorf("%s: %v", kn.name, err)
				return
			}
			k.DNSKEY = rr.(*dns.DNSKEY)
			p, err := k.DNSKEY.NewPrivateKey(k.PrivText)
			if err != nil {
				c10KeysErr = fmt.Errorf("%s: NewPrivateKey: %v", kn.name, err)
				return
			}
			k.Priv = p.(crypto.Signer)
			if k.Ref, err = c10RefKey(k.DNSKEY); err != nil {
				c10KeysErr = err
				return
			}
			pf, err := canon.ParsePrivateKey(k.PrivText)
			if err != nil {
				c10KeysErr = fmt.Errorf("%s: reference reader: %v", kn.name, err)
				return
			}
			k.RefPriv = pf.Key
			c10KeysAll = append(c10KeysAll, k)
		}
	})
	if c10KeysErr != nil {
		panic("cannot load fixed keys from " + c10KeyDir() + ": " + c10KeysErr.Error())
	}
	return c10KeysAll
}

// c10KeySet returns the keys of a tier: quick leaves out the 2048-bit RSA keys.
func c10KeyIdx(thorough bool) []int {
	var out []int
	for i, kn := range c10KeyNames {
		if kn.bits <= 1024 || thorough {
			out = append(out, i)
		}
	}
	return out
}

func c10Labels(s string) [][]byte {
	p := rn.Parse(s)
	if !p.OK || !p.FQDN || p.BigDDD {
		panic(fmt.Sprintf("harness: %q is not a fully-qualified name", s))
	}
	return p.Labels
}

var c10PackBuf = make([]byte, 1<<17)

// c10RefRR obtains the uncompressed wire form of rr with dns.PackRR (plumbing; C01 is about that) and
// hands it to the reference model.
func c10RefRR(rr dns.RR) (canon.RR, error) {
	off, err := dns.PackRR(rr, c10PackBuf, 0, nil, false)
	if err != nil {
		return canon.RR{}, err
	}
	return canon.ParseRR(c10PackBuf[:off])
}

func c10RefRRset(rrset []dns.RR) ([]canon.RR, error) {
	out := make([]canon.RR, 0, len(rrset))
	for _, rr := range rrset {
		r, err := c10RefRR(rr)
		if err != nil {
			return nil, err
		}
		out = append(out, r)
	}
	return out, nil
}

func c10RefKey(k *dns.DNSKEY) (canon.Key, error) {
	pk, err := base64.StdEncoding.DecodeString(k.PublicKey)
	if err != nil {
		return canon.Key{}, fmt.Errorf("DNSKEY public key is not base64: %v", err)
	}
	return canon.Key{Owner: c10Labels(k.Hdr.Name), Class: k.Hdr.Class, Flags: k.Flags, Protocol: k.Protocol, Algorithm: k.Algorithm, PublicKey: pk}, nil
}

func c10RefSig(s *dns.RRSIG) (canon.Sig, error) {
	sig, err := base64.StdEncoding.DecodeString(s.Signature)
	if err != nil {
		return canon.Sig{}, fmt.Errorf("RRSIG signature is not base64: %v", err)
	}
	return canon.Sig{Owner: c10Labels(s.Hdr.Name), Class: s.Hdr.Class, Signature: sig, SigFields: canon.SigFields{
		TypeCovered: s.TypeCovered, Algorithm: s.Algorithm, Labels: s.Labels, OrigTTL: s.OrigTtl,
		Expiration: s.Expiration, Inception: s.Inception, KeyTag: s.KeyTag, Signer: c10Labels(s.SignerName)}}, nil
}

// c10RefVerify is the reference verdict on (key, rrsig, rrset) as library values; an error in the
// bridge itself (unpackable record, non-base64 text) is returned with bridge = true.
func c10RefVerify(k *dns.DNSKEY, s *dns.RRSIG, rrset []dns.RR) (verdict error, bridge bool) {
	rk, err := c10RefKey(k)
	if err != nil {
		return err, true
	}
	rs, err := c10RefSig(s)
	if err != nil {
		return err, true
	}
	rrs, err := c10RefRRset(rrset)
	if err != nil {
		return err, true
	}
	return canon.Verify(rk, rs, rrs, canon.Reading{FoldRRSIGSigner: true}, true), false
}

// c10RefSign produces, with the reference signer, the RRSIG for rrset under the fields of tmpl
// (everything except Signature), for the given reading. The result is a library RRSIG value.
func c10RefSign(priv crypto.PrivateKey, tmpl *dns.RRSIG, rrset []dns.RR, rd canon.Reading) (*dns.RRSIG, error) {
	t := *tmpl
	t.Signature = ""
	rs, err := c10RefSig(&t)
	if err != nil {
		return nil, err
	}
	rrs, err := c10RefRRset(rrset)
	if err != nil {
		return nil, err
	}
	data, err := canon.SignedData(rs.SigFields, rrs, rd)
	if err != nil {
		return nil, err
	}
	sig, err := canon.SignRaw(t.Algorithm, priv, data)
	if err != nil {
		return nil, err
	}
	t.Signature = base64.StdEncoding.EncodeToString(sig)
	return &t, nil
}

// case spellings of a presentation name: 0 as given, 1 lower, 2 upper, 3 alternating. Escapes (\X,
// \DDD) contain no letters that matter, so mapping ASCII letters is enough.
func c10Spell(s string, mode int) string {
	switch mode {
	case 1, 2: // ASCII letters only: a name may hold raw octets ≥ 0x80, which strings.ToLower/ToUpper would rewrite
		b := []byte(s)
		for i, c := range b {
			if mode == 1 && c >= 'A' && c <= 'Z' {
				b[i] = c | 0x20
			} else if mode == 2 && c >= 'a' && c <= 'z' {
				b[i] = c &^ 0x20
			}
		}
		return string(b)
	case 3:
		b := []byte(s)
		up := true
		for i, c := range b {
			if c >= 'a' && c <= 'z' || c >= 'A' && c <= 'Z' {
				if up {
					b[i] = c &^ 0x20
				} else {
					b[i] = c | 0x20
				}
				up = !up
			}
		}
		return string(b)
	}
	return s
}

func c10RRsetString(rrset []dns.RR) string {
	var sb strings.Builder
	for i, rr := range rrset {
		if i > 0 {
			sb.WriteString(" | ")
		}
		sb.WriteString(rr.String())
	}
	return sb.String()
}
