package main

import (
	"bytes"
	"fmt"
	"net"
	"os"
	"reflect"
	"regexp"
	"sort"
	"strconv"
	"strings"
	"unsafe"

	"github.com/miekg/dns"
	"verif/harness/bind"
	"verif/harness/enum"
	"verif/harness/fw"
	"verif/harness/ref/wire"
)

// C16 — deep copies, no aliasing of the input buffer, read-only operations (DESIGN §5 C16).

func init() {
	fw.Register(&fw.Check{Prop: "C16", Level: "exploration",
		Assume: []string{
			"mutable memory = backing arrays of slices, maps and pointees reachable through exported or unexported fields; strings are immutable and exempt",
			"object graphs are walked by reflection + unsafe; address ranges are compared for overlap; additionally every reachable slice element is overwritten and the other object's deep snapshot compared",
			"read-only operations may change Hdr.Rdlength and the extended-RCODE octet of an OPT TTL, as the property states",
		},
		Spaces: c16Spaces})
}

type memRange struct {
	lo, hi uintptr
	path   string
}

// walk collects mutable memory ranges reachable from v and renders a deep snapshot of all leaf values.
type walker struct {
	ranges []memRange
	snap   strings.Builder
	seen   map[uintptr]bool
	mutate bool // overwrite every slice element / map value / pointee scalar reachable
	skipHdrBookkeeping bool
}

func (w *walker) walk(v reflect.Value, path string) {
	switch v.Kind() {
	case reflect.Ptr:
		if v.IsNil() {
			w.snap.WriteString("nil;")
			return
		}
		p := v.Pointer()
		if w.seen[p] {
			return
		}
		w.seen[p] = true
		sz := v.Type().Elem().Size()
		if sz > 0 {
			w.ranges = append(w.ranges, memRange{p, p + sz, path})
		}
		w.walk(v.Elem(), path+"*")
	case reflect.Interface:
		if v.IsNil() {
			w.snap.WriteString("nil;")
			return
		}
		fmt.Fprintf(&w.snap, "<%s>", v.Elem().Type())
		w.walk(v.Elem(), path+"<"+strings.TrimPrefix(v.Elem().Type().String(), "*dns.")+">")
	case reflect.Struct:
		for i := 0; i < v.NumField(); i++ {
			f := v.Field(i)
			name := v.Type().Field(i).Name
			if w.skipHdrBookkeeping && name == "Rdlength" {
				continue
			}
			if !f.CanSet() && f.CanAddr() { // unexported: make it accessible
				f = reflect.NewAt(f.Type(), unsafe.Pointer(f.UnsafeAddr())).Elem()
			}
			w.walk(f, path+"."+name)
		}
	case reflect.Slice:
		fmt.Fprintf(&w.snap, "[%d:", v.Len()) // nil and empty are the same value here
		if v.Cap() > 0 {
			p := v.Pointer()
			w.ranges = append(w.ranges, memRange{p, p + uintptr(v.Cap())*v.Type().Elem().Size(), path})
		}
		for i := 0; i < v.Len(); i++ {
			w.walk(v.Index(i), fmt.Sprintf("%s[%d]", path, i))
		}
		w.snap.WriteString("]")
	case reflect.Map:
		if v.IsNil() {
			w.snap.WriteString("nilmap;")
			return
		}
		w.ranges = append(w.ranges, memRange{v.Pointer(), v.Pointer() + 1, path})
		keys := v.MapKeys()
		sort.Slice(keys, func(i, j int) bool { return fmt.Sprint(keys[i]) < fmt.Sprint(keys[j]) })
		for _, k := range keys {
			fmt.Fprintf(&w.snap, "%v=>", k)
			w.walk(v.MapIndex(k), path+"{}")
		}
	case reflect.String:
		fmt.Fprintf(&w.snap, "%q;", v.String())
	case reflect.Array:
		for i := 0; i < v.Len(); i++ {
			w.walk(v.Index(i), fmt.Sprintf("%s[%d]", path, i))
		}
	default:
		fmt.Fprintf(&w.snap, "%v;", v)
		if w.mutate && v.CanSet() && strings.ContainsAny(path, "[*") && strings.Contains(path, "[") {
			// an element of a slice: overwrite it
			switch v.Kind() {
			case reflect.Uint8, reflect.Uint16, reflect.Uint32, reflect.Uint64, reflect.Uint:
				v.SetUint(v.Uint() ^ 0x55)
			case reflect.Int, reflect.Int8, reflect.Int16, reflect.Int32, reflect.Int64:
				v.SetInt(v.Int() ^ 0x55)
			case reflect.Bool:
				v.SetBool(!v.Bool())
			}
		}
	}
}

func graph(x any, mutate, skipBook bool) (string, []memRange) {
	w := &walker{seen: map[uintptr]bool{}, mutate: mutate, skipHdrBookkeeping: skipBook}
	w.walk(reflect.ValueOf(x), "")
	return w.snap.String(), w.ranges
}

func overlap(a, b []memRange) (memRange, memRange, bool) {
	for _, x := range a {
		for _, y := range b {
			if x.lo < y.hi && y.lo < x.hi {
				return x, y, true
			}
		}
	}
	return memRange{}, memRange{}, false
}

// mutateStringsAndSlices also replaces string elements inside slices ([]string) of x.
func mutateAll(x any) {
	var rec func(v reflect.Value, inSlice bool)
	seen := map[uintptr]bool{}
	rec = func(v reflect.Value, inSlice bool) {
		switch v.Kind() {
		case reflect.Ptr:
			if v.IsNil() || seen[v.Pointer()] {
				return
			}
			seen[v.Pointer()] = true
			rec(v.Elem(), inSlice)
		case reflect.Interface:
			if !v.IsNil() {
				// interface holding a pointer: follow; holding a value: cannot be set in place
				if v.Elem().Kind() == reflect.Ptr {
					rec(v.Elem(), inSlice)
				}
			}
		case reflect.Struct:
			for i := 0; i < v.NumField(); i++ {
				f := v.Field(i)
				if !f.CanSet() && f.CanAddr() {
					f = reflect.NewAt(f.Type(), unsafe.Pointer(f.UnsafeAddr())).Elem()
				}
				rec(f, inSlice)
			}
		case reflect.Slice:
			for i := 0; i < v.Len(); i++ {
				rec(v.Index(i), true)
			}
		case reflect.String:
			if inSlice && v.CanSet() {
				v.SetString(v.String() + "~mut")
			}
		case reflect.Uint8, reflect.Uint16, reflect.Uint32, reflect.Uint64:
			if inSlice && v.CanSet() {
				v.SetUint(v.Uint() ^ 0x55)
			}
		case reflect.Bool:
			if inSlice && v.CanSet() {
				v.SetBool(!v.Bool())
			}
		}
	}
	rec(reflect.ValueOf(x), false)
}

func c16Copy(r *fw.R, tn string, mk func() dns.RR) {
	a := mk()
	b := dns.Copy(a)
	sa, ra := graph(a, false, false)
	sb, rb := graph(b, false, false)
	if sa != sb {
		r.Fail("copy-differs/"+tn, "Copy is not equal to the original:\n orig %s\n copy %s", sa, sb)
		return
	}
	if x, y, ok := overlap(ra[1:], rb[1:]); ok { // [0] is the top-level pointee itself
		r.Fail("copy-shares-memory/"+tn+"/"+fieldOf(x.path), "Copy shares memory with the original: original%s and copy%s overlap (%T %v)", x.path, y.path, a, a)
	}
	// behavioural, both directions
	mutateAll(a)
	if sb2, _ := graph(b, false, false); sb2 != sb {
		r.Fail("copy-sees-writes/"+tn, "writing through the original changed the copy (%T):\n before %s\n after  %s", a, sb, sb2)
	}
	a = mk()
	b = dns.Copy(a)
	sa, _ = graph(a, false, false)
	mutateAll(b)
	if sa2, _ := graph(a, false, false); sa2 != sa {
		r.Fail("orig-sees-writes/"+tn, "writing through the copy changed the original (%T):\n before %s\n after  %s", a, sa, sa2)
	}
}

var idxRe = regexp.MustCompile(`\[\d+\]|\*`)

func fieldOf(path string) string {
	return strings.TrimLeft(idxRe.ReplaceAllString(path, ""), ".")
}

// c16Unpack: a record unpacked from buf shares no memory with buf and does not change when buf is overwritten.
func c16Unpack(r *fw.R, tn string, wireRR []byte) {
	buf := append([]byte(nil), wireRR...)
	rr, _, err := dns.UnpackRR(buf, 0)
	if err != nil {
		return
	}
	s1, rg := graph(rr, false, false)
	lo := uintptr(unsafe.Pointer(&buf[0]))
	br := []memRange{{lo, lo + uintptr(cap(buf)), "buf"}}
	if x, _, ok := overlap(rg, br); ok {
		r.Fail("unpack-aliases-buffer/"+tn+"/"+fieldOf(x.path), "record unpacked from a buffer points into it at %s (%T)", x.path, rr)
	}
	for i := range buf {
		buf[i] ^= 0xff
	}
	if s2, _ := graph(rr, false, false); s2 != s1 {
		r.Fail("unpack-sees-buffer-writes/"+tn, "overwriting the input buffer changed the unpacked %T:\n before %s\n after  %s", rr, s1, s2)
	}
}

// c16ReadOnly: Pack, Len, String, IsDuplicate, Copy leave the record unchanged (Rdlength aside).
func c16ReadOnly(r *fw.R, tn string, rr dns.RR) {
	before, _ := graph(rr, false, true)
	ops := []struct {
		name string
		f    func()
	}{
		{"PackRR", func() { dns.PackRR(rr, packBuf, 0, nil, false) }},
		{"PackRR-compress", func() { dns.PackRR(rr, packBuf, 0, map[string]int{}, true) }},
		{"Len", func() { dns.Len(rr) }},
		{"String", func() { _ = rr.String() }},
		{"IsDuplicate", func() { dns.IsDuplicate(rr, rr); dns.IsDuplicate(rr, dns.Copy(rr)) }},
		{"Copy", func() { dns.Copy(rr) }},
	}
	for _, op := range ops {
		op.f()
		if after, _ := graph(rr, false, true); after != before {
			r.Fail("mutated-by/"+op.name+"/"+tn, "%s changed its argument (%T):\n before %s\n after  %s", op.name, rr, before, after)
			before = after
		}
	}
}

func c16Spaces(c *fw.Ctx) {
	k := 2
	if c.Thorough {
		k = 3
	}
	for _, t := range regTypes() {
		s := wire.Specs[t]
		if s == nil {
			continue
		}
		tn := s.Mnem
		owner := enum.Names[3]
		class := uint16(1)
		if t == 41 {
			owner, class = nil, 1232
		}
		c.Space("rr/"+tn, fmt.Sprintf("type %s: default vector, every vector with ≤%d deviations and the maximal vector; Copy vs original (address ranges disjoint, writes not visible, both directions), Unpack vs its input buffer, read-only operations; non-trivial: the record holds at least one slice/map/pointer besides its header", tn, k), true,
			func(emit func(func(*fw.R))) {
				one := func(vals []wire.Val) {
					emit(func(r *fw.R) {
						ar := &wire.RR{Name: owner, Type: t, Class: class, TTL: 60, Vals: vals}
						mk := func() dns.RR {
							rr, err := bind.ToGo(ar)
							if err != nil {
								return nil
							}
							return rr
						}
						rr := mk()
						if rr == nil {
							return
						}
						if _, rg := graph(rr, false, false); len(rg) > 1 {
							r.Nontrivial()
						}
						c16Copy(r, tn, mk)
						if w, err := wire.EncodeRR(nil, ar); err == nil {
							c16Unpack(r, tn, w)
						}
						c16ReadOnly(r, tn, mk())
						r.Sample(func() any { return rrDesc(ar) })
					})
				}
				enum.Vectors(s, k, 0, func(vals []wire.Val, devs int) { one(vals) })
				one(enum.Max(s))
			})
	}

	c16NonCanonicalSpace(c)
	c16PrivateSpace(c)
	c16FailedSignSpace(c)
	c.Space("msg", "messages with all four sections populated (C01 pool + OPT + SVCB + APL + NSEC): Copy and CopyTo vs original (also with every subset of the four sections emptied by reslicing, into a fresh and a used target), Unpack vs its buffer (every octet overwritten), Pack/PackBuffer/Len/String/Copy read-only; 24 rotations; non-trivial: all", true,
		func(emit func(func(*fw.R))) {
			pool := append(c01Pool(),
				wire.RR{Type: 41, Class: 4096, TTL: 0x8000, Vals: enum.Max(wire.Specs[41])},
				wire.RR{Name: enum.Names[2], Type: 64, Class: 1, TTL: 9, Vals: enum.Max(wire.Specs[64])},
				wire.RR{Name: enum.Names[2], Type: 42, Class: 1, TTL: 9, Vals: enum.Max(wire.Specs[42])},
				wire.RR{Name: enum.Names[2], Type: 47, Class: 1, TTL: 9, Vals: enum.Max(wire.Specs[47])})
			for rot := 0; rot < 24; rot++ {
				rot := rot
				emit(func(r *fw.R) {
					r.Nontrivial()
					m := &wire.Msg{ID: 77, Flags: 0x8580, Q: []wire.Question{{Name: enum.Names[0], Type: 255, Class: 1}, {Name: enum.Names[4], Type: 1, Class: 1}}}
					for i := 0; i < 9; i++ {
						rr := pool[(i+rot)%len(pool)]
						sec := i % 3
						if rr.Type == 41 {
							sec = 2
						}
						m.Sec[sec] = append(m.Sec[sec], rr)
					}
					mk := func() *dns.Msg { g, _ := bind.ToGoMsg(m); g.Compress = rot%2 == 0; return g }
					a := mk()
					for _, how := range []string{"Copy", "CopyTo"} {
						a = mk()
						var b *dns.Msg
						if how == "Copy" {
							b = a.Copy()
						} else {
							b = a.CopyTo(new(dns.Msg))
						}
						sa, ra := graph(a, false, false)
						sb, rb := graph(b, false, false)
						if sa != sb {
							r.Fail("msg-copy-differs/"+how, "%s differs from the original:\n orig %s\n copy %s", how, sa, sb)
							continue
						}
						if x, y, ok := overlap(ra[1:], rb[1:]); ok {
							r.Fail("msg-copy-shares-memory/"+how+"/"+fieldOf(x.path), "Msg.%s shares memory: original%s overlaps copy%s", how, x.path, y.path)
						}
						mutateAll(a)
						if sb2, _ := graph(b, false, false); sb2 != sb {
							r.Fail("msg-copy-sees-writes/"+how, "writing through the original changed the copy")
						}
					}
					// sections (and the question) emptied by reslicing keep their backing arrays: a copy may not take
					// them over — the first append to the copy and the first append to the original would write the same
					// element — into a fresh and into a used target
					for _, how := range []string{"Copy", "CopyTo", "CopyTo-used"} {
						for mask := 1; mask < 16; mask++ {
							a = mk()
							if mask&1 != 0 {
								a.Question = a.Question[:0]
							}
							if mask&2 != 0 {
								a.Answer = a.Answer[:0]
							}
							if mask&4 != 0 {
								a.Ns = a.Ns[:0]
							}
							if mask&8 != 0 {
								a.Extra = a.Extra[:0]
							}
							var b *dns.Msg
							switch how {
							case "Copy":
								b = a.Copy()
							case "CopyTo":
								b = a.CopyTo(new(dns.Msg))
							default:
								b = a.CopyTo(mk())
							}
							marker := &dns.TXT{Hdr: dns.RR_Header{Name: "copy.", Rrtype: dns.TypeTXT, Class: 1}, Txt: []string{"appended to the copy"}}
							b.Question = append(b.Question, dns.Question{Name: "copy.", Qtype: 1, Qclass: 1})
							b.Answer, b.Ns, b.Extra = append(b.Answer, marker), append(b.Ns, marker), append(b.Extra, marker)
							for si, sec := range [][]dns.RR{a.Answer[:cap(a.Answer)], a.Ns[:cap(a.Ns)], a.Extra[:cap(a.Extra)]} {
								for _, x := range sec {
									if x == dns.RR(marker) {
										r.Fail("msg-copy-shares-memory/"+how+"/emptied-section", "Msg.%s of a message whose sections %04b were emptied by reslicing: a record appended to section %d of the copy appeared in the original's backing array", how, mask, si)
									}
								}
							}
							for _, q := range a.Question[:cap(a.Question)] {
								if q.Name == "copy." {
									r.Fail("msg-copy-shares-memory/"+how+"/emptied-question", "Msg.%s of a message whose question section was emptied by reslicing (mask %04b): a question appended to the copy appeared in the original's backing array", how, mask)
								}
							}
							wantQ, wantA := len(a.Question)+1, len(a.Answer)+1
							if len(b.Question) != wantQ || len(b.Answer) != wantA {
								r.Fail("msg-copy-differs/"+how+"/emptied-section", "Msg.%s (mask %04b): the copy had %d questions and %d answers before the append, the original %d and %d", how, mask, len(b.Question)-1, len(b.Answer)-1, len(a.Question), len(a.Answer))
							}
						}
					}
					// unpack vs buffer
					w, err := wire.EncodeMsg(m)
					if err == nil {
						for _, form := range [][]byte{w, wire.EncodeMsgPointers(m)} {
							buf := append([]byte(nil), form...)
							u := new(dns.Msg)
							if err := u.Unpack(buf); err == nil {
								s1, rg := graph(u, false, false)
								lo := uintptr(unsafe.Pointer(&buf[0]))
								if x, _, ok := overlap(rg, []memRange{{lo, lo + uintptr(cap(buf)), "buf"}}); ok {
									r.Fail("msg-unpack-aliases-buffer/"+fieldOf(x.path), "unpacked message points into the input buffer at %s", x.path)
								}
								for i := range buf {
									buf[i] ^= 0xff
								}
								if s2, _ := graph(u, false, false); s2 != s1 {
									r.Fail("msg-unpack-sees-buffer-writes", "overwriting the input buffer changed the unpacked message")
								}
							}
						}
					}
					// read-only operations on a message (OPT TTL ext-rcode octet and Rdlength excepted)
					g := mk()
					norm := func() string {
						cp := g.Copy()
						if o := cp.IsEdns0(); o != nil {
							o.Hdr.Ttl &= 0x00ffffff
						}
						s, _ := graph(cp, false, true)
						return s
					}
					before := norm()
					for _, op := range []struct {
						name string
						f    func()
					}{{"Pack", func() { g.Pack() }}, {"PackBuffer", func() { g.PackBuffer(make([]byte, 4096)) }}, {"Len", func() { g.Len() }}, {"String", func() { _ = g.String() }}, {"Copy", func() { g.Copy() }}, {"IsEdns0", func() { g.IsEdns0() }}} {
						op.f()
						if after := norm(); after != before {
							r.Fail("msg-mutated-by/"+op.name, "Msg.%s changed the message:\n before %s\n after  %s", op.name, before, after)
							before = after
						}
					}
				})
			}
		})

	c.Space("rrset-sign-verify", "RRSIG.Sign and RRSIG.Verify over RRsets of 1..3 records of MX, TXT, SRV, NSEC, A (mixed-case owners and names, unsorted, with a duplicate) and over RRsets of 1..2 records of every other registered type with every RDATA name in mixed case (owner in mixed case, already canonical, and a wildcard expansion; record TTLs equal to or different from the original TTL — the shapes a 'nothing to canonicalise' shortcut would look at): the RRset argument is unchanged afterwards, and so are the RRSIG that Verify is called on and the DNSKEY (signer name and key owner in three case spellings); fresh ECDSA-P256 and Ed25519 keys; non-trivial: all", true,
		func(emit func(func(*fw.R))) {
			type shape struct {
				t        uint16
				n        int
				alg      uint8
				owner    [][]byte
				sigOwner string
				sameTTL  bool
				upNames  bool
			}
			var shapes []shape
			for _, t := range []uint16{15, 16, 33, 47, 1} {
				for n := 1; n <= 3; n++ {
					for _, alg := range []uint8{dns.ECDSAP256SHA256, dns.ED25519} {
						shapes = append(shapes, shape{t, n, alg, enum.L("MiXed", "Example"), "mixed.example.", false, false})
					}
				}
			}
			var types []int
			for t := range wire.Specs {
				if t != dns.TypeOPT && t != dns.TypeTSIG && t != dns.TypeRRSIG && t != dns.TypeSIG {
					types = append(types, int(t))
				}
			}
			sort.Ints(types)
			for _, t := range types {
				for n := 1; n <= 2; n++ {
					for oi, ow := range [][][]byte{enum.L("MiXed", "Example"), enum.L("mixed", "example"), enum.L("expanded", "mixed", "example")} {
						for _, same := range []bool{false, true} {
							so := "mixed.example."
							if oi == 2 {
								so = "*.mixed.example." // the records are an expansion of this wildcard (Labels = 2)
							}
							shapes = append(shapes, shape{uint16(t), n, dns.ED25519, ow, so, same, true})
						}
					}
				}
			}
			for _, sh := range shapes {
				sh := sh
				t, n, alg := sh.t, sh.n, sh.alg
				emit(func(r *fw.R) {
					r.Nontrivial()
					s := wire.Specs[t]
					var set []dns.RR
					alph := func(fi int) []wire.Val { return enum.Alphabet(s, fi) }
					for i := 0; i < n; i++ {
						vals := enum.Default(s)
						for fi := range s.Fields {
							a := alph(fi)
							vals[fi] = a[(n-i)%minInt(len(a), 4)] // descending-ish, so the set is not sorted
						}
						if i == 2 {
							vals = enum.Default(s) // duplicate of a possible earlier default
						}
						if sh.upNames {
							if i == 1 {
								vals = enum.Default(s)
							}
							for fi, f := range s.Fields {
								switch f.K {
								case wire.Name, wire.CName:
									vals[fi] = wire.Val{L: enum.L("MaiL"+strconv.Itoa(i), "Example"), Root: true}
								case wire.Names:
									vals[fi] = wire.Val{N: [][][]byte{enum.L("Rvs"+strconv.Itoa(i), "Example"), enum.L("rvs", "EXAMPLE")}}
								}
							}
						}
						ttl := uint32(100 + i)
						if sh.sameTTL {
							ttl = 100
						}
						rr, err := bind.ToGo(&wire.RR{Name: sh.owner, Type: t, Class: 1, TTL: ttl, Vals: vals})
						if err != nil {
							return
						}
						set = append(set, rr)
					}
					key := &dns.DNSKEY{Hdr: dns.RR_Header{Name: "example.", Rrtype: dns.TypeDNSKEY, Class: 1, Ttl: 3600}, Flags: 257, Protocol: 3, Algorithm: alg}
					priv, err := key.Generate(256)
					if err != nil {
						r.Fail("internal/keygen", "%v", err)
						return
					}
					sig := &dns.RRSIG{Hdr: dns.RR_Header{Name: sh.sigOwner, Rrtype: dns.TypeRRSIG, Class: 1, Ttl: 100}, Algorithm: alg, KeyTag: key.KeyTag(), SignerName: "example.", Inception: 1, Expiration: 4000000000}
					before, _ := graph(set, false, true)
					if sh.sigOwner[0] == '*' {
						// Sign derives Labels from the first record's owner; a wildcard signature is made over the
						// wildcard owner and then verified against the expanded records
						wset := make([]dns.RR, len(set))
						for i, rr := range set {
							wset[i] = dns.Copy(rr)
							wset[i].Header().Name = sh.sigOwner
						}
						if err := sig.Sign(priv.(interface {
							Public() cryptoPublicKey
							Sign(rand ioReader, digest []byte, opts cryptoSignerOpts) ([]byte, error)
						}), wset); err != nil {
							return
						}
						sig.Hdr.Name = "expanded.mixed.example." // as it accompanies the expanded records in a reply (Labels stays 2)
					} else if err := sig.Sign(priv.(interface {
						Public() cryptoPublicKey
						Sign(rand ioReader, digest []byte, opts cryptoSignerOpts) ([]byte, error)
					}), set); err != nil {
						return
					}
					if after, _ := graph(set, false, true); after != before {
						r.Fail("mutated-by/RRSIG.Sign/"+s.Mnem, "Sign changed the RRset:\n before %s\n after  %s", before, after)
						before = after
					}
					verr0 := sig.Verify(key, set)
					if after, _ := graph(set, false, true); after != before {
						r.Fail("mutated-by/RRSIG.Verify/"+s.Mnem, "Verify (result %v) changed the RRset:\n before %s\n after  %s", verr0, before, after)
					}
					if verr0 == nil {
						r.Count("verified", 1)
					} else if os.Getenv("VERIF_DEBUG") != "" {
						r.Count("unverified/"+s.Mnem+"/"+sh.sigOwner+"/"+verr0.Error(), 1)
					}
					// Verify's other two arguments — the RRSIG it is called on and the key — in the spellings a
					// record from the wire can have: signer and key owner in mixed case, not the canonical form
					for _, spell := range [][2]string{{"example.", "example."}, {"Example.", "EXAMPLE."}, {"eXAMPLE.", "example."}} {
						sg := dns.Copy(sig).(*dns.RRSIG)
						sg.SignerName = spell[0]
						if sh.sigOwner[0] != '*' {
							sg.Hdr.Name = "MiXed.Example."
						} else {
							sg.Hdr.Name = "Expanded.MiXed.Example."
						}
						k := dns.Copy(key).(*dns.DNSKEY)
						k.Hdr.Name = spell[1]
						bs, _ := graph(sg, false, true)
						bk, _ := graph(k, false, true)
						verr := sg.Verify(k, set)
						as, _ := graph(sg, false, true)
						ak, _ := graph(k, false, true)
						if as != bs {
							r.Fail("mutated-by/RRSIG.Verify/receiver", "Verify (result %v) changed the RRSIG it was called on (signer %q, key owner %q):\n before %s\n after  %s", verr, spell[0], spell[1], bs, as)
						}
						if ak != bk {
							r.Fail("mutated-by/RRSIG.Verify/key", "Verify (result %v) changed the DNSKEY (signer %q, key owner %q):\n before %s\n after  %s", verr, spell[0], spell[1], bk, ak)
						}
					}
				})
			}
		})
}

// c16FailedSignSpace: the read-only clause on the error path. An RRset that holds a record which cannot be packed
// (a TXT string over 255 octets, hex or base64 that does not decode, a 4-octet AAAA, an unsorted type bitmap, a bad
// name in RDATA) makes Sign and Verify fail inside the canonicalisation loop; whatever they did to the records
// before that point has to be undone: the caller's RRset is as it was.
func c16FailedSignSpace(c *fw.Ctx) {
	type bad struct {
		what string
		mk   func(owner string, ttl uint32) []dns.RR // good record(s) and the record that cannot be packed, same type
	}
	h := func(owner string, t uint16, ttl uint32) dns.RR_Header {
		return dns.RR_Header{Name: owner, Rrtype: t, Class: dns.ClassINET, Ttl: ttl}
	}
	bads := []bad{
		{"TXT with a 300-octet string", func(o string, ttl uint32) []dns.RR {
			return []dns.RR{&dns.TXT{Hdr: h(o, dns.TypeTXT, ttl), Txt: []string{"ok"}}, &dns.TXT{Hdr: h(o, dns.TypeTXT, ttl+1), Txt: []string{strings.Repeat("x", 300)}}}
		}},
		{"TLSA with a certificate that is not hex", func(o string, ttl uint32) []dns.RR {
			return []dns.RR{&dns.TLSA{Hdr: h(o, dns.TypeTLSA, ttl), Usage: 3, Selector: 1, MatchingType: 1, Certificate: "00ff"}, &dns.TLSA{Hdr: h(o, dns.TypeTLSA, ttl+1), Usage: 3, Selector: 1, MatchingType: 1, Certificate: "zz"}}
		}},
		{"DNSKEY with a key that is not base64", func(o string, ttl uint32) []dns.RR {
			return []dns.RR{&dns.DNSKEY{Hdr: h(o, dns.TypeDNSKEY, ttl), Flags: 256, Protocol: 3, Algorithm: 15, PublicKey: "AAAA"}, &dns.DNSKEY{Hdr: h(o, dns.TypeDNSKEY, ttl+1), Flags: 256, Protocol: 3, Algorithm: 15, PublicKey: "!!!"}}
		}},
		{"AAAA holding 4 octets", func(o string, ttl uint32) []dns.RR {
			return []dns.RR{&dns.AAAA{Hdr: h(o, dns.TypeAAAA, ttl), AAAA: net.ParseIP("2001:db8::1")}, &dns.AAAA{Hdr: h(o, dns.TypeAAAA, ttl+1), AAAA: net.IP{192, 0, 2, 1}[:4:4]}}
		}},
		{"NSEC with an unsorted bitmap", func(o string, ttl uint32) []dns.RR {
			return []dns.RR{&dns.NSEC{Hdr: h(o, dns.TypeNSEC, ttl), NextDomain: "Next.Example.", TypeBitMap: []uint16{1, 2}}, &dns.NSEC{Hdr: h(o, dns.TypeNSEC, ttl+1), NextDomain: "Next.Example.", TypeBitMap: []uint16{2, 1}}}
		}},
		{"MX with a malformed exchange name", func(o string, ttl uint32) []dns.RR {
			return []dns.RR{&dns.MX{Hdr: h(o, dns.TypeMX, ttl), Preference: 1, Mx: "Mail.Example."}, &dns.MX{Hdr: h(o, dns.TypeMX, ttl+1), Preference: 2, Mx: "Bad..Example."}}
		}},
		{"A and a record of a URI whose target cannot be packed (empty owner label in RDATA-less form)", func(o string, ttl uint32) []dns.RR {
			return []dns.RR{&dns.SRV{Hdr: h(o, dns.TypeSRV, ttl), Priority: 1, Weight: 1, Port: 1, Target: "T.Example."}, &dns.SRV{Hdr: h(o, dns.TypeSRV, ttl+1), Priority: 1, Weight: 1, Port: 2, Target: "not-fqdn"}}
		}},
	}
	owners := []string{"MiXed.Example.", "mixed.example.", "expanded.mixed.example."}
	c.Space("rrset-sign-verify-failing", fmt.Sprintf("RRSIG.Sign and RRSIG.Verify over RRsets that hold a record which cannot be packed (%d kinds), alone / behind / in front of a good record of the same type × owner {mixed case, canonical, wildcard expansion} × record TTLs different from the original TTL: both return an error and the caller's RRset, the RRSIG and the DNSKEY are as they were; fresh Ed25519 key; non-trivial: Sign or Verify returned an error", len(bads)), true,
		func(emit func(func(*fw.R))) {
			for _, b := range bads {
				for oi, owner := range owners {
					for order := 0; order < 3; order++ {
						b, oi, owner, order := b, oi, owner, order
						emit(func(r *fw.R) {
							recs := b.mk(owner, 100)
							var set []dns.RR
							switch order {
							case 0:
								set = []dns.RR{recs[1]}
							case 1:
								set = []dns.RR{recs[0], recs[1]}
							case 2:
								set = []dns.RR{recs[1], recs[0]}
							}
							key := &dns.DNSKEY{Hdr: dns.RR_Header{Name: "example.", Rrtype: dns.TypeDNSKEY, Class: 1, Ttl: 3600}, Flags: 257, Protocol: 3, Algorithm: dns.ED25519}
							priv, err := key.Generate(256)
							if err != nil {
								r.Fail("internal/keygen", "%v", err)
								return
							}
							signer := priv.(interface {
								Public() cryptoPublicKey
								Sign(rand ioReader, digest []byte, opts cryptoSignerOpts) ([]byte, error)
							})
							sigOwner := "mixed.example."
							if oi == 2 {
								sigOwner = "*.mixed.example."
							}
							// a signature made over the good record alone, for Verify to work with
							good := dns.Copy(recs[0])
							good.Header().Name = sigOwner
							vsig := &dns.RRSIG{Hdr: dns.RR_Header{Name: sigOwner, Rrtype: dns.TypeRRSIG, Class: 1, Ttl: 77}, Algorithm: dns.ED25519, KeyTag: key.KeyTag(), SignerName: "example.", Inception: 1, Expiration: 4000000000}
							if err := vsig.Sign(signer, []dns.RR{good}); err != nil {
								r.Fail("internal/sign-good", "%s: %v", b.what, err)
								return
							}
							vsig.Hdr.Name = owner
							before, _ := graph(set, false, true)
							sig := &dns.RRSIG{Hdr: dns.RR_Header{Name: owner, Rrtype: dns.TypeRRSIG, Class: 1, Ttl: 77}, Algorithm: dns.ED25519, KeyTag: key.KeyTag(), SignerName: "example.", Inception: 1, Expiration: 4000000000}
							serr := sig.Sign(signer, set)
							if after, _ := graph(set, false, true); after != before {
								r.Fail("mutated-by/RRSIG.Sign/failing", "Sign (result %v) changed the RRset (%s, owner %q, order %d):\n before %s\n after  %s", serr, b.what, owner, order, before, after)
								before = after
							}
							bs, _ := graph(vsig, false, true)
							bk, _ := graph(key, false, true)
							verr := vsig.Verify(key, set)
							if after, _ := graph(set, false, true); after != before {
								r.Fail("mutated-by/RRSIG.Verify/failing", "Verify (result %v) changed the RRset (%s, owner %q, order %d):\n before %s\n after  %s", verr, b.what, owner, order, before, after)
							}
							if as, _ := graph(vsig, false, true); as != bs {
								r.Fail("mutated-by/RRSIG.Verify/receiver", "Verify (result %v) changed the RRSIG it was called on (%s):\n before %s\n after  %s", verr, b.what, bs, as)
							}
							if ak, _ := graph(key, false, true); ak != bk {
								r.Fail("mutated-by/RRSIG.Verify/key", "Verify (result %v) changed the DNSKEY (%s):\n before %s\n after  %s", verr, b.what, bk, ak)
							}
							if serr != nil || verr != nil {
								r.Nontrivial()
							}
							if serr != nil {
								r.Count("Sign failed", 1)
							}
							if verr != nil {
								r.Count("Verify failed", 1)
							}
						})
					}
				}
			}
		})
}

func minInt(a, b int) int {
	if a < b {
		return a
	}
	return b
}

// c16PrivateSpace: a type registered through PrivateHandle. The library copies such a record by asking the
// user's PrivateRdata to copy itself into a fresh value from the generator; the record, a message that holds it
// and their copies must be as independent as for a built-in type.
func c16PrivateSpace(c *fw.Ctx) {
	pls := [][]byte{{}, {'a'}, {0}, {0xff, '"'}, bytes.Repeat([]byte{'z'}, 255), []byte("hello world")}
	c.Space("private", "a private type registered through PrivateHandle (rdata = one character-string), 6 payloads × origin {made by the registry's constructor and filled in, unpacked from reference octets, parsed from text}: Copy and Msg.Copy give an equal record that shares no payload memory with the original (a write through either is invisible through the other), and Len / String / PackRR / Copy leave the record unchanged; non-trivial: all", true,
		func(emit func(func(*fw.R))) {
			for _, pl := range pls {
				for origin := 0; origin < 3; origin++ {
					pl, origin := pl, origin
					emit(func(r *fw.R) {
						r.Nontrivial()
						dns.PrivateHandle("VPRIV", c01PrivType, func() dns.PrivateRdata { return new(c01PrivRdata) })
						defer dns.PrivateHandleRemove(c01PrivType)
						// built the way the API allows: the registry's constructor (it carries the generator that copy() needs)
						built := dns.TypeToRR[c01PrivType]().(*dns.PrivateRR)
						built.Hdr = dns.RR_Header{Name: "p.example.", Rrtype: c01PrivType, Class: 1, Ttl: 60}
						built.Data = &c01PrivRdata{append([]byte(nil), pl...)}
						var rr dns.RR = built
						want := pl
						switch origin {
						case 1:
							b := make([]byte, 600)
							n, err := dns.PackRR(rr, b, 0, nil, false)
							if err != nil {
								r.Fail("private/pack", "%v", err)
								return
							}
							u, _, err := dns.UnpackRR(b[:n], 0)
							if err != nil {
								r.Fail("private/unpack", "%v", err)
								return
							}
							rr = u
						case 2:
							p, err := dns.NewRR("p.example. 60 IN VPRIV text")
							if err != nil {
								r.Fail("private/parse", "%v", err)
								return
							}
							rr, want = p, []byte("text")
						}
						pr, ok := rr.(*dns.PrivateRR)
						if !ok {
							r.Fail("private/type", "got %T", rr)
							return
						}
						data := func(x dns.RR) []byte { return x.(*dns.PrivateRR).Data.(*c01PrivRdata).s }
						var cp dns.RR
						func() {
							defer func() {
								if p := recover(); p != nil {
									r.Fail("private/copy-panics", "Copy of a private record panicked: %v", p)
								}
							}()
							cp = dns.Copy(rr)
							_ = dns.Len(rr)
							_ = rr.String()
							dns.PackRR(rr, make([]byte, 600), 0, nil, false)
						}()
						if cp == nil {
							return
						}
						if !bytes.Equal(data(rr), want) {
							r.Fail("private/mutated-by-readonly-op", "payload %q after Copy/Len/String/PackRR, was %q", data(rr), want)
						}
						if cp == rr || cp.(*dns.PrivateRR).Data == pr.Data {
							r.Fail("private/copy-shares", "Copy returned the same record / the same PrivateRdata value")
							return
						}
						hc, ho := *cp.Header(), *rr.Header()
						hc.Rdlength, ho.Rdlength = 0, 0 // documented bookkeeping of PackRR
						if !bytes.Equal(data(cp), want) || hc != ho {
							r.Fail("private/copy-differs", "Copy = %v, original %v", cp, rr)
						}
						if len(want) > 0 {
							data(cp)[0] ^= 0xff
							if !bytes.Equal(data(rr), want) {
								r.Fail("private/copy-shares", "a write to the copy's payload is visible in the original")
							}
							data(cp)[0] ^= 0xff
							data(rr)[0] ^= 0xff
							if !bytes.Equal(data(cp), want) {
								r.Fail("private/copy-shares", "a write to the original's payload is visible in the copy")
							}
							data(rr)[0] ^= 0xff
						}
						m := &dns.Msg{Answer: []dns.RR{rr}}
						var mc *dns.Msg
						func() {
							defer func() {
								if p := recover(); p != nil {
									r.Fail("private/copy-panics", "Msg.Copy of a message with a private record panicked: %v", p)
								}
							}()
							mc = m.Copy()
						}()
						if mc != nil && (len(mc.Answer) != 1 || mc.Answer[0] == rr || !bytes.Equal(data(mc.Answer[0]), want)) {
							r.Fail("private/msg-copy", "Msg.Copy: %v", mc.Answer)
						}
					})
				}
			}
		})
}
