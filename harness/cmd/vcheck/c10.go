package main

import (
	"crypto"
	"encoding/base64"
	"fmt"
	"math/big"
	"strings"

	"github.com/miekg/dns"
	"verif/harness/fw"
	"verif/harness/ref/canon"
	rn "verif/harness/ref/name"
)

// C10 — DNSSEC sign / verify (DESIGN §5 C10).

func init() {
	fw.Register(&fw.Check{Prop: "C10", Level: "exploration",
		Assume: []string{
			"reference model ref/canon (RFC 4034 §3.1.8.1 and §6, RFC 4035 §5.3, RFC 3110/5702/6605/8080 formats; crypto/rsa, crypto/ecdsa, crypto/ed25519 used directly) is the oracle; it is itself checked against the worked examples of RFC 6605 §6.1 and RFC 8080 §6.1 (go test ./ref/canon)",
			"dns.NewRR / dns.UnpackRR build the records and dns.PackRR (no compression) supplies their uncompressed wire form to the reference, which does its own name folding, ordering, duplicate removal and digest construction (plumbing; C01/C05 are about those functions)",
			"fixed keys from /verif/keys (written by an independent generator), read with NewRR/NewPrivateKey; quick tier uses the 1024-bit RSA keys only",
			"RRSIG and NSEC as *covered* types: RFC 4034 §6.2 folds their RDATA names, RFC 6840 §5.1 does not fold NSEC; the reference accepts a signature valid under any of the four readings and, when it signs, the library must accept at least one reading",
			"the RRSIG Labels value produced by Sign is compared with RFC 4034 §3.1.3 only for owners whose first label does not begin with '*' (the near-wildcard spellings \"*a\" and \"\\*\" are counted, not failed: Sign, Verify and the reference verifier agree on them)",
			"RFC 4035 §5.3.1 'signer is the zone of the RRset' is not part of the statement: the reference does not require it and no case depends on it",
			"an ECDSA signature with s replaced by n−s is a valid signature (ECDSA is malleable); it is enumerated and both verifiers must agree on it",
		},
		Spaces: c10Spaces})
}

// ---------------------------------------------------------------------------------------------
// the RRsets

// names used inside RDATA: {1} and {2} have first labels of equal length whose order flips under case
// folding ('Z' < 'a' < 'z'), {1} is shorter than {2} (so ordering by whole wire RR ≠ ordering by RDATA);
// {3} needs escapes.
var c10Names = [3]string{`Zulu.Example.`, `alfa.Longer-Domain-Name.example.`, `b\.c\000\255.EXAMPLE.`}

type c10Type struct {
	name string
	rd   [3]string
}

func c10Same(name string, a, b, c string) c10Type { return c10Type{name, [3]string{a, b, c}} }

var c10Types = func() []c10Type {
	var t []c10Type
	for _, n := range []string{"NS", "MD", "MF", "CNAME", "MB", "MG", "MR", "PTR", "DNAME"} {
		t = append(t, c10Same(n, "{1}", "{2}", "{3}"))
	}
	for _, n := range []string{"MX", "RT", "KX"} {
		t = append(t, c10Same(n, "10 {1}", "10 {2}", "5 {3}"))
	}
	sig := [3]string{"A 8 2 3600 20300101000000 20200101000000 12345 {1} Zm9v", "A 8 2 3600 20300101000000 20200101000000 12345 {2} Zm9v",
		"AAAA 13 3 300 20300101000000 20200101000000 54321 {3} YmFyYmF6"}
	t = append(t,
		c10Same("SOA", "{1} {2} 1 2 3 4 5", "{2} {1} 1 2 3 4 5", "{3} {3} 1 2 3 4 6"),
		c10Same("MINFO", "{1} {2}", "{2} {3}", "{3} {1}"),
		c10Same("RP", "{1} {2}", "{2} {1}", "{3} ."),
		c10Same("AFSDB", "1 {1}", "1 {2}", "2 {3}"),
		c10Type{"SIG", sig},
		c10Same("PX", "10 {1} {2}", "10 {2} {1}", "5 {3} {3}"),
		c10Same("NAPTR", `100 10 "U" "E2U+sip" "!^.*$!sip:Info@Example.com!" {1}`, `100 10 "U" "E2U+sip" "!^.*$!sip:Info@Example.com!" {2}`, `50 10 "S" "SIP+D2U" "" {3}`),
		c10Same("SRV", "0 5 5060 {1}", "0 5 5060 {2}", "1 0 80 {3}"),
		c10Type{"RRSIG", sig},
		c10Same("NSEC", "{1} A MX", "{2} A MX", "{3} A"),
		c10Same("A", "192.0.2.1", "192.0.2.2", "10.0.0.1"),
		c10Same("AAAA", "2001:db8::1", "2001:db8::", "::1"),
		c10Same("TXT", `"aa"`, `"b" "c" "d"`, `"Zulu.Example."`),
		c10Same("HINFO", `"CPU-Zulu" "OS"`, `"alfa" "Longer-OS-Name"`, `"B" ""`),
		c10Same("DNSKEY", "256 3 13 Zm9vYmFy", "257 3 13 Zm9vYmFyYmF6", "256 3 15 YmFy"),
	)
	return t
}()

func c10TypeIdx(names ...string) []int {
	var out []int
	for _, n := range names {
		found := false
		for i, t := range c10Types {
			if t.name == n {
				out = append(out, i)
				found = true
			}
		}
		if !found {
			panic("harness: no type " + n)
		}
	}
	return out
}

// owner families: plain, and one whose first label needs escapes (dot, NUL, 0xff)
var c10Owners = []string{`Host.Example.`, `H\.o\000st\255.Sub.Example.`}

const (
	c10Inception  = 1700000000
	c10Expiration = 1900000000
)

// a variant is one way of presenting the same RRset
type c10Variant struct {
	what                 string
	owner, rdata, signer int       // spelling modes (c10Spell)
	ttl                  [4]uint32 // TTL of symbol 0..3
	origTTL              uint32    // value preset in the RRSIG given to Sign (0: Sign takes it from the first record)
}

var c10Variants = []c10Variant{
	{"lower", 1, 1, 1, [4]uint32{3600, 3600, 3600, 3600}, 0},
	{"owner-upper", 2, 1, 2, [4]uint32{3600, 3600, 3600, 3600}, 0},
	{"rdata-upper,ttl-decremented", 1, 2, 1, [4]uint32{17, 17, 17, 17}, 3600},
	{"alternating,ttls-differ", 3, 3, 3, [4]uint32{100, 200, 300, 400}, 0},
	{"as-given", 0, 0, 0, [4]uint32{3600, 3600, 3600, 3600}, 0},
}

func c10Expand(tmpl string, mode int) string {
	return strings.NewReplacer("{1}", c10Spell(c10Names[0], mode), "{2}", c10Spell(c10Names[1], mode), "{3}", c10Spell(c10Names[2], mode)).Replace(tmpl)
}

func c10NewRR(owner string, ttl uint32, typ, rdata string) dns.RR {
	s := fmt.Sprintf("%s %d IN %s %s", owner, ttl, typ, rdata)
	rr, err := dns.NewRR(s)
	if err != nil || rr == nil {
		panic(fmt.Sprintf("harness: NewRR(%q): %v", s, err))
	}
	return rr
}

// c10Symbols builds the four records of a variant: r1, r2, r3 and r1' (= r1 with its RDATA names in
// another spelling; identical to r1 for types without names).
func c10Symbols(t c10Type, owner string, v c10Variant) [4]dns.RR {
	o := c10Spell(owner, v.owner)
	other := 2
	if v.rdata == 2 {
		other = 1
	}
	return [4]dns.RR{
		c10NewRR(o, v.ttl[0], t.name, c10Expand(t.rd[0], v.rdata)),
		c10NewRR(o, v.ttl[1], t.name, c10Expand(t.rd[1], v.rdata)),
		c10NewRR(o, v.ttl[2], t.name, c10Expand(t.rd[2], v.rdata)),
		c10NewRR(o, v.ttl[3], t.name, c10Expand(t.rd[0], other)),
	}
}

// all sequences of length 1..max over 4 symbols, in a fixed order
func c10Tuples(max int) [][]int {
	var out [][]int
	var rec func(cur []int)
	rec = func(cur []int) {
		if len(cur) > 0 {
			out = append(out, append([]int(nil), cur...))
		}
		if len(cur) == max {
			return
		}
		for s := 0; s < 4; s++ {
			rec(append(cur, s))
		}
	}
	rec(nil)
	return out
}

func c10Pick(sym [4]dns.RR, tup []int) []dns.RR {
	out := make([]dns.RR, len(tup))
	for i, s := range tup {
		out[i] = sym[s]
	}
	return out
}

func c10Reverse(t []int) []int {
	out := make([]int, len(t))
	for i, s := range t {
		out[len(t)-1-i] = s
	}
	return out
}

// the set of distinct records of a tuple with r1' folded into r1 (bit mask over r1,r2,r3)
func c10SetOf(t []int) int {
	m := 0
	for _, s := range t {
		if s == 3 {
			s = 0
		}
		m |= 1 << s
	}
	return m
}

// c10Verify calls RRSIG.Verify, turning a panic into an error value that the callers report.
func c10Verify(sig *dns.RRSIG, k *dns.DNSKEY, rrset []dns.RR) (err error, panicked bool) {
	defer func() {
		if p := recover(); p != nil {
			err, panicked = fmt.Errorf("panic: %v", p), true
		}
	}()
	return sig.Verify(k, rrset), false
}

func c10Sign(sig *dns.RRSIG, priv crypto.Signer, rrset []dns.RR) (err error) {
	defer func() {
		if p := recover(); p != nil {
			err = fmt.Errorf("panic: %v", p)
		}
	}()
	return sig.Sign(priv, rrset)
}

func c10Desc(k *c10Key, sig *dns.RRSIG, rrset []dns.RR) string {
	return fmt.Sprintf("key %s (%s) | rrsig %s | rrset %s", k.Name, strings.TrimSpace(k.KeyText), sig.String(), c10RRsetString(rrset))
}

func c10RFCLabels(owner string) int {
	l := c10Labels(owner)
	n := len(l)
	if n > 0 && string(l[0]) == "*" {
		n--
	}
	return n
}

func c10Spaces(c *fw.Ctx) {
	c10SignVerifySpace(c)
	c10WildcardSpace(c)
	c10SpellingSpace(c)
	c10AlterSpace(c)
	c10PrecheckSpace(c)
	c10KeyStructSpace(c)
	c10KeytagEdgeSpace(c)
	c10FreshSpace(c)
	c10ShortSpace(c)
	c10AllKeysSpace(c)
}

// ---------------------------------------------------------------------------------------------
// signverify: clauses (1) Sign output verifies under the reference, (2) reference signatures verify
// under Verify, (3) both are invariant under order, duplicates, TTL and case

// c10KeysFor picks the keys a (slot)th group of cases uses: all of them in the thorough tier, two in
// rotation in the quick tier (the canonical form does not depend on the key; every key still meets
// several types).
func c10KeysFor(keys []int, slot, n int, thorough bool) []int {
	if thorough {
		return keys
	}
	var out []int
	for i := 0; i < n; i++ {
		out = append(out, keys[(n*slot+i)%len(keys)])
	}
	return out
}

// every (type, owner, key, presentation) group is cut into c10Chunks cases (sequences i ≡ chunk mod
// c10Chunks) so that a case stays well below the watchdog even with P-384 / RSA-2048 on a busy machine
const c10Chunks = 4

func c10SignVerifySpace(c *fw.Ctx) {
	maxTuple := 3
	keys := c10KeyIdx(c.Thorough)
	perGroup := "3 of the fixed keys in rotation"
	if c.Thorough {
		perGroup = "each of the fixed keys, plus Verify of every library signature against the reversed sequence in the next presentation"
	}
	c.Space("signverify", fmt.Sprintf("%d covered types (every RFC 4034 §6.2 type the library implements + RRSIG, NSEC, A, AAAA, TXT, HINFO, DNSKEY) × 2 owners (plain, escaped) × %s (%d keys in all) × 5 presentations (lower; owner+signer upper; RDATA names upper with decremented TTLs and preset OrigTTL; alternating case with unequal TTLs; mixed as given) × every sequence of 1..%d records over {r1, r2, r3, r1 with its names in another case} (84, dealt over 4 cases): Sign → reference verifier and Verify; reference signatures of the 7 distinct record sets (made over another presentation) → Verify on every sequence; non-trivial: the type has RDATA names", len(c10Types), perGroup, len(keys), maxTuple), true,
		func(emit func(func(*fw.R))) {
			tuples := c10Tuples(maxTuple)
			for ti := range c10Types {
				for oi := range c10Owners {
					for _, ki := range c10KeysFor(keys, ti*len(c10Owners)+oi, 3, c.Thorough) {
						for vi := range c10Variants {
							for chunk := 0; chunk < c10Chunks; chunk++ {
								ti, ki, oi, vi, chunk := ti, ki, oi, vi, chunk
								emit(func(r *fw.R) {
									var mine [][]int
									for i, tup := range tuples {
										if i%c10Chunks == chunk {
											mine = append(mine, tup)
										}
									}
									c10SignVerifyCase(r, c10Types[ti], c10Keys()[ki], c10Owners[oi], vi, mine, c.Thorough)
								})
							}
						}
					}
				}
			}
		})
}

func c10SignVerifyCase(r *fw.R, t c10Type, k *c10Key, owner string, vi int, tuples [][]int, thorough bool) {
	typ := dns.StringToType[t.name]
	disputed := canon.HasDisputedName(typ)
	if canon.HasFoldedName(typ) || disputed {
		r.Nontrivial()
	}
	var syms [][4]dns.RR
	for _, v := range c10Variants {
		syms = append(syms, c10Symbols(t, owner, v))
	}
	v := c10Variants[vi]
	// (1) + (3): library signatures
	for _, tup := range tuples {
		rrset := c10Pick(syms[vi], tup)
		sig := &dns.RRSIG{KeyTag: k.DNSKEY.KeyTag(), SignerName: c10Spell("Example.", v.signer), Algorithm: k.DNSKEY.Algorithm,
			Inception: c10Inception, Expiration: c10Expiration, OrigTtl: v.origTTL}
		if err := c10Sign(sig, k.Priv, rrset); err != nil {
			r.Fail("sign/error", "Sign failed: %v; %s", err, c10Desc(k, sig, rrset))
			continue
		}
		r.Count("library-signatures", 1)
		if int(sig.Labels) != c10RFCLabels(owner) {
			r.Fail("sign/labels-field", "Sign set Labels = %d, RFC 4034 §3.1.3 gives %d; %s", sig.Labels, c10RFCLabels(owner), c10Desc(k, sig, rrset))
		}
		wantTTL := v.origTTL
		if wantTTL == 0 {
			wantTTL = rrset[0].Header().Ttl
		}
		if sig.OrigTtl != wantTTL || sig.TypeCovered != typ || sig.Hdr.Class != dns.ClassINET || !strings.EqualFold(sig.Hdr.Name, owner) {
			r.Fail("sign/fields", "Sign filled OrigTtl=%d (want %d) TypeCovered=%d class=%d owner=%q; %s", sig.OrigTtl, wantTTL, sig.TypeCovered, sig.Hdr.Class, sig.Hdr.Name, c10Desc(k, sig, rrset))
		}
		if err, bridge := c10RefVerify(k.DNSKEY, sig, rrset); err != nil {
			r.Fail("sign/reference-rejects", "the reference verifier rejects Sign's output (bridge error %v): %v; presentation %s; %s", bridge, err, v.what, c10Desc(k, sig, rrset))
		}
		if err, _ := c10Verify(sig, k.DNSKEY, rrset); err != nil {
			r.Fail("verify/own-signature", "Verify rejects Sign's output: %v; presentation %s; %s", err, v.what, c10Desc(k, sig, rrset))
		}
		// the same records as a validator gets them: out of a message that was sent compressed (their header then
		// carries the RDLENGTH of the compressed form, shorter than what the canonical form needs)
		cm := new(dns.Msg)
		cm.SetQuestion(rrset[0].Header().Name, typ)
		cm.Compress = true
		cm.Answer = c10CopyRRset(rrset)
		if wireb, perr := cm.Pack(); perr == nil {
			um := new(dns.Msg)
			if um.Unpack(wireb) == nil && len(um.Answer) == len(rrset) {
				if err, _ := c10Verify(sig, k.DNSKEY, um.Answer); err != nil {
					r.Fail("verify/from-compressed-message", "Verify rejects Sign's output over the same records unpacked from a compressed message: %v; presentation %s; %s", err, v.what, c10Desc(k, sig, um.Answer))
				}
				sig2 := &dns.RRSIG{KeyTag: sig.KeyTag, SignerName: sig.SignerName, Algorithm: sig.Algorithm, Inception: c10Inception, Expiration: c10Expiration, OrigTtl: v.origTTL}
				if err := c10Sign(sig2, k.Priv, um.Answer); err != nil {
					r.Fail("sign/from-compressed-message", "Sign fails over records unpacked from a compressed message: %v; %s", err, c10Desc(k, sig2, um.Answer))
				} else if err, _ := c10RefVerify(k.DNSKEY, sig2, rrset); err != nil {
					r.Fail("sign/from-compressed-message", "the reference verifier rejects a signature made over records unpacked from a compressed message: %v; %s", err, c10Desc(k, sig2, um.Answer))
				}
				r.Count("rrsets-through-a-compressed-message", 1)
			}
		}
		if !thorough {
			continue
		}
		// the same signature against another order and presentation of the same set
		pv := (vi + 1) % len(c10Variants)
		if disputed && c10Variants[pv].rdata != v.rdata {
			continue // case of RDATA names is significant under the no-folding reading
		}
		other := c10Pick(syms[pv], c10Reverse(tup))
		if err, _ := c10Verify(sig, k.DNSKEY, other); err != nil {
			r.Fail("verify/presentation-dependent", "Verify rejects a signature over the same RRset presented differently (%s → %s, reversed): %v; signed: %s; presented: %s", v.what, c10Variants[pv].what, err, c10Desc(k, sig, rrset), c10RRsetString(other))
		}
	}
	// (2) + (3): reference signatures
	tmpl := func(vi int) *dns.RRSIG {
		v := c10Variants[vi]
		return &dns.RRSIG{Hdr: dns.RR_Header{Name: c10Spell(owner, v.owner), Rrtype: dns.TypeRRSIG, Class: dns.ClassINET, Ttl: 3600},
			TypeCovered: typ, Algorithm: k.DNSKEY.Algorithm, Labels: uint8(c10RFCLabels(owner)), OrigTtl: 3600,
			Inception: c10Inception, Expiration: c10Expiration, KeyTag: canon.KeyTag(k.Ref.RData()), SignerName: c10Spell("Example.", v.signer)}
	}
	if !disputed {
		for set := 1; set < 8; set++ {
			var members []int
			for s := 0; s < 3; s++ {
				if set&(1<<s) != 0 {
					members = append(members, s)
				}
			}
			svi := (set + vi) % len(c10Variants) // the presentation the reference signs: never this case's own
			sig, err := c10RefSign(k.RefPriv, tmpl(svi), c10Pick(syms[svi], members), canon.Reading{})
			if err != nil {
				panic(fmt.Sprintf("harness: reference signer: %v", err))
			}
			r.Count("reference-signatures", 1)
			for _, tup := range tuples {
				if c10SetOf(tup) != set {
					continue
				}
				rrset := c10Pick(syms[vi], tup)
				if err, _ := c10Verify(sig, k.DNSKEY, rrset); err != nil {
					r.Fail("verify/reference-signed", "Verify rejects a reference signature (made over presentation %s, records %v; verified over presentation %s): %v; %s", c10Variants[svi].what, members, v.what, err, c10Desc(k, sig, rrset))
				}
			}
		}
	} else {
		for _, tup := range tuples {
			rrset := c10Pick(syms[vi], tup)
			ok := 0
			var sigs []string
			for _, rd := range canon.Readings {
				sig, err := c10RefSign(k.RefPriv, tmpl(vi), rrset, rd)
				if err != nil {
					panic(fmt.Sprintf("harness: reference signer: %v", err))
				}
				if err, _ := c10Verify(sig, k.DNSKEY, rrset); err == nil {
					ok++
					r.Count(fmt.Sprintf("library-accepts-reading(foldRRSIGsigner=%v,foldNSECnext=%v)", rd.FoldRRSIGSigner, rd.FoldNSECNext), 1)
				}
				sigs = append(sigs, sig.Signature)
			}
			if ok == 0 {
				r.Fail("verify/reference-signed-any-reading", "Verify rejects the reference signature under every reading of RFC 4034 §6.2 / RFC 6840 §5.1; key %s; rrset %s; signatures %v", k.Name, c10RRsetString(rrset), sigs)
			}
		}
	}
	r.Sample(func() any {
		return fmt.Sprintf("type %s key %s owner %q presentation %s: %d sequences, e.g. %v", t.name, k.Name, owner, v.what, len(tuples), tuples[len(tuples)-1])
	})
}

// ---------------------------------------------------------------------------------------------
// wildcards

func c10WildcardSpace(c *fw.Ctx) {
	type wc struct {
		signed   string   // owner that is signed
		expand   []string // owners under which the signature must verify (with the RRSIG owner set to them)
		noexpand []string // owners under which it must not
		near     bool     // near-wildcard: Labels only counted
		signer   string   // zone (owner of the key); "" = example.
	}
	cases := []wc{
		{"*.Example.", []string{"*.example.", "a.example.", "A.EXAMPLE.", "a.b.example.", `x\.y.example.`, "*.a.example."}, []string{"example.", "a.example2.", "a.sub.example.org."}, false, ""},
		{"*.Sub.Example.", []string{"*.sub.example.", "a.SUB.example.", "x.y.z.sub.example."}, []string{"a.example.", "sub.example.", "a.sub2.example."}, false, ""},
		{"*a.Example.", []string{"*a.example."}, []string{"a.example.", "ba.example."}, true, ""},
		{`\*.Example.`, []string{`*.example.`, `\*.EXAMPLE.`}, nil, true, ""},
		{"a.*.Example.", []string{"A.*.example."}, []string{"a.b.example."}, false, ""},
		{"*.", []string{"*.", "com.", "a.B."}, nil, false, "."},  // wildcard at the root: Labels 0
		{".", []string{"."}, []string{"*.", "com."}, false, "."}, // the root name itself: Labels 0 too, and no wildcard — its signature is over ".", not over "*."
		// kept labels that hold an escaped dot or backslash: the rightmost Labels labels are labels, not text between dots
		{`*.b\.c.Example.`, []string{`*.b\.c.example.`, `a.B\.C.example.`, `x.y.b\.c.example.`}, []string{`a.c.example.`, `a.b.c.example.`, `b\.c.example.`}, false, ""},
		{`*.q\\.Example.`, []string{`a.q\\.example.`, `*.Q\\.example.`}, []string{`a.q.example.`, `a.example.`}, false, ""},
		{"*.c.Example.", []string{"a.c.example.", `a\.x.c.example.`}, []string{`a.x\.c.example.`, `x\.c.example.`}, false, ""},
	}
	keys := c10KeyIdx(c.Thorough)
	types := c10TypeIdx("A", "MX", "TXT", "CNAME")
	c.Space("wildcard", fmt.Sprintf("owners {*.Example., *.Sub.Example., *a.Example., \\*.Example., a.*.Example., *. (root zone, key owner \".\"), the root name itself (Labels 0 without being a wildcard), and wildcards below labels that hold an escaped dot / backslash (*.b\\.c.Example., *.q\\\\.Example.; expansions of *.c.Example. against names whose label ends in an escaped dot)} × types {A, MX, TXT, CNAME} × %d keys: signed by Sign and by the reference signer (Labels per RFC 4034 §3.1.3); each signature checked by Verify and the reference verifier against the RRset re-owned to every expansion / non-expansion name listed, with the RRSIG owner following; plus Labels ±1; non-trivial: every case", len(keys)), true,
		func(emit func(func(*fw.R))) {
			for wi := range cases {
				for _, ti := range types {
					for _, ki := range keys {
						wi, ti, ki := wi, ti, ki
						emit(func(r *fw.R) {
							r.Nontrivial()
							w, t, k := cases[wi], c10Types[ti], c10Keys()[ki]
							signer, pre := "example.", "wildcard/"
							if w.signer != "" {
								signer, pre = w.signer, "wildcard-at-root/"
								kc := *k
								dk := *k.DNSKEY
								dk.Hdr.Name = signer
								kc.DNSKEY, kc.Ref.Owner, kc.KeyText = &dk, c10Labels(signer), dk.String()
								k = &kc
							}
							mk := func(owner string) []dns.RR {
								return []dns.RR{c10NewRR(owner, 300, t.name, c10Expand(t.rd[1], 0)), c10NewRR(owner, 300, t.name, c10Expand(t.rd[0], 0))}
							}
							base := mk(w.signed)
							lsig := &dns.RRSIG{KeyTag: k.DNSKEY.KeyTag(), SignerName: signer, Algorithm: k.DNSKEY.Algorithm, Inception: c10Inception, Expiration: c10Expiration}
							var sigs []*dns.RRSIG
							if err := c10Sign(lsig, k.Priv, base); err != nil {
								r.Fail(strings.TrimSuffix(pre+"sign-error", "/sign-error")+map[bool]string{true: "", false: "/sign-error"}[w.signer != ""], "Sign failed: %v; %s", err, c10Desc(k, lsig, base))
							} else {
								sigs = append(sigs, lsig)
								if int(lsig.Labels) != c10RFCLabels(w.signed) {
									if w.near {
										r.Count("near-wildcard-labels-differ-from-rfc4034-3.1.3", 1)
									} else {
										r.Fail("sign/labels-field", "Sign set Labels = %d, RFC 4034 §3.1.3 gives %d; %s", lsig.Labels, c10RFCLabels(w.signed), c10Desc(k, lsig, base))
									}
								}
							}
							rsig, err := c10RefSign(k.RefPriv, &dns.RRSIG{Hdr: dns.RR_Header{Name: w.signed, Rrtype: dns.TypeRRSIG, Class: dns.ClassINET, Ttl: 300},
								TypeCovered: dns.StringToType[t.name], Algorithm: k.DNSKEY.Algorithm, Labels: uint8(c10RFCLabels(w.signed)), OrigTtl: 300,
								Inception: c10Inception, Expiration: c10Expiration, KeyTag: canon.KeyTag(k.Ref.RData()), SignerName: signer}, base, canon.Reading{})
							if err != nil {
								panic(err)
							}
							sigs = append(sigs, rsig)
							for si, sig0 := range sigs {
								who := []string{"Sign", "reference signer"}[si]
								if len(sigs) == 1 {
									who = "reference signer"
								}
								try := func(owner string, labels uint8, class string) {
									sig := *sig0
									sig.Hdr.Name = owner
									sig.Labels = labels
									rrset := mk(owner)
									c10Judge(r, pre+class, fmt.Sprintf("signature by %s over %q (Labels %d), presented under owner %q with Labels %d", who, w.signed, sig0.Labels, owner, labels), k, k.DNSKEY, &sig, rrset)
								}
								for _, o := range w.expand {
									try(o, sig0.Labels, "expansion")
								}
								for _, o := range w.noexpand {
									try(o, sig0.Labels, "non-expansion")
								}
								for _, o := range append([]string{w.signed}, w.expand...) {
									try(o, sig0.Labels+1, "labels+1")
									if sig0.Labels > 0 {
										try(o, sig0.Labels-1, "labels-1")
									}
								}
							}
							r.Sample(func() any { return fmt.Sprintf("%q %s key %s", w.signed, t.name, k.Name) })
						})
					}
				}
			}
		})
}

// c10Judge compares Verify with the reference verdict on one (key, rrsig, rrset) triple.
func c10Judge(r *fw.R, class, what string, k *c10Key, key *dns.DNSKEY, sig *dns.RRSIG, rrset []dns.RR) {
	refErr, bridge := c10RefVerify(key, sig, rrset)
	if bridge {
		r.Count("skipped:not-representable", 1)
		return
	}
	libErr, panicked := c10Verify(sig, key, rrset)
	r.Count("judged", 1)
	desc := func() string {
		return fmt.Sprintf("%s; DNSKEY %s | rrsig %s | rrset %s", what, key.String(), sig.String(), c10RRsetString(rrset))
	}
	keyFor := func(kind string) string {
		if strings.HasPrefix(class, "spelling/") {
			return class // one root cause per spelling class, whichever side disagrees
		}
		if strings.HasPrefix(class, "wildcard-at-root/") {
			return "wildcard-at-root"
		}
		return kind + "/" + class
	}
	switch {
	case panicked:
		r.Fail("verify-panics/"+class, "Verify panicked: %v (reference verdict: %v); %s", libErr, refErr, desc())
	case refErr != nil && libErr == nil:
		r.Fail(keyFor("accepts"), "Verify returns success but the reference verifier says: %v; %s", refErr, desc())
	case refErr == nil && libErr != nil:
		r.Count("valid-under-reference", 1)
		r.Fail(keyFor("rejects-valid"), "Verify returns %q but the triple is valid under the reference verifier; %s", libErr, desc())
	case refErr == nil:
		r.Count("valid-under-reference", 1)
	}
}

// ---------------------------------------------------------------------------------------------
// spelling: two presentation-level corner cases, each with its own key

func c10SpellingSpace(c *fw.Ctx) {
	keys := c10KeyIdx(c.Thorough)
	c.Space("spelling", fmt.Sprintf("%d keys × {records of one RRset whose owners differ only in letter case; an upper-case letter of the owner / of an MX exchange written as \\DDD}: Sign → reference verifier, reference signer → Verify; non-trivial: every case", len(keys)), true,
		func(emit func(func(*fw.R))) {
			for _, ki := range keys {
				for mode := 0; mode < 3; mode++ {
					ki, mode := ki, mode
					emit(func(r *fw.R) {
						r.Nontrivial()
						k := c10Keys()[ki]
						var rrset []dns.RR
						var class string
						switch mode {
						case 0:
							class = "owner-case-differs-between-records"
							rrset = []dns.RR{c10NewRR("host.example.", 300, "A", "192.0.2.1"), c10NewRR("HOST.example.", 300, "A", "192.0.2.2")}
						case 1:
							class = "escaped-uppercase-letter-in-owner"
							rrset = []dns.RR{c10NewRR(`\072ost.example.`, 300, "MX", "10 mail.example.")}
						case 2:
							class = "escaped-uppercase-letter-in-rdata"
							rrset = []dns.RR{c10NewRR(`host.example.`, 300, "MX", `10 \077ail.example.`)}
						}
						lsig := &dns.RRSIG{KeyTag: k.DNSKEY.KeyTag(), SignerName: "example.", Algorithm: k.DNSKEY.Algorithm, Inception: c10Inception, Expiration: c10Expiration}
						if err := c10Sign(lsig, k.Priv, rrset); err != nil {
							r.Fail("spelling/"+class+"/sign-error", "Sign failed: %v; %s", err, c10Desc(k, lsig, rrset))
						} else {
							c10Judge(r, "spelling/"+class, "signature by Sign", k, k.DNSKEY, lsig, rrset)
						}
						rsig, err := c10RefSign(k.RefPriv, &dns.RRSIG{Hdr: dns.RR_Header{Name: rrset[0].Header().Name, Rrtype: dns.TypeRRSIG, Class: dns.ClassINET, Ttl: 300},
							TypeCovered: rrset[0].Header().Rrtype, Algorithm: k.DNSKEY.Algorithm, Labels: 2, OrigTtl: 300,
							Inception: c10Inception, Expiration: c10Expiration, KeyTag: canon.KeyTag(k.Ref.RData()), SignerName: "example."}, rrset, canon.Reading{})
						if err != nil {
							panic(err)
						}
						c10Judge(r, "spelling/"+class, "signature by the reference signer", k, k.DNSKEY, rsig, rrset)
						r.Sample(func() any { return class + " key " + k.Name })
					})
				}
			}
		})
}

// ---------------------------------------------------------------------------------------------
// alterations: clause (4)/(5) — Verify succeeds only where the reference verifier does

func c10FlipB64(s string, bit int) string {
	b, _ := base64.StdEncoding.DecodeString(s)
	b[bit/8] ^= 0x80 >> (bit % 8)
	return base64.StdEncoding.EncodeToString(b)
}

// c10FlipRData flips one bit of the uncompressed RDATA of rr and reads the record back with UnpackRR.
func c10FlipRData(rr dns.RR, bit int) (out dns.RR, rdlen int, ok bool) {
	off, err := dns.PackRR(rr, c10PackBuf, 0, nil, false)
	if err != nil {
		return nil, 0, false
	}
	w := append([]byte(nil), c10PackBuf[:off]...)
	_, n, pok := rn.ParseWire(w)
	if !pok {
		return nil, 0, false
	}
	start := n + 10
	rdlen = len(w) - start
	if bit >= rdlen*8 {
		return nil, rdlen, false
	}
	w[start+bit/8] ^= 0x80 >> (bit % 8)
	rr2, off2, err := dns.UnpackRR(w, 0)
	if err != nil || off2 != len(w) || rr2 == nil {
		return nil, rdlen, false
	}
	return rr2, rdlen, true
}

// parts of an alteration group: 12 record parts (record i, RDATA bits ≡ j mod 4; header alterations with
// j = 0), then RRset + RRSIG fields, 4 signature parts (bits ≡ j mod 4; length alterations with j = 0), DNSKEY
var c10AlterParts = func() []string {
	var p []string
	for i := 0; i < 3; i++ {
		for j := 0; j < 4; j++ {
			p = append(p, fmt.Sprintf("record%d/bits%%4=%d", i, j))
		}
	}
	p = append(p, "rrset+rrsig-fields")
	for j := 0; j < 4; j++ {
		p = append(p, fmt.Sprintf("signature/bits%%4=%d", j))
	}
	return append(p, "dnskey")
}()

const c10RecordParts = 12

func c10AlterSpace(c *fw.Ctx) {
	keys := c10KeyIdx(c.Thorough)
	var types []int
	for i := range c10Types {
		types = append(types, i)
	}
	other := c10TypeIdx("MX", "A")
	per := "3 keys in rotation"
	if c.Thorough {
		other = c10TypeIdx("MX", "A", "SOA", "TXT")
		per = "every key"
	}
	c.Space("alter", fmt.Sprintf("a 3-record RRset (mixed case) signed by Sign, then every single alteration, Verify compared with the reference verifier on each. Record alterations (%d covered types × %s): per record owner (6 changes), class (4), header type (3), TTL, every single-bit flip of the wire RDATA (re-read with UnpackRR). Other alterations (%d keys × %d covered types): all owners / classes changed, record removed/added/repeated/rotated, empty set; RRSIG TypeCovered, KeyTag, class, OrigTtl, Expiration, Inception bit by bit, every other Algorithm value, Labels values, signer and owner renamed or re-cased; every single-bit flip of the signature (one bit per octet for RSA in quick), truncated / extended / zero-padded / swapped / doubled / empty signatures, ECDSA s → n−s; DNSKEY flags and class bit by bit, every other protocol and algorithm value, key octets bit by bit (one per octet for RSA in quick), truncated / extended, owner renamed or re-cased, another key of the same algorithm; non-trivial: every case", len(types), per, len(keys), len(other)), true,
		func(emit func(func(*fw.R))) {
			one := func(ki, ti, part int) {
				emit(func(r *fw.R) {
					r.Nontrivial()
					k, t := c10Keys()[ki], c10Types[ti]
					c10AlterCase(r, k, t, part, c.Thorough)
					r.Sample(func() any { return fmt.Sprintf("key %s type %s part %s", k.Name, t.name, c10AlterParts[part]) })
				})
			}
			for slot, ti := range types {
				for _, ki := range c10KeysFor(keys, slot, 3, c.Thorough) {
					for part := 0; part < c10RecordParts; part++ {
						one(ki, ti, part)
					}
				}
			}
			for _, ki := range keys {
				for _, ti := range other {
					for part := c10RecordParts; part < len(c10AlterParts); part++ {
						one(ki, ti, part)
					}
				}
			}
		})
}

func c10CopyRRset(rrset []dns.RR) []dns.RR {
	out := make([]dns.RR, len(rrset))
	for i, rr := range rrset {
		out[i] = dns.Copy(rr)
	}
	return out
}

func c10AlterCase(r *fw.R, k *c10Key, t c10Type, part int, thorough bool) {
	owner := "Host.Example."
	base := []dns.RR{c10NewRR(owner, 300, t.name, c10Expand(t.rd[0], 0)), c10NewRR(owner, 300, t.name, c10Expand(t.rd[1], 0)), c10NewRR(owner, 300, t.name, c10Expand(t.rd[2], 0))}
	sig0 := &dns.RRSIG{KeyTag: k.DNSKEY.KeyTag(), SignerName: "Example.", Algorithm: k.DNSKEY.Algorithm, Inception: c10Inception, Expiration: c10Expiration}
	if err := c10Sign(sig0, k.Priv, base); err != nil {
		r.Fail("sign/error", "Sign failed: %v; %s", err, c10Desc(k, sig0, base))
		return
	}
	sig0.Hdr.Ttl = 300
	judge := func(class, what string, key *dns.DNSKEY, sig *dns.RRSIG, rrset []dns.RR) {
		c10Judge(r, "alter/"+class, what, k, key, sig, rrset)
	}
	judge("none", "unaltered", k.DNSKEY, sig0, base)

	// --- records
	for i := range base {
		if part >= c10RecordParts || i != part/4 {
			continue
		}
		chunk := part % 4
		hdr := func(class, what string, f func(h *dns.RR_Header)) {
			if chunk != 0 {
				return
			}
			rs := c10CopyRRset(base)
			f(rs[i].Header())
			judge(class, fmt.Sprintf("record %d: %s", i, what), k.DNSKEY, sig0, rs)
		}
		for _, o := range []string{"Hosu.Example.", "Host.Examplf.", "x.Host.Example.", "Example.", "Hos.Example.", `Host\.Example.`} {
			o := o
			hdr("record-owner", "owner → "+o, func(h *dns.RR_Header) { h.Name = o })
		}
		// (a case change of one record's owner only is the subject of space "spelling")
		for _, cl := range []uint16{dns.ClassCHAOS, dns.ClassNONE, 0, 0x0101} {
			cl := cl
			hdr("record-class", fmt.Sprintf("class → %d", cl), func(h *dns.RR_Header) { h.Class = cl })
		}
		for _, ty := range []uint16{base[i].Header().Rrtype ^ 1, base[i].Header().Rrtype ^ 0x100, dns.TypeNULL} {
			ty := ty
			hdr("record-type", fmt.Sprintf("header type → %d", ty), func(h *dns.RR_Header) { h.Rrtype = ty })
		}
		hdr("record-ttl", "TTL → 299 (not signed: OrigTTL is)", func(h *dns.RR_Header) { h.Ttl = 299 })
		for bit := 0; ; bit++ {
			rr2, rdlen, ok := c10FlipRData(base[i], bit)
			if bit >= rdlen*8 {
				break
			}
			if bit%4 != chunk {
				continue
			}
			if !ok {
				r.Count("skipped:rdata-flip-not-unpackable", 1)
				continue
			}
			rs := c10CopyRRset(base)
			rs[i] = rr2
			judge("rdata-bit", fmt.Sprintf("record %d: RDATA bit %d flipped", i, bit), k.DNSKEY, sig0, rs)
		}
	}
	switch {
	case part == c10RecordParts:
		c10AlterRRsetAndFields(r, k, owner, base, sig0, judge)
	case part > c10RecordParts && part <= c10RecordParts+4:
		c10AlterSignature(r, k, base, sig0, judge, part-c10RecordParts-1, thorough)
	case part == c10RecordParts+5:
		c10AlterDNSKEY(r, k, base, sig0, judge, thorough)
	}
}

type c10JudgeFn func(class, what string, key *dns.DNSKEY, sig *dns.RRSIG, rrset []dns.RR)

func c10AlterRRsetAndFields(r *fw.R, k *c10Key, owner string, base []dns.RR, sig0 *dns.RRSIG, judge c10JudgeFn) {
	// all records at once
	for _, o := range []string{"Hosu.Example.", "hOST.eXAMPLE.", "x.Host.Example.", "Example."} {
		rs := c10CopyRRset(base)
		for _, rr := range rs {
			rr.Header().Name = o
		}
		class := "rrset-owner"
		if strings.EqualFold(o, owner) {
			class = "rrset-owner-case"
		}
		judge(class, "every record's owner → "+o, k.DNSKEY, sig0, rs)
	}
	{
		rs := c10CopyRRset(base)
		for _, rr := range rs {
			rr.Header().Class = dns.ClassCHAOS
		}
		judge("rrset-class", "every record's class → CH", k.DNSKEY, sig0, rs)
		judge("rrset-shape", "record 0 removed", k.DNSKEY, sig0, c10CopyRRset(base[1:]))
		judge("rrset-shape", "record 2 removed", k.DNSKEY, sig0, c10CopyRRset(base[:2]))
		judge("rrset-shape", "record 1 repeated", k.DNSKEY, sig0, append(c10CopyRRset(base), dns.Copy(base[1])))
		judge("rrset-shape", "rotated", k.DNSKEY, sig0, append(c10CopyRRset(base[1:]), dns.Copy(base[0])))
		extra, _, ok := c10FlipRData(base[0], 8*3+7)
		if ok {
			judge("rrset-shape", "a fourth record added", k.DNSKEY, sig0, append(c10CopyRRset(base), extra))
		}
		judge("rrset-shape", "empty RRset", k.DNSKEY, sig0, nil)
	}

	// --- RRSIG
	sigAlt := func(class, what string, f func(s *dns.RRSIG)) {
		s := *sig0
		f(&s)
		judge(class, "RRSIG "+what, k.DNSKEY, &s, base)
	}
	for b := 0; b < 16; b++ {
		b := b
		sigAlt("rrsig-typecovered", fmt.Sprintf("TypeCovered bit %d", b), func(s *dns.RRSIG) { s.TypeCovered ^= 1 << b })
		sigAlt("rrsig-keytag", fmt.Sprintf("KeyTag bit %d", b), func(s *dns.RRSIG) { s.KeyTag ^= 1 << b })
		sigAlt("rrsig-class", fmt.Sprintf("class bit %d", b), func(s *dns.RRSIG) { s.Hdr.Class ^= 1 << b })
	}
	for v := 0; v < 256; v++ {
		v := uint8(v)
		if v != sig0.Algorithm {
			sigAlt("rrsig-algorithm", fmt.Sprintf("Algorithm → %d", v), func(s *dns.RRSIG) { s.Algorithm = v })
		}
		if v != sig0.Labels && (v < 8 || v > 250 || v&(v-1) == 0) {
			sigAlt("rrsig-labels", fmt.Sprintf("Labels → %d", v), func(s *dns.RRSIG) { s.Labels = v })
		}
	}
	for b := 0; b < 32; b++ {
		b := b
		sigAlt("rrsig-origttl", fmt.Sprintf("OrigTtl bit %d", b), func(s *dns.RRSIG) { s.OrigTtl ^= 1 << b })
		sigAlt("rrsig-expiration", fmt.Sprintf("Expiration bit %d", b), func(s *dns.RRSIG) { s.Expiration ^= 1 << b })
		sigAlt("rrsig-inception", fmt.Sprintf("Inception bit %d", b), func(s *dns.RRSIG) { s.Inception ^= 1 << b })
	}
	sigAlt("rrsig-times", "Inception and Expiration swapped", func(s *dns.RRSIG) { s.Inception, s.Expiration = s.Expiration, s.Inception })
	for _, n := range []string{"example.", "EXAMPLE.", "eXaMpLe."} {
		n := n
		sigAlt("rrsig-signer-case", "SignerName → "+n, func(s *dns.RRSIG) { s.SignerName = n })
	}
	for _, n := range []string{"examplf.", "xample.", "sub.example.", ".", "Host.Example.", "e.xample.", `ex\.ample.`} {
		n := n
		sigAlt("rrsig-signer", "SignerName → "+n, func(s *dns.RRSIG) { s.SignerName = n })
	}
	for _, n := range []string{"host.example.", "HOST.EXAMPLE."} {
		n := n
		sigAlt("rrsig-owner-case", "owner → "+n, func(s *dns.RRSIG) { s.Hdr.Name = n })
	}
	for _, n := range []string{"Hosu.Example.", "x.Host.Example.", "Example.", "Host.Example.org."} {
		n := n
		sigAlt("rrsig-owner", "owner → "+n, func(s *dns.RRSIG) { s.Hdr.Name = n })
	}
	sigAlt("rrsig-ttl", "TTL → 1 (not signed)", func(s *dns.RRSIG) { s.Hdr.Ttl = 1 })
}

func c10AlterSignature(r *fw.R, k *c10Key, base []dns.RR, sig0 *dns.RRSIG, judge c10JudgeFn, chunk int, thorough bool) {
	sigAlt := func(class, what string, f func(s *dns.RRSIG)) {
		s := *sig0
		f(&s)
		judge(class, "RRSIG "+what, k.DNSKEY, &s, base)
	}
	sb, _ := base64.StdEncoding.DecodeString(sig0.Signature)
	enc := base64.StdEncoding.EncodeToString
	allBits := thorough || len(sb) <= 96
	for bit := 0; bit < len(sb)*8; bit++ {
		if bit%4 != chunk || !allBits && bit%8 != (bit/8)%8 {
			continue
		}
		bit := bit
		sigAlt("signature-bit", fmt.Sprintf("signature bit %d of %d flipped", bit, len(sb)*8), func(s *dns.RRSIG) { s.Signature = c10FlipB64(s.Signature, bit) })
	}
	cat := func(parts ...[]byte) string {
		var o []byte
		for _, p := range parts {
			o = append(o, p...)
		}
		return enc(o)
	}
	h := len(sb) / 2
	if chunk != 0 {
		return
	}
	ecdsa := k.DNSKEY.Algorithm == dns.ECDSAP256SHA256 || k.DNSKEY.Algorithm == dns.ECDSAP384SHA384
	for _, a := range []struct{ what, val string }{
		{"last octet dropped", enc(sb[:len(sb)-1])},
		{"first octet dropped", enc(sb[1:])},
		{"zero octet appended", cat(sb, []byte{0})},
		{"zero octet prepended", cat([]byte{0}, sb)},
		{"both halves zero-padded on the left (00|r|00|s)", cat([]byte{0}, sb[:h], []byte{0}, sb[h:])},
		{"both halves zero-padded twice (0000|r|0000|s)", cat([]byte{0, 0}, sb[:h], []byte{0, 0}, sb[h:])},
		{"halves swapped", cat(sb[h:], sb[:h])},
		{"signature doubled", cat(sb, sb)},
		{"empty", ""},
		{"all zero", enc(make([]byte, len(sb)))},
	} {
		a := a
		class := "signature-length"
		if ecdsa {
			// one class for ECDSA: which of these a wrong-length r|s survives depends on leading zero octets of
			// the (randomised) r and s, except for the zero-padded halves, which always do
			class = "ecdsa-signature-length"
		}
		sigAlt(class, "signature: "+a.what, func(s *dns.RRSIG) { s.Signature = a.val })
	}
	if ecdsa {
		n := c10CurveOrder(k.DNSKEY.Algorithm)
		s := new(big.Int).SetBytes(sb[h:])
		s.Sub(n, s)
		sigAlt("signature-ecdsa-negated-s", "signature: s → n−s (also a valid ECDSA signature)", func(x *dns.RRSIG) { x.Signature = cat(sb[:h], s.FillBytes(make([]byte, h))) })
	}

}

func c10AlterDNSKEY(r *fw.R, k *c10Key, base []dns.RR, sig0 *dns.RRSIG, judge c10JudgeFn, thorough bool) {
	enc := base64.StdEncoding.EncodeToString
	cat := func(parts ...[]byte) string {
		var o []byte
		for _, p := range parts {
			o = append(o, p...)
		}
		return enc(o)
	}
	keyAlt := func(class, what string, f func(d *dns.DNSKEY)) {
		d := *k.DNSKEY
		f(&d)
		judge(class, "DNSKEY "+what, &d, sig0, base)
	}
	for b := 0; b < 16; b++ {
		b := b
		keyAlt("dnskey-flags", fmt.Sprintf("flags bit %d", b), func(d *dns.DNSKEY) { d.Flags ^= 1 << b })
		keyAlt("dnskey-class", fmt.Sprintf("class bit %d", b), func(d *dns.DNSKEY) { d.Hdr.Class ^= 1 << b })
	}
	for v := 0; v < 256; v++ {
		v := uint8(v)
		if v != 3 {
			keyAlt("dnskey-protocol", fmt.Sprintf("protocol → %d", v), func(d *dns.DNSKEY) { d.Protocol = v })
		}
		if v != k.DNSKEY.Algorithm {
			keyAlt("dnskey-algorithm", fmt.Sprintf("algorithm → %d", v), func(d *dns.DNSKEY) { d.Algorithm = v })
		}
	}
	kb := k.Ref.PublicKey
	allBits := thorough || len(kb) <= 96
	for bit := 0; bit < len(kb)*8; bit++ {
		if !allBits && bit%8 != (bit/8)%8 {
			continue
		}
		bit := bit
		keyAlt("dnskey-key-bit", fmt.Sprintf("public key bit %d of %d flipped", bit, len(kb)*8), func(d *dns.DNSKEY) { d.PublicKey = c10FlipB64(d.PublicKey, bit) })
	}
	for _, a := range []struct{ what, val string }{
		{"last octet dropped", enc(kb[:len(kb)-1])}, {"first octet dropped", enc(kb[1:])},
		{"zero octet appended", cat(kb, []byte{0})}, {"zero octet prepended", cat([]byte{0}, kb)}, {"empty", ""},
	} {
		a := a
		keyAlt("dnskey-key-length", "public key: "+a.what, func(d *dns.DNSKEY) { d.PublicKey = a.val })
	}
	for _, n := range []string{"EXAMPLE.", "eXaMpLe."} {
		n := n
		keyAlt("dnskey-owner-case", "owner → "+n, func(d *dns.DNSKEY) { d.Hdr.Name = n })
	}
	for _, n := range []string{"examplf.", "sub.example.", ".", "Host.Example.", "xample."} {
		n := n
		keyAlt("dnskey-owner", "owner → "+n, func(d *dns.DNSKEY) { d.Hdr.Name = n })
	}
	keyAlt("dnskey-ttl", "TTL → 1 (irrelevant)", func(d *dns.DNSKEY) { d.Hdr.Ttl = 1 })
	// another key altogether
	for _, ok2 := range c10Keys() {
		if ok2 != k && ok2.DNSKEY.Algorithm == k.DNSKEY.Algorithm {
			judge("dnskey-other-key", "replaced by fixed key "+ok2.Name, ok2.DNSKEY, sig0, base)
		}
	}
}

func c10CurveOrder(alg uint8) *big.Int {
	n := new(big.Int)
	if alg == dns.ECDSAP256SHA256 {
		n.SetString("ffffffff00000000ffffffffffffffffbce6faada7179e84f3b9cac2fc632551", 16) // FIPS 186-4 D.1.2.3
	} else {
		n.SetString("ffffffffffffffffffffffffffffffffffffffffffffffffc7634d81f4372ddf581a0db248b0a77aecec196accc52973", 16) // D.1.2.4
	}
	return n
}

// ---------------------------------------------------------------------------------------------
// prechecks: signatures that are cryptographically valid over exactly the octet string Verify would
// rebuild, with one precondition of the statement broken — only the pre-check can stop them

func c10PrecheckSpace(c *fw.Ctx) {
	keys := c10KeyIdx(c.Thorough)
	c.Space("precheck", fmt.Sprintf("%d keys; per case the reference signer signs, with the real private key, the §3.1.8.1 octet string for (RRSIG fields, RRset) combinations in which exactly one precondition of the statement is broken: DNSKEY without the zone-key bit (5 flag values), protocol ≠ 3 (255 values), RRSIG key tag ≠ key's (4), RRSIG algorithm ≠ key's (same key family), key class ≠ RRSIG class, key owner ≠ signer (4), RRset owner ≠ RRSIG owner (3), RRset class ≠ RRSIG class, RRset type ≠ type covered (2), Labels > owner labels; the raw signature is first confirmed valid under the key; a control with nothing broken must verify; non-trivial: every case", len(keys)), true,
		func(emit func(func(*fw.R))) {
			for _, ki := range keys {
				ki := ki
				emit(func(r *fw.R) {
					r.Nontrivial()
					c10PrecheckCase(r, c10Keys()[ki])
					r.Sample(func() any { return "key " + c10Keys()[ki].Name })
				})
			}
		})
}

func c10PrecheckCase(r *fw.R, k *c10Key) {
	owner := "Host.Example."
	mkset := func(owner string, class uint16, typ string) []dns.RR {
		rd := map[string][2]string{"MX": {"10 Mail.Example.", "5 a.example."}, "A": {"192.0.2.1", "192.0.2.2"}, "AAAA": {"2001:db8::1", "::1"}}[typ]
		a, b := c10NewRR(owner, 300, typ, rd[0]), c10NewRR(owner, 300, typ, rd[1])
		a.Header().Class, b.Header().Class = class, class
		return []dns.RR{a, b}
	}
	// one scenario: the key as presented to Verify, the RRSIG fields, the RRset; expectReject = a precondition is broken
	run := func(class, what string, key dns.DNSKEY, sig dns.RRSIG, rrset []dns.RR, signAlg uint8, expectReject bool) {
		// the signed data exactly as RFC 4034 §3.1.8.1 builds it from these RRSIG fields and this RRset
		rs, err := c10RefSig(&sig)
		if err != nil {
			panic(err)
		}
		rrs, err := c10RefRRset(rrset)
		if err != nil {
			panic(err)
		}
		data, err := canon.SignedData(rs.SigFields, rrs, canon.Reading{})
		if err != nil {
			if class == "labels-exceed-owner" {
				// no octet string exists; take the one for Labels = owner labels
				f := rs.SigFields
				data = canon.SigPrefix(f)
				f.Labels = uint8(len(rrs[0].Owner))
				full, _ := canon.SignedData(f, rrs, canon.Reading{})
				data = append(data, full[len(canon.SigPrefix(f)):]...)
			} else {
				panic(err)
			}
		}
		raw, err := canon.SignRaw(signAlg, k.RefPriv, data)
		if err != nil {
			panic(err)
		}
		if err := canon.VerifyRaw(signAlg, k.Ref.PublicKey, data, raw); err != nil {
			panic("harness: raw signature does not verify: " + err.Error())
		}
		sig.Signature = base64.StdEncoding.EncodeToString(raw)
		refErr, bridge := c10RefVerify(&key, &sig, rrset)
		if bridge {
			panic(refErr)
		}
		if (refErr != nil) != expectReject {
			panic(fmt.Sprintf("harness: scenario %s/%s: reference verdict %v, expected reject=%v", class, what, refErr, expectReject))
		}
		libErr, panicked := c10Verify(&sig, &key, rrset)
		r.Count("scenarios", 1)
		desc := fmt.Sprintf("%s; DNSKEY %s | rrsig %s | rrset %s", what, key.String(), sig.String(), c10RRsetString(rrset))
		switch {
		case panicked:
			r.Fail("verify-panics/precheck/"+class, "Verify panicked: %v; %s", libErr, desc)
		case expectReject && libErr == nil:
			r.Fail("accepts/precheck/"+class, "Verify returns success although %s (reference: %v); the signature is a valid signature of the octet string Verify rebuilds; %s", class, refErr, desc)
		case !expectReject && libErr != nil:
			r.Fail("rejects-valid/precheck/"+class, "Verify returns %q for a valid triple; %s", libErr, desc)
		}
	}
	baseSig := func(key *dns.DNSKEY) dns.RRSIG {
		rk, _ := c10RefKey(key)
		return dns.RRSIG{Hdr: dns.RR_Header{Name: owner, Rrtype: dns.TypeRRSIG, Class: dns.ClassINET, Ttl: 300}, TypeCovered: dns.TypeMX,
			Algorithm: key.Algorithm, Labels: 2, OrigTtl: 300, Inception: c10Inception, Expiration: c10Expiration, KeyTag: canon.KeyTag(rk.RData()), SignerName: "example."}
	}
	set := mkset(owner, dns.ClassINET, "MX")
	alg := k.DNSKEY.Algorithm
	run("control", "nothing broken", *k.DNSKEY, baseSig(k.DNSKEY), set, alg, false)
	for _, fl := range []uint16{257, 256 | 128, 0xffff, 0x0100} {
		key := *k.DNSKEY
		key.Flags = fl
		run("control", fmt.Sprintf("flags %d (zone key)", fl), key, baseSig(&key), set, alg, false)
	}
	for _, fl := range []uint16{0, 1, 128, 0xfeff, 0x0200} {
		key := *k.DNSKEY
		key.Flags = fl
		run("not-a-zone-key", fmt.Sprintf("DNSKEY flags %d", fl), key, baseSig(&key), set, alg, true)
	}
	for p := 0; p < 256; p++ {
		if p == 3 {
			continue
		}
		key := *k.DNSKEY
		key.Protocol = uint8(p)
		run("protocol-not-3", fmt.Sprintf("DNSKEY protocol %d", p), key, baseSig(&key), set, alg, true)
	}
	for _, d := range []uint16{1, 0xffff, 0x100, 0x8000} {
		s := baseSig(k.DNSKEY)
		s.KeyTag += d
		run("keytag-mismatch", fmt.Sprintf("RRSIG key tag %d, key's tag %d", s.KeyTag, s.KeyTag-d), *k.DNSKEY, s, set, alg, true)
	}
	family := map[uint8][]uint8{5: {7, 8, 10}, 7: {5, 8, 10}, 8: {5, 7, 10}, 10: {5, 7, 8}, 13: {14, 8, 15}, 14: {13, 8, 15}, 15: {13, 8, 16}}[alg]
	for i, other := range family {
		// RRSIG says alg (and is signed accordingly); the DNSKEY presented carries another algorithm number
		key := *k.DNSKEY
		key.Algorithm = other
		s := baseSig(&key)
		s.Algorithm = alg
		run("algorithm-mismatch", fmt.Sprintf("RRSIG algorithm %d, DNSKEY algorithm %d (same key octets)", alg, other), key, s, set, alg, true)
		if i == 0 && (alg == 5 || alg == 7 || alg == 8 || alg == 10) {
			// and the converse: the RRSIG names another RSA algorithm and is signed with that algorithm's hash
			s2 := baseSig(k.DNSKEY)
			s2.Algorithm = other
			run("algorithm-mismatch", fmt.Sprintf("RRSIG algorithm %d (signed so), DNSKEY algorithm %d", other, alg), *k.DNSKEY, s2, set, other, true)
		}
	}
	{
		key := *k.DNSKEY
		key.Hdr.Class = dns.ClassCHAOS
		run("key-class-mismatch", "DNSKEY class CH, RRSIG class IN", key, baseSig(&key), set, alg, true)
		key.Hdr.Class = dns.ClassINET
		s := baseSig(&key)
		s.Hdr.Class = dns.ClassCHAOS
		run("rrset-class-mismatch", "RRSIG class CH (= key class CH below), RRset class IN", func() dns.DNSKEY { k2 := key; k2.Hdr.Class = dns.ClassCHAOS; return k2 }(), s, set, alg, true)
		run("rrset-class-mismatch", "RRset class CH, RRSIG and key class IN", *k.DNSKEY, baseSig(k.DNSKEY), mkset(owner, dns.ClassCHAOS, "MX"), alg, true)
	}
	for _, n := range []string{"examplf.", "sub.example.", ".", "Host.Example."} {
		key := *k.DNSKEY
		key.Hdr.Name = n
		run("key-owner-not-signer", "DNSKEY owner "+n+", signer example.", key, baseSig(&key), set, alg, true)
	}
	{
		key := *k.DNSKEY
		key.Hdr.Name = "EXAMPLE."
		s := baseSig(&key)
		s.SignerName = "eXample."
		run("control", "DNSKEY owner EXAMPLE., signer eXample.", key, s, set, alg, false)
	}
	for _, n := range []string{"Hosu.Example.", "Host.Examplf.", "Tsoh.Example."} {
		s := baseSig(k.DNSKEY)
		s.Hdr.Name = n
		run("rrset-owner-mismatch", "RRSIG owner "+n+", RRset owner "+owner, *k.DNSKEY, s, set, alg, true)
	}
	for _, ty := range []string{"A", "AAAA"} {
		run("type-covered-mismatch", "TypeCovered MX, RRset type "+ty, *k.DNSKEY, baseSig(k.DNSKEY), mkset(owner, dns.ClassINET, ty), alg, true)
	}
	{
		s := baseSig(k.DNSKEY)
		s.Labels = 3
		run("labels-exceed-owner", "Labels 3, owner has 2 labels", *k.DNSKEY, s, set, alg, true)
	}
}

// ---------------------------------------------------------------------------------------------
// fresh keys

func c10FreshSpace(c *fw.Ctx) {
	type gs struct {
		alg  uint8
		bits int
		reps int
	}
	specs := []gs{{dns.RSASHA1, 1024, 2}, {dns.RSASHA1NSEC3SHA1, 1024, 2}, {dns.RSASHA256, 1024, 2}, {dns.RSASHA512, 1024, 2}, {dns.RSASHA256, 2048, 1},
		{dns.ECDSAP256SHA256, 256, 16}, {dns.ECDSAP384SHA384, 384, 16}, {dns.ED25519, 256, 16}}
	if c.Thorough {
		specs = []gs{{dns.RSASHA1, 1024, 4}, {dns.RSASHA1NSEC3SHA1, 1024, 4}, {dns.RSASHA256, 1024, 4}, {dns.RSASHA512, 1024, 4},
			{dns.RSASHA1, 2048, 2}, {dns.RSASHA256, 2048, 2}, {dns.RSASHA512, 2048, 2}, {dns.RSASHA512, 4096, 1},
			{dns.ECDSAP256SHA256, 256, 128}, {dns.ECDSAP384SHA384, 384, 64}, {dns.ED25519, 256, 64}}
	}
	types := c10TypeIdx("MX", "SOA", "A", "NAPTR")
	c10NameSpace(c)
	c.Space("fresh", fmt.Sprintf("keys from DNSKEY.Generate, (algorithm, bits, repetitions) = %v; each signs RRsets of types {MX, SOA, A, NAPTR} (3 records, alternating case, reversed order, a repeated record): Sign → reference verifier; reference signer (using the generated private key) → Verify; one flipped signature bit must be rejected; the set of cases is fixed, the key material is not; non-trivial: every case", specs), true,
		func(emit func(func(*fw.R))) {
			for _, s := range specs {
				for rep := 0; rep < s.reps; rep++ {
					s := s
					emit(func(r *fw.R) {
						r.Nontrivial()
						kk := &dns.DNSKEY{Hdr: dns.RR_Header{Name: "Example.", Rrtype: dns.TypeDNSKEY, Class: dns.ClassINET, Ttl: 3600}, Flags: 256, Protocol: 3, Algorithm: s.alg}
						priv, err := kk.Generate(s.bits)
						if err != nil {
							r.Fail("fresh/generate", "Generate(%d) for algorithm %d: %v", s.bits, s.alg, err)
							return
						}
						rk, err := c10RefKey(kk)
						if err != nil {
							r.Fail("fresh/generate", "Generate(%d) for algorithm %d: %v", s.bits, s.alg, err)
							return
						}
						fk := &c10Key{Name: fmt.Sprintf("fresh alg %d %d bits", s.alg, s.bits), KeyText: kk.String(), DNSKEY: kk, Priv: priv.(crypto.Signer), Ref: rk, RefPriv: priv}
						for _, ti := range types {
							t := c10Types[ti]
							v := c10Variants[3]
							sym := c10Symbols(t, c10Owners[0], v)
							rrset := []dns.RR{sym[2], sym[1], sym[0], sym[1]}
							sig := &dns.RRSIG{KeyTag: kk.KeyTag(), SignerName: "example.", Algorithm: s.alg, Inception: c10Inception, Expiration: c10Expiration}
							if err := c10Sign(sig, fk.Priv, rrset); err != nil {
								r.Fail("sign/error", "Sign failed: %v; %s", err, c10Desc(fk, sig, rrset))
								continue
							}
							c10Judge(r, "fresh/library-signed", "signature by Sign with a generated key", fk, kk, sig, rrset)
							if e, _ := c10RefVerify(kk, sig, rrset); e != nil {
								r.Fail("sign/reference-rejects", "the reference verifier rejects Sign's output: %v; %s", e, c10Desc(fk, sig, rrset))
							}
							lower := c10Symbols(t, c10Owners[0], c10Variants[0])
							rsig, err := c10RefSign(priv, &dns.RRSIG{Hdr: dns.RR_Header{Name: "host.example.", Rrtype: dns.TypeRRSIG, Class: dns.ClassINET, Ttl: 300},
								TypeCovered: dns.StringToType[t.name], Algorithm: s.alg, Labels: 2, OrigTtl: 3600, Inception: c10Inception, Expiration: c10Expiration,
								KeyTag: canon.KeyTag(rk.RData()), SignerName: "example."}, []dns.RR{lower[0], lower[1], lower[2]}, canon.Reading{})
							if err != nil {
								panic(err)
							}
							if e, _ := c10Verify(rsig, kk, rrset); e != nil {
								r.Fail("verify/reference-signed", "Verify rejects a reference signature made with the generated key: %v; %s", e, c10Desc(fk, rsig, rrset))
							}
							bad := *sig
							bad.Signature = c10FlipB64(bad.Signature, 13)
							c10Judge(r, "fresh/signature-bit", "signature bit 13 flipped", fk, kk, &bad, rrset)
						}
						r.Sample(func() any { return fk.Name })
					})
				}
			}
		})
}
