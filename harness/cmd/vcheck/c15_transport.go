package main

import (
	"encoding/base64"
	"errors"
	"io"
	"net"
	"strings"
	"sync/atomic"
	"time"

	"github.com/miekg/dns"
)

// Scripted in-memory transports for C15 (engine E3). No sockets, no blocking reads: a Read either
// returns octets of the prepared stream or io.EOF.

type c15Addr string

func (a c15Addr) Network() string { return "tcp" }
func (a c15Addr) String() string  { return string(a) }

// c15Conn is the client's connection. The reply stream is produced by respond at the first Read from
// what the client has written so far (the scripted server needs the request MAC for TSIG).
type c15Conn struct {
	respond func(written []byte) []byte
	seg     int // > 0: at most seg octets per Read
	in      []byte
	ready   bool
	pos     int
	written []byte
	writes  int

	ch                atomic.Value // chan *dns.Envelope, stored by the consumer before its first receive
	closes            atomic.Int32
	chanClosedAtClose atomic.Bool // Close found the envelope channel already closed
	stoleAtClose      atomic.Bool // Close found a sender blocked on the channel (cannot happen with one producer)
	readsAfterClose   atomic.Int32
}

func (c *c15Conn) Read(p []byte) (int, error) {
	if c.closes.Load() > 0 {
		c.readsAfterClose.Add(1)
		return 0, net.ErrClosed
	}
	if !c.ready {
		c.ready = true
		c.in = c.respond(c.written)
	}
	if c.pos >= len(c.in) {
		return 0, io.EOF
	}
	n := len(p)
	if c.seg > 0 && n > c.seg {
		n = c.seg
	}
	if n > len(c.in)-c.pos {
		n = len(c.in) - c.pos
	}
	copy(p, c.in[c.pos:c.pos+n])
	c.pos += n
	return n, nil
}

func (c *c15Conn) Write(p []byte) (int, error) {
	if c.closes.Load() > 0 {
		return 0, net.ErrClosed
	}
	c.written = append(c.written, p...)
	c.writes++
	return len(p), nil
}

// Close probes the envelope channel without blocking: with a single producer that is currently inside
// Close, a successful receive can only mean "channel already closed". This makes the order
// "connection closed, then channel closed" observable deterministically.
func (c *c15Conn) Close() error {
	if ch, _ := c.ch.Load().(chan *dns.Envelope); ch != nil {
		select {
		case _, ok := <-ch:
			if ok {
				c.stoleAtClose.Store(true)
			} else {
				c.chanClosedAtClose.Store(true)
			}
		default:
		}
	}
	c.closes.Add(1)
	return nil
}

func (c *c15Conn) LocalAddr() net.Addr                { return c15Addr("192.0.2.1:40000") }
func (c *c15Conn) RemoteAddr() net.Addr               { return c15Addr("192.0.2.53:53") }
func (c *c15Conn) SetDeadline(t time.Time) error      { return nil }
func (c *c15Conn) SetReadDeadline(t time.Time) error  { return nil }
func (c *c15Conn) SetWriteDeadline(t time.Time) error { return nil }

// c15Res is what one Transfer.In run showed.
type c15Res struct {
	envs              []*dns.Envelope
	inErr             error
	hang              bool
	closes            int32
	openAtChanClose   bool // the channel was seen closed while the connection had not been closed
	chanClosedAtClose bool
	stole             bool
	readsAfterClose   int32
	written           []byte
	writes            int
}

const c15Watchdog = 20 * time.Second // hang detector only; a transfer takes microseconds

// c15ViaProvider: the next c15In hands the keys over through Transfer.TsigProvider (set by c15Check; cases run on one goroutine)
var c15ViaProvider bool

// c15In runs the library's Transfer.In on a scripted connection and consumes the channel to completion.
func c15In(q *dns.Msg, secrets map[string]string, seg int, respond func(written []byte) []byte) *c15Res {
	sc := &c15Conn{respond: respond, seg: seg}
	tr := &dns.Transfer{Conn: &dns.Conn{Conn: sc}, TsigSecret: secrets}
	if c15ViaProvider && len(secrets) > 0 {
		// every other configuration hands the same keys over through Transfer.TsigProvider (the HMAC computed by the
		// reference model), beside a TsigSecret map that holds other secrets and must not be consulted
		keys := map[string][]byte{}
		decoy := map[string]string{}
		for k, v := range secrets {
			b, _ := base64.StdEncoding.DecodeString(v)
			keys[strings.ToLower(k)] = b
			decoy[k] = "ZGVjb3k="
		}
		tr.TsigProvider, tr.TsigSecret = &c11Provider{keys: keys}, decoy
	}
	res := &c15Res{}
	ch, err := tr.In(q, "scripted.invalid:53")
	if err != nil {
		res.inErr = err
		return res
	}
	sc.ch.Store(ch)
	timer := time.NewTimer(c15Watchdog)
	defer timer.Stop()
loop:
	for {
		select {
		case e, ok := <-ch:
			if !ok {
				break loop
			}
			res.envs = append(res.envs, e)
		case <-timer.C:
			res.hang = true
			return res
		}
	}
	res.closes = sc.closes.Load()
	res.openAtChanClose = res.closes == 0
	res.chanClosedAtClose = sc.chanClosedAtClose.Load()
	res.stole = sc.stoleAtClose.Load()
	res.readsAfterClose = sc.readsAfterClose.Load()
	res.written, res.writes = sc.written, sc.writes
	return res
}

// ---- server side: the real dns.Server / response.WriteMsg / Transfer.Out over an in-memory listener ----

type c15SrvConn struct {
	in     []byte
	pos    int
	out    []byte
	closes int
}

func (c *c15SrvConn) Read(p []byte) (int, error) {
	if c.pos >= len(c.in) {
		return 0, io.EOF
	}
	n := copy(p, c.in[c.pos:])
	c.pos += n
	return n, nil
}
func (c *c15SrvConn) Write(p []byte) (int, error)        { c.out = append(c.out, p...); return len(p), nil }
func (c *c15SrvConn) Close() error                       { c.closes++; return nil }
func (c *c15SrvConn) LocalAddr() net.Addr                { return c15Addr("192.0.2.53:53") }
func (c *c15SrvConn) RemoteAddr() net.Addr               { return c15Addr("192.0.2.1:40000") }
func (c *c15SrvConn) SetDeadline(t time.Time) error      { return nil }
func (c *c15SrvConn) SetReadDeadline(t time.Time) error  { return nil }
func (c *c15SrvConn) SetWriteDeadline(t time.Time) error { return nil }

// c15Listener hands out one connection; the second Accept fails permanently, which makes serveTCP wait
// for the connection's goroutine and return — so ActivateAndServe can be called synchronously.
type c15Listener struct {
	conn net.Conn
	used bool
}

var errC15ListenerDone = errors.New("scripted listener: no more connections")

func (l *c15Listener) Accept() (net.Conn, error) {
	if l.used {
		return nil, errC15ListenerDone
	}
	l.used = true
	return l.conn, nil
}
func (l *c15Listener) Close() error   { return nil }
func (l *c15Listener) Addr() net.Addr { return c15Addr("192.0.2.53:53") }

// c15ServeOut feeds the framed request to a real dns.Server whose handler sends envs with Transfer.Out,
// and returns the octets the server wrote. secrets == nil: server without TSIG.
func c15ServeOut(reqFramed []byte, secrets map[string]string, envs [][]dns.RR) (out []byte, outErr error, handled int, srvErr error) {
	sc := &c15SrvConn{in: reqFramed}
	srv := &dns.Server{Listener: &c15Listener{conn: sc}, TsigSecret: secrets,
		Handler: dns.HandlerFunc(func(w dns.ResponseWriter, req *dns.Msg) {
			handled++
			ch := make(chan *dns.Envelope, len(envs))
			for _, rrs := range envs {
				ch <- &dns.Envelope{RR: rrs}
			}
			close(ch)
			outErr = new(dns.Transfer).Out(w, req, ch)
		})}
	srvErr = srv.ActivateAndServe()
	if srvErr == errC15ListenerDone {
		srvErr = nil
	}
	return sc.out, outErr, handled, srvErr
}
