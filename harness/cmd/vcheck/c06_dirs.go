package main

import (
	"fmt"
	"os"
	"path/filepath"
	"strings"
	"testing/fstest"

	"github.com/miekg/dns"
	"verif/harness/fw"
)

// c06IncludeDirSpace: $INCLUDE with relative file names across directories. The library documents that a relative
// name is taken relative to the directory of the file that holds the directive; which file that is has to be
// tracked through nested includes. Every directory of the tree holds a file of the same name with another record,
// so resolving against the wrong directory shows as the wrong record (or a failed open).
func c06IncludeDirSpace(c *fw.Ctx) {
	// layout: <top>/main.zone includes sub/a.zone; a.zone includes b.zone (next to it) and ../c.zone; b.zone
	// includes deep/d.zone; decoys named b.zone, c.zone, d.zone sit in every other directory
	mk := func(tag string) string { return fmt.Sprintf("%s 5 IN TXT \"%s\"\n", "r."+tag+".example.", tag) }
	type layout struct {
		name  string
		top   string // directory of the top-level file ("" = the root of the FS)
		files map[string]string
		want  []string // the TXT strings of the records, in order
	}
	build := func(top string) layout {
		j := func(p ...string) string { return strings.TrimPrefix(filepath.ToSlash(filepath.Join(append([]string{top}, p...)...)), "/") }
		files := map[string]string{
			j("main.zone"):             mk("main-1") + "$INCLUDE sub/a.zone\n" + mk("main-2"),
			j("sub", "a.zone"):         mk("a-1") + "$INCLUDE b.zone\n" + "$INCLUDE ../c.zone\n" + mk("a-2"),
			j("sub", "b.zone"):         mk("sub/b") + "$INCLUDE deep/d.zone\n",
			j("c.zone"):                mk("top/c"),
			j("sub", "deep", "d.zone"): mk("sub/deep/d"),
			// decoys
			j("b.zone"):         mk("DECOY top/b"),
			j("sub", "c.zone"):  mk("DECOY sub/c"),
			j("deep", "d.zone"): mk("DECOY top/deep/d"),
			j("d.zone"):         mk("DECOY top/d"),
			j("sub", "d.zone"):  mk("DECOY sub/d"),
		}
		if top != "" {
			files["b.zone"], files["c.zone"], files["sub/b.zone"], files["deep/d.zone"] = mk("DECOY root/b"), mk("DECOY root/c"), mk("DECOY root/sub/b"), mk("DECOY root/deep/d")
		}
		return layout{name: "top=" + top, top: top, files: files,
			want: []string{"main-1", "a-1", "sub/b", "sub/deep/d", "top/c", "a-2", "main-2"}}
	}
	layouts := []layout{build(""), build("zones"), build("var/named/zones")}
	c.Space("include-dirs", "a main file that includes sub/a.zone, which includes b.zone (next to it, itself including deep/d.zone) and ../c.zone, with the main file at the root of the tree, one and three directories down, and files of the same names with other records in every other directory; through SetIncludeFS (fstest.MapFS) and through the operating system's files: the records are those of the files that the relative names denote from the directory of the including file, in order; non-trivial: all", true,
		func(emit func(func(*fw.R))) {
			for _, l := range layouts {
				for _, disk := range []bool{false, true} {
					l, disk := l, disk
					emit(func(r *fw.R) {
						r.Nontrivial()
						mainName := strings.TrimPrefix(filepath.ToSlash(filepath.Join(l.top, "main.zone")), "/")
						var zp *dns.ZoneParser
						if disk {
							dir, err := os.MkdirTemp("", "c06dirs")
							if err != nil {
								panic(err)
							}
							defer os.RemoveAll(dir)
							for name, text := range l.files {
								p := filepath.Join(dir, filepath.FromSlash(name))
								os.MkdirAll(filepath.Dir(p), 0o755)
								if err := os.WriteFile(p, []byte(text), 0o644); err != nil {
									panic(err)
								}
							}
							zp = dns.NewZoneParser(strings.NewReader(l.files[mainName]), "example.", filepath.Join(dir, filepath.FromSlash(mainName)))
						} else {
							fsys := fstest.MapFS{}
							for name, text := range l.files {
								fsys[name] = &fstest.MapFile{Data: []byte(text)}
							}
							zp = dns.NewZoneParser(strings.NewReader(l.files[mainName]), "example.", mainName)
							zp.SetIncludeFS(fsys)
						}
						zp.SetIncludeAllowed(true)
						var got []string
						for rr, ok := zp.Next(); ok && len(got) < 50; rr, ok = zp.Next() {
							if t, isTxt := rr.(*dns.TXT); isTxt && len(t.Txt) == 1 {
								got = append(got, t.Txt[0])
							} else {
								got = append(got, rr.String())
							}
						}
						if err := zp.Err(); err != nil || strings.Join(got, "|") != strings.Join(l.want, "|") {
							r.Fail("include-dirs/records", "layout %s, files through the %s: records %q, Err() = %v; want %q", l.name, map[bool]string{false: "include FS", true: "operating system"}[disk], got, err, l.want)
						}
					})
				}
			}
		})
}
