package main

import (
	"bytes"
	"crypto"
	"encoding/base64"
	"encoding/binary"
	"errors"
	"fmt"
	"os"
	"path/filepath"
	"reflect"
	"strings"
	"time"

	"github.com/miekg/dns"
	"verif/harness/fw"
	rn "verif/harness/ref/name"
	rs "verif/harness/ref/sig0"
)

// C18 — SIG(0): any message can be signed; only untampered, timely messages verify (DESIGN §5 C18).

func init() {
	fw.Register(&fw.Check{Prop: "C18", Level: "fault_enumeration",
		Assume: []string{
			"reference model ref/sig0 (RFC 2931 §3, §3.1; RFC 2535 §4.1; RFC 3110, 5702, 6605, 8080) with its own wire walker, KEY text reader and public-key decoding, finished with crypto/rsa, crypto/ecdsa, crypto/ed25519 directly, is the oracle for the signed data, the SIG RR octets and the signature",
			"plumbing (not under test here): dns.Msg.Pack gives the octets of the unsigned message; dns.NewRR / ReadPrivateKey load the fixed keys in /verif/keys; dns.Msg.Unpack gives the receiver's *SIG (a tampered buffer that Unpack rejects, or whose last additional record is no longer a SIG, counts as rejected by the receiver; SIG.Verify with the SIG unpacked from the untampered buffer is called on every tampered buffer regardless)",
			"data signed = SIG RDATA less signature | message before the SIG was added, for queries and responses alike: RFC 2931 §3.1 additionally prepends the query for a response, which SIG.Sign cannot express and the property text does not ask for",
			"altered octets: every octet of the original message (header included) and every octet of the SIG RDATA (signature included). Excluded: the 11 octets of the SIG RR's own header (owner, type, class, TTL, RDLENGTH), which RFC 2931 does not cover and the property does not name",
			"bound on flips: all 8 single-bit flips of every octet for messages ≤ 1024 octets (thorough: ≤ 8192); for larger ones all 8 bits of the first 64 and last 64 octets of the original message and of every SIG RDATA octet, and one bit (bit number = offset mod 8) of every other octet. Truncation: every length from 12 to len-1, for every message. Header-count faults: each section count set to 0, 1, 0xffff, v-1, v+1",
			"time: stable-second protocol — time.Now().Unix() is read before and after each SIG.Verify whose result depends on the window and the call is repeated while they differ; a window case is repeated from signing until the verification saw exactly the second the window was built around. Windows are within 300 s of the present; the 2106 wrap of the 32-bit clock is not enumerated. The fault sweeps (spaces tamper, keys, savings, reuse) do not depend on the clock: they sign with the fixed window 1700000000..2100000000 (2023-11-14 .. 2036-07-18)",
			"a KEY whose owner name differs from the signer name only in ASCII case is the matching KEY (RFC 4343) and must verify; the key tag is a hint and is not compared",
			"ECDSA signatures are randomized by crypto/ecdsa: the signature octets differ between runs, the verdicts do not",
			"quick tier: the flip/truncation sweep over the ≈60 KiB message runs for RSASHA256, ECDSAP256SHA256 and ED25519; thorough adds RSASHA1, RSASHA512, ECDSAP384SHA384",
		},
		Spaces: c18Spaces})
}

// ---------------------------------------------------------------------------------------------
// keys

type c18Alg struct {
	name     string
	num      uint8
	file     string
	sigLen   int
	quickBig bool
}

var c18Algs = []c18Alg{
	{"RSASHA1", dns.RSASHA1, "rsasha1", 128, false},
	{"RSASHA256", dns.RSASHA256, "rsasha256", 128, true},
	{"RSASHA512", dns.RSASHA512, "rsasha512", 128, false},
	{"ECDSAP256SHA256", dns.ECDSAP256SHA256, "ecdsap256sha256", 64, true},
	{"ECDSAP384SHA384", dns.ECDSAP384SHA384, "ecdsap384sha384", 96, false},
	{"ED25519", dns.ED25519, "ed25519", 64, true},
	// algorithm 7 is RSA/SHA-1 under its NSEC3 number: the fixed RSASHA1 key material with the algorithm octet set to 7
	{"RSASHA1NSEC3SHA1", dns.RSASHA1NSEC3SHA1, "rsasha1@7", 128, false},
}

type c18Key struct {
	rr        *dns.KEY
	priv      crypto.Signer
	ref       *rs.Key
	ownerWire []byte
	tag       uint16
}

var c18KeyCache = map[string]*c18Key{}

func c18KeyDir() string {
	if d := os.Getenv("VERIF_KEYS"); d != "" {
		return d
	}
	root := os.Getenv("VERIF_ROOT")
	if root == "" {
		root = "/verif"
	}
	return filepath.Join(root, "keys")
}

// c18LoadKey reads /verif/keys/sig0-<file>.{key,private}: once with the library (plumbing, to obtain the
// *dns.KEY and crypto.Signer the API wants) and once with the reference's own reader.
func c18LoadKey(file string) *c18Key {
	if k := c18KeyCache[file]; k != nil {
		return k
	}
	alg7 := strings.Contains(file, "@7")
	base := filepath.Join(c18KeyDir(), "sig0-"+strings.Replace(file, "@7", "", 1))
	pub, err := os.ReadFile(base + ".key")
	if err != nil {
		panic("C18 fixed key missing: " + err.Error())
	}
	prv, err := os.ReadFile(base + ".private")
	if err != nil {
		panic("C18 fixed key missing: " + err.Error())
	}
	rr, err := dns.NewRR(string(pub))
	if err != nil {
		panic(fmt.Sprintf("%s.key: %v", base, err))
	}
	krr, ok := rr.(*dns.KEY)
	if !ok {
		panic(base + ".key: not a KEY record")
	}
	p, err := krr.ReadPrivateKey(bytes.NewReader(prv), base+".private")
	if err != nil {
		panic(fmt.Sprintf("%s.private: %v", base, err))
	}
	signer, ok := p.(crypto.Signer)
	if !ok {
		panic(base + ".private: not a crypto.Signer")
	}
	ref, err := rs.ParseKeyText(strings.TrimSpace(string(pub)))
	if err != nil {
		panic(fmt.Sprintf("%s.key (reference reader): %v", base, err))
	}
	pn := rn.Parse(ref.Owner)
	if !pn.OK || !pn.FQDN || !rn.ValidWire(pn.Labels) {
		panic(base + ".key: owner name not valid under ref/name")
	}
	if alg7 {
		krr.Algorithm, ref.Algorithm = dns.RSASHA1NSEC3SHA1, rs.RSASHA1NSEC3
	}
	k := &c18Key{rr: krr, priv: signer, ref: ref, ownerWire: rn.Wire(pn.Labels), tag: ref.Tag()}
	c18KeyCache[file] = k
	return k
}

// ---------------------------------------------------------------------------------------------
// messages

func c18RR(s string) dns.RR {
	rr, err := dns.NewRR(s)
	if err != nil {
		panic(fmt.Sprintf("NewRR(%q): %v", s, err))
	}
	return rr
}

type c18Msg struct {
	name  string
	desc  string
	build func() *dns.Msg
}

const c18ChunkW = 32

func c18Query() *dns.Msg {
	m := new(dns.Msg)
	m.SetQuestion("example.org.", dns.TypeSOA)
	m.Id = 0xc018
	return m
}

func c18BigTXT(i, n int) dns.RR {
	b := make([]byte, 0, n+8)
	b = append(b, fmt.Sprintf("%04d-", i)...)
	for len(b) < n {
		b = append(b, byte('a'+(i+len(b))%26))
	}
	return &dns.TXT{Hdr: dns.RR_Header{Name: "big.example.org.", Rrtype: dns.TypeTXT, Class: dns.ClassINET, Ttl: 60}, Txt: []string{string(b[:n])}}
}

func c18AR(n int) func() *dns.Msg {
	return func() *dns.Msg {
		m := c18Query()
		for i := 0; i < n; i++ {
			m.Extra = append(m.Extra, &dns.A{Hdr: dns.RR_Header{Name: "h.example.org.", Rrtype: dns.TypeA, Class: dns.ClassINET, Ttl: 60},
				A: []byte{192, 0, byte(2 + i>>8), byte(i)}})
		}
		return m
	}
}

var c18Msgs = []c18Msg{
	{"query", "bare query example.org. SOA (the shape TestSIG0 uses)", c18Query},
	{"header", "header only: all four sections empty", func() *dns.Msg { m := new(dns.Msg); m.Id = 0xc018; m.Response = true; return m }},
	{"reply3", "reply: question www.example.org. A + CNAME, A in answer + NS in authority, every name compressible", func() *dns.Msg {
		m := new(dns.Msg)
		m.SetQuestion("www.example.org.", dns.TypeA)
		m.Id = 0xc018
		m.Response, m.Authoritative, m.RecursionAvailable = true, true, true
		m.Answer = []dns.RR{c18RR("www.example.org. 300 IN CNAME host.example.org."), c18RR("host.example.org. 300 IN A 192.0.2.1")}
		m.Ns = []dns.RR{c18RR("example.org. 300 IN NS ns1.example.org.")}
		return m
	}},
	{"opt", "query with an OPT record (DO, 4096, NSID option)", func() *dns.Msg {
		m := c18Query()
		m.SetEdns0(4096, true)
		o := m.IsEdns0()
		o.Option = append(o.Option, &dns.EDNS0_NSID{Code: dns.EDNS0NSID, Nsid: "c0ffee"})
		return m
	}},
	{"optrcode", "response with extended RCODE BADVERS carried in its OPT record", func() *dns.Msg {
		m := c18Query()
		m.Response = true
		m.SetEdns0(1232, false)
		m.Rcode = dns.RcodeBadVers
		return m
	}},
	{"noquestion", "response with an empty question section and one answer", func() *dns.Msg {
		m := new(dns.Msg)
		m.Id = 0xc018
		m.Response = true
		m.Answer = []dns.RR{c18RR("example.org. 300 IN A 192.0.2.7")}
		return m
	}},
	{"answer300", "query + 300 answer records, empty additional section (control for the ARCOUNT cases)", func() *dns.Msg {
		m := c18Query()
		m.Response = true
		for i := 0; i < 300; i++ {
			m.Answer = append(m.Answer, &dns.A{Hdr: dns.RR_Header{Name: "example.org.", Rrtype: dns.TypeA, Class: dns.ClassINET, Ttl: 60}, A: []byte{192, 0, byte(2 + i>>8), byte(i)}})
		}
		return m
	}},
	{"additional254", "query + 254 additional records (ARCOUNT 255 once signed)", c18AR(254)},
	{"additional255", "query + 255 additional records (ARCOUNT 256 once signed)", c18AR(255)},
	{"additional256", "query + 256 additional records (ARCOUNT 257 once signed)", c18AR(256)},
	{"additional257", "query + 257 additional records (ARCOUNT 258 once signed)", c18AR(257)},
	{"big60k", "≈60 KiB: query + 220 TXT records of 255 octets", func() *dns.Msg {
		m := new(dns.Msg)
		m.SetQuestion("big.example.org.", dns.TypeTXT)
		m.Id = 0xc018
		m.Response = true
		for i := 0; i < 220; i++ {
			m.Answer = append(m.Answer, c18BigTXT(i, 255))
		}
		return m
	}},
}

// c18MaxMsg builds a message whose packed length (with the given Compress setting) is exactly target.
func c18MaxMsg(compress bool, target int) (*dns.Msg, error) {
	m := new(dns.Msg)
	m.SetQuestion("big.example.org.", dns.TypeTXT)
	m.Id = 0xc018
	m.Response = true
	m.Compress = compress
	for i := 0; i < 225; i++ {
		m.Answer = append(m.Answer, c18BigTXT(i, 255))
	}
	last := &dns.TXT{Hdr: dns.RR_Header{Name: "big.example.org.", Rrtype: dns.TypeTXT, Class: dns.ClassINET, Ttl: 60}, Txt: []string{"x"}}
	m.Answer = append(m.Answer, last)
	for try := 0; try < 4; try++ {
		b, err := m.Pack()
		if err != nil {
			return nil, err
		}
		if len(b) == target {
			return m, nil
		}
		// RDATA octets of the last record now, and wanted
		cur := 0
		for _, s := range last.Txt {
			cur += 1 + len(s)
		}
		want := cur + target - len(b)
		if want < 2 {
			return nil, fmt.Errorf("cannot reach %d octets", target)
		}
		last.Txt = nil
		for want > 0 {
			n := want - 1
			if n > 255 {
				n = 255
			}
			if want-(1+n) == 1 { // never leave a lone length octet for an empty string
				n--
			}
			last.Txt = append(last.Txt, strings.Repeat("y", n))
			want -= 1 + n
		}
	}
	return nil, fmt.Errorf("could not build a message of exactly %d octets", target)
}

// ---------------------------------------------------------------------------------------------
// helpers around the calls under test

func c18Now() int64 { return time.Now().Unix() }

func c18NewSIG(a c18Alg, k *c18Key, signer string, inc, exp uint32) *dns.SIG {
	s := new(dns.SIG)
	s.Algorithm = a.num
	s.KeyTag = k.tag
	s.SignerName = signer
	s.Inception = inc
	s.Expiration = exp
	return s
}

// c18Verify calls SIG.Verify, converting a panic into a value.
func c18Verify(s *dns.SIG, k *dns.KEY, buf []byte) (err error, pan any) {
	defer func() {
		if p := recover(); p != nil {
			pan = p
		}
	}()
	return s.Verify(k, buf), nil
}

// c18VerifyAt calls SIG.Verify so that it provably saw the returned second.
func c18VerifyAt(s *dns.SIG, k *dns.KEY, buf []byte) (err error, pan any, t int64) {
	for {
		t = c18Now()
		err, pan = c18Verify(s, k, buf)
		if c18Now() == t {
			return
		}
	}
}

func c18Hex(b []byte) string {
	if len(b) > 700 {
		return fmt.Sprintf("%x…%x (%d octets)", b[:300], b[len(b)-300:], len(b))
	}
	return fmt.Sprintf("%x", b)
}

// c18Signed is one signed message with everything the oracles need.
type c18Signed struct {
	m       *dns.Msg
	packed  []byte // Pack(m)
	out     []byte // SIG.Sign output
	sig     *dns.SIG
	wireSig *dns.SIG // the SIG the receiver unpacks from out
	loc     *rs.Sig
	refOK   bool // the reference verified the signature
}

// c18SignAndCheck signs m and checks everything about the output that does not depend on the clock:
// Sign succeeds; out = Pack(m) with ARCOUNT+1 ‖ the reference's SIG RR ‖ a signature of the algorithm's
// length; the signature verifies under the reference; the SIG's Signature field is that signature; the
// buffer unpacks and its last additional record is that SIG. Returns nil if signing failed (reported).
func c18SignAndCheck(r *fw.R, id string, a c18Alg, k *c18Key, m *dns.Msg, inc, exp uint32) *c18Signed {
	packed, err := m.Pack()
	if err != nil {
		r.Fail("internal/pack", "%s: Pack failed: %v", id, err)
		return nil
	}
	packed = append([]byte(nil), packed...)
	sig := c18NewSIG(a, k, k.rr.Hdr.Name, inc, exp)
	out, err := sig.Sign(k.priv, m)
	if err != nil {
		key := "sign/error"
		extra := ""
		if m.Compress {
			mu := m.Copy()
			mu.Compress = false
			if ub, e2 := mu.Pack(); e2 == nil && len(ub) > len(packed) {
				if errors.Is(err, dns.ErrBuf) {
					key = "sign/compress-errbuf"
				}
				extra = fmt.Sprintf("; compression saves %d octets (packed %d, uncompressed %d), dns.Len(SIG without signature) = %d", len(ub)-len(packed), len(packed), len(ub), 11+18+len(k.ownerWire))
			}
		}
		r.Fail(key, "%s: SIG.Sign returned %v%s; unsigned message %s", id, err, extra, c18Hex(packed))
		return nil
	}
	if after, e2 := m.Pack(); e2 != nil || !bytes.Equal(after, packed) {
		r.Fail("sign/modifies-message", "%s: Pack(m) after Sign = %s, %v; before %s", id, c18Hex(after), e2, c18Hex(packed))
	}
	// expected octets
	want := append([]byte(nil), packed...)
	binary.BigEndian.PutUint16(want[10:], binary.BigEndian.Uint16(want[10:])+1)
	want = append(want, rs.RR(a.num, exp, inc, k.tag, k.ownerWire, a.sigLen)...)
	if len(out) != len(want)+a.sigLen || !bytes.Equal(out[:len(want)], want) {
		d := 0
		for d < len(out) && d < len(want) && out[d] == want[d] {
			d++
		}
		r.Fail("sign/output-octets", "%s: Sign output is not Pack(m) with ARCOUNT+1 ‖ SIG RR(root, SIG, ANY, TTL 0): length %d, want %d+%d; first difference at offset %d; got %s, want %s ‖ signature", id, len(out), len(want), a.sigLen, d, c18Hex(out), c18Hex(want))
		return nil
	}
	s := &c18Signed{m: m, packed: packed, out: out, sig: sig}
	loc, err := rs.Verify(out, k.ref, k.ownerWire)
	if loc == nil {
		r.Fail("sign/reference-rejects", "%s: reference cannot locate the SIG RR in the Sign output: %v; output %s", id, err, c18Hex(out))
		return nil
	}
	s.loc = loc
	s.refOK = err == nil
	if err != nil {
		// keep going: the library may still be self-consistent, and then the fault sweeps say more
		r.Fail("sign/reference-rejects", "%s: reference verification of the Sign output: %v; output %s", id, err, c18Hex(out))
	}
	if !bytes.Equal(rs.Original(out, loc), packed) {
		r.Fail("sign/output-octets", "%s: message before the SIG as reconstructed by the reference differs from Pack(m)", id)
	}
	if raw, err := base64.StdEncoding.DecodeString(sig.Signature); err != nil || !bytes.Equal(raw, loc.Signature) {
		r.Fail("sign/rr-signature-field", "%s: SIG.Signature after Sign = %q, signature on the wire %x", id, sig.Signature, loc.Signature)
	}
	m2 := new(dns.Msg)
	if err := m2.Unpack(out); err != nil {
		r.Fail("sign/output-unpack", "%s: Unpack of the Sign output: %v; output %s", id, err, c18Hex(out))
		return s
	}
	if n := len(m2.Extra); n != len(m.Extra)+1 {
		r.Fail("sign/output-unpack", "%s: Sign output unpacks to %d additional records, want %d", id, n, len(m.Extra)+1)
		return s
	}
	ws, ok := m2.Extra[len(m2.Extra)-1].(*dns.SIG)
	if !ok {
		r.Fail("sign/output-unpack", "%s: last additional record of the Sign output is %T", id, m2.Extra[len(m2.Extra)-1])
		return s
	}
	s.wireSig = ws
	return s
}

func c18VerifyKey(orig int) string {
	if orig >= 256 {
		return "verify/arcount>=257"
	}
	return "verify/untampered-rejected"
}

// ---------------------------------------------------------------------------------------------
// spaces

// The fault sweeps and the key / reuse / savings spaces are made independent of the clock (and, for RSA and
// Ed25519, reproducible to the octet) by a fixed window that contains the present with decades to spare:
// 2023-11-14T22:13:20Z .. 2036-07-18T13:20:00Z. The window edges are the business of space "sign".
const (
	c18FixedInception  = 1700000000
	c18FixedExpiration = 2100000000
)

type c18Window struct{ a, b int64 }

// the last two have an end more than 2^31 s away from now (the fields are plain 32-bit second counts: RFC 2931
// §3 takes them from RFC 2535 §4.1.5 without serial arithmetic for SIG(0)): a timely one and an inverted one
var c18Windows = []c18Window{{-300, 300}, {0, 0}, {-2, -1}, {1, 2}, {-1, 0}, {0, 1}, {-300, 1<<31 + 1000}, {1<<31 + 100, 5}}

func c18Spaces(c *fw.Ctx) {
	type msgSel struct {
		c18Msg
		max bool
	}
	var signMsgs []msgSel
	for _, m := range c18Msgs {
		signMsgs = append(signMsgs, msgSel{m, false})
	}
	signMsgs = append(signMsgs, msgSel{c18Msg{name: "max65535", desc: "TXT records sized so that the signed message is exactly 65535 octets"}, true})

	c.Space("sign", "messages {"+c18MsgNames()+", max65535} × Compress {false,true} × 6 algorithms × validity windows now+{(-300,+300),(0,0),(-2,-1),(+1,+2),(-1,0),(0,+1),(-300,+2^31+1000),(+2^31+100,+5)}: Sign output octets, reference verification, SIG.Verify with the signer's and the receiver's SIG against the window; non-trivial: anything but the TestSIG0 shape (bare query, uncompressed, ±300 s)", true,
		func(emit func(func(*fw.R))) {
			for _, ms := range signMsgs {
				for _, compress := range []bool{false, true} {
					for _, a := range c18Algs {
						for _, w := range c18Windows {
							ms, compress, a, w := ms, compress, a, w
							emit(func(r *fw.R) {
								id := fmt.Sprintf("msg=%s Compress=%v alg=%s window=now%+d..now%+d", ms.name, compress, a.name, w.a, w.b)
								if !(ms.name == "query" && !compress && w.a == -300) {
									r.Nontrivial()
								}
								k := c18LoadKey(a.file)
								var m *dns.Msg
								if ms.max {
									var err error
									m, err = c18MaxMsg(compress, 65535-(11+18+len(k.ownerWire)+a.sigLen))
									if err != nil {
										r.Fail("internal/maxmsg", "%s: %v", id, err)
										return
									}
								} else {
									m = ms.build()
									m.Compress = compress
								}
								r.Sample(func() any { return id + ": " + ms.desc })
								for attempt := 0; ; attempt++ {
									t0 := c18Now()
									inc, exp := uint32(t0+w.a), uint32(t0+w.b)
									s := c18SignAndCheck(r, fmt.Sprintf("%s (now=%d inception=%d expiration=%d)", id, t0, inc, exp), a, k, m, inc, exp)
									if s == nil {
										return
									}
									want := w.a <= 0 && 0 <= w.b
									moved := false
									check := func(which string, sg *dns.SIG) {
										err, pan, t := c18VerifyAt(sg, k.rr, s.out)
										if t != t0 {
											moved = true
											return
										}
										if rs.InWindow(s.loc, uint32(t)) != want {
											r.Fail("internal/window", "%s: reference window disagrees with the construction", id)
										}
										switch {
										case pan != nil:
											r.Fail("verify/panic-untampered", "%s: SIG.Verify (%s SIG) panicked: %v; buffer %s", id, which, pan, c18Hex(s.out))
										case want && err != nil && s.refOK:
											r.Fail(c18VerifyKey(len(m.Extra)), "%s: now=%d inception=%d expiration=%d: SIG.Verify (%s SIG) of the untampered Sign output = %v although the reference verifies it; %d additional records before signing; buffer %s", id, t, inc, exp, which, err, len(m.Extra), c18Hex(s.out))
										case !want && err == nil:
											r.Fail("verify/outside-window-accepted", "%s: now=%d inception=%d expiration=%d: SIG.Verify (%s SIG) = nil outside the validity window", id, t, inc, exp, which)
										}
									}
									check("signer's", s.sig)
									if s.wireSig != nil && !moved {
										check("unpacked", s.wireSig)
									}
									if !moved {
										r.Count("verifications", 2)
										return
									}
									if attempt > 50 {
										r.Fail("internal/unstable-clock", "%s: no stable second in 50 attempts", id)
										return
									}
								}
							})
						}
					}
				}
			}
		})

	c.Space("savings", "Compress=true, question N A + answer N A with owner N of wire length 3..120 (compression saves len-2 octets) × {ED25519, ECDSAP256SHA256}: Sign must succeed whatever the saving (locates the exact threshold of a buffer-size failure); non-trivial: the compressed message is shorter than the uncompressed one", true,
		func(emit func(func(*fw.R))) {
			for _, a := range []c18Alg{c18Algs[5], c18Algs[3]} {
				for L := 3; L <= 120; L++ {
					a, L := a, L
					emit(func(r *fw.R) {
						// name of wire length L: labels of ≤ 50 octets, then the root
						var labels []string
						for rest := L - 1; rest > 0; {
							n := rest - 1
							if n > 50 {
								n = 50
							}
							if rest-(n+1) == 1 {
								n--
							}
							labels = append(labels, strings.Repeat("n", n))
							rest -= n + 1
						}
						name := strings.Join(labels, ".") + "."
						k := c18LoadKey(a.file)
						m := new(dns.Msg)
						m.SetQuestion(name, dns.TypeA)
						m.Id = 0xc018
						m.Response = true
						m.Answer = []dns.RR{&dns.A{Hdr: dns.RR_Header{Name: name, Rrtype: dns.TypeA, Class: dns.ClassINET, Ttl: 60}, A: []byte{192, 0, 2, 1}}}
						m.Compress = true
						if cb, err := m.Pack(); err == nil && len(cb) == 12+L+4+2+10+4 {
							r.Nontrivial()
						}
						id := fmt.Sprintf("question+answer owner %q (wire length %d, compression saves %d octets) Compress=true alg=%s", name, L, L-2, a.name)
						s := c18SignAndCheck(r, id, a, k, m, c18FixedInception, c18FixedExpiration)
						if s == nil {
							return
						}
						if err, pan := c18Verify(s.sig, k.rr, s.out); (err != nil && s.refOK) || pan != nil {
							r.Fail("verify/untampered-rejected", "%s: SIG.Verify of the untampered Sign output = %v (panic %v)", id, err, pan)
						}
						r.Sample(func() any { return id })
					})
				}
			}
		})

	c.Space("tamper", "messages {"+c18MsgNames()+"} × Compress × algorithms, fixed window 2023..2036, split in chunks of "+fmt.Sprint(c18ChunkW)+" signed octets: single-bit flips of the original message and SIG RDATA octets (bound in assumptions), every truncation length ≥ 12, header-count faults, every octet of the signer-name region set to {00,3f,40,80,c0,ff}; and — with the no-panic clause as the only oracle, since RFC 2931 does not sign them — every bit of the SIG record's own header octets and its RDLENGTH set to every value 0..true+4 and the extremes; SIG.Verify with the receiver's SIG must return an error and never panic; non-trivial: the untampered buffer verified and ≥ 1 fault was applied", true,
		func(emit func(func(*fw.R))) {
			for _, ms := range c18Msgs {
				for _, compress := range []bool{false, true} {
					// number of chunks: packed length + an upper bound of the SIG RR (11+18+name+signature ≤ 200)
					pm := ms.build()
					pm.Compress = compress
					pb, err := pm.Pack()
					if err != nil {
						panic(err)
					}
					chunks := (len(pb) + 200 + c18ChunkW - 1) / c18ChunkW
					for _, a := range c18Algs {
						if ms.name == "big60k" && !a.quickBig && !c.Thorough {
							continue
						}
						for chunk := 0; chunk < chunks; chunk++ {
							ms, compress, a, chunk := ms, compress, a, chunk
							emit(func(r *fw.R) { c18Tamper(r, ms, compress, a, chunk, chunks) })
						}
					}
				}
			}
		})

	c.Space("keys", "messages {query, reply3} × Compress × 6 algorithms × keys {matching; same owner+algorithm but other key material; each of the 5 other algorithms' keys under the same owner; matching material under 5 other owner names; SIG signed with another signer name; a signer name with the octets [ ] \\ @ ^ _ ` 1 - against the key under that name and under each name that differs in one octet by 0x20} and owner-name case variants {lower, upper, swapped}: error unless key and name match (case-insensitively); non-trivial: the matching key verified", true,
		func(emit func(func(*fw.R))) {
			for _, ms := range c18Msgs {
				if ms.name != "query" && ms.name != "reply3" {
					continue
				}
				for _, compress := range []bool{false, true} {
					for _, a := range c18Algs {
						ms, compress, a := ms, compress, a
						emit(func(r *fw.R) { c18Keys(r, ms, compress, a) })
					}
				}
			}
		})

	c.Space("reuse", "one SIG value used for two successive Sign calls (as TestSIG0 itself does) × 6 algorithms × {same message, another message}: the second output must be as good as the first; non-trivial: the first Sign succeeded", true,
		func(emit func(func(*fw.R))) {
			for _, a := range c18Algs {
				for _, other := range []bool{false, true} {
					a, other := a, other
					emit(func(r *fw.R) {
						k := c18LoadKey(a.file)
						id := fmt.Sprintf("alg=%s second message %s", a.name, map[bool]string{false: "the same query", true: "header-only"}[other])
						sig := c18NewSIG(a, k, k.rr.Hdr.Name, c18FixedInception, c18FixedExpiration)
						m1 := c18Query()
						if _, err := sig.Sign(k.priv, m1); err != nil {
							return // reported by space sign
						}
						r.Nontrivial()
						m2 := c18Query()
						if other {
							m2 = c18Msgs[1].build()
						}
						out, err := sig.Sign(k.priv, m2)
						if err != nil {
							r.Fail("sign/reused-sig-rr", "%s: second Sign with the same SIG value returned %v", id, err)
							return
						}
						_, rerr := rs.Verify(out, k.ref, k.ownerWire)
						verr, pan := c18Verify(sig, k.rr, out)
						if rerr != nil || verr != nil || pan != nil {
							p2, _ := m2.Pack()
							r.Fail("sign/reused-sig-rr", "%s: second Sign with the same SIG value gives a buffer that does not verify: reference: %v; SIG.Verify: %v (panic %v); output length %d, want %d; output %s", id, rerr, verr, pan, len(out), len(p2)+11+18+len(k.ownerWire)+a.sigLen, c18Hex(out))
						}
						r.Sample(func() any { return id })
					})
				}
			}
		})
	c.Space("key-struct-reuse", "per algorithm: the fixed key A and the alternative key B of the same owner; one KEY struct, every sequence of 3 steps over {material A, material B} × {message signed with A, with B}; before each step the struct's PublicKey is assigned, then SIG.Verify is called: nil exactly when material and signature belong together, whatever the struct was used for before; non-trivial: all", true,
		func(emit func(func(*fw.R))) {
			for _, a := range c18Algs {
				a := a
				emit(func(r *fw.R) {
					r.Nontrivial()
					ks := [2]*c18Key{c18LoadKey(a.file), c18LoadKey(a.file + "-alt")}
					var outs [2][]byte
					var sigs [2]*dns.SIG
					for i, k := range ks {
						sigs[i] = c18NewSIG(a, k, ks[0].rr.Hdr.Name, c18FixedInception, c18FixedExpiration)
						out, err := sigs[i].Sign(k.priv, c18Query())
						if err != nil {
							return // reported by space sign
						}
						outs[i] = out
					}
					for seq := 0; seq < 64; seq++ {
						key := dns.Copy(ks[0].rr).(*dns.KEY)
						var trace []string
						for step := 0; step < 3; step++ {
							mat, sg := (seq>>(2*step))&1, (seq>>(2*step+1))&1
							key.PublicKey = ks[mat].rr.PublicKey
							err, pan := c18Verify(sigs[sg], key, outs[sg])
							trace = append(trace, fmt.Sprintf("material %d + message signed by key %d → %v", mat, sg, err))
							if pan != nil || (err == nil) != (mat == sg) {
								r.Fail("verify/key-struct-reuse", "alg=%s: one KEY struct, PublicKey assigned before each Verify: step %d gives the wrong verdict (panic %v): %v", a.name, step+1, pan, trace)
								break
							}
						}
					}
					r.Count("sequences", 64)
				})
			}
		})
	c18ShortSpace(c)
}

func c18MsgNames() string {
	var n []string
	for _, m := range c18Msgs {
		n = append(n, m.name)
	}
	return strings.Join(n, ", ")
}

// c18Tamper runs the fault sweep over the signed octets [chunk*W, (chunk+1)*W) of one signed message.
func c18Tamper(r *fw.R, ms c18Msg, compress bool, a c18Alg, chunk, chunks int) {
	id := fmt.Sprintf("msg=%s Compress=%v alg=%s", ms.name, compress, a.name)
	k := c18LoadKey(a.file)
	m := ms.build()
	m.Compress = compress
	inc, exp := uint32(c18FixedInception), uint32(c18FixedExpiration)
	// Sign/Verify failures of the untampered message are also reported by space "sign" (same message);
	// they are recorded here under the same keys.
	s := c18SignAndCheck(r, id, a, k, m, inc, exp)
	if s == nil || s.wireSig == nil {
		r.Count("skipped: Sign failed (reported)", 1)
		return
	}
	if err, pan := c18Verify(s.wireSig, k.rr, s.out); err != nil || pan != nil {
		if s.refOK || pan != nil {
			r.Fail(c18VerifyKey(len(m.Extra)), "%s: SIG.Verify of the untampered Sign output = %v (panic %v) although the reference verifies it; %d additional records before signing", id, err, pan, len(m.Extra))
		}
		r.Count("skipped: untampered Verify failed (reported)", 1)
		return
	}
	buf := append([]byte(nil), s.out...)
	msgLen := s.loc.RRStart // length of the original message
	rdStart := s.loc.RDStart
	allBits := 1024
	if r.Thorough() {
		allBits = 8192
	}
	lo, hi := chunk*c18ChunkW, (chunk+1)*c18ChunkW
	if hi > len(buf) {
		hi = len(buf)
	}
	if chunk == chunks-1 && hi < len(buf) {
		r.Fail("internal/chunks", "%s: %d chunks of %d do not cover %d signed octets", id, chunks, c18ChunkW, len(buf))
		return
	}
	faults := int64(0)

	// judge: the receiver's view of a tampered buffer
	judge := func(kind, key string, b []byte, describe func() string) {
		faults++
		err, pan := c18Verify(s.wireSig, k.rr, b)
		if pan != nil {
			r.Fail("verify/panic-"+kind, "%s: %s: SIG.Verify panicked: %v; untampered buffer %s", id, describe(), pan, c18Hex(s.out))
			return
		}
		if err == nil && key != "" {
			r.Fail(key, "%s: %s: SIG.Verify = nil; untampered buffer %s", id, describe(), c18Hex(s.out))
		}
		if kind == "truncated" {
			return
		}
		// what a receiver that unpacks the tampered buffer would verify with
		m2 := new(dns.Msg)
		// (counters only for algorithms with deterministic signatures: whether a structurally damaged
		// buffer still unpacks can depend on the signature octets, which crypto/ecdsa randomizes;
		// with the fixed window every other octet is the same in every run)
		det := a.num != dns.ECDSAP256SHA256 && a.num != dns.ECDSAP384SHA384
		if m2.Unpack(b) != nil || len(m2.Extra) == 0 {
			if det {
				r.Count("tampered buffers without an unpackable SIG (RSA, Ed25519 cases)", 1)
			}
			return
		}
		ws, ok := m2.Extra[len(m2.Extra)-1].(*dns.SIG)
		if !ok {
			if det {
				r.Count("tampered buffers without an unpackable SIG (RSA, Ed25519 cases)", 1)
			}
			return
		}
		if reflect.DeepEqual(ws, s.wireSig) {
			return // the identical call was just made
		}
		if det {
			r.Count("verifications with a different SIG unpacked from the tampered buffer (RSA, Ed25519 cases)", 1)
		}
		err, pan = c18Verify(ws, k.rr, b)
		if pan != nil {
			r.Fail("verify/panic-"+kind, "%s: %s, SIG unpacked from the tampered buffer: SIG.Verify panicked: %v; untampered buffer %s", id, describe(), pan, c18Hex(s.out))
		} else if err == nil && key != "" {
			r.Fail(key+"/unpacked-sig", "%s: %s, SIG unpacked from the tampered buffer: SIG.Verify = nil; untampered buffer %s", id, describe(), c18Hex(s.out))
		}
	}

	for off := lo; off < hi; off++ {
		if off >= msgLen && off < msgLen+11 {
			continue // the SIG RR's own header
		}
		mask := byte(0xff)
		if msgLen > allBits && off >= 64 && off < msgLen-64 {
			mask = 1 << (off & 7)
		}
		region := "message"
		if off >= rdStart {
			region = "sig-rdata"
		}
		for bit := 0; bit < 8; bit++ {
			if mask&(1<<bit) == 0 {
				continue
			}
			buf[off] ^= 1 << bit
			off, bit := off, bit
			judge("flip", "verify/flip-accepted/"+region, buf, func() string {
				return fmt.Sprintf("bit %d of octet %d (%s; message octets 0..%d, SIG RDATA from %d, signature from %d) flipped", bit, off, region, msgLen-1, rdStart, s.loc.SigOff)
			})
			buf[off] ^= 1 << bit
		}
	}
	if !bytes.Equal(buf, s.out) {
		r.Fail("internal/restore", "%s: sweep did not restore the buffer", id)
	}
	for n := lo; n < hi; n++ {
		if n < 12 {
			continue
		}
		n := n
		judge("truncated", "verify/truncated-accepted", s.out[:n:n], func() string { return fmt.Sprintf("truncated to %d of %d octets", n, len(s.out)) })
	}
	if chunk == 0 {
		for f := 0; f < 4; f++ {
			v := binary.BigEndian.Uint16(s.out[4+2*f:])
			seen := map[uint16]bool{v: true}
			for _, nv := range []uint16{0, 1, 0xffff, v - 1, v + 1} {
				if seen[nv] {
					continue
				}
				seen[nv] = true
				binary.BigEndian.PutUint16(buf[4+2*f:], nv)
				f, nv := f, nv
				judge("count", "verify/count-fault-accepted", buf, func() string {
					return fmt.Sprintf("%s set to %d (was %d)", []string{"QDCOUNT", "ANCOUNT", "NSCOUNT", "ARCOUNT"}[f], nv, v)
				})
				binary.BigEndian.PutUint16(buf[4+2*f:], v)
			}
		}
	}
	if chunk == 0 {
		// The SIG record's own NAME / TYPE / CLASS / TTL / RDLENGTH octets are not part of what SIG(0) signs (RFC 2931:
		// the SIG RDATA and the message), so a buffer altered there may still verify; but it is malformed input of at
		// least header size and Verify has to return — no panic — whatever they say. Every bit of those 11 octets, and
		// the RDLENGTH set to every value up to a few beyond the true one and to the usual extremes (a length smaller
		// than the fixed SIG fields plus signer name is where a verifier that trusts it slices backwards).
		for off := msgLen; off < msgLen+11 && off < len(buf); off++ {
			for bit := 0; bit < 8; bit++ {
				buf[off] ^= 1 << bit
				off, bit := off, bit
				judge("sig-header", "", buf, func() string {
					return fmt.Sprintf("bit %d of octet %d (header of the SIG record, which starts at %d) flipped", bit, off, msgLen)
				})
				buf[off] ^= 1 << bit
			}
		}
		if rdStart-2 >= msgLen && rdStart <= len(buf) {
			v := binary.BigEndian.Uint16(buf[rdStart-2:])
			vals := []uint16{0x7fff, 0x8000, 0xfffe, 0xffff, uint16(len(buf)), uint16(len(buf) - rdStart + 1), uint16(len(buf) - rdStart - 1)}
			for nv := 0; nv <= int(v)+4 && nv <= 0xffff; nv++ {
				vals = append(vals, uint16(nv))
			}
			for _, nv := range vals {
				if nv == v {
					continue
				}
				binary.BigEndian.PutUint16(buf[rdStart-2:], nv)
				nv := nv
				judge("sig-rdlength", "", buf, func() string { return fmt.Sprintf("RDLENGTH of the SIG record set to %d (was %d)", nv, v) })
			}
			binary.BigEndian.PutUint16(buf[rdStart-2:], v)
		}
		// structural octets of the SIG RDATA (the signer name's length octets and what follows them) set to values a
		// single bit flip does not reach: pointer, over-long label, end of name
		for off := rdStart + 18; off < s.loc.SigOff+2 && off < len(buf); off++ {
			old := buf[off]
			for _, nv := range []byte{0x00, 0x3f, 0x40, 0x80, 0xc0, 0xff} {
				if nv == old {
					continue
				}
				buf[off] = nv
				off, nv := off, nv
				judge("signer-octet", "verify/signer-octet-accepted", buf, func() string {
					return fmt.Sprintf("octet %d (signer name region of the SIG RDATA, which starts at %d) set to %#02x (was %#02x)", off, rdStart, nv, old)
				})
			}
			buf[off] = old
		}
		if !bytes.Equal(buf, s.out) {
			r.Fail("internal/restore", "%s: malformed-input sweep did not restore the buffer", id)
		}
	}
	if faults > 0 {
		r.Nontrivial()
	}
	r.Count("faults", faults)
	r.Sample(func() any {
		return fmt.Sprintf("%s chunk %d: signed octets %d..%d of %d (message %d, SIG RDATA from %d), %d faults", id, chunk, lo, hi-1, len(buf), msgLen, rdStart, faults)
	})
}

func c18SwapCase(s string) string {
	b := []byte(s)
	for i, c := range b {
		switch {
		case c >= 'a' && c <= 'z':
			b[i] = c - 32
		case c >= 'A' && c <= 'Z':
			b[i] = c + 32
		}
	}
	return string(b)
}

func c18Keys(r *fw.R, ms c18Msg, compress bool, a c18Alg) {
	id := fmt.Sprintf("msg=%s Compress=%v alg=%s", ms.name, compress, a.name)
	k := c18LoadKey(a.file)
	m := ms.build()
	m.Compress = compress
	inc, exp := uint32(c18FixedInception), uint32(c18FixedExpiration)
	s := c18SignAndCheck(r, id, a, k, m, inc, exp)
	if s == nil || s.wireSig == nil {
		return
	}
	withName := func(src *dns.KEY, name string) *dns.KEY {
		c := dns.Copy(src).(*dns.KEY)
		c.Hdr.Name = name
		return c
	}
	try := func(what string, key *dns.KEY, refKey *rs.Key, refOwner []byte, buf []byte, sg *dns.SIG) {
		_, rerr := rs.Verify(buf, refKey, refOwner)
		err, pan := c18Verify(sg, key, buf)
		r.Count("verifications", 1)
		switch {
		case pan != nil:
			r.Fail("verify/panic-key", "%s: %s: SIG.Verify panicked: %v", id, what, pan)
		case rerr == nil && err != nil:
			r.Fail("verify/matching-key-rejected", "%s: %s (key owner %q, signer %q): SIG.Verify = %v, the reference verifies", id, what, key.Hdr.Name, sg.SignerName, err)
		case rerr != nil && err == nil:
			r.Fail("verify/wrong-key-accepted", "%s: %s (key owner %q, signer %q): SIG.Verify = nil, the reference says: %v; buffer %s", id, what, key.Hdr.Name, sg.SignerName, rerr, c18Hex(buf))
		}
	}
	wire := func(name string) []byte {
		p := rn.Parse(name)
		if !p.OK {
			panic("bad name " + name)
		}
		return rn.Wire(p.Labels)
	}
	own := k.rr.Hdr.Name
	for _, sg := range []*dns.SIG{s.wireSig, s.sig} {
		// matching key
		if !s.refOK {
			return // reported as sign/reference-rejects
		}
		if err, _ := c18Verify(sg, k.rr, s.out); err == nil {
			r.Nontrivial()
		}
		try("matching key", k.rr, k.ref, k.ownerWire, s.out, sg)
		// case variants of the owner name: same name (RFC 4343)
		for _, n := range []string{strings.ToLower(own), strings.ToUpper(own), c18SwapCase(own)} {
			try("matching key, owner name in other case", withName(k.rr, n), k.ref, wire(n), s.out, sg)
		}
		// other key material, same owner and algorithm
		alt := c18LoadKey(a.file + "-alt")
		try("other key of the same algorithm and owner", alt.rr, alt.ref, alt.ownerWire, s.out, sg)
		// keys of the other algorithms, renamed to this owner
		for _, b := range c18Algs {
			if b.num == a.num {
				continue
			}
			ok := c18LoadKey(b.file)
			try("key of algorithm "+b.name+" under the signer's name", withName(ok.rr, own), ok.ref, k.ownerWire, s.out, sg)
		}
		// the right key material under another owner name
		for _, n := range []string{"other.example.", "Keys.Example.", "x." + own, ".", strings.Replace(own, "Sig0", "Sig1", 1)} {
			try("matching key material under another owner name", withName(k.rr, n), k.ref, wire(n), s.out, sg)
		}
	}
	// a SIG made with another signer name, verified with the real key
	other := c18NewSIG(a, k, "other.example.", inc, exp)
	if out2, err := other.Sign(k.priv, m); err == nil {
		try("SIG signed with signer name other.example., verified with the key", k.rr, k.ref, k.ownerWire, out2, other)
	} else {
		r.Fail("sign/error", "%s: Sign with signer name other.example.: %v", id, err)
	}
	// a signer name with non-letter octets that have a partner 0x20 away ([ ] \ @ ^ _ ` digits, hyphen):
	// the key under exactly that name verifies, under the name with any single octet of the first
	// label xor 0x20 it verifies only if that octet is a letter (RFC 4343 folds letters only)
	special := [][]byte{[]byte("k[1]\\@^_`-z"), []byte("sig0"), []byte("example")}
	// spelled as the library's own unpacker spells them (plumbing): Verify compares presentation strings
	libSpelling := func(labels [][]byte) string {
		n, _, err := dns.UnpackDomainName(rn.Wire(labels), 0)
		if err != nil {
			panic(err)
		}
		return n
	}
	spName := libSpelling(special)
	sp := c18NewSIG(a, k, spName, inc, exp)
	if out3, err := sp.Sign(k.priv, m); err == nil {
		try("SIG signed with signer name "+spName+", key under that name", withName(k.rr, spName), k.ref, rn.Wire(special), out3, sp)
		// the same key owner with every special octet written as \DDD: the same name in another spelling
		if alt := rn.Escape(special, true); alt != spName {
			_, rerr := rs.Verify(out3, k.ref, rn.Wire(special))
			if err, _ := c18Verify(sp, withName(k.rr, alt), out3); rerr == nil && err != nil {
				r.Fail("verify/matching-key-rejected/other-spelling", "%s: signer %q, key owner %q (the same name, @ written as \\064): SIG.Verify = %v, the reference verifies", id, spName, alt, err)
			}
		}
		for i := range special[0] {
			v := [][]byte{append([]byte(nil), special[0]...), special[1], special[2]}
			v[0][i] ^= 0x20
			vn := libSpelling(v)
			try(fmt.Sprintf("SIG signed with signer name %s, key under %s (octet %d of the first label xor 0x20)", spName, vn, i), withName(k.rr, vn), k.ref, rn.Wire(v), out3, sp)
		}
	} else {
		r.Fail("sign/error", "%s: Sign with signer name %s: %v", id, spName, err)
	}
	r.Sample(func() any { return id })
}
