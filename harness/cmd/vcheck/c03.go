package main

import (
	"bytes"
	"fmt"
	"strings"

	"github.com/miekg/dns"
	"verif/harness/fw"
	rn "verif/harness/ref/name"
)

// C03 — domain names: text ⇄ wire, 63/255 limits (DESIGN §5 C03).

func init() {
	fw.Register(&fw.Check{Prop: "C03", Level: "exploration",
		Assume: []string{
			"reference model ref/name (RFC 1035 §2.3.4, §3.1, §5.1) is the oracle",
			"spellings \\DDD with DDD>255 have no wire form: only IsDomainName⇔PackDomainName is compared for them",
			"IsDomainName⇔PackDomainName is only required of fully-qualified strings, as the property states",
		},
		Spaces: c03Spaces})
}

func packName(s string) ([]byte, error) {
	buf := make([]byte, 600)
	off, err := dns.PackDomainName(s, buf, 0, nil, false)
	if err != nil {
		return nil, err
	}
	return buf[:off], nil
}

// c03Wire checks one valid wire name: unpack → text → pack is the identity, the text denotes the
// labels under the reference reader, IsDomainName accepts it.
func c03Wire(r *fw.R, labels [][]byte) {
	w := rn.Wire(labels)
	s, off, err := dns.UnpackDomainName(w, 0)
	if err != nil || off != len(w) {
		r.Fail("unpack-valid-wire", "UnpackDomainName(%x) = %q, %d, %v; want success, off %d", w, s, off, err, len(w))
		return
	}
	p := rn.Parse(s)
	if !p.OK || !p.FQDN || !rn.Equal(p.Labels, labels) {
		r.Fail("text-ambiguous", "wire %x unpacked to %q, which the reference reader reads as labels %q ok=%v fqdn=%v", w, s, p.Labels, p.OK, p.FQDN)
	}
	// "\DDD for non-printable octets": the presentation form is printable ASCII (and the escaped blank) throughout (an octet outside
	// 0x20..0x7e can then only have been written as \DDD, since the reference reader gave the labels back)
	for i := 0; i < len(s); i++ {
		if s[i] < 0x20 || s[i] > 0x7e { // a blank is a special character: it comes as backslash + blank
			r.Fail("nonprintable-raw", "wire %x unpacked to %q: octet %#02x stands raw in the text instead of as \\DDD", w, s, s[i])
			break
		}
	}
	if ns := dns.Name(s).String(); true {
		for i := 0; i < len(ns); i++ {
			if ns[i] < 0x20 || ns[i] > 0x7e {
				r.Fail("nonprintable-raw/name-string", "Name(%q).String() = %q: octet %#02x stands raw in the text", s, ns, ns[i])
				break
			}
		}
	}
	back, err := packName(s)
	if err != nil || !bytes.Equal(back, w) {
		r.Fail("wire-roundtrip", "wire %x → %q → PackDomainName = %x, %v", w, s, back, err)
	}
	if _, ok := dns.IsDomainName(s); !ok {
		r.Fail("isdomainname-rejects-valid", "IsDomainName(%q) = false for valid wire name %x", s, w)
	}
	if !dns.IsFqdn(s) {
		r.Fail("unpacked-not-fqdn", "IsFqdn(%q) = false", s)
	}
	if ns := dns.Name(s).String(); ns != s {
		// Name.String may re-spell, but must denote the same labels.
		q := rn.Parse(ns)
		if !q.OK || !rn.Equal(q.Labels, labels) {
			r.Fail("name-string", "Name(%q).String() = %q denotes %q", s, ns, q.Labels)
		}
	}
}

// c03Text checks one presentation string against the reference.
func c03Text(r *fw.R, s string) {
	p := rn.Parse(s)
	if got := dns.IsFqdn(s); got != p.FQDN {
		r.Fail("isfqdn", "IsFqdn(%q) = %v, reference %v", s, got, p.FQDN)
		return
	}
	packed, perr := packName(s)
	if !p.FQDN {
		if perr == nil && s != "" {
			r.Fail("pack-accepts-nonfqdn", "PackDomainName(%q) accepted a name that is not fully qualified: %x", s, packed)
		}
		return
	}
	valid := p.OK && rn.ValidWire(p.Labels)
	_, isok := dns.IsDomainName(s)
	if valid {
		r.Nontrivial()
	}
	if isok != (perr == nil) {
		r.Fail(c03limKey("isdomainname-vs-pack", p), "IsDomainName(%q).ok = %v but PackDomainName err = %v (reference valid=%v, wire length %d)", clip(s), isok, perr, valid, rn.WireLen(p.Labels))
	}
	if isok != valid {
		r.Fail(c03limKey("isdomainname-vs-reference", p), "IsDomainName(%q).ok = %v, reference valid = %v (labels %d, wire length %d)", clip(s), isok, valid, len(p.Labels), rn.WireLen(p.Labels))
	}
	if (perr == nil) != valid {
		r.Fail(c03limKey("pack-vs-reference", p), "PackDomainName(%q) err = %v, reference valid = %v (labels %d, wire length %d)", clip(s), perr, valid, len(p.Labels), rn.WireLen(p.Labels))
	}
	if perr == nil {
		if valid && !p.BigDDD && !bytes.Equal(packed, rn.Wire(p.Labels)) {
			r.Fail("pack-octets", "PackDomainName(%q) = %x, reference %x", clip(s), packed, rn.Wire(p.Labels))
		}
		// the library must never emit a name it would itself reject
		if _, _, err := dns.UnpackDomainName(packed, 0); err != nil {
			r.Fail(c03limKey("emits-name-it-rejects", p), "PackDomainName(%q) produced %d octets that UnpackDomainName rejects: %v", clip(s), len(packed), err)
		}
	}
}

// failure class: which limit is involved (so that a known finding about one does not hide another)
func c03limKey(base string, p rn.Parsed) string {
	wl := rn.WireLen(p.Labels)
	long := false
	for _, l := range p.Labels {
		if len(l) > 63 {
			long = true
		}
	}
	switch {
	case !p.OK:
		return base + "/syntax"
	case long:
		return base + "/label>63"
	case wl > 255:
		return base + "/wire>255"
	}
	return base + "/within-limits"
}

func clip(s string) string {
	if len(s) > 700 {
		return s[:300] + "…" + s[len(s)-300:] + fmt.Sprintf(" (%d octets)", len(s))
	}
	return s
}

func c03Spaces(c *fw.Ctx) {
	nb := []byte{'a', '0', '9', '\\', '.'}
	c.Space("octets", "all labels of 1 and 2 arbitrary octets (256+65536) and all 3-octet labels n·b·n' with b any octet and n,n' ∈ {a,0,9,\\,.}, each as the only label and as the first of two; non-trivial: label needs an escape", true,
		func(emit func(func(*fw.R))) {
			one := func(l []byte) {
				l = append([]byte(nil), l...)
				emit(func(r *fw.R) {
					for _, b := range l {
						if b < '!' || b > '~' || strings.IndexByte(`.\"();@' `, b) >= 0 {
							r.Nontrivial()
						}
					}
					c03Wire(r, [][]byte{l})
					c03Wire(r, [][]byte{l, []byte("x")})
					c03Wire(r, [][]byte{[]byte("x"), l})
					r.Sample(func() any { return fmt.Sprintf("label %x", l) })
				})
			}
			for a := 0; a < 256; a++ {
				one([]byte{byte(a)})
			}
			for a := 0; a < 256; a++ {
				for b := 0; b < 256; b++ {
					one([]byte{byte(a), byte(b)})
				}
			}
			for b := 0; b < 256; b++ {
				for _, n1 := range nb {
					for _, n2 := range nb {
						one([]byte{n1, byte(b), n2})
					}
				}
			}
		})

	lens := []int{1, 2, 30, 31, 61, 62, 63, 64, 65}
	maxLabels := 8
	if c.Thorough {
		maxLabels = 10
	}
	c.Space("limits", fmt.Sprintf("all label-length sequences over %v with ≤ %d labels and wire length 248..262, plus all-1-octet-label names of 120..130 labels; each in 13 spellings (plain; escaped dot / \\DDD / backslash opening the first, the middle, the last or every label); non-trivial: within limits", lens, maxLabels), true,
		func(emit func(func(*fw.R))) {
			var seq []int
			var rec func(sum int)
			one := func(seq []int) {
				seq = append([]int(nil), seq...)
				emit(func(r *fw.R) {
					// variant 0: plain; otherwise escape spelling (1..3) × which labels carry it (first, middle, last, all):
					// an escape *before* a label at the limit is what a length computation with a running
					// escape offset gets wrong
					for variant := 0; variant < 13; variant++ {
						spelling, where := 0, 0
						if variant > 0 {
							spelling, where = (variant-1)%3+1, (variant-1)/3
						}
						var sb strings.Builder
						for i, n := range seq {
							esc := false
							switch {
							case variant == 0:
							case where == 0:
								esc = i == 0
							case where == 1:
								esc = i == len(seq)/2
							case where == 2:
								esc = i == len(seq)-1
							default:
								esc = true
							}
							if esc {
								// n wire octets, the first one spelled with an escape
								switch spelling {
								case 1:
									sb.WriteString(`\.`)
								case 2:
									sb.WriteString(`\000`)
								case 3:
									sb.WriteString(`\\`)
								}
								sb.WriteString(strings.Repeat("a", n-1))
							} else {
								sb.WriteString(strings.Repeat("a", n))
							}
							sb.WriteByte('.')
						}
						c03Text(r, sb.String())
						if variant == 0 {
							r.Sample(func() any { return fmt.Sprintf("label lengths %v", seq) })
						}
					}
					// valid ones also from the wire side
					ok := true
					var labels [][]byte
					for _, n := range seq {
						if n > 63 {
							ok = false
						}
						labels = append(labels, bytes.Repeat([]byte{'a'}, n))
					}
					if ok && rn.WireLen(labels) <= 255 {
						labels[len(labels)-1][0] = '.'
						c03Wire(r, labels)
					}
				})
			}
			rec = func(sum int) { // sum = wire length including root
				if sum >= 248 && sum <= 262 && len(seq) > 0 {
					one(seq)
				}
				if len(seq) == maxLabels {
					return
				}
				for _, n := range lens {
					if sum+n+1 > 262 {
						continue
					}
					seq = append(seq, n)
					rec(sum + n + 1)
					seq = seq[:len(seq)-1]
				}
			}
			rec(1)
			for n := 120; n <= 130; n++ {
				s := make([]int, n)
				for i := range s {
					s[i] = 1
				}
				one(s)
				s[0] = 2
				one(s)
			}
		})

	c.Space("via-pointer", "PackDomainName with a compression map: a base name of 150..253 wire octets (its octets plain, backslashes, dots or NULs — the last three need escapes in the text —, also with the first label of one kind and the others of another) is packed first, then one more label of 1..63 octets in front of it (total 245..262): the second call must succeed exactly when the expanded name is ≤ 255 octets, and what it emits must be accepted by UnpackDomainName with the right labels; non-trivial: total ≥ 250", true,
		func(emit func(func(*fw.R))) {
			for total := 245; total <= 262; total++ {
				for front := 1; front <= 63; front++ {
					// octets of the base name's first label and of its other labels: plain, and three kinds that need an escape in the
				// text; mixed, so that the escapes lie only behind (or only in) the first label of what the pointer replaces
				for _, fill := range [][2]byte{{'b', 'b'}, {'\\', '\\'}, {'.', '.'}, {0, 0}, {'b', 0}, {'b', '\\'}, {'b', '.'}, {0, 'b'}, {'.', 'b'}} {
						total, front, fill := total, front, fill
						emit(func(r *fw.R) {
							baseLen := total - (front + 1) // wire length of the base name incl. root
							if baseLen < 3 || baseLen > 255 {
								return
							}
							if total >= 250 {
								r.Nontrivial()
							}
							var base [][]byte
							left := baseLen - 1
							for left > 0 {
								n := 64
								if left < n {
									n = left
								}
								if n == 1 { // cannot have a zero-length label: borrow one octet
									return
								}
								f := fill[1]
							if len(base) == 0 {
								f = fill[0]
							}
							base = append(base, bytes.Repeat([]byte{f}, n-1))
								left -= n
							}
							long := append([][]byte{bytes.Repeat([]byte{'f'}, front)}, base...)
							bs, ls := rn.Escape(base, true), rn.Escape(long, true)
							buf := make([]byte, 1024)
							cm := map[string]int{}
							off, err := dns.PackDomainName(bs, buf, 0, cm, true)
							if err != nil {
								r.Fail("via-pointer/base-rejected", "PackDomainName(%d-octet base name) = %v", baseLen, err)
								return
							}
							off2, err := dns.PackDomainName(ls, buf, off, cm, true)
							valid := rn.WireLen(long) <= 255
							if (err == nil) != valid {
								r.Fail("via-pointer/limit", "PackDomainName of a name that expands to %d wire octets (label of %d in front of a compressible %d-octet name) = %v; valid = %v", total, front, baseLen, err, valid)
								return
							}
							if err == nil {
								got, _, uerr := dns.UnpackDomainName(buf[:off2], off)
								if uerr != nil {
									r.Fail("via-pointer/emits-name-it-rejects", "the packer emitted (with a pointer) a name of %d wire octets that UnpackDomainName rejects: %v", total, uerr)
								} else if p := rn.Parse(got); !rn.Equal(p.Labels, long) {
									r.Fail("via-pointer/wrong-name", "unpacked %q", clip(got))
								}
							}
						})
					}
				}
			}
		})

	// the last two are raw octets ≥ 0x80: a two-octet UTF-8 letter (text functions that walk runes see one
	// rune where the name has two octets) and an octet that is not valid UTF-8
	toks := []string{"a", "A", "0", ".", `\\`, `\.`, `\046`, `\04`, `\`, "@", `\300`, "\xc3\xa9", "\xff"}
	maxTok := 6
	if c.Thorough {
		maxTok = 7
	}
	// A caller of the exported PackDomainName keeps one compression map for a message. A name that is refused must
	// leave nothing behind that makes a later name pass: "judged valid by IsDomainName exactly when PackDomainName
	// accepts it" holds for the second call as for the first.
	c.Space("after-failed-pack", "PackDomainName with one compression map for two names: a refused name (empty label, 64-octet label, 256 wire octets — each behind 1..3 good labels) and then every name 'x.' + tail over the tails of the refused one: the second call accepts exactly what IsDomainName accepts, and what it emits unpacks to the name it was given; non-trivial: the tail is itself refused by IsDomainName", true,
		func(emit func(func(*fw.R))) {
			long := strings.Repeat("a", 64)
			l63 := strings.Repeat("b", 63)
			bads := []string{"a.b..c.", "a..c.", "a.b.c..d.", "a.b." + long + ".", "a." + long + ".c.", "a.b.c." + long + ".d.",
				"a.b." + l63 + "." + l63 + "." + l63 + "." + strings.Repeat("c", 59) + ".", "a." + l63 + "." + l63 + "." + l63 + "." + strings.Repeat("c", 61) + ".", `a.b\..c..d.`}
			for _, bad := range bads {
				bad := bad
				emit(func(r *fw.R) {
					p := rn.Parse(bad)
					_ = p
					starts := rn.LabelStarts(bad)
					for _, st := range starts[1:] {
						tail := bad[st:]
						second := "x." + tail
						buf := make([]byte, 2048)
						comp := map[string]int{}
						if _, err := dns.PackDomainName(bad, buf, 0, comp, true); err == nil {
							if _, ok := dns.IsDomainName(bad); !ok {
								r.Fail("pack-vs-isdomainname/first-call", "PackDomainName(%q) accepted a name IsDomainName refuses", clip(bad))
							}
							return
						}
						_, valid := dns.IsDomainName(second)
						if !valid {
							r.Nontrivial()
						}
						off, err := dns.PackDomainName(second, buf, 300, comp, true)
						if (err == nil) != valid {
							r.Fail("pack-accepts-invalid/after-failed-pack", "map used for the refused PackDomainName(%q), then PackDomainName(%q) err = %v while IsDomainName says %v (map now %d entries)", clip(bad), clip(second), err, valid, len(comp))
							continue
						}
						if err == nil {
							back, _, uerr := dns.UnpackDomainName(buf[:off], 300)
							q := rn.Parse(back)
							w := rn.Parse(second)
							if uerr != nil || !q.OK || !rn.Equal(q.Labels, w.Labels) {
								r.Fail("pack-emits-other-name/after-failed-pack", "after the refused %q: PackDomainName(%q) emitted octets that unpack to %q (%v)", clip(bad), clip(second), back, uerr)
							}
						}
					}
				})
			}
		})

	c.Space("strings", fmt.Sprintf("all strings of ≤ %d tokens over %q, as given and with a final dot; non-trivial: fully qualified and valid under the reference", maxTok, toks), true,
		func(emit func(func(*fw.R))) {
			var rec func(prefix string, depth int)
			rec = func(prefix string, depth int) {
				if depth > 0 {
					s := prefix
					emit(func(r *fw.R) {
						c03Text(r, s)
						c03Text(r, s+".")
						r.Sample(func() any { return s })
					})
				}
				if depth == maxTok {
					return
				}
				for _, t := range toks {
					rec(prefix+t, depth+1)
				}
			}
			rec("", 0)
		})
}
