package main

import (
	"bytes"
	"fmt"
	"strings"

	"github.com/miekg/dns"
	"github.com/miekg/dns/dnsutil"
	"verif/harness/fw"
	rn "verif/harness/ref/name"
)

// C19 — label helpers agree with the wire label sequence (DESIGN §5 C19).

func init() {
	fw.Register(&fw.Check{Prop: "C19", Level: "exploration",
		Assume: []string{
			"names are given in the library's own presentation form (output of UnpackDomainName), with and without the trailing dot, as the property states",
			"reference: ref/name forward scanner (labels, label starts, case-insensitive common suffix)",
			"AddOrigin∘TrimDomainName is compared up to ASCII case of the origin part (TrimDomainName matches the origin case-insensitively)",
		},
		Spaces: c19Spaces})
}

// c19R appends a suffix to violation keys.
type c19R struct {
	r  *fw.R
	kx string
}

func (c c19R) Fail(key, format string, args ...any) { c.r.Fail(key+c.kx, format, args...) }

type c19name struct {
	labels [][]byte
	s      string // library presentation form, fully qualified
}

func c19Names(labelSet [][]byte, maxLabels int) []c19name {
	var out []c19name
	var cur [][]byte
	var rec func()
	rec = func() {
		if len(cur) > 0 {
			w := rn.Wire(cur)
			s, _, err := dns.UnpackDomainName(w, 0)
			if err != nil {
				panic(fmt.Sprintf("UnpackDomainName(%x): %v", w, err))
			}
			out = append(out, c19name{append([][]byte(nil), cur...), s})
		}
		if len(cur) == maxLabels {
			return
		}
		for _, l := range labelSet {
			cur = append(cur, l)
			rec()
			cur = cur[:len(cur)-1]
		}
	}
	rec()
	return out
}

func c19LabelSet(alpha []byte, maxLen int) [][]byte {
	var out [][]byte
	var rec func(p []byte)
	rec = func(p []byte) {
		if len(p) > 0 {
			out = append(out, append([]byte(nil), p...))
		}
		if len(p) == maxLen {
			return
		}
		for _, a := range alpha {
			rec(append(p, a))
		}
	}
	rec(nil)
	return out
}

func c19Unary(r *fw.R, labels [][]byte, s string) { c19UnaryKeyed(r, labels, s, "") }

// c19UnaryKeyed: kx is appended to the violation keys (the other-spelling space keeps its own classes).
func c19UnaryKeyed(r0 *fw.R, labels [][]byte, s string, kx string) {
	r := c19R{r0, kx}
	p := rn.Parse(s)
	if !p.OK || !rn.Equal(p.Labels, labels) {
		r.Fail("c03-presentation", "presentation %q does not denote labels %q", s, labels)
		return
	}
	n := len(labels)
	if got := dns.CountLabel(s); got != n {
		r.Fail("CountLabel", "CountLabel(%q) = %d, wire labels %d", s, got, n)
	}
	starts := rn.LabelStarts(s)
	got := dns.Split(s)
	if fmt.Sprint(got) != fmt.Sprint(starts) && !(len(got) == 0 && len(starts) == 0) {
		r.Fail("Split", "Split(%q) = %v, reference label starts %v", s, got, starts)
	}
	sl := dns.SplitDomainName(s)
	if len(sl) != n {
		r.Fail("SplitDomainName", "SplitDomainName(%q) = %q, want %d labels", s, sl, n)
	} else {
		for i, l := range sl {
			q := rn.Parse(l)
			if len(q.Labels) != 1 || string(q.Labels[0]) != string(labels[i]) || !q.OK {
				r.Fail("SplitDomainName", "SplitDomainName(%q)[%d] = %q, want a spelling of %q", s, i, l, labels[i])
			}
		}
	}
	// NextLabel from every label start
	for i, st := range starts {
		nx, end := dns.NextLabel(s, st)
		if i+1 < len(starts) {
			if end || nx != starts[i+1] {
				r.Fail("NextLabel", "NextLabel(%q, %d) = %d,%v; want %d,false", s, st, nx, end, starts[i+1])
			}
		} else if !end {
			r.Fail("NextLabel", "NextLabel(%q, %d) = %d,%v; want end", s, st, nx, end)
		}
	}
	// PrevLabel for every n
	if i, st := dns.PrevLabel(s, 0); i != len(s) || st {
		r.Fail("PrevLabel", "PrevLabel(%q, 0) = %d,%v; want %d,false", s, i, st, len(s))
	}
	for k := 1; k <= n+2 && n > 0; k++ { // the root has no label start to step to: not constrained
		i, st := dns.PrevLabel(s, k)
		if k <= n {
			if st || i != starts[n-k] {
				r.Fail("PrevLabel", "PrevLabel(%q, %d) = %d,%v; want %d,false", s, k, i, st, starts[n-k])
			}
		} else if !st {
			r.Fail("PrevLabel", "PrevLabel(%q, %d) = %d,%v; want overshoot (start=true)", s, k, i, st)
		}
	}
	// Fqdn / IsFqdn / CanonicalName
	if dns.IsFqdn(s) != p.FQDN {
		r.Fail("IsFqdn", "IsFqdn(%q) = %v", s, !p.FQDN)
	}
	wantF := s
	if !p.FQDN {
		wantF = s + "."
	}
	if got := dns.Fqdn(s); got != wantF {
		r.Fail("Fqdn", "Fqdn(%q) = %q, want %q", s, got, wantF)
	}
	lb := []byte(wantF)
	for i, c := range lb {
		if c >= 'A' && c <= 'Z' {
			lb[i] = c + 32
		}
	}
	if got := dns.CanonicalName(s); got != string(lb) {
		r.Fail("CanonicalName", "CanonicalName(%q) = %q, want %q", s, got, lb)
	}
}

func c19Spaces(c *fw.Ctx) {
	setA := c19LabelSet([]byte{'a', 'A', '0', '.', '\\', 0, ' '}, 2) // 56 labels
	setB := c19LabelSet([]byte{'a', '.', '\\'}, 3)                   // 39 labels
	nA, nB := 3, 3
	if c.Thorough {
		nB = 4
	}
	namesA := c19Names(setA, nA)
	namesB := c19Names(setB, nB)
	all := append(append([]c19name{}, namesA...), namesB...)
	c.Space("unary", fmt.Sprintf("all names of ≤%d labels over the 56 labels of ≤2 octets from {a,A,0,.,\\,NUL,SP} and of ≤%d labels over the 39 labels of ≤3 octets from {a,.,\\}, in library presentation form with and without the final dot, plus the root; non-trivial: the text contains a backslash", nA, nB), true,
		func(emit func(func(*fw.R))) {
			emit(func(r *fw.R) { c19Unary(r, nil, ".") })
			for i := range all {
				nm := all[i]
				emit(func(r *fw.R) {
					if strings.Contains(nm.s, `\`) {
						r.Nontrivial()
					}
					c19Unary(r, nm.labels, nm.s)
					c19Unary(r, nm.labels, nm.s[:len(nm.s)-1])
					r.Sample(func() any { return nm.s })
				})
			}
		})

	// binary helpers: all ordered pairs over a pool chosen to share suffixes
	poolN := 3000
	if c.Thorough {
		poolN = 8000
	}
	var pool []c19name
	// interleave the two families so that both appear in the pool prefix
	for i := 0; len(pool) < poolN && (i < len(namesA) || i < len(namesB)); i++ {
		// stride through the lists so that 1-, 2- and 3-label names all occur
		if ia := (i * 131) % len(namesA); i < len(namesA) {
			pool = append(pool, namesA[ia])
		}
		if ib := (i * 37) % len(namesB); i < len(namesB) && len(pool) < poolN {
			pool = append(pool, namesB[ib])
		}
	}
	pool = append(pool, c19name{nil, "."})
	c.Space("pairs", fmt.Sprintf("all ordered pairs of a fixed pool of %d names (both families, 1..3 labels, root): CompareDomainName and IsSubDomain vs longest common case-folded label suffix; non-trivial: ≥1 common label", len(pool)), true,
		func(emit func(func(*fw.R))) {
			for i := range pool {
				a := pool[i]
				emit(func(r *fw.R) {
					for j := range pool {
						b := pool[j]
						want := rn.CommonSuffix(a.labels, b.labels)
						if want > 0 {
							r.Nontrivial()
						}
						if got := dns.CompareDomainName(a.s, b.s); got != want {
							r.Fail("CompareDomainName", "CompareDomainName(%q, %q) = %d, reference %d", a.s, b.s, got, want)
						}
						wantSub := want == len(a.labels)
						if got := dns.IsSubDomain(a.s, b.s); got != wantSub {
							r.Fail("IsSubDomain", "IsSubDomain(%q, %q) = %v, reference %v", a.s, b.s, got, wantSub)
						}
					}
					r.Count("pairs", int64(len(pool)))
					r.Sample(func() any { return []string{a.s, pool[(i*7)%len(pool)].s} })
				})
			}
		})

	c.Space("pairs-octets", "all 256×256 ordered pairs of names b1.x. / b2.X. with a single-octet first label (every octet value): case folding touches exactly A-Z; non-trivial: the labels are equal under folding", true,
		func(emit func(func(*fw.R))) {
			ss := make([]string, 256)
			for b := 0; b < 256; b++ {
				x := "x"
				if b%2 == 1 {
					x = "X"
				}
				s, _, err := dns.UnpackDomainName([]byte{1, byte(b), 1, x[0], 0}, 0)
				if err != nil {
					panic(err)
				}
				ss[b] = s
			}
			for b1 := 0; b1 < 256; b1++ {
				b1 := b1
				emit(func(r *fw.R) {
					for b2 := 0; b2 < 256; b2++ {
						want := 1
						if rn.LabelEqualFold([]byte{byte(b1)}, []byte{byte(b2)}) {
							want = 2
							r.Nontrivial()
						}
						if got := dns.CompareDomainName(ss[b1], ss[b2]); got != want {
							r.Fail("CompareDomainName", "CompareDomainName(%q, %q) = %d, reference %d", ss[b1], ss[b2], got, want)
						}
						if got := dns.IsSubDomain(ss[b1], ss[b2]); got != (want == 2) {
							r.Fail("IsSubDomain", "IsSubDomain(%q, %q) = %v, reference %v", ss[b1], ss[b2], got, want == 2)
						}
					}
					r.Count("pairs", 256)
				})
			}
		})

	// the same with the octets standing raw in the text (as a caller or a zone file may write every octet but the
	// dot and the backslash), and labels that are case pairs or look-alikes only under Unicode case folding: a
	// comparison through strings.EqualFold / ToLower merges invalid UTF-8 octets, É/é, the Kelvin sign and k, ſ and s
	c.Space("pairs-raw-octets", "all ordered pairs of names L1.x. / L2.X. whose first label stands raw in the text: every single octet except dot and backslash (254²), and 14 multi-octet labels (UTF-8 case pairs É/é, Σ/σ/ς, Kelvin sign / k / K, long s / s / S, invalid UTF-8 octets); labels are equal exactly when they have the same octets up to ASCII case; non-trivial: the labels are equal under folding", true,
		func(emit func(func(*fw.R))) {
			var labels [][]byte
			for b := 0; b < 256; b++ {
				if b != '.' && b != '\\' {
					labels = append(labels, []byte{byte(b)})
				}
			}
			for _, m := range []string{"\xc3\x89", "\xc3\xa9", "\xce\xa3", "\xcf\x83", "\xcf\x82", "\xe2\x84\xaa", "k", "K", "\xc5\xbf", "s", "S", "\xff\xfe", "\xfe\xff", "\xc3"} {
				labels = append(labels, []byte(m))
			}
			name := func(i int) string {
				x := ".x."
				if i%2 == 1 {
					x = ".X."
				}
				return string(labels[i]) + x
			}
			for i := range labels {
				i := i
				emit(func(r *fw.R) {
					// the unary helpers (Fqdn, CanonicalName: nothing but A-Z is folded, whatever stands around it) on the
					// label between labels of capitals from both ends of the alphabet
					for _, fix := range [][2]string{{"", ".x."}, {"Zq.", ".aA.Zz."}, {"aZ", "Az.ZA."}} {
						nm := fix[0] + string(labels[i]) + fix[1]
						if p := rn.Parse(nm); p.OK {
							c19Unary(r, p.Labels, nm)
						}
					}
					for j := range labels {
						want := 1
						if rn.LabelEqualFold(labels[i], labels[j]) {
							want = 2
							r.Nontrivial()
						}
						a, b := name(i), name(j)
						if got := dns.CompareDomainName(a, b); got != want {
							r.Fail("CompareDomainName", "CompareDomainName(%q, %q) = %d, reference %d (raw octets in the text)", a, b, got, want)
						}
						if got := dns.IsSubDomain(a, b); got != (want == 2) {
							r.Fail("IsSubDomain", "IsSubDomain(%q, %q) = %v, reference %v (raw octets in the text)", a, b, got, want == 2)
						}
					}
					r.Count("pairs", int64(len(labels)))
				})
			}
		})

	// ---------------------------------------------------------------- other spellings of the same names
	// The spaces above spell every name as the library's unpacker does. The parser accepts more: any octet
	// as \DDD, any non-digit octet as \c, octets ≥ 0x80 raw. Helpers must follow the labels, not the text.
	spell := func(b byte) []string {
		out := []string{fmt.Sprintf("\\%03d", b)}
		if b != '.' && b != '\\' {
			out = append(out, string([]byte{b}))
		}
		if b < '0' || b > '9' {
			out = append(out, "\\"+string([]byte{b}))
		}
		return out
	}
	var spellLabel func(l []byte) []string
	spellLabel = func(l []byte) []string {
		if len(l) == 0 {
			return []string{""}
		}
		var out []string
		for _, h := range spell(l[0]) {
			for _, t := range spellLabel(l[1:]) {
				out = append(out, h+t)
			}
		}
		return out
	}
	setS := c19LabelSet([]byte{'a', 'A', '.', 0xe9}, 2) // 20 labels
	type spelled struct {
		labels [][]byte
		s      string
	}
	var sp []spelled
	for _, l := range setS {
		for _, t := range spellLabel(l) {
			sp = append(sp, spelled{[][]byte{l, []byte("nl")}, t + ".nl."})
		}
	}
	// a backslash followed by one or two digits (and then something else) is an escaped digit, not a \DDD escape
	for _, pre := range []string{"", "a", "\\."} {
		for _, esc := range []string{"\\1", "\\12", "\\1a", "\\12a", "\\1\\2", "\\1\\.", "\\12\\."} {
			for _, rest := range []string{".nl.", ".b.nl.", "x.nl.", ".\\9.nl."} {
				name := pre + esc + rest
				q := rn.Parse(name)
				if !q.OK || !q.FQDN {
					panic("harness: " + name)
				}
				sp = append(sp, spelled{q.Labels, name})
			}
		}
	}
	c.Space("spellings", fmt.Sprintf("%d spellings: of the 20 names L.nl. with L of ≤2 octets from {a, A, '.', 0xe9}: every octet as \\DDD, as \\c and literally (raw for 0xe9), plus 84 names in which a backslash is followed by one or two digits only (an escaped digit, not a \\DDD escape): the unary helpers on each (with and without the final dot), CompareDomainName / IsSubDomain on all ordered pairs against the labels; non-trivial: the spelling is not the unpacker's", len(sp)), true,
		func(emit func(func(*fw.R))) {
			for i := range sp {
				a := sp[i]
				emit(func(r *fw.R) {
					if lib, _, err := dns.UnpackDomainName(rn.Wire(a.labels), 0); err == nil && lib != a.s {
						r.Nontrivial()
					}
					fails := 0
					sub := &fw.R{}
					_ = sub
					c19UnaryKeyed(r, a.labels, a.s, "/other-spelling")
					c19UnaryKeyed(r, a.labels, a.s[:len(a.s)-1], "/other-spelling")
					for j := range sp {
						b := sp[j]
						want := rn.CommonSuffix(a.labels, b.labels)
						if got := dns.CompareDomainName(a.s, b.s); got != want && fails < 3 {
							fails++
							r.Fail("CompareDomainName/other-spelling", "CompareDomainName(%q, %q) = %d, reference %d (labels %q / %q)", a.s, b.s, got, want, a.labels, b.labels)
						}
						if got := dns.IsSubDomain(a.s, b.s); got != (want == len(a.labels)) && fails < 3 {
							fails++
							r.Fail("IsSubDomain/other-spelling", "IsSubDomain(%q, %q) = %v, reference %v", a.s, b.s, got, want == len(a.labels))
						}
					}
					r.Count("pairs", int64(len(sp)))
				})
			}
		})

	// ---------------------------------------------------------------- names with many labels
	// Everything above has ≤ 4 labels. Index slices, stack buffers and counters inside the helpers change
	// regime with the number of labels (Split starts with capacity 3 and grows), so: four chains of up to 127
	// labels (the maximum: 127 one-octet labels are 255 wire octets), every suffix length 1..24, 31..34, 63..65
	// and 127 of each, every ordered pair.
	chainLabel := func(variant, i int) []byte { // i counts from the right
		one := []byte{"abc"[i%3]}
		switch variant {
		case 1: // upper-case twin of chain 0
			return []byte{"ABC"[i%3]}
		case 2: // leaves chain 0 at the 5th label from the right
			if i >= 4 {
				return []byte{"xyz"[i%3]}
			}
		case 3: // leaves chain 0 at the 13th label from the right, with escape-bearing labels among the shared ones
			if i >= 12 {
				return []byte{"xyz"[i%3]}
			}
		}
		return one
	}
	var deep []c19name
	deepLens := []int{}
	for n := 1; n <= 24; n++ {
		deepLens = append(deepLens, n)
	}
	deepLens = append(deepLens, 31, 32, 33, 34, 63, 64, 65, 127)
	for variant := 0; variant < 4; variant++ {
		for _, n := range deepLens {
			labels := make([][]byte, n)
			for i := 0; i < n; i++ {
				labels[n-1-i] = chainLabel(variant, i)
			}
			s, _, err := dns.UnpackDomainName(rn.Wire(labels), 0)
			if err != nil {
				panic(err)
			}
			deep = append(deep, c19name{labels, s})
		}
	}
	// a fifth family of ≤ 40 labels whose labels need escapes (a dot, a backslash, a NUL inside the label)
	for _, n := range []int{7, 8, 9, 10, 15, 16, 17, 18, 33, 40} {
		labels := make([][]byte, n)
		for i := 0; i < n; i++ {
			labels[n-1-i] = [][]byte{[]byte("a"), []byte("a.b"), []byte(`\`), {0}, []byte("B")}[i%5]
		}
		s, _, err := dns.UnpackDomainName(rn.Wire(labels), 0)
		if err != nil {
			panic(err)
		}
		deep = append(deep, c19name{labels, s})
	}
	// a sixth family: names whose presentation text is far longer than their wire form (every octet of a long label
	// needs a \DDD or \c escape): text lengths from below 255 to about 1000 characters, upper-case letters among them
	for _, spec := range []struct {
		big  int // number of long labels
		blen int // their length
		fill byte
	}{{1, 40, 1}, {1, 61, 1}, {1, 62, 1}, {1, 63, 1}, {2, 63, 1}, {3, 63, 0xff}, {3, 57, '.'}, {1, 63, '.'}, {2, 60, '\\'}} {
		var labels [][]byte
		for i := 0; i < spec.big; i++ {
			l := bytes.Repeat([]byte{spec.fill}, spec.blen)
			l[spec.blen/2] = 'Q' // an upper-case letter deep inside the escapes
			labels = append(labels, l)
		}
		labels = append(labels, []byte("WWW"), []byte("Example"), []byte("ORG"))
		s, _, err := dns.UnpackDomainName(rn.Wire(labels), 0)
		if err != nil {
			panic(err)
		}
		deep = append(deep, c19name{labels, s})
		low := make([][]byte, len(labels))
		for i, l := range labels {
			low[i] = append([]byte(nil), l...)
			for j, c := range low[i] {
				if c >= 'A' && c <= 'Z' {
					low[i][j] = c + 32
				}
			}
		}
		s2, _, err := dns.UnpackDomainName(rn.Wire(low), 0)
		if err != nil {
			panic(err)
		}
		deep = append(deep, c19name{low, s2})
	}
	deep = append(deep, c19name{nil, "."})
	c.Space("deep", fmt.Sprintf("%d names of 1..24, 31..34, 63..65 and 127 labels (four chains of one-octet labels sharing suffixes of 0, 4, 12 and all labels, one the upper-case twin, plus a chain of escape-bearing labels of 7..40 labels, plus 18 names of 4..6 labels whose long labels consist of escaped octets so that the presentation text has 180..1000 characters for at most 255 wire octets, in mixed and in lower case, plus the root): the unary helpers on each, CompareDomainName / IsSubDomain on all ordered pairs, TrimDomainName/AddOrigin with every name as origin of every longer name of its chain; non-trivial: more than 8 labels", len(deep)), true,
		func(emit func(func(*fw.R))) {
			for i := range deep {
				a := deep[i]
				emit(func(r *fw.R) {
					if len(a.labels) > 8 {
						r.Nontrivial()
					}
					if a.s != "." {
						c19Unary(r, a.labels, a.s)
						c19Unary(r, a.labels, a.s[:len(a.s)-1])
					}
					for j := range deep {
						b := deep[j]
						want := rn.CommonSuffix(a.labels, b.labels)
						if got := dns.CompareDomainName(a.s, b.s); got != want {
							r.Fail("CompareDomainName", "CompareDomainName(%q, %q) = %d, reference %d", a.s, b.s, got, want)
						}
						if got := dns.IsSubDomain(a.s, b.s); got != (want == len(a.labels)) {
							r.Fail("IsSubDomain", "IsSubDomain(%q, %q) = %v, reference %v", a.s, b.s, got, want == len(a.labels))
						}
						// a as origin of b (b strictly below a): relative part and back
						if want == len(a.labels) && len(b.labels) > len(a.labels) && a.s != "." {
							relLabels := b.labels[:len(b.labels)-len(a.labels)]
							t := dnsutil.TrimDomainName(b.s, a.s)
							tp := rn.Parse(t)
							if !tp.OK || tp.FQDN || !rn.Equal(tp.Labels, relLabels) {
								r.Fail("TrimDomainName", "TrimDomainName(%q, %q) = %q, want the %d leading labels", b.s, a.s, t, len(relLabels))
							} else if back := rn.Parse(dnsutil.AddOrigin(t, a.s)); !back.OK || !rn.EqualFold(back.Labels, b.labels) {
								r.Fail("Add-after-Trim", "AddOrigin(TrimDomainName(%q, %q), …) = %q", b.s, a.s, dnsutil.AddOrigin(t, a.s))
							}
						}
					}
					r.Count("pairs", int64(len(deep)))
					r.Sample(func() any { return a.s })
				})
			}
		})

	// dnsutil: relative names × origins
	var rel []c19name
	for i := 0; i < len(namesA) && len(rel) < 700; i += 5 {
		rel = append(rel, namesA[i])
	}
	for i := 0; i < len(namesB) && len(rel) < 1100; i += 9 {
		rel = append(rel, namesB[i])
	}
	var orgs []c19name
	orgs = append(orgs, c19name{nil, "."})
	for i := 0; i < len(namesA) && len(orgs) < 60; i += 61 {
		orgs = append(orgs, namesA[i])
	}
	for i := 0; i < len(namesB) && len(orgs) < 100; i += 97 {
		orgs = append(orgs, namesB[i])
	}
	c.Space("origin", fmt.Sprintf("%d relative names (and @) × %d origins, plus the empty origin (nothing appended, nothing trimmed, no panic): TrimDomainName(AddOrigin(r,o),o) == r; for names under o: AddOrigin(TrimDomainName(s,o),o) denotes s; non-trivial: origin is not the root", len(rel), len(orgs)), true,
		func(emit func(func(*fw.R))) {
			// the empty origin: AddOrigin documents ("foo", "") -> "foo" (nothing to append), so there is nothing to trim either
			emit(func(r *fw.R) {
				r.Nontrivial()
				for _, rl := range rel {
					rs := rl.s[:len(rl.s)-1]
					func() {
						defer func() {
							if e := recover(); e != nil {
								r.Fail("empty-origin/panic", "TrimDomainName(%q, \"\") panics: %v", rs, e)
							}
						}()
						if full := dnsutil.AddOrigin(rs, ""); full != rs {
							r.Fail("empty-origin/AddOrigin", "AddOrigin(%q, \"\") = %q, documented: the name itself", rs, full)
						} else if back := dnsutil.TrimDomainName(full, ""); back != rs {
							r.Fail("empty-origin/Trim-after-Add", "TrimDomainName(AddOrigin(%q, \"\"), \"\") = %q", rs, back)
						}
					}()
				}
			})
			for oi := range orgs {
				o := orgs[oi]
				emit(func(r *fw.R) {
					if o.s != "." {
						r.Nontrivial()
					}
					chk := func(rs string, rl [][]byte) {
						full := dnsutil.AddOrigin(rs, o.s)
						var wantLabels [][]byte
						wantLabels = append(append(wantLabels, rl...), o.labels...)
						fp := rn.Parse(full)
						if !fp.OK || !fp.FQDN || !rn.Equal(fp.Labels, wantLabels) {
							r.Fail("AddOrigin", "AddOrigin(%q, %q) = %q denotes %q, want %q", rs, o.s, full, fp.Labels, wantLabels)
							return
						}
						back := dnsutil.TrimDomainName(full, o.s)
						if back != rs {
							r.Fail("Trim-after-Add", "TrimDomainName(AddOrigin(%q, %q) = %q, %q) = %q, want %q", rs, o.s, full, o.s, back, rs)
						}
						// other direction, starting from the absolute name
						t := dnsutil.TrimDomainName(full, o.s)
						again := dnsutil.AddOrigin(t, o.s)
						ap := rn.Parse(again)
						if !ap.OK || !rn.EqualFold(ap.Labels, wantLabels) {
							r.Fail("Add-after-Trim", "AddOrigin(TrimDomainName(%q, %q) = %q, %q) = %q, want a spelling of %q", full, o.s, t, o.s, again, full)
						}
					}
					if o.s != "." { // TrimDomainName(s, ".") is documented as "remove the final dot": "@" has no reading there
						chk("@", nil)
					}
					for _, rl := range rel {
						chk(rl.s[:len(rl.s)-1], rl.labels)
					}
					r.Count("pairs", int64(len(rel)+1))
					r.Sample(func() any { return map[string]string{"origin": o.s, "relative": rel[oi%len(rel)].s[:len(rel[oi%len(rel)].s)-1]} })
				})
			}
		})
}
