package main

import (
	"bytes"
	"fmt"
	"strings"

	"github.com/miekg/dns"
	"verif/harness/bind"
	"verif/harness/enum"
	"verif/harness/fw"
	rn "verif/harness/ref/name"
	"verif/harness/ref/wire"
)

// C04 — name compression transparent, valid, only where allowed (DESIGN §5 C04).

func init() {
	fw.Register(&fw.Check{Prop: "C04", Level: "exploration",
		Assume: []string{
			"oracle: the strict reference decoder of ref/wire (follows and records every pointer) applied to the library's compressed and uncompressed output",
			"RFC 1035 type set for 'may be compressed': NS MD MF CNAME SOA MB MG MR NULL PTR HINFO MINFO MX TXT A (RFC 3597 §4)",
		},
		Spaces: c04Spaces})
}

func c04Check(r *fw.R, m *wire.Msg) {
	g, err := bind.ToGoMsg(m)
	if err != nil {
		r.Fail("bind/msg", "%v: %s", err, msgDesc(m))
		return
	}
	g.Compress = false
	u, err := g.Pack()
	if err != nil {
		r.Fail("pack-error/uncompressed", "Pack: %v; %s", err, msgDesc(m))
		return
	}
	g.Compress = true
	c, err := g.Pack()
	if err != nil {
		r.Fail("pack-error/compressed", "Pack(Compress): %v; %s", err, msgDesc(m))
		return
	}
	if len(c) > len(u) {
		r.Fail("compressed-longer", "compressed %d > uncompressed %d octets; %s", len(c), len(u), msgDesc(m))
	}
	if want, _ := wire.EncodeMsg(m); !bytes.Equal(u, want) {
		r.Fail("uncompressed-layout", "uncompressed Pack differs from the reference layout\n got %x\nwant %x", u, want)
	}
	dm, d, err := wire.DecodeMsg(c)
	if err != nil {
		r.Fail("compressed-undecodable", "reference decoder rejects the compressed message: %v\n%x\n%s", err, c, msgDesc(m))
		return
	}
	if diff := bind.EqualMsg(m, dm); diff != "" {
		r.Fail("compressed-differs", "compressed message decodes differently: %s\ncompressed %x\n%s", diff, c, msgDesc(m))
	}
	if len(d.Ptrs) > 0 {
		r.Nontrivial()
		// compression is transparent to the caller's buffer management too: PackBuffer with a buffer of any size
		// around the compressed length gives the same octets as Pack (it allocates when the buffer does not do)
		for _, n := range []int{0, len(c) - 1, len(c), len(c) + 1, len(c) + 2, len(c) + 4} {
			if len(c) > 20000 && n != len(c)+1 {
				continue
			}
			out, err := g.PackBuffer(make([]byte, n))
			if err != nil || !bytes.Equal(out, c) {
				r.Fail("packbuffer-differs", "PackBuffer(buffer of %d octets) = %d octets, err %v; Pack gives %d octets (Compress=true); %s", n, len(out), err, len(c), msgDesc(m))
				break
			}
		}
	}
	for _, p := range d.Ptrs {
		switch {
		case p.Target >= p.At:
			r.Fail("pointer-forward", "pointer at %d targets %d (not earlier); %x", p.At, p.Target, c)
		case p.Target >= 16384:
			r.Fail("pointer-beyond-14-bits", "pointer at %d targets %d", p.At, p.Target)
		case !d.LabelStarts[p.Target]:
			r.Fail("pointer-not-at-label", "pointer at %d targets %d which is not the start of a label of an earlier name; %x", p.At, p.Target, c)
		}
		if p.InRdata && !wire.IsRFC1035(p.RRType) {
			r.Fail(fmt.Sprintf("pointer-in-rdata/%s", wire.Specs[p.RRType].Mnem), "pointer at %d inside RDATA of type %d, which is not an RFC 1035 type; %x\n%s", p.At, p.RRType, c, msgDesc(m))
		}
	}
	// the library reads its own compressed output back to the same message
	um := new(dns.Msg)
	if err := um.Unpack(c); err != nil {
		r.Fail("own-output-rejected", "Unpack of the library's compressed output: %v\n%x", err, c)
		return
	}
	if back, err := bind.FromGoMsg(um); err != nil {
		r.Fail("own-output-malformed", "%v", err)
	} else if diff := bind.EqualMsg(m, back); diff != "" {
		r.Fail("own-output-differs", "Unpack(Pack(compress)) differs: %s", diff)
	}
}

// c04Accept: a message in which every name (also in RDATA of every type) is compressed by the reference
// encoder must be accepted with the right names.
func c04Accept(r *fw.R, m *wire.Msg) {
	b := wire.EncodeMsgPointers(m)
	if dm, d, err := wire.DecodeMsg(b); err != nil || bind.EqualMsg(m, dm) != "" {
		r.Fail("internal/ref-ptr-encoder", "reference pointer encoder is not inverted by the reference decoder: %v", err)
		return
	} else if len(d.Ptrs) > 0 {
		r.Nontrivial()
	}
	um := new(dns.Msg)
	if err := um.Unpack(b); err != nil {
		r.Fail("input-pointers-rejected", "Unpack rejects a message with compressed names: %v\n%x\n%s", err, b, msgDesc(m))
		return
	}
	back, err := bind.FromGoMsg(um)
	if err != nil {
		r.Fail("input-pointers-malformed", "%v", err)
		return
	}
	if diff := bind.EqualMsg(m, back); diff != "" {
		r.Fail("input-pointers-differs", "Unpack of a message with compressed names: %s\n%x", diff, b)
	}
}

func c04Spaces(c *fw.Ctx) {
	nU, dev := 7, 2
	if c.Thorough {
		nU, dev = 10, 3
	}
	c.Space("pairs", fmt.Sprintf("question + one record of every name-bearing type + one NS, owner and RDATA names over the first %d names of the collision universe (all assignments); non-trivial: the library emitted ≥1 pointer", nU), true,
		func(emit func(func(*fw.R))) {
			genPairs(nU, func(m *wire.Msg) {
				emit(func(r *fw.R) {
					c04Check(r, m)
					r.Sample(func() any { return msgDesc(m) })
				})
			})
		})
	c.Space("sections", fmt.Sprintf("1-2 questions + ≤4 records of RFC 1035 types over the universe: all assignments for ≤2 records, ≤%d deviations for 3-4; non-trivial: ≥1 pointer", dev), true,
		func(emit func(func(*fw.R))) {
			genSections(nU, dev, func(m *wire.Msg) {
				emit(func(r *fw.R) { c04Check(r, m) })
			})
		})
	c.Space("offset-16384", "filler record (NULL / TXT) sized so that the next owner name starts at every offset 16360..16410, followed by records sharing that name's suffixes: pointers must stay below 16384; non-trivial: ≥1 pointer", true,
		func(emit func(func(*fw.R))) {
			genOffsets(16360, 16410, func(m *wire.Msg, at int) {
				emit(func(r *fw.R) {
					c04Check(r, m)
					r.Sample(func() any { return fmt.Sprintf("late name at offset %d", at) })
				})
			})
		})
	c.Space("offset-16384-typed", "one record of every name-bearing type starting at every offset 16290..16390 (its RDATA names, with suffixes new to the message, sweep across the 16384 pointer limit), followed by NS/MX/CNAME records with names below those suffixes; non-trivial: ≥1 pointer", true,
		func(emit func(func(*fw.R))) {
			genOffsetsTyped(16290, 16390, func(m *wire.Msg, at int, t uint16) {
				emit(func(r *fw.R) { c04Check(r, m) })
			})
		})
	c.Space("root", "question + one record of every name-bearing type + two NS + an OPT over the names {root, example, a.example} in every position (root questions, root-owned records, the root as RDATA name): the root is never a pointer target nor written as a pointer, the compressed message is never longer than the uncompressed one; non-trivial: ≥1 pointer", true,
		func(emit func(func(*fw.R))) {
			genRoot(true, func(m *wire.Msg) {
				emit(func(r *fw.R) { c04Check(r, m) })
			})
		})
	c.Space("after-failed-pack", "state carried between calls: before each message of a 600-message subset of 'pairs' one of 6 messages is packed that FAILS after some names have been written (non-FQDN RDATA name, 64-octet label, oversize TXT, RDATA > 65535, bad NSEC bitmap order, nil record), with and without compression, then the message under test is packed and checked as usual; non-trivial: ≥1 pointer", true,
		func(emit func(func(*fw.R))) {
			bad := func(k int) *dns.Msg {
				m := new(dns.Msg)
				m.Compress = true
				m.SetQuestion("a.example.", dns.TypeA)
				ok1 := &dns.NS{Hdr: dns.RR_Header{Name: "example.", Rrtype: dns.TypeNS, Class: 1}, Ns: "b.a.example."}
				m.Answer = []dns.RR{ok1}
				switch k {
				case 0:
					m.Answer = append(m.Answer, &dns.NS{Hdr: dns.RR_Header{Name: "A.example.", Rrtype: dns.TypeNS, Class: 1}, Ns: "not-fqdn"})
				case 1:
					m.Answer = append(m.Answer, &dns.CNAME{Hdr: dns.RR_Header{Name: "x." + strings.Repeat("l", 64) + ".example.", Rrtype: dns.TypeCNAME, Class: 1}, Target: "a.example."})
				case 2:
					m.Answer = append(m.Answer, &dns.TXT{Hdr: dns.RR_Header{Name: "b.a.example.", Rrtype: dns.TypeTXT, Class: 1}, Txt: []string{strings.Repeat("t", 300)}})
				case 3:
					m.Answer = append(m.Answer, &dns.RFC3597{Hdr: dns.RR_Header{Name: "EXAMPLE.", Rrtype: 65280, Class: 1}, Rdata: strings.Repeat("ab", 66000)})
				case 4:
					m.Ns = append(m.Ns, &dns.NSEC{Hdr: dns.RR_Header{Name: "a.b.example.", Rrtype: dns.TypeNSEC, Class: 1}, NextDomain: "x.", TypeBitMap: []uint16{300, 1}})
				case 5:
					m.Extra = append(m.Extra, nil)
				}
				return m
			}
			n := 0
			genPairs(5, func(m *wire.Msg) {
				n++
				if n%190 != 0 {
					return
				}
				emit(func(r *fw.R) {
					for k := 0; k < 6; k++ {
						for _, comp := range []bool{true, false} {
							b := bad(k)
							b.Compress = comp
							func() {
								defer func() { recover() }()
								if _, err := b.Pack(); err == nil && k != 5 {
									r.Fail("internal/bad-message-packs", "the message meant to fail (kind %d) packed", k)
								}
							}()
							c04Check(r, m)
						}
					}
				})
			})
		})
	c.Space("escape-heavy", "names whose presentation form is far longer than their wire form (a 63-octet label of octet 200 → 252 characters, of backslashes → 126, of dots → 126; alone, under 'www', and above 'example'), each used as question name, owner and RDATA name of every name-bearing type plus an NS record repeating it: compression must stay transparent; non-trivial: ≥1 pointer", true,
		func(emit func(func(*fw.R))) {
			var heavy [][][]byte
			for _, oct := range []byte{200, '\\', '.', ' ', 0} {
				l := bytes.Repeat([]byte{oct}, 63)
				heavy = append(heavy, [][]byte{l, []byte("example")}, [][]byte{[]byte("www"), l, []byte("example")}, [][]byte{l, l, []byte("example")}, [][]byte{[]byte("a"), l, l, l[:59]})
			}
			for _, t := range nameTypes() {
				for hi, h := range heavy {
					for variant := 0; variant < 3; variant++ {
						t, h, hi, variant := t, h, hi, variant
						emit(func(r *fw.R) {
							m := &wire.Msg{ID: 5, Flags: 0x8400}
							other := heavy[(hi+1)%len(heavy)]
							switch variant {
							case 0: // the same name everywhere
								m.Q = []wire.Question{{Name: h, Type: t, Class: 1}}
								m.Sec[0] = []wire.RR{mkRR(t, h, h, h)}
								m.Sec[1] = []wire.RR{mkRR(2, h, h)}
							case 1: // suffix written first, the long name later
								m.Q = []wire.Question{{Name: h[1:], Type: t, Class: 1}}
								m.Sec[0] = []wire.RR{mkRR(t, h, h[1:], h)}
								m.Sec[1] = []wire.RR{mkRR(2, h[1:], h)}
							case 2: // two different heavy names sharing only "example"
								m.Q = []wire.Question{{Name: h, Type: t, Class: 1}}
								m.Sec[0] = []wire.RR{mkRR(t, other, h, other)}
								m.Sec[2] = []wire.RR{mkRR(5, h, other)}
							}
							if rn.WireLen(h) > 255 || rn.WireLen(other) > 255 {
								return
							}
							c04Check(r, m)
						})
					}
				}
			}
		})
	c.Space("escaped-name-tails", "5 names whose presentation form holds escapes (a\\.example., first\\.last.example.org., \\000z\\200.example., a\\\\b\\.c.d\\.e.example., www.x\\200\\.y.fresh.zone.) × every name that is a tail of that text cut at any octet (also under 'www'), in 3 message shapes (question then NS; tail first, then SOA and NS both ways; the name only inside RP RDATA, then NS and MX): compression stays transparent and valid; non-trivial: ≥1 pointer", true,
		func(emit func(func(*fw.R))) {
			genTails(func(m *wire.Msg, what string) {
				emit(func(r *fw.R) {
					c04Check(r, m)
					r.Sample(func() any { return what })
				})
			})
		})
	c.Space("accept-pointers", "the same 'pairs' messages encoded by the reference encoder with every name compressed (also in RDATA of non-RFC-1035 types, HIP servers, IPSECKEY/AMTRELAY gateways): Unpack must accept and yield the same names; non-trivial: ≥1 pointer", true,
		func(emit func(func(*fw.R))) {
			genPairs(min(nU, 7), func(m *wire.Msg) {
				emit(func(r *fw.R) { c04Accept(r, m) })
			})
		})
	c.Space("long-by-pointer", "a 190..200-octet name followed by an owner = one more label in front of it, total wire length 250..260: with compression the library must either emit a name within 255 octets or refuse; non-trivial: total > 255", true,
		func(emit func(func(*fw.R))) {
			for tail := 185; tail <= 200; tail++ {
				for front := 50; front <= 63; front++ {
					tail, front := tail, front
					emit(func(r *fw.R) {
						// tail name: 3 labels of 61 + one sized to reach `tail` octets (without root)
						var base [][]byte
						left := tail
						for left > 0 {
							n := 62
							if left < n {
								n = left
							}
							base = append(base, bytes.Repeat([]byte{'t'}, n-1))
							left -= n
						}
						long := append([][]byte{bytes.Repeat([]byte{'f'}, front)}, base...)
						total := rn.WireLen(long)
						if total > 255 {
							r.Nontrivial()
						}
						g := new(dns.Msg)
						g.Compress = true
						g.Question = []dns.Question{{Name: bind.LibName(base), Qtype: 1, Qclass: 1}}
						var sb bytes.Buffer
						sb.WriteString(string(bytes.Repeat([]byte{'f'}, front)))
						sb.WriteString(".")
						sb.WriteString(bind.LibName(base))
						g.Answer = []dns.RR{&dns.A{Hdr: dns.RR_Header{Name: sb.String(), Rrtype: 1, Class: 1, Ttl: 1}, A: []byte{1, 2, 3, 4}}}
						b, err := g.Pack()
						if total <= 255 {
							if err != nil {
								r.Fail("long-by-pointer/refused-valid", "Pack refused a %d-octet name: %v", total, err)
							}
							return
						}
						if err == nil {
							if _, _, derr := wire.DecodeMsg(b); derr != nil {
								r.Fail("long-by-pointer/emits-invalid", "Pack(Compress) emitted a message whose owner name has %d wire octets (label of %d in front of a pointer to a %d-octet name); reference decoder: %v", total, front, tail+1, derr)
							} else {
								r.Fail("long-by-pointer/emits-invalid", "Pack(Compress) accepted a name of %d wire octets", total)
							}
						}
					})
				}
			}
		})
	_ = enum.Names
}
