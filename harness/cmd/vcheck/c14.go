package main

import (
	"fmt"
	"net"
	"strings"

	"github.com/miekg/dns"
	"verif/harness/fw"
	rn "verif/harness/ref/name"
)

// C14 (routing part, engine E1) — ServeMux dispatch: longest label-aligned case-insensitive suffix, DS to
// the parent zone, root as last resort, REFUSED skeleton. The admission part and the concurrent mux run
// under the controlled scheduler (cmd/vsched, spaces e2/…) and are appended to the same evidence file.

func init() {
	fw.Register(&fw.Check{Prop: "C14", Level: "exploration",
		Assume: []string{
			"routing oracle ref/mux: written from the property statement; for DS queries: the closest registered pattern strictly above the question name (the parent side of the zone cut), the root pattern if that is the only one, the pattern equal to the question name if nothing encloses it",
		},
		Spaces: c14Spaces})
}

type recWriter struct {
	msgs []*dns.Msg
}

func (w *recWriter) LocalAddr() net.Addr         { return &net.UDPAddr{} }
func (w *recWriter) RemoteAddr() net.Addr        { return &net.UDPAddr{} }
func (w *recWriter) WriteMsg(m *dns.Msg) error   { w.msgs = append(w.msgs, m); return nil }
func (w *recWriter) Write(b []byte) (int, error) { return len(b), nil }
func (w *recWriter) Close() error                { return nil }
func (w *recWriter) TsigStatus() error           { return nil }
func (w *recWriter) TsigTimersOnly(bool)         {}
func (w *recWriter) Hijack()                     {}

var c14Patterns = []string{".", "c.", "b.c.", "a.b.c.", "B.C.", `x\.y.c.`, "y.c.", "bc.", "example."}
var c14Names = []string{"a.b.c.", "b.c.", "c.", ".", "x.a.b.c.", "ab.c.", "xb.c.", "A.B.C.", "B.c.", `x\.y.c.`, "x.y.c.", "y.c.", "zbc.", "bc.", "d.", "example.", "www.example.", "EXAMPLE.", "xexample.", "a.b.C.", `x\.Y.c.`, "b.c.example."}

func lowerLabels(s string) string {
	p := rn.Parse(s)
	return string(rn.Wire(rn.Lower(p.Labels)))
}

func c14Spaces(c *fw.Ctx) {
	c.Space("routing", fmt.Sprintf("all 2^%d subsets of the pattern universe %q × %d question names (+ no question, + two questions) × types {A, DS} × request headers (opcode query/notify/update × RD,CD ∈ {00,11}) × patterns registered as written / without their closing dot: handler chosen / REFUSED skeleton vs ref/mux; non-trivial: at least two registered patterns enclose the question name", len(c14Patterns), c14Patterns, len(c14Names)), true,
		func(emit func(func(*fw.R))) {
			for mask := 0; mask < 1<<len(c14Patterns); mask++ {
				mask := mask
				emit(func(r *fw.R) {
					c14Route(r, mask, false)
					c14Route(r, mask, true) // the same patterns registered without their closing dot (Handle completes them)
				})
			}
		})
	c.Space("routing-letters", "for each of the 26 letters x: patterns xq.zone. (4 case spellings) with and without zone. (4 spellings) × questions www.xq.zone., xq.zone., other.zone. (4 spellings): the longest pattern is chosen whatever letter carries the case difference, REFUSED only when nothing encloses the name; one case per letter; non-trivial: all", true,
		func(emit func(func(*fw.R))) {
			for x := byte('a'); x <= 'z'; x++ {
				x := x
				emit(func(r *fw.R) {
					r.Nontrivial()
					c14RouteLetters(r, x)
				})
			}
		})
}

// c14RouteLetters: "ignoring case" for every letter of the alphabet. The pattern universe of the routing space
// uses a handful of letters; a fold that misses one letter (a table or a range test off by one at 'A', 'Z', 'a' or
// 'z') shows only with that letter. For each letter x: the patterns xq.zone. and zone. in four spellings each, the
// question www.xq.zone. / xq.zone. in four spellings; the longer pattern must be chosen, and with the longer pattern
// alone registered a question below zone. but not below it must be REFUSED while one below it is served.
func c14RouteLetters(r *fw.R, x byte) {
	spell := func(l string, k int) string { // k: 0 lower, 1 upper, 2 first letter upper, 3 second letter upper
		b := []byte(l)
		up := func(i int) {
			if i < len(b) && b[i] >= 'a' && b[i] <= 'z' {
				b[i] -= 32
			}
		}
		switch k {
		case 1:
			for i := range b {
				up(i)
			}
		case 2:
			up(0)
		case 3:
			up(1)
		}
		return string(b)
	}
	label := string([]byte{x, 'q'})
	for pk := 0; pk < 4; pk++ {
		for qk := 0; qk < 4; qk++ {
			for _, zoneToo := range []bool{true, false} {
				mux := dns.NewServeMux()
				var called []string
				long := spell(label, pk) + ".zone."
				mux.HandleFunc(long, func(w dns.ResponseWriter, m *dns.Msg) { called = append(called, "long") })
				if zoneToo {
					mux.HandleFunc(spell("zone", (pk+1)%4)+".", func(w dns.ResponseWriter, m *dns.Msg) { called = append(called, "zone") })
				}
				for _, q := range []struct{ name, want string }{
					{"www." + spell(label, qk) + "." + spell("zone", qk) + ".", "long"},
					{spell(label, qk) + ".zone.", "long"},
					{"other." + spell("zone", qk) + ".", "zone"},
				} {
					want := q.want
					if want == "zone" && !zoneToo {
						want = "REFUSED"
					}
					called = called[:0]
					req := new(dns.Msg)
					req.SetQuestion(q.name, dns.TypeA)
					w := &recWriter{}
					mux.ServeDNS(w, req)
					got := "REFUSED"
					if len(called) == 1 {
						got = called[0]
					} else if len(called) > 1 {
						got = fmt.Sprint(called)
					} else if len(w.msgs) != 1 || w.msgs[0].Rcode != dns.RcodeRefused {
						got = "neither a handler nor a REFUSED reply"
					}
					r.Count("routings", 1)
					if got != want {
						r.Fail("routing/letter-case", "patterns %q%s, question %q: routed to %s, want %s (suffix matching ignores ASCII case for every letter)", long, map[bool]string{true: " and zone. (" + spell("zone", (pk+1)%4) + ".)", false: ""}[zoneToo], q.name, got, want)
					}
				}
			}
		}
	}
}

func c14Route(r *fw.R, mask int, noDot bool) {
	mux := dns.NewServeMux()
	var called []string
	reg := map[string]string{} // lower-cased wire form → pattern as registered last
	for i, p := range c14Patterns {
		if mask&(1<<i) == 0 {
			continue
		}
		p := p
		spelled := p
		if noDot && p != "." {
			spelled = strings.TrimSuffix(p, ".")
		}
		mux.HandleFunc(spelled, func(w dns.ResponseWriter, m *dns.Msg) { called = append(called, p) })
		reg[lowerLabels(p)] = p
	}
	type qcase struct {
		names []string
	}
	var qs []qcase
	for _, n := range c14Names {
		qs = append(qs, qcase{[]string{n}})
	}
	qs = append(qs, qcase{nil}, qcase{[]string{"a.b.c.", "example."}}, qcase{[]string{"d.", "b.c."}})
	for _, q := range qs {
		for _, t := range []uint16{dns.TypeA, dns.TypeDS} {
			for hv := 0; hv < 6; hv++ {
				req := new(dns.Msg)
				req.Id = uint16(1000 + hv)
				req.Opcode = []int{dns.OpcodeQuery, dns.OpcodeNotify, dns.OpcodeUpdate}[hv%3]
				req.RecursionDesired, req.CheckingDisabled = hv >= 3, hv >= 3
				for _, n := range q.names {
					req.Question = append(req.Question, dns.Question{Name: n, Qtype: t, Qclass: dns.ClassINET})
				}
				called = called[:0]
				w := &recWriter{}
				mux.ServeDNS(w, req)

				// reference
				var cands []string // enclosing registered patterns, longest first, root excluded
				rootReg := false
				if _, ok := reg[string([]byte{0})]; ok {
					rootReg = true
				}
				selfReg := false
				qIsRoot := false
				if len(q.names) > 0 {
					p := rn.Parse(q.names[0])
					low := rn.Lower(p.Labels)
					qIsRoot = len(low) == 0
					for i := 0; i < len(low); i++ {
						if pat, ok := reg[string(rn.Wire(low[i:]))]; ok {
							cands = append(cands, pat)
							if i == 0 {
								selfReg = true
							}
						}
					}
				}
				if len(cands)+b2i(rootReg) >= 2 {
					r.Nontrivial()
				}
				desc := func() string {
					return fmt.Sprintf("patterns %v, question %v type %d, opcode %d rd/cd %v", regList(reg), q.names, t, req.Opcode, req.RecursionDesired)
				}
				if len(called) > 1 {
					r.Fail("routing/handler-called-twice", "handlers %v called; %s", called, desc())
					continue
				}
				got := ""
				if len(called) == 1 {
					got = called[0]
				}
				var want []string // acceptable handlers ("" = REFUSED)
				pinned := true
				switch {
				case len(q.names) == 0:
					want = []string{""}
				case t != dns.TypeDS:
					if len(cands) > 0 {
						want = []string{cands[0]}
					} else if rootReg {
						want = []string{"."}
					} else {
						want = []string{""}
					}
				default: // DS: the record lives on the parent side of the zone cut at the question name
					switch {
					case len(cands) == 0 && !rootReg:
						want = []string{""}
					case len(cands) == 0:
						want = []string{"."}
					case !selfReg:
						want = []string{cands[0]} // the question name is no registered zone: the closest zone above it holds the DS
					case len(cands) >= 2:
						want = []string{cands[1]} // the enclosing parent zone: the closest registered zone above the question name
					case rootReg && !qIsRoot:
						want = []string{"."} // the only registered zone that encloses the question name from above is the root
					default:
						want = []string{cands[0]} // no parent registered: the child gets it
					}
				}
				ok := false
				for _, x := range want {
					if x == got {
						ok = true
					}
				}
				if !ok {
					r.Fail(fmt.Sprintf("routing/wrong-handler/%s", map[bool]string{true: "DS", false: "non-DS"}[t == dns.TypeDS]), "dispatched to %q, reference %q (pinned=%v); %s", got, want, pinned, desc())
					continue
				}
				if !pinned {
					pos := "other"
					if got == want[0] {
						pos = "closest"
					} else if got == "." {
						pos = "root"
					} else if got == want[len(cands)-1] {
						pos = "topmost-non-root"
					}
					r.Count("DS relaxed region: handler chosen = "+pos, 1)
				}
				r.Count("dispatches", 1)
				if got != "" {
					if len(w.msgs) != 0 {
						r.Fail("routing/reply-besides-handler", "the mux wrote %d messages although a handler was called; %s", len(w.msgs), desc())
					}
					continue
				}
				// REFUSED skeleton
				if len(w.msgs) != 1 {
					r.Fail("refused/not-exactly-one-reply", "%d replies; %s", len(w.msgs), desc())
					continue
				}
				m := w.msgs[0]
				var bad []string
				if m.Id != req.Id {
					bad = append(bad, "ID")
				}
				if !m.Response {
					bad = append(bad, "QR")
				}
				if m.Opcode != req.Opcode {
					bad = append(bad, "opcode")
				}
				if m.Rcode != dns.RcodeRefused {
					bad = append(bad, "rcode")
				}
				if req.Opcode == dns.OpcodeQuery && (m.RecursionDesired != req.RecursionDesired || m.CheckingDisabled != req.CheckingDisabled) {
					bad = append(bad, "RD/CD")
				}
				if len(req.Question) > 0 && (len(m.Question) != 1 || m.Question[0] != req.Question[0]) {
					bad = append(bad, "question")
				}
				if len(req.Question) == 0 && len(m.Question) != 0 {
					bad = append(bad, "question")
				}
				if len(m.Answer)+len(m.Ns)+len(m.Extra) != 0 {
					bad = append(bad, "records")
				}
				if len(bad) > 0 {
					r.Fail("refused/skeleton", "REFUSED reply wrong in %v: %v; %s", bad, m, desc())
				}
			}
		}
	}
	r.Sample(func() any { return strings.Join(regList(reg), " ") })
}

func b2i(b bool) int {
	if b {
		return 1
	}
	return 0
}

func regList(reg map[string]string) []string {
	var out []string
	for _, p := range c14Patterns {
		if reg[lowerLabels(p)] == p {
			out = append(out, p)
		}
	}
	return out
}
