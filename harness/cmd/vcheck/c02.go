package main

import (
	"bytes"
	"fmt"

	"github.com/miekg/dns"
	"verif/harness/bind"
	"verif/harness/enum"
	"verif/harness/fw"
	rn "verif/harness/ref/name"
	"verif/harness/ref/wire"
)

// C02 — hostile wire input: no panic, no hang, bounded allocation, accepted results are sane and can be
// printed, measured, copied and re-packed (DESIGN §5 C02).

func init() {
	fw.Register(&fw.Check{Prop: "C02", Level: "exploration",
		Assume: []string{
			"allocation is measured per decode with the runtime's cumulative allocation counter (single-threaded worker) and an excess is confirmed 3× with runtime.ReadMemStats before it is reported; bound: 4096·len(input) + 64 KiB",
			"work is bounded through a 20 s per-case watchdog (a case is ≤ a few thousand decodes that normally take microseconds each)",
			"the space of all byte strings ≤ 65535 is NOT covered: all strings ≤ 2-3 octets per decoder, and the 1-2-substitution / truncation neighbourhood of structured seeds, pointer graphs and lying counts",
		},
		Spaces: c02Spaces})
}

const c02AllocSlack = 64 << 10

// c02Decode runs one message through Unpack and, if accepted, through the follow-up operations.
func c02Decode(r *fw.R, in []byte, tag string) (accepted bool) {
	// exact capacity: a read behind the input panics instead of seeing whatever append() left there
	buf := make([]byte, len(in))
	copy(buf, in)
	m := new(dns.Msg)
	a0 := fw.AllocBytes()
	err := m.Unpack(buf)
	if d := fw.AllocBytes() - a0; d > uint64(4096*len(in)+c02AllocSlack) {
		// confirm exactly
		minD := ^uint64(0)
		for i := 0; i < 3; i++ {
			x := fw.ExactAlloc(func() { new(dns.Msg).Unpack(append([]byte(nil), in...)) })
			if x < minD {
				minD = x
			}
		}
		if minD > uint64(4096*len(in)+c02AllocSlack) {
			r.Fail("over-allocation/"+tag, "Unpack of %d octets allocated %d bytes (bound %d): %x", len(in), minD, 4096*len(in)+c02AllocSlack, clipB(in))
		}
	}
	if err != nil {
		return false
	}
	c02Accepted(r, m, in, tag)
	if tag == "short-option" {
		c02InsideInput(r, m, in, tag)
	}
	// the same input decoded into a Msg that has been used before (it holds a question, records in all three
	// sections and an OPT from an earlier Unpack): what comes out may hold nothing of the earlier message
	used := new(dns.Msg)
	if err := used.Unpack(c02UsedMsgWire()); err != nil {
		panic(err)
	}
	buf2 := make([]byte, len(in))
	copy(buf2, in)
	if err := used.Unpack(buf2); err != nil {
		r.Fail("depends-on-previous-contents/"+tag, "accepted into a fresh Msg, rejected (%v) into a used one: %x", err, clipB(in))
	} else if a, b := used.String(), m.String(); a != b {
		r.Fail("depends-on-previous-contents/"+tag, "Unpack into a Msg that was used before gives another message than into a fresh one:\n%s\n--- fresh:\n%s\ninput %x", clip(a), clip(b), clipB(in))
	}
	return true
}

var c02UsedWire []byte

// c02UsedMsgWire: a message with a question, one record per section and an OPT.
func c02UsedMsgWire() []byte {
	if c02UsedWire == nil {
		m := new(dns.Msg)
		m.SetQuestion("earlier.example.", dns.TypeMX)
		m.Response = true
		m.Answer = []dns.RR{&dns.MX{Hdr: dns.RR_Header{Name: "earlier.example.", Rrtype: dns.TypeMX, Class: 1, Ttl: 7}, Preference: 1, Mx: "mx.earlier.example."}}
		m.Ns = []dns.RR{&dns.NS{Hdr: dns.RR_Header{Name: "example.", Rrtype: dns.TypeNS, Class: 1, Ttl: 7}, Ns: "ns.earlier.example."}}
		m.Extra = []dns.RR{&dns.A{Hdr: dns.RR_Header{Name: "mx.earlier.example.", Rrtype: dns.TypeA, Class: 1, Ttl: 7}, A: []byte{192, 0, 2, 9}}}
		m.SetEdns0(1232, true)
		b, err := m.Pack()
		if err != nil {
			panic(err)
		}
		c02UsedWire = b
	}
	return c02UsedWire
}

// c02InsideInput: "records all lie inside the input" — the decoded message is a function of the input
// octets alone. The same input is decoded again from buffers with spare capacity behind it, filled with
// 0xAA and with 0x55; the three results (exact capacity, two fills) must print and re-pack identically.
func c02InsideInput(r *fw.R, m *dns.Msg, in []byte, tag string) {
	ref := m.String()
	for _, fill := range []byte{0xAA, 0x55} {
		buf := make([]byte, len(in)+48)
		copy(buf, in)
		for i := len(in); i < len(buf); i++ {
			buf[i] = fill
		}
		m2 := new(dns.Msg)
		if err := m2.Unpack(buf[:len(in)]); err != nil {
			r.Fail("depends-on-octets-behind-input/"+tag, "accepted from an exact-capacity buffer, rejected (%v) from the same octets followed by spare capacity filled with %#x: %x", err, fill, clipB(in))
			return
		}
		if s2 := m2.String(); s2 != ref {
			r.Fail("depends-on-octets-behind-input/"+tag, "the decoded message changes with the octets behind the input (spare capacity filled with %#x):\n%s\n--- exact capacity:\n%s\ninput %x", fill, clip(s2), clip(ref), clipB(in))
			return
		}
	}
}

func clipB(b []byte) []byte {
	if len(b) > 400 {
		return b[:400]
	}
	return b
}

func c02Name(r *fw.R, s, where, tag string, in []byte) {
	if s == "" {
		return
	}
	p := rn.Parse(s)
	if !p.OK || !p.FQDN || !rn.ValidWire(p.Labels) {
		r.Fail("accepted-invalid-name/"+tag, "Unpack accepted a message with an invalid name %q at %s (labels %d, wire length %d): input %x", clip(s), where, len(p.Labels), rn.WireLen(p.Labels), clipB(in))
	}
}

func c02Accepted(r *fw.R, m *dns.Msg, in []byte, tag string) {
	nrec := len(m.Answer) + len(m.Ns) + len(m.Extra)
	if nrec > len(in)/11+1 {
		r.Fail("records-not-in-input/"+tag, "Unpack of %d octets returned %d records: %x", len(in), nrec, clipB(in))
	}
	if len(m.Question) > len(in)/5+1 {
		r.Fail("records-not-in-input/"+tag, "Unpack of %d octets returned %d questions", len(in), len(m.Question))
	}
	for _, q := range m.Question {
		c02Name(r, q.Name, "question", tag, in)
	}
	for _, sec := range [][]dns.RR{m.Answer, m.Ns, m.Extra} {
		for _, rr := range sec {
			c02Name(r, rr.Header().Name, "owner", tag, in)
			c02RRNames(r, rr, tag, in)
		}
	}
	func() {
		defer func() {
			if p := recover(); p != nil {
				r.Fail("panic-after-accept/String/"+tag, "String() of an accepted message panicked: %v; input %x", p, clipB(in))
			}
		}()
		_ = m.String()
	}()
	var l int
	func() {
		defer func() {
			if p := recover(); p != nil {
				r.Fail("panic-after-accept/Len/"+tag, "Len() of an accepted message panicked: %v; input %x", p, clipB(in))
			}
		}()
		l = m.Len()
	}()
	func() {
		defer func() {
			if p := recover(); p != nil {
				r.Fail("panic-after-accept/Copy/"+tag, "Copy() of an accepted message panicked: %v; input %x", p, clipB(in))
			}
		}()
		_ = m.Copy()
	}()
	func() {
		defer func() {
			if p := recover(); p != nil {
				r.Fail("panic-after-accept/Pack/"+tag, "Pack() of an accepted message panicked: %v; input %x", p, clipB(in))
			}
		}()
		for _, comp := range []bool{false, true} {
			m.Compress = comp
			l = m.Len()
			if b, err := m.Pack(); err == nil && l < len(b) {
				r.Fail("len-underestimates-after-accept/"+tag, "accepted message: Len()=%d < len(Pack())=%d (Compress=%v); input %x", l, len(b), comp, clipB(in))
			} else if err != nil && isBufErr(err) {
				r.Fail("pack-no-room-after-accept/"+tag, "accepted message cannot be packed for lack of space: %v (Len=%d, Compress=%v); input %x", err, l, comp, clipB(in))
			}
		}
	}()
}

// c02RRNames checks the name-valued fields of rr, located through the reference table.
func c02RRNames(r *fw.R, rr dns.RR, tag string, in []byte) {
	s := wire.Specs[rr.Header().Rrtype]
	if s == nil {
		return
	}
	if _, ok := rr.(*dns.RFC3597); ok {
		return
	}
	if o, ok := rr.(*dns.OPT); ok {
		// names inside options (RFC 9567 Report-Channel agent domain)
		for _, e := range o.Option {
			if rp, ok := e.(*dns.EDNS0_REPORTING); ok {
				c02Name(r, rp.AgentDomain, "OPT option 18 agent domain", tag, in)
			}
		}
	}
	defer func() { recover() }() // a field name mismatch is C01's business
	for _, n := range bind.NameStrings(rr, s) {
		c02Name(r, n, s.Mnem+" rdata", tag, in)
	}
}

func c02Spaces(c *fw.Ctx) {
	// ---------------------------------------------------------------- (a) all short byte strings per decoder
	maxLen := 2
	c.Space("short/name", "all byte strings of length ≤ 3 into UnpackDomainName at offset 0 (16.8 M): no panic, accepted names valid; non-trivial: accepted", true,
		func(emit func(func(*fw.R))) {
			for a := -1; a < 256; a++ {
				a := a
				emit(func(r *fw.R) {
					try := func(b []byte) {
						s, off, err := dns.UnpackDomainName(b, 0)
						if err == nil {
							r.Nontrivial()
							p := rn.Parse(s)
							if !p.OK || !p.FQDN || !rn.ValidWire(p.Labels) || off > len(b) {
								r.Fail("accepted-invalid-name/short", "UnpackDomainName(%x) = %q, %d", b, s, off)
							}
						}
					}
					if a < 0 {
						try(nil)
						return
					}
					try([]byte{byte(a)})
					for b := 0; b < 256; b++ {
						try([]byte{byte(a), byte(b)})
						for d := 0; d < 256; d++ {
							try([]byte{byte(a), byte(b), byte(d)})
						}
					}
					r.Count("strings", 1+256+65536)
				})
			}
		})

	types := regTypes()
	c.Space("short/rdata", fmt.Sprintf("every registered type × all RDATA byte strings of length ≤ %d (and length 3 over 16 boundary octets) behind a valid RR header, via UnpackRR and as the answer of a message; non-trivial: accepted", maxLen), true,
		func(emit func(func(*fw.R))) {
			special := []byte{0, 1, 2, 3, 4, 0x10, 0x20, 0x3f, 0x40, 0x7f, 0x80, 0xbf, 0xc0, 0xc1, 0xfe, 0xff}
			for _, t := range types {
				for a := -1; a < 256; a++ {
					t, a := t, a
					emit(func(r *fw.R) {
						hdr := []byte{0, byte(t >> 8), byte(t), 0, 1, 0, 0, 0, 5, 0, 0}
						mh := []byte{0, 1, 0x80, 0, 0, 0, 0, 1, 0, 0, 0, 0}
						try := func(rd []byte) {
							rrb := append(append([]byte(nil), hdr...), rd...)
							rrb[10] = byte(len(rd))
							func() {
								defer func() {
									if p := recover(); p != nil {
										r.Fail("panic/short-rdata", "UnpackRR(%x) panicked: %v", rrb, p)
									}
								}()
								rr, _, err := dns.UnpackRR(rrb, 0)
								if err == nil && rr != nil {
									r.Nontrivial()
								}
							}()
							c02Decode(r, append(append([]byte(nil), mh...), rrb...), "short-rdata")
						}
						if a < 0 {
							try(nil)
							return
						}
						try([]byte{byte(a)})
						for b := 0; b < 256; b++ {
							try([]byte{byte(a), byte(b)})
						}
						for _, b := range special {
							for _, d := range special {
								try([]byte{byte(a), b, d})
							}
						}
						r.Count("strings", 1+256+256)
					})
				}
			}
		})

	c.Space("short/with-header", "UnpackRRWithHeader: every registered type (+ one unassigned) × Rdlength 0..12 × buffers of Rdlength..Rdlength+6 octets over fills {00, 01, 3f, c0, ff} × offset {0, 1} (the header is the caller's, the buffer may continue behind the RDATA), and offsets behind the end of the buffer with Rdlength 0..2 (an error): no panic, what is accepted lies inside the input, and what is accepted can be printed, measured, copied and packed; non-trivial: accepted", true,
		func(emit func(func(*fw.R))) {
			ts := append(append([]uint16(nil), types...), 65280)
			for _, t := range ts {
				t := t
				emit(func(r *fw.R) {
					for rdl := 0; rdl <= 12; rdl++ {
						for extra := 0; extra <= 6; extra++ {
							for _, fill := range []byte{0, 1, 0x3f, 0xc0, 0xff} {
								for off := 0; off <= 1; off++ {
									msg := bytes.Repeat([]byte{fill}, off+rdl+extra)
									h := dns.RR_Header{Name: ".", Rrtype: t, Class: 1, Ttl: 5, Rdlength: uint16(rdl)}
									func() {
										defer func() {
											if p := recover(); p != nil {
												r.Fail("panic/with-header", "UnpackRRWithHeader(type %d, Rdlength %d, %d octets of %#x, off %d) panicked: %v", t, rdl, len(msg), fill, off, p)
											}
										}()
										rr, noff, err := dns.UnpackRRWithHeader(h, msg, off)
										if err != nil || rr == nil {
											return
										}
										if noff < off || noff > len(msg) {
											r.Fail("outside-input/with-header", "UnpackRRWithHeader(type %d, Rdlength %d, %d octets, off %d) accepted and returned the offset %d: the record does not lie inside the input", t, rdl, len(msg), off, noff)
										}
										r.Nontrivial()
										_ = rr.String()
										_ = dns.Len(rr)
										_ = dns.Copy(rr)
										buf := make([]byte, 512)
										dns.PackRR(rr, buf, 0, nil, false)
									}()
								}
							}
						}
					}
					// offsets outside the buffer (the header is the caller's: nothing ties it to the buffer): an error, whatever
					// the RDLENGTH says — with RDLENGTH 0 there is no RDATA to read, but the record still has to lie inside the input
					for rdl := 0; rdl <= 2; rdl++ {
						for _, n := range []int{0, 1, 5} {
							for _, off := range []int{n + 1, n + 2, n + 100, 1 << 20} {
								msg := bytes.Repeat([]byte{0}, n)
								h := dns.RR_Header{Name: ".", Rrtype: t, Class: 1, Ttl: 5, Rdlength: uint16(rdl)}
								func() {
									defer func() {
										if p := recover(); p != nil {
											r.Fail("panic/with-header", "UnpackRRWithHeader(type %d, Rdlength %d, %d octets, off %d) panicked: %v", t, rdl, n, off, p)
										}
									}()
									rr, noff, err := dns.UnpackRRWithHeader(h, msg, off)
									if err == nil {
										r.Fail("outside-input/with-header", "UnpackRRWithHeader(type %d, Rdlength %d, %d octets, off %d) = %v, offset %d, no error: the offset lies behind the input", t, rdl, n, off, rr, noff)
									}
								}()
							}
						}
					}
				})
			}
		})

	c.Space("short/options", "every EDNS0 option code the library knows (+2 unknown) and every SVCB key (+2 unknown) × all payloads of length ≤ 2, every length 3..300 and lengths 511..513, 1023..1025, 4096 of boundary fill, and structured payloads (4 leading octets {0,1,2,0x18}×{0,1,2,0x18,0x20,0x21,0x7f,0x80,0xff}³ + a tail of 0..17 octets of 0x00 / 0xff), payloads that are wire names of 250..258 octets (whole, cut, ending in a pointer), inside a well-formed OPT / SVCB record in a message; non-trivial: accepted", true,
		func(emit func(func(*fw.R))) {
			codes := []uint16{1, 2, 3, 4, 5, 6, 7, 8, 9, 10, 11, 12, 15, 18, 19, 20, 65001}
			keys := []uint16{0, 1, 2, 3, 4, 5, 6, 7, 8, 9, 65280, 65535}
			for _, isOpt := range []bool{true, false} {
				list := codes
				if !isOpt {
					list = keys
				}
				for _, code := range list {
					for a := -2 - 36; a < 256; a++ { // -2: structured payloads, -1: lengths 3..20, below: longer payloads, eight lengths per case
						isOpt, code, a := isOpt, code, a
						emit(func(r *fw.R) {
							try := func(pl []byte) {
								var rd []byte
								var rrb []byte
								if isOpt {
									rd = append([]byte{byte(code >> 8), byte(code), byte(len(pl) >> 8), byte(len(pl))}, pl...)
									rrb = []byte{0, 0, 41, 4, 0, 0, 0, 0, 0, byte(len(rd) >> 8), byte(len(rd))}
								} else {
									rd = append([]byte{0, 1, 0, byte(code >> 8), byte(code), byte(len(pl) >> 8), byte(len(pl))}, pl...)
									rrb = []byte{0, 0, 64, 0, 1, 0, 0, 0, 5, byte(len(rd) >> 8), byte(len(rd))}
								}
								rrb = append(rrb, rd...)
								msg := append([]byte{0, 1, 0x80, 0, 0, 0, 0, 0, 0, 0, 0, 1}, rrb...)
								if c02Decode(r, msg, "short-option") {
									r.Nontrivial()
								}
								// the same option / key followed by a sibling (a LOCAL option, the highest SVCB
								// key) filled with 0xAA and with 0x55: what the first one decodes to may not
								// depend on the octets of the next
								if code >= 65000 {
									return
								}
								var first [2]string
								for i, fill := range []byte{0xAA, 0x55} {
									sib := append([]byte{0xff, 0xfe, 0, 20}, bytes.Repeat([]byte{fill}, 20)...)
									rd2 := append(append([]byte(nil), rd...), sib...)
									rr2 := append(append([]byte(nil), rrb[:9]...), byte(len(rd2)>>8), byte(len(rd2)))
									rr2 = append(rr2, rd2...)
									msg2 := append([]byte{0, 1, 0x80, 0, 0, 0, 0, 0, 0, 0, 0, 1}, rr2...)
									m := new(dns.Msg)
									if m.Unpack(msg2) != nil || len(m.Extra) != 1 {
										first[i] = "rejected"
										continue
									}
									switch x := m.Extra[0].(type) {
									case *dns.OPT:
										if len(x.Option) > 0 {
											first[i] = x.Option[0].String()
										}
									case *dns.SVCB:
										if len(x.Value) > 0 {
											first[i] = x.Value[0].String()
										}
									}
								}
								if first[0] != first[1] {
									r.Fail("depends-on-octets-behind-input/short-option", "option/key %d with payload %x decodes to %q when the next option is filled with 0xAA and to %q when it is filled with 0x55", code, pl, clip(first[0]), clip(first[1]))
								}
							}
							if a == -2 {
								// structured payloads: 4 leading octets over a boundary alphabet (families, prefix
								// lengths, counts, lengths) followed by a tail of 0..17 octets
								al := []byte{0, 1, 2, 0x18, 0x20, 0x21, 0x7f, 0x80, 0xff}
								for _, b0 := range al[:4] {
									for _, b1 := range al {
										for _, b2 := range al {
											for _, b3 := range al {
												for n := 0; n <= 17; n++ {
													for _, fill := range []byte{0, 0xff} {
														try(append([]byte{b0, b1, b2, b3}, bytes.Repeat([]byte{fill}, n)...))
														if n == 0 {
															break
														}
													}
												}
											}
										}
									}
								}
								return
							}
							if a == -1 {
								try(nil)
								// payloads that are wire-format names around the 255-octet limit (options and keys that carry a name:
								// the Report-Channel agent domain; for the others this is opaque data), also cut short by one octet
								// and ending in a compression pointer instead of the root
								for total := 250; total <= 258; total++ {
									var nm []byte
									left := total - 1
									for left > 0 {
										n := left - 1
										if n > 63 {
											n = 63
										}
										if left-1-n == 1 {
											n--
										}
										nm = append(nm, byte(n))
										nm = append(nm, bytes.Repeat([]byte{'a'}, n)...)
										left -= 1 + n
									}
									try(append(append([]byte(nil), nm...), 0))
									try(nm)
									try(append(append([]byte(nil), nm...), 0xc0, 0x0c))
								}
								for n := 3; n <= 20; n++ {
									for _, fill := range []byte{0, 1, 0x7f, 0x80, 0xff} {
										try(bytes.Repeat([]byte{fill}, n))
									}
								}
								return
							}
							if a < -2 {
								// every payload length up to 300 octets (protocol maxima of the options lie below: cookies 40,
								// keepalive 2, padding / NSID anything) and lengths around 512, 1024 and 4096, eight lengths per case
								// (printing a 64 KiB NSID takes minutes — OPT.String concatenates per octet — and the statement puts
								// no bound on printing, so the largest payload tried is 4096 octets)
								lens := []int{}
								for n := 21; n <= 300; n++ {
									lens = append(lens, n)
								}
								lens = append(lens, 511, 512, 513, 1023, 1024, 1025, 4096)
								k := -3 - a
								for i := 8 * k; i < 8*k+8 && i < len(lens); i++ {
									n := lens[i]
									for _, fill := range []byte{0, 1, 0x7f, 0x80, 0xff} {
										if n > 300 && fill != 0 && fill != 0xff {
											continue
										}
										try(bytes.Repeat([]byte{fill}, n))
									}
								}
								return
							}
							try([]byte{byte(a)})
							for b := 0; b < 256; b++ {
								try([]byte{byte(a), byte(b)})
							}
						})
					}
				}
			}
		})

	c.Space("short/option-sequences", "SVCB / HTTPS records with every sequence of 2 and 3 parameters over the keys {0,1,2,3,4,5,6,7,65280,65534,65535} (in order, out of order, repeated; each with an empty and with a minimal well-formed value), and OPT records with every sequence of 2 options over the codes {1,2,3,5,8,9,10,11,12,15,18,19,65001} (empty and minimal values): decoders that look at the neighbouring parameter (ordering, duplicates, mandatory) see every neighbour; non-trivial: accepted", true,
		func(emit func(func(*fw.R))) {
			keys := []uint16{0, 1, 2, 3, 4, 5, 6, 7, 65280, 65534, 65535}
			minimal := map[uint16][]byte{0: {0, 1}, 1: {2, 'h', '2'}, 2: {}, 3: {1, 187}, 4: {192, 0, 2, 1}, 5: {0, 1}, 6: make([]byte, 16), 7: []byte("/q{?dns}"), 65280: {1}, 65534: {1}, 65535: {1}}
			var seqs [][]uint16
			for _, a := range keys {
				for _, b := range keys {
					seqs = append(seqs, []uint16{a, b})
					for _, c3 := range keys {
						seqs = append(seqs, []uint16{a, b, c3})
					}
				}
			}
			for _, sq := range seqs {
				sq := sq
				emit(func(r *fw.R) {
					for mode := 0; mode < 2; mode++ {
						rd := []byte{0, 1, 0}
						for _, k := range sq {
							var v []byte
							if mode == 1 {
								v = minimal[k]
							}
							rd = append(rd, byte(k>>8), byte(k), byte(len(v)>>8), byte(len(v)))
							rd = append(rd, v...)
						}
						for _, typ := range []byte{64, 65} {
							rrb := append([]byte{0, 0, typ, 0, 1, 0, 0, 0, 5, byte(len(rd) >> 8), byte(len(rd))}, rd...)
							msg := append([]byte{0, 1, 0x80, 0, 0, 0, 0, 1, 0, 0, 0, 0}, rrb...)
							if c02Decode(r, msg, "option-sequence") {
								r.Nontrivial()
							}
						}
					}
				})
			}
			codes := []uint16{1, 2, 3, 5, 8, 9, 10, 11, 12, 15, 18, 19, 65001}
			minOpt := map[uint16][]byte{1: make([]byte, 18), 2: {0, 0, 14, 16}, 3: []byte("ns"), 5: {8, 13}, 8: {0, 1, 24, 0, 192, 0, 2}, 9: {0, 0, 0, 60}, 10: make([]byte, 8), 11: {0, 100}, 12: {0, 0}, 15: {0, 1}, 18: {0}, 19: {1, 0, 0, 0, 0, 1}, 65001: {1}}
			for _, a := range codes {
				for _, b := range codes {
					a, b := a, b
					emit(func(r *fw.R) {
						for mode := 0; mode < 2; mode++ {
							var rd []byte
							for _, k := range []uint16{a, b} {
								var v []byte
								if mode == 1 {
									v = minOpt[k]
								}
								rd = append(rd, byte(k>>8), byte(k), byte(len(v)>>8), byte(len(v)))
								rd = append(rd, v...)
							}
							rrb := append([]byte{0, 0, 41, 4, 0, 0, 0, 0, 0, byte(len(rd) >> 8), byte(len(rd))}, rd...)
							msg := append([]byte{0, 1, 0x80, 0, 0, 0, 0, 0, 0, 0, 0, 1}, rrb...)
							if c02Decode(r, msg, "option-sequence") {
								r.Nontrivial()
							}
						}
					})
				}
			}
		})

	// ---------------------------------------------------------------- (b) neighbourhoods of structured seeds
	type seed struct {
		name string
		b    []byte
	}
	var seeds []seed
	for _, t := range types {
		s := wire.Specs[t]
		if s == nil {
			continue
		}
		vi := 0
		perType := 0
		enum.Vectors(s, 1, 0, func(vals []wire.Val, devs int) {
			if perType >= 24 { // the structurally different values come first in every alphabet
				return
			}
			m := &wire.Msg{ID: 0xbeef, Flags: 0x8180, Q: []wire.Question{{Name: enum.Names[0], Type: t, Class: 1}}}
			rr := wire.RR{Name: enum.Names[3], Type: t, Class: 1, TTL: 60, Vals: vals}
			sec := 0
			if t == 41 {
				rr.Name, rr.Class, sec = nil, 1232, 2
			}
			m.Sec[sec] = []wire.RR{rr}
			m.Sec[1] = []wire.RR{mkRR(2, enum.Names[0], enum.Names[2])}
			if b, err := wire.EncodeMsg(m); err == nil && len(b) < 260 {
				seeds = append(seeds, seed{fmt.Sprintf("%s/%d/plain", s.Mnem, vi), b})
				perType++
				if devs == 0 {
					seeds = append(seeds, seed{fmt.Sprintf("%s/%d/ptr", s.Mnem, vi), wire.EncodeMsgPointers(m)})
				}
			}
			vi++
		})
	}
	c.Space("seed/truncate+substitute", fmt.Sprintf("%d seed messages (for every registered type: the default record and every record with one field moved to another alphabet value, < 260 octets; the default also with all names compressed): every truncation and every single-octet substitution by all 256 values; non-trivial: the mutated message is accepted", len(seeds)), true,
		func(emit func(func(*fw.R))) {
			for _, sd := range seeds {
				for pos := -1; pos < len(sd.b); pos++ {
					sd, pos := sd, pos
					emit(func(r *fw.R) {
						if pos < 0 {
							for n := 0; n <= len(sd.b); n++ {
								if c02Decode(r, sd.b[:n], "truncated") && n < len(sd.b) {
									r.Nontrivial()
								}
							}
							r.Sample(func() any { return fmt.Sprintf("seed %s: %x", sd.name, sd.b) })
							return
						}
						mb := append([]byte(nil), sd.b...)
						for v := 0; v < 256; v++ {
							if byte(v) == sd.b[pos] {
								continue
							}
							mb[pos] = byte(v)
							if c02Decode(r, mb, "substituted") {
								r.Nontrivial()
							}
						}
						r.Count("mutants", 255)
					})
				}
			}
		})
	if c.Thorough {
		c.Space("seed/pairs", "the same seeds: every pair of positions among the structural octets (counts, RDLENGTH, label lengths, pointers, length prefixes — located by where a single substitution changes the accept/reject outcome or by value ≥ 0xC0) × values {0,1,0x3f,0x40,0x7f,0x80,0xbf,0xc0,0xc1,0xff}²; non-trivial: accepted", true,
			func(emit func(func(*fw.R))) {
				vals := []byte{0, 1, 0x3f, 0x40, 0x7f, 0x80, 0xbf, 0xc0, 0xc1, 0xff}
				for _, sd := range seeds {
					sd := sd
					// structural positions: header counts, and octets that look like lengths/pointers (value < 64 followed by that many octets, or ≥ 0xC0)
					var pos []int
					for i := 4; i < 12; i++ {
						pos = append(pos, i)
					}
					for i := 12; i < len(sd.b); i++ {
						if sd.b[i] >= 0xC0 || (sd.b[i] < 64 && i+int(sd.b[i]) < len(sd.b)) {
							pos = append(pos, i)
						}
					}
					if len(pos) > 40 {
						pos = pos[:40]
					}
					for i := 0; i < len(pos); i++ {
						i := i
						emit(func(r *fw.R) {
							mb := append([]byte(nil), sd.b...)
							for j := i + 1; j < len(pos); j++ {
								for _, v1 := range vals {
									for _, v2 := range vals {
										mb[pos[i]], mb[pos[j]] = v1, v2
										if c02Decode(r, mb, "pair") {
											r.Nontrivial()
										}
									}
								}
								mb[pos[j]] = sd.b[pos[j]]
							}
						})
					}
				}
			})
	}

	// ---------------------------------------------------------------- (c) pointer graphs
	c.Space("pointers/graphs", "a message with 4 name slots (question + 3 owner names of A records); each slot is a literal label followed by: end, or a pointer to any of the 4 slots' label or pointer octet (self, forward, backward, mutual) — all 9^4 graphs; non-trivial: accepted", true,
		func(emit func(func(*fw.R))) {
			for g := 0; g < 9*9*9*9; g++ {
				g := g
				emit(func(r *fw.R) {
					// slot i at offset o[i]: label (1, 'a'+i) then either 00 (end) or a 2-octet pointer
					var o, ch [4]int
					x := g
					off := 12
					for i := 0; i < 4; i++ {
						ch[i] = x % 9
						x /= 9
						o[i] = off
						off += 2 + 1
						if ch[i] != 0 {
							off++
						}
						if i == 0 {
							off += 4
						} else {
							off += 10 + 4
						}
					}
					b := []byte{0, 1, 0x80, 0, 0, 1, 0, 3, 0, 0, 0, 0}
					for i := 0; i < 4; i++ {
						b = append(b, 1, byte('a'+i))
						if ch[i] == 0 {
							b = append(b, 0)
						} else {
							tgt := o[(ch[i]-1)/2]
							if (ch[i]-1)%2 == 1 {
								tgt += 2 // the terminator / pointer octet of that slot
							}
							b = append(b, 0xC0|byte(tgt>>8), byte(tgt))
						}
						if i == 0 {
							b = append(b, 0, 1, 0, 1)
						} else {
							b = append(b, 0, 1, 0, 1, 0, 0, 0, 9, 0, 4, 1, 2, 3, 4)
						}
					}
					if c02Decode(r, b, "pointer-graph") {
						r.Nontrivial()
					}
				})
			}
		})
	c.Space("pointers/chains", "pointer chains of 1..140 hops ending in a label (the limit is 126), and names whose labels sum to 250..260 octets reached through 0..3 pointers; non-trivial: accepted", true,
		func(emit func(func(*fw.R))) {
			for hops := 1; hops <= 140; hops++ {
				hops := hops
				emit(func(r *fw.R) {
					// header + question whose name is a chain: pointers laid out backwards
					b := []byte{0, 1, 0, 0, 0, 1, 0, 0, 0, 0, 0, 0}
					// base name at 12: "a" root ; then pointer k at 15+2k → points to previous
					b = append(b, 1, 'a', 0)
					prev := 12
					for k := 0; k < hops; k++ {
						at := len(b)
						b = append(b, 0xC0|byte(prev>>8), byte(prev))
						prev = at
					}
					// the question name is the last pointer: place question fields after it
					// (the chain octets before it are not part of any section: build message so that the question starts at the last pointer)
					q := append([]byte{0, 1, 0, 0, 0, 1, 0, 0, 0, 0, 0, 0}, 0xC0|byte((12+4+4)>>8), byte(12+4+4), 0, 1, 0, 1) // question = pointer into the answer area
					_ = q
					s, _, err := dns.UnpackDomainName(b, prev)
					if err == nil {
						r.Nontrivial()
						if s != "a." {
							r.Fail("pointer-chain-wrong-name", "chain of %d hops decoded to %q", hops, s)
						}
						if hops > 127 {
							r.Fail("pointer-chain-unbounded", "a chain of %d pointers was followed", hops)
						}
					}
				})
			}
			for total := 250; total <= 260; total++ {
				for ptrs := 0; ptrs <= 3; ptrs++ {
					total, ptrs := total, ptrs
					emit(func(r *fw.R) {
						// labels of 50 octets; split into ptrs+1 fragments linked by pointers
						var lens []int
						left := total - 1
						for left > 0 {
							n := 51
							if left < n {
								n = left
							}
							lens = append(lens, n-1)
							left -= n
						}
						if lens[len(lens)-1] == 0 {
							return
						}
						// fragments laid out from the tail backwards
						per := (len(lens) + ptrs) / (ptrs + 1)
						var b []byte
						next := -1
						for end := len(lens); end > 0; end -= per {
							st := end - per
							if st < 0 {
								st = 0
							}
							at := len(b)
							for _, n := range lens[st:end] {
								b = append(b, byte(n))
								b = append(b, bytes.Repeat([]byte{'x'}, n)...)
							}
							if next < 0 {
								b = append(b, 0)
							} else {
								b = append(b, 0xC0|byte(next>>8), byte(next))
							}
							next = at
						}
						s, _, err := dns.UnpackDomainName(b, next)
						if err == nil {
							r.Nontrivial()
							if total > 255 {
								r.Fail("accepted-invalid-name/long", "a name of %d wire octets reached through %d pointers was accepted (%d chars)", total, ptrs, len(s))
							}
						} else if total <= 255 {
							r.Fail("rejected-valid-name/long", "a name of %d wire octets through %d pointers was rejected: %v", total, ptrs, err)
						}
					})
				}
			}
		})

	// ---------------------------------------------------------------- (d) lying counts and big inputs
	c.Space("counts", "header counts from {0,1,2,3,255,65535}^4 over bodies {empty, 1 question, 1 question + 1 RR, 1 question + 3 RRs}, plus 65535-octet inputs (C00C repeated, root labels, minimal questions, minimal RRs) with counts 65535: bounded allocation, records lie inside the input; non-trivial: accepted", true,
		func(emit func(func(*fw.R))) {
			cs := []int{0, 1, 2, 3, 255, 65535}
			q := []byte{1, 'a', 0, 0, 1, 0, 1}
			rr := []byte{0xC0, 12, 0, 1, 0, 1, 0, 0, 0, 9, 0, 4, 1, 2, 3, 4}
			bodies := [][]byte{nil, q, append(append([]byte(nil), q...), rr...), append(append(append(append([]byte(nil), q...), rr...), rr...), rr...)}
			for _, c0 := range cs {
				for _, c1 := range cs {
					for _, c2 := range cs {
						for _, c3 := range cs {
							c0, c1, c2, c3 := c0, c1, c2, c3
							emit(func(r *fw.R) {
								for _, body := range bodies {
									h := []byte{0, 1, 0x80, 0, byte(c0 >> 8), byte(c0), byte(c1 >> 8), byte(c1), byte(c2 >> 8), byte(c2), byte(c3 >> 8), byte(c3)}
									if c02Decode(r, append(h, body...), "counts") {
										r.Nontrivial()
									}
								}
							})
						}
					}
				}
			}
			big := func(unit []byte, hdr []byte) []byte {
				b := append([]byte(nil), hdr...)
				for len(b)+len(unit) <= 65535 {
					b = append(b, unit...)
				}
				return b
			}
			all := []byte{0, 1, 0x80, 0, 0xff, 0xff, 0xff, 0xff, 0xff, 0xff, 0xff, 0xff}
			qonly := []byte{0, 1, 0x80, 0, 0xff, 0xff, 0, 0, 0, 0, 0, 0}
			aonly := []byte{0, 1, 0x80, 0, 0, 0, 0xff, 0xff, 0, 0, 0, 0}
			for i, in := range [][]byte{
				big([]byte{0xC0, 0x0C}, all), big([]byte{0}, all), big([]byte{0, 0, 1, 0, 1}, qonly), big([]byte{0, 0, 1, 0, 1, 0, 0, 0, 0, 0, 0}, aonly),
				big([]byte{0, 0, 16, 0, 1, 0, 0, 0, 0, 0, 1, 0}, aonly), big([]byte{0xC0, 0x0C, 0, 1, 0, 1}, qonly), big([]byte{63}, all),
			} {
				i, in := i, in
				emit(func(r *fw.R) {
					if c02Decode(r, in, fmt.Sprintf("big-%d", i)) {
						r.Nontrivial()
					}
				})
			}
		})
}

// c02Compact: a vector with the *last* alphabet value per field but short enough for exhaustive mutation.
func c02Compact(s *wire.Spec) []wire.Val {
	vals := enum.Default(s)
	for i := range s.Fields {
		a := enum.Alphabet(s, i)
		// pick the richest value whose encoding stays small
		for j := len(a) - 1; j > 0; j-- {
			v := a[j]
			sz := len(v.B) + len(v.T)*2
			for _, l := range v.L {
				sz += len(l)
			}
			for _, o := range v.Opts {
				sz += len(o.Data)
			}
			for _, p := range v.Params {
				sz += len(p.Data)
			}
			if sz <= 40 {
				vals[i] = v
				break
			}
		}
	}
	fixGateway(s, vals)
	return vals
}

func fixGateway(s *wire.Spec, vals []wire.Val) {
	for i, f := range s.Fields {
		if f.K != wire.Gateway {
			continue
		}
		var tv uint64
		for j, g := range s.Fields {
			if g.Go == f.TypeGo {
				tv = vals[j].U
			}
		}
		v := enum.Alphabet(s, i)[0]
		switch tv & f.Mask {
		case 0:
			vals[i] = wire.Val{}
		case 1:
			vals[i] = wire.Val{B: v.B[12:16]}
		case 2:
			vals[i] = wire.Val{B: v.B}
		case 3:
			vals[i] = wire.Val{L: v.L, Root: true}
		default:
			vals[i] = wire.Val{}
		}
	}
}
