package main

import (
	"fmt"
	"os"
	"runtime/debug"
	"strings"

	"github.com/miekg/dns"
	"verif/harness/fw"
	"verif/harness/ref/zone"
)

// ---------------------------------------------------------------------------------------------
// line constructors

func zW(s string) zone.Tok { return zone.Tok{Kind: zone.Word, S: s} }
func zN(s string) zone.Tok { return zone.Tok{Kind: zone.Name, S: s} }
func zS(s string) zone.Tok { return zone.Tok{Kind: zone.Str, S: s} }

// zRec: owner "" = omitted; hdr is one of "", "T", "C", "T C", "C T" with T a TTL and C a class.
func zRec(owner, ttl, class string, classFirst bool, typ string, rd ...zone.Tok) zone.Line {
	return zone.Line{Kind: zone.Record, HasOwner: owner != "", Owner: owner, TTL: ttl, Class: class, ClassFirst: classFirst, Type: typ, RData: rd}
}
func zOrigin(n string) zone.Line { return zone.Line{Kind: zone.Origin, Name: n} }
func zTTL(t string) zone.Line    { return zone.Line{Kind: zone.TTL, TTL: t} }
func zGen(rng, lhs, ttl, class, typ, rhs string) zone.Line {
	return zone.Line{Kind: zone.Generate, Range: rng, LHS: lhs, TTL: ttl, Class: class, Type: typ, RHS: rhs}
}
func zInc(file string, abs bool, origin string) zone.Line {
	return zone.Line{Kind: zone.Include, File: file, AbsPath: abs, Name: origin}
}

func zHasInclude(lines []zone.Line) bool {
	for _, l := range lines {
		if l.Kind == zone.Include {
			return true
		}
	}
	return false
}

var c06Origins = []string{"", ".", "example."}

func c06Configs(withInclude bool) []c06Cfg {
	d := uint32(77)
	var cs []c06Cfg
	for _, o := range c06Origins {
		for _, t := range []*uint32{nil, &d} {
			cs = append(cs, c06Cfg{origin: o, defTTL: t, inc: 0})
			if withInclude {
				cs = append(cs, c06Cfg{origin: o, defTTL: t, inc: 1}, c06Cfg{origin: o, defTTL: t, inc: 2})
			}
		}
	}
	return cs
}

func c06Model(c c06Cfg) zone.Config {
	return zone.Config{Origin: c.origin, DefaultTTL: c.defTTL, IncludeAllowed: c.inc != 0, MaxDepth: 7}
}

// the include files used by the program spaces
var c06StdFiles = map[string][]zone.Line{
	// changes its own origin, states explicit TTLs
	"inc": {zOrigin("in.test."), zRec("i", "9", "", false, "A", zW("192.0.2.90")), zRec("j", "9", "", false, "MX", zW("5"), zN("k"))},
	// has its own $TTL, relative names under the origin it is included with
	"inc2": {zTTL("2m"), zRec("p", "", "", false, "A", zW("192.0.2.91")), zRec("@", "", "CH", false, "NS", zN("q"))},
	// states no TTL at all: inherits the includer's
	"inc3": {zRec("r", "", "", false, "A", zW("192.0.2.92"))},
}

func ip(n int) zone.Tok { return zW(fmt.Sprintf("192.0.2.%d", n)) }

var c06TTLs = []string{"0", "5", "1h", "1H30m", "1w2d3h4m5s"}

// c06FullAlphabet: DESIGN C06 line alphabet.
func c06FullAlphabet() []zone.Line {
	var ls []zone.Line
	n := 0
	for _, owner := range []string{"", "@", "a", "a.b", "x.example."} {
		n++
		ls = append(ls, zRec(owner, "", "", false, "A", ip(n)))
		for _, t := range c06TTLs {
			ls = append(ls, zRec(owner, t, "", false, "A", ip(n)))
		}
		for _, c := range []string{"IN", "CH"} {
			ls = append(ls, zRec(owner, "", c, false, "A", ip(n)))
			for _, t := range c06TTLs {
				ls = append(ls, zRec(owner, t, c, false, "A", ip(n)), zRec(owner, t, c, true, "A", ip(n)))
			}
		}
	}
	typed := [][]interface{}{
		{"MX", zW("10"), zN("mail")}, {"MX", zW("0"), zN("@")}, {"MX", zW("65535"), zN("x.example.")},
		{"TXT", zS("hello")}, {"TXT", zS("two words")}, {"TXT", zS("a"), zS("b")}, {"TXT", zS("")}, {"TXT", zS("a;b(c)\"\\ \t$x")},
		{"SOA", zN("ns"), zN("hostmaster"), zW("1"), zW("7200"), zW("3600"), zW("1209600"), zW("300")},
		{"SOA", zN("@"), zN("x.example."), zW("4294967295"), zW("0"), zW("1"), zW("2"), zW("3")},
		{"NS", zN("ns")}, {"NS", zN("@")},
		{"CNAME", zN("x.example.")}, {"CNAME", zN("a.b")},
		// relative names whose text ends in an escaped dot (the dot belongs to the last label)
		{"MX", zW("10"), zN(`mail\.`)}, {"CNAME", zN(`a\.b\.`)},
	}
	for _, t := range typed {
		var rd []zone.Tok
		for _, x := range t[1:] {
			rd = append(rd, x.(zone.Tok))
		}
		ls = append(ls, zRec("a", "5", "IN", false, t[0].(string), rd...), zRec("", "", "", false, t[0].(string), rd...))
	}
	ls = append(ls, zOrigin("sub"), zOrigin("o.test."), zOrigin("."), zOrigin(`esc\.`))
	ls = append(ls, zRec(`h\.`, "5", "IN", false, "A", ip(250)))
	for _, t := range c06TTLs {
		ls = append(ls, zTTL(t))
	}
	ls = append(ls,
		zGen("1-2", "h$", "7", "", "A", "10.0.0.$"),
		zGen("1-2", "g$", "", "CH", "CNAME", "t$"),
		zGen("3-1", "h$", "7", "", "A", "10.0.0.$"),
		zInc("inc", false, ""), zInc("inc2", false, "io.test."), zInc("inc3", true, ""), zInc("inc2", true, "rel"), zInc("nosuchfile", false, ""))
	return ls
}

// c06StateAlphabet: the reduced alphabet for longer programs (every header shape, three owners).
func c06StateAlphabet() []zone.Line {
	var ls []zone.Line
	n := 0
	for _, owner := range []string{"", "a", "@"} {
		for _, h := range [][3]interface{}{{"", "", false}, {"5", "", false}, {"", "CH", false}, {"5", "CH", false}, {"5", "CH", true}} {
			n++
			ls = append(ls, zRec(owner, h[0].(string), h[1].(string), h[2].(bool), "A", ip(n)))
		}
	}
	ls = append(ls,
		zRec("a.b", "", "", false, "MX", zW("10"), zN("m")),
		zRec("x.example.", "1h", "IN", false, "MX", zW("0"), zN("@")),
		zOrigin("sub"), zOrigin("o.test."), zTTL("1H30m"),
		zGen("1-2", "h$", "7", "", "A", "10.0.0.$"),
		zGen("1-2", "g$", "", "", "CNAME", "t$"),
		zInc("inc", false, ""), zInc("inc2", false, "io.test."), zInc("inc3", true, ""))
	return ls
}

// singles yields every rendering with exactly one deviation.
func c06Singles(lines []zone.Line) func(func([]zone.Dev)) {
	return func(yield func([]zone.Dev)) {
		for _, d := range zone.Deviations(lines) {
			yield([]zone.Dev{d})
		}
	}
}

func c06LineText(l zone.Line) string {
	t, _ := zone.Render([]zone.Line{l}, zone.Style{Dir: "<dir>"})
	return strings.TrimSuffix(t, "\n")
}

func c06ProgText(ls []zone.Line) string {
	t, _ := zone.Render(ls, zone.Style{Dir: "<dir>"})
	return t
}

func c06Spaces(c *fw.Ctx) {
	defer c06env.cleanup()
	defer debug.SetGCPercent(debug.SetGCPercent(800)) // the lexer allocates 1 KiB per token; the live heap is tiny
	std := newFileSet("std", c06StdFiles)

	// one program: all configurations × (plain + given deviation sets)
	runProgram := func(r *fw.R, lines []zone.Line, devsets func(func([]zone.Dev))) {
		p := &zone.Program{Main: lines, Files: c06StdFiles}
		n := 0
		for _, cfg := range c06Configs(zHasInclude(lines)) {
			n += c06Renderings(r, p, cfg, std, c06Model(cfg), devsets)
		}
		r.Count("texts_parsed", int64(n))
	}
	nontrivial := func(r *fw.R, lines []zone.Line) {
		// rule: some record takes its owner, TTL or origin from an earlier line or a directive
		for i, l := range lines {
			if i > 0 && (l.Kind == zone.Record && (!l.HasOwner || l.TTL == "") || lines[i-1].Kind != zone.Record) {
				r.Nontrivial()
			}
		}
	}

	full := c06FullAlphabet()
	c.Space("prog-full2", fmt.Sprintf("all programs of 1 and 2 lines over the full line alphabet (%d lines: 5 owner spellings incl. omitted × 28 TTL/class headers incl. both orders; MX/TXT/SOA/NS/CNAME lines incl. relative names ending in an escaped dot; $ORIGIN ×4, $TTL ×5, $GENERATE ×3, $INCLUDE ×5) × origins {\"\",\".\",\"example.\"} × default TTL {unset,77} × (includes {off,MapFS,disk} when the program has an $INCLUDE) × plain rendering and every rendering with one lexical deviation; non-trivial: a record depends on an earlier line (omitted owner/TTL, or follows a directive)", len(full)), true,
		func(emit func(func(*fw.R))) {
			for i := range full {
				i := i
				emit(func(r *fw.R) {
					ls := []zone.Line{full[i]}
					runProgram(r, ls, c06Singles(ls))
					r.Sample(func() any { return c06ProgText(ls) })
				})
			}
			for i := range full {
				for j := range full {
					i, j := i, j
					emit(func(r *fw.R) {
						ls := []zone.Line{full[i], full[j]}
						nontrivial(r, ls)
						runProgram(r, ls, c06Singles(ls))
						r.Sample(func() any { return c06ProgText(ls) })
					})
				}
			}
		})

	state := c06StateAlphabet()
	maxLen := 3
	if c.Thorough {
		maxLen = 4
	}
	c.Space("prog-state", fmt.Sprintf("all programs of 3..%d lines over the reduced alphabet (%d lines: owner {omitted,a,@} × header {none, TTL, class, TTL class, class TTL}; two MX lines with relative RDATA names; $ORIGIN relative/absolute; $TTL; $GENERATE with/without TTL; $INCLUDE ×3) × the same configurations × plain rendering and every rendering with one lexical deviation; non-trivial as above", maxLen, len(state)), true,
		func(emit func(func(*fw.R))) {
			var rec func(prefix []int)
			rec = func(prefix []int) {
				if len(prefix) >= 3 {
					idx := append([]int(nil), prefix...)
					emit(func(r *fw.R) {
						ls := make([]zone.Line, len(idx))
						for k, x := range idx {
							ls[k] = state[x]
						}
						nontrivial(r, ls)
						runProgram(r, ls, c06Singles(ls))
						r.Sample(func() any { return c06ProgText(ls) })
					})
				}
				if len(prefix) == maxLen {
					return
				}
				for x := range state {
					rec(append(prefix, x))
				}
			}
			rec(nil)
		})

	// longer programs, plain rendering only
	longLen := maxLen + 1
	c.Space("prog-state-long", fmt.Sprintf("all programs of exactly %d lines over the same reduced alphabet × the same configurations, plain rendering only; one case = one choice of the first 3 lines; non-trivial as above", longLen), true,
		func(emit func(func(*fw.R))) {
			for a := range state {
				for b := range state {
					for d := range state {
						a, b, d := a, b, d
						emit(func(r *fw.R) {
							idx := make([]int, longLen)
							idx[0], idx[1], idx[2] = a, b, d
							var rec func(k int)
							rec = func(k int) {
								if k == longLen {
									ls := make([]zone.Line, longLen)
									for i, x := range idx {
										ls[i] = state[x]
									}
									nontrivial(r, ls)
									runProgram(r, ls, nil)
									return
								}
								for x := range state {
									idx[k] = x
									rec(k + 1)
								}
							}
							rec(3)
							r.Sample(func() any {
								ls := make([]zone.Line, longLen)
								for i, x := range idx {
									ls[i] = state[x]
								}
								return c06ProgText(ls)
							})
						})
					}
				}
			}
		})

	c06LexicalSpace(c, std)
	c06TTLSpace(c)
	c06GenerateSpace(c)
	c06IncludeSpace(c)
	c06IncludeDirSpace(c)
	c06LongSpace(c)
	c06CompletionLimitSpace(c)
}

// ---------------------------------------------------------------------------------------------
// lexical renderings

func c06LexicalSpace(c *fw.Ctx, std *c06FileSet) {
	maxDev := 2
	if c.Thorough {
		maxDev = 3
	}
	before := zRec("x.example.", "9", "IN", false, "A", ip(9))
	after := zRec("", "", "", false, "A", ip(2)) // omitted owner and TTL: shows what the focus line left behind
	focus := []zone.Line{
		zRec("a", "5", "IN", false, "A", ip(1)),
		zRec("", "1H30m", "CH", true, "A", ip(1)),
		zRec("a", "5", "IN", false, "MX", zW("10"), zN("mail")),
		zRec("@", "", "", false, "TXT", zS("hello"), zS("two words"), zS("k=v")),
		zRec("a", "5", "IN", false, "TXT", zS("a;b(c)\"\\"), zS("x")),
		zRec("@", "1h", "IN", false, "SOA", zN("ns"), zN("hostmaster"), zW("1"), zW("7200"), zW("3600"), zW("1209600"), zW("300")),
		zRec("a.b", "", "IN", false, "NS", zN("ns")),
		zRec("a", "5", "", false, "CNAME", zN("x.example.")),
		// rdata words spelled like type / class mnemonics: a lexer that classifies words must know that the type is behind it
		zRec("a", "5", "IN", false, "TXT", zS("A"), zS("in"), zS("TYPE1")),
		zRec("a", "5", "IN", false, "MX", zW("10"), zN("mx")),
		zRec("a", "5", "", false, "CNAME", zN("in")),
		zOrigin("sub"),
		zTTL("1w2d3h4m5s"),
		zGen("0-6/2", "h${1,3,x}", "7", "IN", "A", "10.0.0.$"),
		zInc("inc2", false, "io.test."),
		zInc("inc3", true, ""),
	}
	d := uint32(77)
	c.Space("lexical", fmt.Sprintf("%d three-line programs (a full record line; a focus line: A, A with reversed class/TTL and omitted owner, MX, TXT ×2, SOA, NS, CNAME, $ORIGIN, $TTL, $GENERATE, $INCLUDE ×2; a record with omitted owner and TTL) × every set of ≤ %d lexical deviations (keyword case of directive/class/type; blank, blank-only, comment-only lines before any line and after the last; three kinds of trailing comment; parentheses opened after the type or after any RDATA token in 7 layouts incl. comments inside, continuation in column 0, closing parenthesis on its own line; TAB / double / mixed / trailing blanks; unquoted strings where legal; class and TTL swapped) × origins {\".\",\"example.\"}, default TTL 77, includes via MapFS; each case = one program × one first deviation; non-trivial: more than one deviation applied", len(focus), maxDev), true,
		func(emit func(func(*fw.R))) {
			for fi := range focus {
				ls := []zone.Line{before, focus[fi], after}
				devs := zone.Deviations(ls)
				for first := -1; first < len(devs); first++ {
					first, ls := first, ls
					emit(func(r *fw.R) {
						p := &zone.Program{Main: ls, Files: c06StdFiles}
						n := 0
						for _, o := range []string{".", "example."} {
							cfg := c06Cfg{origin: o, defTTL: &d, inc: 1}
							var sets func(func([]zone.Dev))
							if first >= 0 {
								sets = func(yield func([]zone.Dev)) {
									var rec func(set []zone.Dev, from int)
									rec = func(set []zone.Dev, from int) {
										yield(set)
										if len(set) == maxDev {
											return
										}
										for k := from; k < len(devs); k++ {
											rec(append(set[:len(set):len(set)], devs[k]), k+1)
										}
									}
									rec([]zone.Dev{devs[first]}, first+1)
								}
							}
							n += c06Renderings(r, p, cfg, std, c06Model(cfg), sets)
						}
						if n > 4 {
							r.Nontrivial()
						}
						r.Count("texts_parsed", int64(n))
						if first >= 0 {
							r.Sample(func() any {
								t, _ := zone.Render(ls, zone.Style{Devs: []zone.Dev{devs[first]}})
								return t
							})
						}
					})
				}
			}
		})
}

// ---------------------------------------------------------------------------------------------
// TTL spellings

func c06TTLSpace(c *fw.Ctx) {
	units := []string{"s", "S", "m", "M", "h", "H", "d", "D", "w", "W"}
	nums := []string{"0", "1", "7", "12", "090"}
	var spell []string
	for _, n := range []string{"0", "5", "3600", "4294967295", "4294967296", "00010"} {
		spell = append(spell, n)
	}
	var terms []string
	for _, n := range nums {
		for _, u := range units {
			terms = append(terms, n+u)
		}
	}
	spell = append(spell, terms...)
	for _, a := range terms {
		for _, b := range terms {
			spell = append(spell, a+b)
		}
	}
	spell = append(spell, "1H30m", "1w2d3h4m5s", "1W2D3H4M5S", "5s4m3h2d1w", "7101w", "7102w", "49710d", "49711d", "1h1h1h", "1w1d1h1m1s1w",
		// long tokens: legal ones (leading zeros, many terms) and numbers that wrap a 64-bit accumulator back into range
		"10w2d3h4m5s", "00000003600", "00000000000000000000003600", "0w0d0h0m0s0w0d0h0m3600s",
		"18446744073709551616", "18446744073709551617", "18446744073709555216", "36893488147419103232", "99999999999999999999", "18446744073709551617s", "1s18446744073709551616",
		// 7102 terms (78 KB) whose sum is 2^64 + 300: a 64-bit sum of the terms wraps back to 300
		strings.Repeat("4294967295w", 7101)+"2006143148w7h5m16s")
	c.Space("ttl", fmt.Sprintf("%d TTL spellings (plain numbers incl. 2^32-1 and 2^32; every <number><unit> with number ∈ %v and unit ∈ %v; every concatenation of two such terms; longer sums; values around 2^32; tokens of 11..26 characters, numbers of 2^64 and beyond) × 8 placements (explicit in each of the 5 header shapes that carry a TTL, $TTL then omitted, explicit then omitted on the next line, in $GENERATE) × default TTL {unset,77}; non-trivial: the spelling uses a unit", len(spell), nums, units), true,
		func(emit func(func(*fw.R))) {
			for _, s := range spell {
				s := s
				emit(func(r *fw.R) {
					if strings.ContainsAny(s, "smhdwSMHDW") {
						r.Nontrivial()
					}
					d := uint32(77)
					progs := [][]zone.Line{
						{zRec("a", s, "", false, "A", ip(1))},
						{zRec("a", s, "IN", false, "A", ip(1))},
						{zRec("a", s, "IN", true, "A", ip(1))},
						{zRec("a", "3", "", false, "A", ip(1)), zRec("", s, "", false, "A", ip(2))},
						{zRec("a", "3", "", false, "A", ip(1)), zRec("", s, "CH", true, "A", ip(2)), zRec("", "", "", false, "A", ip(3))},
						{zTTL(s), zRec("a", "", "", false, "A", ip(1)), zRec("b", "4", "", false, "A", ip(2)), zRec("c", "", "", false, "A", ip(3))},
						{zRec("a", s, "", false, "A", ip(1)), zRec("b", "", "", false, "A", ip(2))},
						{zGen("1-2", "h$", s, "", "A", "10.0.0.$")},
					}
					n := 0
					for _, ls := range progs {
						for _, t := range []*uint32{nil, &d} {
							cfg := c06Cfg{origin: "example.", defTTL: t}
							n += c06Renderings(r, &zone.Program{Main: ls}, cfg, nil, c06Model(cfg), nil)
						}
					}
					r.Count("texts_parsed", int64(n))
					r.Sample(func() any { return s })
				})
			}
		})
}

// ---------------------------------------------------------------------------------------------
// $GENERATE

func c06GenerateSpace(c *fw.Ctx) {
	ranges := []string{"0-0", "1-3", "0-6/2", "3-1", "5-5/3", "1-3/0", "1-3/", "1-", "-3", "x-3", "1-3/2/2", "9-11", "7-8/1", "0-16/8", "2147483646-2147483647"}
	big := []string{"0-65535", "0-65536", "0-131071/2", "0-131072/2", "1-65536", "1-65537"}
	var mods []string
	for _, off := range []string{"-1", "0", "1", "10"} {
		mods = append(mods, "${"+off+"}")
		for _, w := range []string{"0", "1", "3"} {
			mods = append(mods, "${"+off+","+w+"}")
			for _, b := range []string{"d", "o", "x", "X"} {
				mods = append(mods, "${"+off+","+w+","+b+"}")
			}
		}
	}
	// offsets at and beyond the edges of the 32-bit and 64-bit ranges (the value printed must stay within 0..2^31-1)
	for _, off := range []string{"2147483647", "2147483648", "-2147483648", "-2147483649", "4294967296", "9223372036854775807", "-9223372036854775808", "9223372036854775808"} {
		mods = append(mods, "${"+off+"}", "${"+off+",0,d}")
	}
	mods = append(mods, "$", "$$", `\$`, "$$$", `\$$`, "$-$", "${0,3,d}${1,2,x}", "${0,0,q}", "${0,3,d,1}", "${x}", "${0,x}", "${0,3,d", `\.$`, `b\.c$`, `\046$`, `\\$`, `b\\c$`, `$\\`, `\\\$`)
	type tmpl struct{ lhs, typ, rhs string }
	var tmpls []tmpl
	for _, m := range mods {
		tmpls = append(tmpls,
			tmpl{"h" + m, "A", "192.0.2.1"},        // in the owner, at the end
			tmpl{m + ".sub", "A", "192.0.2.1"},     // in the owner, first
			tmpl{"h", "CNAME", "t" + m + ".x"},     // in RDATA
			tmpl{"h$", "A", "10.0.0." + m},         // both sides
			tmpl{"h" + m + "k", "CNAME", m + "-t"}, // inside a label
		)
	}
	c.Space("generate", fmt.Sprintf("$GENERATE: ranges %v × %d templates (every ${offset[,width[,base]]} with offset ∈ {-1,0,1,10}, width ∈ {0,1,3}, base ∈ {d,o,x,X}; offsets ±2^31, ±2^63 and their neighbours; $, $$, \\$, trailing $, several $ per template, malformed modifiers, other escapes next to a $, escaped backslashes next to a $; each placed at the end / start / inside of the owner, in a CNAME target and in an A address) and the large ranges %v with one template; steps of 2^31 … 2^63-1 (accepted with exactly the start value, or refused); templates ending in a backslash (every step treated like the first); explicit TTL 7; origins {\".\",\"example.\"}; followed by a record line with explicit owner and TTL; non-trivial: the range is valid and the template contains a $", ranges, len(tmpls), big), true,
		func(emit func(func(*fw.R))) {
			one := func(rng string, t tmpl) {
				emit(func(r *fw.R) {
					ls := []zone.Line{zRec("first", "3", "", false, "A", ip(1)), zGen(rng, t.lhs, "7", "", t.typ, t.rhs), zRec("last", "4", "", false, "A", ip(2))}
					n := 0
					// a backslash escape other than \$ in a template: one cause, one key
					tag := ""
					if x := strings.ReplaceAll(t.lhs+t.rhs, `\$`, ""); strings.Contains(x, `\`) {
						tag = "generate/backslash-escape"
					}
					for _, o := range []string{".", "example."} {
						cfg := c06Cfg{origin: o}
						n += c06RenderingsTag(r, &zone.Program{Main: ls}, cfg, nil, c06Model(cfg), nil, tag)
					}
					if _, _, _, ok := zone.ParseRange(rng); ok && strings.Contains(t.lhs+t.rhs, "$") {
						r.Nontrivial()
					}
					r.Count("texts_parsed", int64(n))
					r.Sample(func() any { return c06ProgText(ls) })
				})
			}
			for _, rng := range ranges {
				for _, t := range tmpls {
					one(rng, t)
				}
			}
			for _, rng := range big {
				one(rng, tmpl{"h${0,5,d}", "A", "10.1.${0,4,x}.1"})
				one(rng, tmpl{"h$", "CNAME", "t"})
			}
			// a backslash at the very end of the template (behind it the line ends): whatever the library makes of it — an
			// error, or the backslash dropped — it makes the same of it in every step: "every $ … replaced by the iterator
			// value" holds for the second step as for the first (escape state may not leak from the end of one generated line
			// into the start of the next)
			for _, tm := range [][2]string{{"$", `10.0.0.$\`}, {"h$", `10.0.0.1\`}, {"$.sub", `10.0.$.1\`}, {`\$$`, `10.0.0.$\`}} {
				tm := tm
				emit(func(r *fw.R) {
					r.Nontrivial()
					text := "first.example. 3 IN A 192.0.2.1\n$GENERATE 4-6 " + tm[0] + " 7 IN A " + tm[1] + "\nlast.example. 9 IN A 192.0.2.2\n"
					zp := dns.NewZoneParser(strings.NewReader(text), "example.", "z")
					var got []string
					for rr, ok := zp.Next(); ok && len(got) < 20; rr, ok = zp.Next() {
						got = append(got, rr.String())
					}
					if zp.Err() != nil {
						if len(got) > 1 {
							r.Fail("generate/trailing-backslash", "%q: an error (%v) after %d generated records: the steps are not treated alike", text, zp.Err(), len(got)-1)
						}
						return
					}
					// accepted: the three generated lines differ in nothing but the iterator value
					if len(got) != 5 {
						r.Fail("generate/trailing-backslash", "%q: %d records %q, want first, three generated, last", text, len(got), got)
						return
					}
					norm := func(s string, it string) string { return strings.ReplaceAll(s, it, "#") }
					if a, b, c := norm(got[1], "4"), norm(got[2], "5"), norm(got[3], "6"); a != b || b != c {
						r.Fail("generate/trailing-backslash", "%q: the generated records %q differ in more than the iterator value: a '$' of a later step was not replaced (escape state carried over the end of the generated line)", text, got[1:4])
					}
				})
			}
			// steps beyond 2^31-1 (the limit BIND documents; the library takes any positive int64): whether such a
			// directive is accepted is not fixed by the statement, but if it is, it expands to one record per step of
			// its range — here the start value alone, start + step being beyond the stop value (and, for the largest
			// steps, beyond 2^63: an iterator that wraps around would go on)
			for _, g := range [][2]string{{"5-9/9223372036854775805", "5"}, {"1-2/9223372036854775807", "1"}, {"0-1/9223372036854775807", "0"}, {"2147483640-2147483647/9223372036854775800", "2147483640"}, {"3-4/2147483648", "3"}, {"0-2147483647/4294967296", "0"}} {
				g := g
				emit(func(r *fw.R) {
					r.Nontrivial()
					text := "first.example. 3 IN A 192.0.2.1\n$GENERATE " + g[0] + " h$ 7 IN A 192.0.2.9\nlast.example. 4 IN A 192.0.2.2\n"
					zp := dns.NewZoneParser(strings.NewReader(text), "example.", "z")
					var got []string
					for rr, ok := zp.Next(); ok && len(got) < 20; rr, ok = zp.Next() {
						got = append(got, rr.Header().Name)
					}
					want := []string{"first.example.", "h" + g[1] + ".example.", "last.example."}
					okAccepted := zp.Err() == nil && fmt.Sprint(got) == fmt.Sprint(want)
					okRefused := zp.Err() != nil && fmt.Sprint(got) == fmt.Sprint(want[:1])
					if !okAccepted && !okRefused {
						r.Fail("generate/big-step", "%q: owners %v, Err() = %v; want %v (one record per step of the range: the start value alone) or an error at the directive", text, got, zp.Err(), want)
					}
				})
			}
		})
}

// ---------------------------------------------------------------------------------------------
// $INCLUDE trees

// level style: how file k names file k+1
type c06IncStyle struct {
	abs    bool
	origin string // "", absolute or relative origin argument
}

func c06IncludeSpace(c *fw.Ctx) {
	styles := []c06IncStyle{{false, ""}, {false, "o%d.test."}, {false, "r%d"}, {true, ""}, {true, "o%d.test."}}
	// chain: main includes f1, f1 includes f2, ... fD. Every file: a record with a relative owner and an
	// explicit TTL, the $INCLUDE, [$ORIGIN change inside the file after its include], a second record with a
	// relative owner and explicit TTL (to see the file's own origin is what it was).
	build := func(depth int, st []c06IncStyle, originInside, twice bool) *zone.Program {
		p := &zone.Program{Files: map[string][]zone.Line{}}
		for k := depth; k >= 0; k-- {
			var ls []zone.Line
			if originInside && k > 0 && k%2 == 1 {
				ls = append(ls, zOrigin(fmt.Sprintf("in%d", k)))
			}
			ls = append(ls, zRec(fmt.Sprintf("before%d", k), "5", "", false, "MX", zW("1"), zN("m")))
			if k < depth {
				s := st[k]
				o := s.origin
				if o != "" {
					o = fmt.Sprintf(o, k+1)
				}
				ls = append(ls, zInc(fmt.Sprintf("f%d", k+1), s.abs, o))
				if twice && k == 0 {
					ls = append(ls, zInc(fmt.Sprintf("f%d", k+1), !s.abs, "again.test."))
				}
			}
			ls = append(ls, zRec(fmt.Sprintf("after%d", k), "6", "", false, "CNAME", zN("@")))
			if k == 0 {
				p.Main = ls
			} else {
				p.Files[fmt.Sprintf("f%d", k)] = ls
			}
		}
		return p
	}
	c.Space("include-ttl", "TTL state across $INCLUDE: main = {nothing, $TTL 300, a record with TTL 9} then $INCLUDE f; f = every sequence of 1..3 lines over {record with TTL 60, record without TTL, record class-first with TTL 70, record class-first without TTL, $TTL 120}; × 3 origins × {MapFS, on-disk, includes off}; the includer's $TTL / last TTL must hold inside the included file as if its text were spliced in; non-trivial: the included file has a record that omits its TTL", true,
		func(emit func(func(*fw.R))) {
			heads := [][]zone.Line{nil, {zTTL("300")}, {zRec("h", "9", "", false, "A", zW("192.0.2.9"))}, {zTTL("300"), zRec("h", "9", "", false, "A", zW("192.0.2.9"))}}
			alpha := []zone.Line{
				zRec("a", "60", "", false, "A", zW("192.0.2.1")),
				zRec("b", "", "", false, "A", zW("192.0.2.2")),
				zRec("c", "70", "IN", true, "A", zW("192.0.2.3")),
				zRec("d", "", "IN", true, "A", zW("192.0.2.4")),
				zTTL("120"),
			}
			var seqs [][]zone.Line
			var rec func(cur []zone.Line)
			rec = func(cur []zone.Line) {
				if len(cur) > 0 {
					seqs = append(seqs, append([]zone.Line(nil), cur...))
				}
				if len(cur) == 3 {
					return
				}
				for _, l := range alpha {
					rec(append(cur, l))
				}
			}
			rec(nil)
			id := 0
			for _, h := range heads {
				for _, sq := range seqs {
					h, sq := h, sq
					myid := id
					id++
					emit(func(r *fw.R) {
						for _, l := range sq {
							if l.Kind == zone.Record && l.TTL == "" {
								r.Nontrivial()
							}
						}
						p := &zone.Program{Files: map[string][]zone.Line{"f1": sq}}
						p.Main = append(append([]zone.Line(nil), h...), zInc("f1", false, ""))
						fsx := newFileSet(fmt.Sprintf("incttl%d", myid), p.Files)
						n := 0
						for _, o := range c06Origins {
							for inc := 0; inc <= 2; inc++ {
								cfg := c06Cfg{origin: o, inc: inc}
								n += c06Renderings(r, p, cfg, fsx, c06Model(cfg), nil)
							}
						}
						if fsx.disk != "" {
							os.RemoveAll(fsx.disk)
						}
						r.Count("texts_parsed", int64(n))
					})
				}
			}
		})

	c.Space("include", "$INCLUDE chains of depth 1…8 (main → f1 → … → fD; the documented limit is 7, depth 8 is unspecified beyond the limit) where every file has a record with a relative owner and explicit TTL before and after its $INCLUDE; per level the include is written {relative path, absolute path} × {no origin argument, absolute origin, relative origin}: all 5^D combinations for D ≤ 3, uniform and one-level-differs combinations for D > 3; × {no $ORIGIN inside included files, $ORIGIN inside every odd file} × {main includes once, twice with another origin} × parser origins {\"\",\".\",\"example.\"} × FS {MapFS, on-disk directory, includes off}; non-trivial: depth ≥ 2", true,
		func(emit func(func(*fw.R))) {
			caseNo := 0
			one := func(depth int, st []c06IncStyle, originInside, twice bool) {
				st = append([]c06IncStyle(nil), st...)
				id := caseNo
				caseNo++
				emit(func(r *fw.R) {
					if depth >= 2 {
						r.Nontrivial()
					}
					p := build(depth, st, originInside, twice)
					fsx := newFileSet(fmt.Sprintf("inc%d", id), p.Files)
					n := 0
					for _, o := range c06Origins {
						for inc := 0; inc <= 2; inc++ {
							cfg := c06Cfg{origin: o, inc: inc}
							n += c06Renderings(r, p, cfg, fsx, c06Model(cfg), nil)
						}
					}
					if fsx.disk != "" {
						os.RemoveAll(fsx.disk)
					}
					r.Count("texts_parsed", int64(n))
					r.Sample(func() any {
						s := "main:\n" + c06ProgText(p.Main)
						for _, id := range fsx.ids() {
							s += id + ":\n" + c06ProgText(p.Files[id])
						}
						return s
					})
				})
			}
			for depth := 1; depth <= 8; depth++ {
				var combos [][]c06IncStyle
				if depth <= 3 {
					var rec func(cur []c06IncStyle)
					rec = func(cur []c06IncStyle) {
						if len(cur) == depth {
							combos = append(combos, append([]c06IncStyle(nil), cur...))
							return
						}
						for _, s := range styles {
							rec(append(cur, s))
						}
					}
					rec(nil)
				} else {
					for _, base := range styles {
						u := make([]c06IncStyle, depth)
						for i := range u {
							u[i] = base
						}
						combos = append(combos, append([]c06IncStyle(nil), u...))
						for lvl := 0; lvl < depth; lvl++ {
							for _, s := range styles {
								if s == base {
									continue
								}
								v := append([]c06IncStyle(nil), u...)
								v[lvl] = s
								combos = append(combos, v)
							}
						}
					}
				}
				for _, st := range combos {
					for _, oi := range []bool{false, true} {
						for _, tw := range []bool{false, true} {
							one(depth, st, oi, tw)
						}
					}
				}
			}
		})
}
