package main

import (
	"fmt"
	"strings"

	"github.com/miekg/dns"
	"verif/harness/fw"
	"verif/harness/ref/trunc"
)

// C09 — Msg.Truncate: size bound, section prefixes, OPT kept, TC bit (DESIGN §5 C09).
//
// One case = one reply message; inside the case every size 0 … uncompressed length+2 (and 511, 512, 513,
// 65535) is handed to Truncate on a fresh Copy() and the result is judged by ref/trunc.

func init() {
	fw.Register(&fw.Check{Prop: "C09", Level: "exploration",
		Assume: []string{
			"oracle: ref/trunc, the post-conditions of the statement over observed section prefixes, flags and octet counts; it never runs the library's record walk or its length estimate",
			"Msg.Pack/PackBuffer (not under test here, see C01/C08) is used as plumbing to measure octet counts: of the truncated message as Truncate left it (its Compress flag included), of header+question+OPT, of the whole message with and without compression, and of 'kept records + first dropped record + OPT' with compression",
			"Msg.Copy gives every Truncate call a fresh message; records are compared by pointer identity against a snapshot of that copy's sections taken before the call",
			"where the OPT record sits in the additional section afterwards is not constrained (the statement only says it is retained): the additional section minus the OPT must be a prefix of the original additional section minus the OPT",
			"'a message that already fits': required when the message packed under its own Compress setting fits (key dropped-though-fits) and, as Truncate is documented to turn compression on, also when only the compressed form fits (key dropped-though-fits-compressed); for escape-free messages the latter follows from the statement's last clause anyway",
			"escape-free = no record of the escaped-owner shape in the message; 'common types' = A, AAAA, CNAME, MX, SRV, TXT, OPT",
			"replies with a TSIG record as last additional are outside the statement: space tsig only requires that Truncate returns (no panic) for every size and counts whether the message was left untouched",
		},
		Spaces: c09Spaces})
}

// The question name is 65 octets on the wire: header + question + two compressed TXT200 records come to 507
// octets, so that in a message with two TXT200 records any third record crosses the 512 floor, and the size
// sweep above 512 then passes through the exact fit of that record.
const c09Q = "www.department-of-redundancy.subsidiary-office-west.example.org."

var c09ShapeNames = []string{"A-qname", "A-other", "CNAME-suffix", "TXT200", "A-escaped", "AAAA-qname", "MX-suffix", "SRV", "TXT-filler", "NS-deleg", "A-glue", "NSEC-empty-bitmap", "IPSECKEY-host", "A-on-gateway", "MX:self-compressing", "NS:self-compressing"}

// shapes 8..10 are used by the beyond-16384 space only (never drawn from the pool)
const c09NSTarget = "ns1.delegated-child-zone.example.net."

// c09Filler: a TXT record on the question name whose RDATA is exactly R octets long.
func c09Filler(R int) dns.RR {
	n := (R + 255) / 256
	L := R - n
	var chunks []string
	for i := 0; i < n-1; i++ {
		chunks = append(chunks, strings.Repeat("f", 255))
	}
	chunks = append(chunks, strings.Repeat("f", L-255*(n-1)))
	return &dns.TXT{Hdr: dns.RR_Header{Name: c09Q, Rrtype: dns.TypeTXT, Class: dns.ClassINET, Ttl: 300}, Txt: chunks}
}

// c09LongOwnerAt: a 246-octet owner name that shares nothing but example.org. with the owners at other positions
func c09LongOwnerAt(pos int) string {
	l := string(rune('a' + pos%20))
	return strings.Repeat(l, 60) + "." + strings.Repeat(l+"x", 30) + "." + strings.Repeat(l+"y", 30) + "." + strings.Repeat(l, 50) + ".example.org."
}

const c09ESC = 4 // index of the escaped-owner shape in c09ShapeNames

// c09RR builds the record of shape sh for position pos (pos only varies address octets / preference so
// that the records of one message are not all equal).
func c09RR(sh, pos int) dns.RR {
	h := func(name string, t uint16) dns.RR_Header {
		return dns.RR_Header{Name: name, Rrtype: t, Class: dns.ClassINET, Ttl: 300}
	}
	switch sh {
	case 0:
		return &dns.A{Hdr: h(c09Q, dns.TypeA), A: []byte{192, 0, 2, byte(pos + 1)}}
	case 1:
		return &dns.A{Hdr: h("mail.elsewhere-unrelated.test.", dns.TypeA), A: []byte{198, 51, 100, byte(pos + 1)}}
	case 2:
		return &dns.CNAME{Hdr: h(c09Q, dns.TypeCNAME), Target: "alias.subsidiary-office-west.example.org."}
	case 3:
		return &dns.TXT{Hdr: h(c09Q, dns.TypeTXT), Txt: []string{strings.Repeat("t", 200)}}
	case 4:
		// an owner with every kind of escape: an escaped dot, an escaped backslash, a \DDD octet
		return &dns.A{Hdr: h(`a\.b\\c\000d.example.org.`, dns.TypeA), A: []byte{203, 0, 113, byte(pos + 1)}}
	case 5:
		return &dns.AAAA{Hdr: h(c09Q, dns.TypeAAAA), AAAA: []byte{0x20, 1, 0xd, 0xb8, 0, 0, 0, 0, 0, 0, 0, 0, 0, 0, 0, byte(pos + 1)}}
	case 6:
		return &dns.MX{Hdr: h(c09Q, dns.TypeMX), Preference: uint16(10 + pos), Mx: "mx.department-of-redundancy.subsidiary-office-west.example.org."}
	case 7:
		return &dns.SRV{Hdr: h("_sip._tcp.example.org.", dns.TypeSRV), Priority: 1, Weight: uint16(pos), Port: 5060, Target: "sip.subsidiary-office-west.example.org."}
	case 8:
		return c09Filler(4000)
	case 9:
		return &dns.NS{Hdr: h("example.org.", dns.TypeNS), Ns: c09NSTarget}
	case 10:
		return &dns.A{Hdr: h(c09NSTarget, dns.TypeA), A: []byte{10, 0, byte(pos >> 8), byte(pos)}}
	case 11:
		return &dns.NSEC{Hdr: h(c09Q, dns.TypeNSEC), NextDomain: "a." + c09Q}
	case 12:
		return &dns.IPSECKEY{Hdr: h(c09Q, dns.TypeIPSECKEY), Precedence: 1, GatewayType: 3, Algorithm: 1, GatewayHost: "gw.some.long.other.zone.net.", PublicKey: "AQID"}
	case 13:
		return &dns.A{Hdr: h("gw.some.long.other.zone.net.", dns.TypeA), A: []byte{10, 1, byte(pos >> 8), byte(pos)}}
	case 14:
		// a record that can compress against itself: the RDATA name ends in the (long) owner name
		return &dns.MX{Hdr: h(c09LongOwnerAt(pos), dns.TypeMX), Preference: uint16(10 + pos), Mx: "mx." + c09LongOwnerAt(pos)}
	case 15:
		return &dns.NS{Hdr: h(c09LongOwnerAt(pos), dns.TypeNS), Ns: "ns" + fmt.Sprint(pos) + "." + c09LongOwnerAt(pos)}
	}
	panic("shape")
}

// c09Msg describes one reply.
type c09Msg struct {
	na, nn, nx int
	shapes     []int // na+nn+nx shape numbers in section order
	opt        int   // 0 none, 1 OPT last in additional, 2 OPT first in additional
	firstTxtLen int  // > 0: the first record of the reply is replaced by a TXT on the question name with this many text octets
	optKind    int   // 0 empty OPT; 1 OPT built in memory with NSID + COOKIE options (Hdr.Rdlength 0); 2 OPT without options whose Hdr.Rdlength is stale (as after unpacking and stripping the options)
	compress   bool
	tc         bool
	tsig       bool // TSIG as very last additional record
	inexact    bool // the message holds types outside the "common types" of the statement's last clause
	noQuestion bool // the reply has no question section (a pointer can then only go to a name of the records themselves)
	largeT     int  // > 0 (beyond-16384 space): the 4th filler TXT is sized so that the NS target name starts at this offset of the compressed message
}

func (d c09Msg) String() string {
	nm := func(s []int) string {
		var o []string
		for _, x := range s {
			o = append(o, c09ShapeNames[x])
		}
		return "[" + strings.Join(o, " ") + "]"
	}
	// legend: one record of every shape used (address octets / preference vary with the position)
	var legend []string
	seen := map[int]bool{}
	for p, x := range d.shapes {
		if !seen[x] {
			seen[x] = true
			legend = append(legend, c09ShapeNames[x]+" = "+strings.ReplaceAll(c09RR(x, p).String(), "\t", " "))
		}
	}
	return fmt.Sprintf("question %s IN A; answer=%s authority=%s additional=%s opt=%s (UDP size 1232; kind: see optKind) Compress=%v Truncated=%v tsig=%v; shapes: %s",
		c09Q, nm(d.shapes[:d.na]), nm(d.shapes[d.na:d.na+d.nn]), nm(d.shapes[d.na+d.nn:]),
		[]string{"none", "last", "first"}[d.opt], d.compress, d.tc, d.tsig, strings.Join(legend, " | "))
}

func c09Build(d c09Msg) *dns.Msg {
	m := new(dns.Msg)
	m.Id = 0x0c09
	m.Response = true
	m.Authoritative = true
	m.RecursionDesired = true
	m.Truncated = d.tc
	m.Compress = d.compress
	m.Question = []dns.Question{{Name: c09Q, Qtype: dns.TypeA, Qclass: dns.ClassINET}}
	if d.noQuestion {
		m.Question = nil
	}
	p := 0
	for i := 0; i < d.na; i++ {
		m.Answer = append(m.Answer, c09RR(d.shapes[p], p))
		p++
	}
	for i := 0; i < d.nn; i++ {
		m.Ns = append(m.Ns, c09RR(d.shapes[p], p))
		p++
	}
	newOPT := func() dns.RR {
		o := &dns.OPT{Hdr: dns.RR_Header{Name: ".", Rrtype: dns.TypeOPT}}
		o.SetUDPSize(1232)
		switch d.optKind {
		case 1:
			o.Option = []dns.EDNS0{&dns.EDNS0_NSID{Code: dns.EDNS0NSID, Nsid: "6e73312e6578616d706c65"}, &dns.EDNS0_COOKIE{Code: dns.EDNS0COOKIE, Cookie: "0102030405060708"}}
		case 2:
			o.Hdr.Rdlength = 27
		case 3:
			// an OPT that alone (with header and question) reaches the 512-octet floor
			o.Option = []dns.EDNS0{&dns.EDNS0_PADDING{Padding: make([]byte, 410)}}
		case 4:
			o.Option = []dns.EDNS0{&dns.EDNS0_PADDING{Padding: make([]byte, 600)}}
		}
		return o
	}
	if d.opt == 2 {
		m.Extra = append(m.Extra, newOPT())
	}
	for i := 0; i < d.nx; i++ {
		m.Extra = append(m.Extra, c09RR(d.shapes[p], p))
		p++
	}
	if d.opt == 1 {
		m.Extra = append(m.Extra, newOPT())
	}
	if d.firstTxtLen > 0 {
		var chunks []string
		for left := d.firstTxtLen; left > 0; left -= 255 {
			chunks = append(chunks, strings.Repeat("w", min(left, 255)))
		}
		big := &dns.TXT{Hdr: dns.RR_Header{Name: c09Q, Rrtype: dns.TypeTXT, Class: dns.ClassINET, Ttl: 300}, Txt: chunks}
		switch {
		case len(m.Answer) > 0:
			m.Answer[0] = big
		case len(m.Ns) > 0:
			m.Ns[0] = big
		default:
			for i, rr := range m.Extra {
				if !c09IsOPT(rr) {
					m.Extra[i] = big
					break
				}
			}
		}
	}
	if d.largeT > 0 {
		// answer = 4 fillers, authority = 1 NS: compressed layout is header, question (qname wire + 4), four records of
		// 2 (pointer) + 10 + RDATA, then the NS record 2 + 10 and its target
		qw := len(c09Q) + 1 // wire length of a name without escapes = text length + 1
		R := d.largeT - (12 + qw + 4) - 4*12 - 3*4000 - 12
		m.Answer[3] = c09Filler(R)
	}
	if d.tsig {
		m.Extra = append(m.Extra, &dns.TSIG{
			Hdr:       dns.RR_Header{Name: "key.example.org.", Rrtype: dns.TypeTSIG, Class: dns.ClassANY},
			Algorithm: dns.HmacSHA256, TimeSigned: 1700000000, Fudge: 300, MACSize: 32, MAC: strings.Repeat("ab", 32), OrigId: m.Id,
		})
	}
	return m
}

// c09PackLen packs m (shallow variant with the given Compress flag) into buf and returns the length.
func c09PackLen(m *dns.Msg, compress bool, buf []byte) int {
	cp := *m
	cp.Compress = compress
	b, err := cp.PackBuffer(buf)
	if err != nil {
		panic(fmt.Sprintf("plumbing: Pack failed: %v", err))
	}
	return len(b)
}

func c09IsOPT(rr dns.RR) bool { _, ok := rr.(*dns.OPT); return ok }

// c09Reply runs one non-TSIG message through every size.
func c09Reply(r *fw.R, d c09Msg) {
	orig := c09Build(d)
	buf := make([]byte, 8192)
	if d.largeT > 0 {
		buf = make([]byte, 65536)
	}
	U := c09PackLen(orig, false, buf)
	C := c09PackLen(orig, true, buf)
	var optRR dns.RR
	for _, rr := range orig.Extra {
		if c09IsOPT(rr) {
			optRR = rr
		}
	}
	// header + question (+ OPT)
	baseMsg := &dns.Msg{MsgHdr: orig.MsgHdr, Question: orig.Question}
	if optRR != nil {
		baseMsg.Extra = []dns.RR{optRR}
	}
	P := d.na + d.nn + d.nx
	var all []dns.RR // records in section order, OPT left out
	all = append(append(all, orig.Answer...), orig.Ns...)
	for _, rr := range orig.Extra {
		if rr != optRR {
			all = append(all, rr)
		}
	}
	prefixMemo := make([]int, P+1)
	prefix := func(k int) int {
		if prefixMemo[k] != 0 {
			return prefixMemo[k]
		}
		pm := &dns.Msg{MsgHdr: orig.MsgHdr, Question: orig.Question}
		for i := 0; i < k; i++ {
			switch {
			case i < d.na:
				pm.Answer = append(pm.Answer, all[i])
			case i < d.na+d.nn:
				pm.Ns = append(pm.Ns, all[i])
			default:
				pm.Extra = append(pm.Extra, all[i])
			}
		}
		if optRR != nil {
			pm.Extra = append(pm.Extra, optRR)
		}
		prefixMemo[k] = c09PackLen(pm, true, buf)
		return prefixMemo[k]
	}
	exact := !d.inexact
	for _, s := range d.shapes {
		if s == c09ESC {
			exact = false
		}
	}
	before := trunc.Before{NA: d.na, NN: d.nn, NX: d.nx, HasOPT: optRR != nil, TC: d.tc,
		Base: c09PackLen(baseMsg, true, buf), Compressed: C, Exact: exact, Prefix: prefix}
	if d.compress {
		before.Own = C
	} else {
		before.Own = U
	}

	sizes := make([]int, 0, U+8)
	if d.largeT > 0 {
		// check the construction: the NS target starts at largeT in the compressed message
		cp := *orig
		cp.Compress = true
		pk, _ := cp.Pack()
		w := []byte("\x03ns1\x14delegated-child-zone")
		if d.largeT+len(w) > len(pk) || string(pk[d.largeT:d.largeT+len(w)]) != string(w) {
			panic(fmt.Sprintf("harness: NS target not at offset %d", d.largeT))
		}
		// sizes: 512, every size in 16300..16500, C-300..C+300 and U-2..U+2, every size at which a prefix fits exactly
		// (±1), and a stride through the rest (every 53rd size quick, every 7th thorough)
		stride := 53
		if r.Thorough() {
			stride = 7
		}
		want := map[int]bool{512: true, 65535: true}
		for s := 16300; s <= 16500; s++ {
			want[s] = true
		}
		for s := C - 300; s <= C+300; s++ {
			want[s] = true
		}
		for s := U - 2; s <= U+2; s++ {
			want[s] = true
		}
		for k := 0; k <= P; k++ {
			for dlt := -1; dlt <= 1; dlt++ {
				want[prefix(k)+dlt] = true
			}
		}
		for s := 513; s <= U+2; s += stride {
			want[s] = true
		}
		for s := 512; s <= 65535; s++ {
			if want[s] {
				sizes = append(sizes, s)
			}
		}
	}
	for s := 0; s <= U+2 && d.largeT == 0; s++ {
		// every size below the documented 512-octet floor is the same request as 512: in the quick tier only a
		// spread of them is run (every one in the thorough tier); every size from 505 upwards is always run
		if s < 505 && !r.Thorough() && !(s <= 2 || s%64 == 0 || s == 255 || s == 300 || s == 400 || s == 500) {
			continue
		}
		sizes = append(sizes, s)
	}
	for _, s := range []int{511, 512, 513, 65535} {
		if s > U+2 && d.largeT == 0 {
			sizes = append(sizes, s)
		}
	}
	var a0, n0, x0, xs []dns.RR
	anyDropped := false
	nDropping, nExact := 0, 0
	cutAt := make([]bool, P) // cutAt[k]: some size made record k (section order) the first dropped one
	for _, size := range sizes {
		m := orig.Copy()
		a0 = append(a0[:0], m.Answer...)
		n0 = append(n0[:0], m.Ns...)
		x0 = x0[:0]
		var opt0 dns.RR
		for _, rr := range m.Extra {
			if c09IsOPT(rr) {
				opt0 = rr
			} else {
				x0 = append(x0, rr)
			}
		}
		m.Truncate(size)

		var a trunc.After
		a.KA, a.KN = len(m.Answer), len(m.Ns)
		a.TC = m.Truncated
		isPrefix := func(sec string, got, was []dns.RR) {
			if len(got) > len(was) {
				a.NotPrefix += fmt.Sprintf("%s has %d records, had %d; ", sec, len(got), len(was))
				return
			}
			for i := range got {
				if got[i] != was[i] {
					a.NotPrefix += fmt.Sprintf("%s[%d] is not the record that was there (now %v); ", sec, i, got[i])
					return
				}
			}
		}
		isPrefix("answer", m.Answer, a0)
		isPrefix("authority", m.Ns, n0)
		xs = xs[:0]
		for _, rr := range m.Extra {
			if opt0 != nil && rr == opt0 {
				a.OPTs++
			} else {
				xs = append(xs, rr)
			}
		}
		a.KX = len(xs)
		isPrefix("additional (without OPT)", xs, x0)
		pk, err := m.PackBuffer(buf)
		a.Packed, a.PackErr = len(pk), err

		for _, v := range trunc.Check(before, size, a) {
			if d.inexact {
				// name the uncommon record shape in the key: a finding about one of them may not hide the others
				seen := map[int]bool{}
				for _, sh := range d.shapes {
					if sh >= 11 && !seen[sh] && c09ShapeNames[sh] != "A-on-gateway" {
						seen[sh] = true
						v.Key += "/" + c09ShapeNames[sh]
					}
				}
			}
			r.Fail(v.Key, "Truncate(%d) on {%s} (uncompressed %d, compressed %d octets): %s; afterwards answer=%d authority=%d additional=%d(+%d OPT) Compress=%v Truncated=%v packed=%d",
				size, d, U, C, v.Text, a.KA, a.KN, a.KX, a.OPTs, m.Compress, m.Truncated, a.Packed)
		}
		if a.NotPrefix == "" && a.KA+a.KN+a.KX < P {
			anyDropped = true
			nDropping++
			k := a.KA + a.KN + a.KX // with the later-section clause: index of the first dropped record
			if k < len(cutAt) {
				cutAt[k] = true
			}
		}
		if a.PackErr == nil && a.Packed == trunc.S(size) {
			nExact++
		}
	}
	r.Count("truncate-calls", int64(len(sizes)))
	if anyDropped {
		r.Nontrivial()
		r.Count("messages-cut", 1)
	}
	r.Count("calls-dropping-records", int64(nDropping))
	r.Count("calls-packed-length-equals-limit", int64(nExact))
	for k, hit := range cutAt {
		if hit {
			sec := "answer"
			if k >= d.na+d.nn {
				sec = "additional"
			} else if k >= d.na {
				sec = "authority"
			}
			r.Count("first-dropped/"+sec+"/"+c09ShapeNames[d.shapes[k]], 1)
		}
	}
	if !exact {
		r.Count("messages-with-escapes", 1)
	}
	r.Sample(func() any { return fmt.Sprintf("%s; sizes 0..%d,511,512,513,65535", d, U+2) })
}

// c09Tsig: replies ending in a TSIG record are outside the statement; Truncate must simply return.
func c09Tsig(r *fw.R, d c09Msg) {
	orig := c09Build(d)
	U := orig.Len() // only used to bound the size sweep
	sizes := 0
	one := func(size int) {
		m := orig.Copy()
		ka, kn, kx, tc, cp := len(m.Answer), len(m.Ns), len(m.Extra), m.Truncated, m.Compress
		m.Truncate(size)
		if len(m.Answer) == ka && len(m.Ns) == kn && len(m.Extra) == kx && m.Truncated == tc && m.Compress == cp {
			r.Count("left-untouched", 1)
		} else {
			r.Count("modified", 1)
		}
		sizes++
	}
	for size := 0; size <= U+2; size++ {
		one(size)
	}
	one(65535)
	r.Count("truncate-calls", int64(sizes))
	if U > trunc.Floor {
		r.Nontrivial()
	}
	r.Sample(func() any { return d.String() })
}

// c09Vectors enumerates the shape assignments for P positions over a pool of np shapes:
//   - every assignment when P ≤ fullMax;
//   - otherwise every assignment within Hamming distance ≤ 1 of a uniform assignment x^P, and every
//     "staircase" y^k x^(P-k) (0 < k < P, x ≠ y in the pool): a run of one shape followed by a run of another,
//     so that e.g. k large records are followed by small ones and the cut falls inside the second run.
//
// With wide = false only the staircases and the uniform assignments are produced (used for the TSIG space).
// Deterministic order, no repetitions.
func c09Vectors(P, np, fullMax int, wide bool) [][]int {
	var out [][]int
	if P <= fullMax {
		cur := make([]int, P)
		var rec func(i int)
		rec = func(i int) {
			if i == P {
				out = append(out, append([]int(nil), cur...))
				return
			}
			for s := 0; s < np; s++ {
				cur[i] = s
				rec(i + 1)
			}
		}
		rec(0)
		return out
	}
	seen := map[string]bool{}
	add := func(v []int) {
		b := make([]byte, len(v))
		for i, x := range v {
			b[i] = byte(x)
		}
		if !seen[string(b)] {
			seen[string(b)] = true
			out = append(out, append([]int(nil), v...))
		}
	}
	v := make([]int, P)
	for x := 0; x < np; x++ {
		for i := range v {
			v[i] = x
		}
		add(v)
		if !wide {
			continue
		}
		for i := 0; i < P; i++ {
			for s := 0; s < np; s++ {
				if s != x {
					v[i] = s
					add(v)
				}
			}
			v[i] = x
		}
	}
	for y := 0; y < np; y++ {
		for x := 0; x < np; x++ {
			if x == y {
				continue
			}
			for k := 1; k < P; k++ {
				for i := range v {
					if i < k {
						v[i] = y
					} else {
						v[i] = x
					}
				}
				add(v)
			}
		}
	}
	return out
}

func c09Spaces(c *fw.Ctx) {
	np, maxSec, fullMax := 5, 3, 3
	if c.Thorough {
		np, maxSec, fullMax = 8, 4, 3
	}
	vecs := map[[2]int][][]int{}
	vectors := func(P int, wide bool) [][]int {
		k := [2]int{P, 0}
		if wide {
			k[1] = 1
		}
		if v, ok := vecs[k]; ok {
			return v
		}
		vecs[k] = c09Vectors(P, np, fullMax, wide)
		return vecs[k]
	}
	pool := strings.Join(c09ShapeNames[:np], ", ")
	secRule := fmt.Sprintf("section sizes (answer, authority, additional) ∈ {0..%d}^3; record shapes from the pool {%s} (question %s): every assignment of shapes to the P positions when P ≤ %d, for larger P ", maxSec, pool, c09Q, fullMax)
	shapeRule := secRule + "every assignment within Hamming distance ≤ 1 of a uniform assignment x^P and every staircase y^k x^(P-k) (0<k<P, x≠y in the pool)"
	tsigRule := secRule + "the uniform assignments x^P and the staircases y^k x^(P-k)"

	c.Space("replies", shapeRule+"; × OPT {none, last in additional, first in additional (only when additional is non-empty)} × Compress {false,true} × Truncated {false,true}; per message every size 505..uncompressed length+2, below that (all equivalent to the 512 floor) the sizes 0,1,2,255,300,400,500 and every multiple of 64 in the quick tier and every size in the thorough tier, plus 511, 512, 513, 65535, each on a fresh Copy(); non-trivial: at least one of the sizes makes Truncate drop a record", true,
		func(emit func(func(*fw.R))) {
			for na := 0; na <= maxSec; na++ {
				for nn := 0; nn <= maxSec; nn++ {
					for nx := 0; nx <= maxSec; nx++ {
						for _, v := range vectors(na+nn+nx, true) {
							for opt := 0; opt <= 2; opt++ {
								if opt == 2 && nx == 0 {
									continue
								}
								for f := 0; f < 4; f++ {
									d := c09Msg{na: na, nn: nn, nx: nx, shapes: v, opt: opt, compress: f&1 != 0, tc: f&2 != 0}
									emit(func(r *fw.R) { c09Reply(r, d) })
								}
							}
						}
					}
				}
			}
		})

	c.Space("single-record-window", "replies whose first record is a TXT on the question name of L = 330..445 text octets (so that header + question + that record fits in 512 octets compressed but not uncompressed for part of the range) in the section layouts (1,0,0) (0,1,0) (0,0,1) (0,0,2) (1,0,1) (1,1,1), followed by short A records; × OPT {none, last} × Compress × Truncated; sizes as in 'replies'; non-trivial: some size drops a record", true,
		func(emit func(func(*fw.R))) {
			for _, lay := range [][3]int{{1, 0, 0}, {0, 1, 0}, {0, 0, 1}, {0, 0, 2}, {1, 0, 1}, {1, 1, 1}} {
				for L := 330; L <= 445; L++ {
					for opt := 0; opt <= 1; opt++ {
						for f := 0; f < 4; f++ {
							d := c09Msg{na: lay[0], nn: lay[1], nx: lay[2], shapes: make([]int, lay[0]+lay[1]+lay[2]), opt: opt, firstTxtLen: L, compress: f&1 != 0, tc: f&2 != 0}
							emit(func(r *fw.R) { c09Reply(r, d) })
						}
					}
				}
			}
		})

	c.Space("self-compressing", "replies of 1..3 MX / NS records whose RDATA name ends in their own 246-octet owner name (a record that fits only because it compresses against itself), in the layouts (1,0,0) (2,0,0) (1,1,0) (0,0,1) (1,0,1) (0,1,1) (3,0,0) × with / without a question section × OPT {none, last} × Compress × Truncated; sizes as in 'replies'; non-trivial: some size drops a record", true,
		func(emit func(func(*fw.R))) {
			for _, lay := range [][3]int{{1, 0, 0}, {2, 0, 0}, {1, 1, 0}, {0, 0, 1}, {1, 0, 1}, {0, 1, 1}, {3, 0, 0}} {
				for _, sh := range []int{14, 15} {
					for _, noQ := range []bool{true, false} {
						for opt := 0; opt <= 1; opt++ {
							for f := 0; f < 4; f++ {
								n := lay[0] + lay[1] + lay[2]
								shapes := make([]int, n)
								for i := range shapes {
									shapes[i] = sh
								}
								d := c09Msg{na: lay[0], nn: lay[1], nx: lay[2], shapes: shapes, opt: opt, noQuestion: noQ, compress: f&1 != 0, tc: f&2 != 0, inexact: false}
								emit(func(r *fw.R) { c09Reply(r, d) })
							}
						}
					}
				}
			}
		})

	c.Space("replies-opt-options", tsigRule+"; × OPT {last, first} carrying NSID+COOKIE options built in memory (Hdr.Rdlength 0), or no options but a stale Hdr.Rdlength (as after unpacking and stripping options), or 410 / 600 octets of padding (header + question + OPT then reach / pass the 512-octet floor: the OPT must be retained all the same) × Compress × Truncated; every size as in 'replies'; non-trivial: some size drops a record", true,
		func(emit func(func(*fw.R))) {
			for na := 0; na <= maxSec; na++ {
				for nn := 0; nn <= maxSec; nn++ {
					for nx := 0; nx <= maxSec; nx++ {
						for _, v := range vectors(na+nn+nx, false) {
							for opt := 1; opt <= 2; opt++ {
								if opt == 2 && nx == 0 {
									continue
								}
								for kind := 1; kind <= 4; kind++ {
									if kind >= 3 && !c.Thorough && (na > 1 || nn > 1 || nx > 1) {
										continue // quick: the oversized OPTs with at most one record per section
									}
									for f := 0; f < 4; f++ {
										d := c09Msg{na: na, nn: nn, nx: nx, shapes: v, opt: opt, optKind: kind, compress: f&1 != 0, tc: f&2 != 0}
										emit(func(r *fw.R) { c09Reply(r, d) })
									}
								}
							}
						}
					}
				}
			}
		})

	glueN := []int{3, 150}
	c.Space("beyond-16384", "replies longer than 16 KiB: answer = 4 filler TXT records on the question name (the 4th sized so that the target name of the NS record in the authority section starts at compressed offset T), additional = G glue A records owned by that target; T = every offset 16360..16410 (names that start at 16384 or later cannot be pointer targets, so the glue owners are written in full and the compressed length jumps), G ∈ {3, 150} × OPT {none, last} × Compress × Truncated; sizes: 512, 65535, every size 16300..16500, compressed length ± 300, uncompressed length ± 2, every exact prefix fit ± 1 and a stride (53 quick, 7 thorough) through 513..uncompressed length; non-trivial: some size drops a record", true,
		func(emit func(func(*fw.R))) {
			for T := 16360; T <= 16410; T++ {
				for _, g := range glueN {
					for opt := 0; opt <= 1; opt++ {
						for f := 0; f < 4; f++ {
							if g == 150 && !c.Thorough && (opt == 0 || f&2 != 0) {
								continue // quick: the long glue list only with OPT and Truncated clear
							}
							shapes := []int{8, 8, 8, 8, 9}
							for i := 0; i < g; i++ {
								shapes = append(shapes, 10)
							}
							d := c09Msg{na: 4, nn: 1, nx: g, shapes: shapes, opt: opt, largeT: T, compress: f&1 != 0, tc: f&2 != 0}
							emit(func(r *fw.R) { c09Reply(r, d) })
						}
					}
				}
			}
		})

	c.Space("uncommon-types", "replies built from records whose length estimate has its own code path: n = 1..40 NSEC records with an empty type bitmap in the answer section; one IPSECKEY with a host gateway in the answer section and n = 1..40 A records owned by that gateway name in the additional section; × OPT {none, last} × Compress; every size 505..length+2 (and the floor sizes): all clauses of the statement, in particular 'a message that already fits keeps all its records'; non-trivial: some size drops a record", true,
		func(emit func(func(*fw.R))) {
			for n := 1; n <= 40; n++ {
				for kind := 0; kind < 2; kind++ {
					for opt := 0; opt <= 1; opt++ {
						for f := 0; f < 2; f++ {
							var d c09Msg
							if kind == 0 {
								sh := make([]int, n)
								for i := range sh {
									sh[i] = 11
								}
								d = c09Msg{na: n, shapes: sh, opt: opt, compress: f&1 != 0}
							} else {
								sh := []int{12}
								for i := 0; i < n; i++ {
									sh = append(sh, 13)
								}
								d = c09Msg{na: 1, nx: n, shapes: sh, opt: opt, compress: f&1 != 0}
							}
							d.inexact = true
							emit(func(r *fw.R) { c09Reply(r, d) })
						}
					}
				}
			}
		})

	c.Space("tsig", tsigRule+"; TSIG record as last additional × OPT {none, before the TSIG}; every size 0..Len()+2 and 65535; only no-panic is required (the statement excludes TSIG replies), whether the message was left untouched is counted; non-trivial: the message is longer than 512 octets", true,
		func(emit func(func(*fw.R))) {
			for na := 0; na <= maxSec; na++ {
				for nn := 0; nn <= maxSec; nn++ {
					for nx := 0; nx <= maxSec; nx++ {
						for _, v := range vectors(na+nn+nx, false) {
							for opt := 0; opt <= 1; opt++ {
								d := c09Msg{na: na, nn: nn, nx: nx, shapes: v, opt: opt, tsig: true}
								emit(func(r *fw.R) { c09Tsig(r, d) })
							}
						}
					}
				}
			}
		})
}
