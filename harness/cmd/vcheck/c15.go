package main

import (
	"encoding/binary"
	"fmt"
	"runtime/debug"
	"strings"

	"github.com/miekg/dns"
	"verif/harness/fw"
	rx "verif/harness/ref/xfr"
)

// C15 — zone transfers: AXFR/IXFR termination, faults, TSIG chain (DESIGN §5 C15, engine E3).

func init() {
	fw.Register(&fw.Check{Prop: "C15", Level: "fault_enumeration",
		Assume: []string{
			"reference model ref/xfr (RFC 5936 §2.2, RFC 1995 §4, RFC 8945 §5.3.1) decides where a transfer ends and which streams must be refused",
			"Msg.Pack/Unpack (C01) is plumbing: the scripted server packs with Msg.Pack; it signs, and what the library sends is verified, with the independent RFC 8945 model ref/tsig (since round 13; before, the library's own TsigGenerate / TsigVerify were used, which a digest changed on both sides passes); which MAC is chained into which message, and with timers only or not, is decided by the harness",
			"only the fact of an error is compared, not which error value the library reports",
			"an empty answer section inside a transfer is covered by no RFC clause: either tolerating it or reporting an error at that message is accepted",
			"without TSIG nothing protects message content: an altered octet is only required to leave the structural guarantees intact (one terminal error at most, nothing after it, connection closed before the channel)",
			"altered octets with TSIG are those the running digest covers: everything before the TSIG RR, and its time signed, fudge, MAC and original ID fields",
			"serials are small; plain integer comparison (RFC 1982 wrap-around of the IXFR 'up to date' test is not enumerated)",
			"the transport never blocks and never times out (reads return data or EOF); segmentation of reads is 'everything available' or one octet per Read",
		},
		Spaces: c15Spaces})
}

func c15Verdict(v rx.Verdict) string {
	return [...]string{"complete", "bad-tsig", "bad-id", "bad-rcode", "not-soa-first", "ends-early", "unspecified"}[v]
}

func c15RRs(recs []c15rec) []dns.RR {
	out := make([]dns.RR, len(recs))
	for i, r := range recs {
		out[i] = r.rr()
	}
	return out
}

// c15ParseRequest checks what the client wrote (one framed query, signed if TSIG is configured).
func c15ParseRequest(written []byte, writes int, sh *c15shape, tsig bool) (*dns.Msg, string, string) {
	if writes != 1 || len(written) < 2 || int(binary.BigEndian.Uint16(written)) != len(written)-2 {
		return nil, "", fmt.Sprintf("expected one framed message, got %d writes, %d octets", writes, len(written))
	}
	req := new(dns.Msg)
	if err := req.Unpack(written[2:]); err != nil {
		return nil, "", "request does not unpack: " + err.Error()
	}
	want := dns.TypeAXFR
	if sh.ixfr {
		want = dns.TypeIXFR
	}
	if req.Id != c15ID || req.Response || len(req.Question) != 1 || req.Question[0].Qtype != want || req.Question[0].Name != c15Zone {
		return nil, "", "request differs from the query passed to In: " + strings.ReplaceAll(req.String(), "\n", " / ")
	}
	if sh.ixfr {
		if len(req.Ns) != 1 {
			return nil, "", "IXFR request without the client's SOA"
		}
		if soa, ok := req.Ns[0].(*dns.SOA); !ok || soa.Serial != sh.qser {
			return nil, "", "IXFR request with a different serial"
		}
	}
	mac := ""
	if tsig {
		t := req.IsTsig()
		if t == nil {
			return nil, "", "TSIG configured but the request is not signed"
		}
		if err := c15RefVerify(append([]byte(nil), written[2:]...), c15Secret, "", false); err != nil {
			return nil, "", "request TSIG does not verify: " + err.Error()
		}
		mac = t.MAC
	}
	return req, mac, ""
}

type c15names map[string]string // RR text -> short name used in messages

func (n c15names) add(recs []c15rec) {
	for _, r := range recs {
		n[r.text()] = r.String()
	}
}

func (n c15names) render(rrs []dns.RR) string {
	var b strings.Builder
	b.WriteByte('[')
	for i, rr := range rrs {
		if i > 0 {
			b.WriteByte(' ')
		}
		if s, ok := n[rr.String()]; ok {
			b.WriteString(s)
		} else {
			b.WriteString("«" + rr.String() + "»")
		}
	}
	b.WriteByte(']')
	return b.String()
}

func (n c15names) observed(res *c15Res) string {
	var b strings.Builder
	for i, e := range res.envs {
		if i > 0 {
			b.WriteByte(' ')
		}
		if e.Error != nil {
			fmt.Fprintf(&b, "ERROR(%v)", e.Error)
		}
		b.WriteString(n.render(e.RR))
	}
	if res.hang {
		b.WriteString(" … channel not closed within the watchdog")
	} else {
		fmt.Fprintf(&b, " then channel closed; Close calls on the connection: %d", res.closes)
	}
	return b.String()
}

// c15Judge compares one run with the reference outcome. sent[i] = the records (as text) of the i-th message
// that arrives completely. weak: only the structural guarantees are required.
func c15Judge(r *fw.R, desc func() string, ctx string, q rx.Query, envs []rx.Env, exp rx.Outcome, sent [][]string, res *c15Res, weak bool) {
	if res.inErr != nil {
		r.Fail("in-returns-error", "%s: Transfer.In returned %v", desc(), res.inErr)
		return
	}
	if res.hang {
		r.Fail("hang", "%s", desc())
		return
	}
	errAt := -1
	for i, e := range res.envs {
		if e == nil {
			r.Fail("nil-envelope", "%s", desc())
			return
		}
		if e.Error != nil && errAt < 0 {
			errAt = i
		}
	}
	if errAt >= 0 && errAt != len(res.envs)-1 {
		r.Fail("envelope-after-error/"+ctx, "%s", desc())
	}
	if len(res.envs) == 0 {
		r.Fail("closed-without-any-envelope/"+ctx, "%s", desc())
	}
	switch {
	case res.openAtChanClose:
		r.Fail("close/channel-closed-while-connection-open", "%s", desc())
	case res.chanClosedAtClose:
		r.Fail("close/channel-closed-before-connection", "%s", desc())
	case res.stole:
		r.Fail("close/send-pending-during-close", "%s", desc())
	}
	var got []string
	for _, e := range res.envs {
		if e.Error == nil {
			for _, rr := range e.RR {
				got = append(got, rr.String())
			}
		}
	}
	delivered := strings.Join(got, "\n")
	upto := func(k int) string {
		var w []string
		for _, m := range sent[:k] {
			w = append(w, m...)
		}
		return strings.Join(w, "\n")
	}
	if weak || exp.V == rx.Unspecified {
		if !weak && !strings.HasPrefix(upto(len(sent)), delivered) {
			r.Fail("delivers-other/"+ctx+"/outside-grammar", "%s", desc())
		}
		return
	}
	wantErr, gotErr := exp.V != rx.Complete, errAt >= 0
	want := upto(exp.OK)
	if delivered == want && gotErr == wantErr {
		return
	}
	if exp.EmptyAt >= 0 && gotErr && delivered == upto(exp.EmptyAt) {
		return // error reported at the message with the empty answer section
	}
	where := "later-message"
	if exp.OK == 0 {
		where = "first-message"
	}
	trailing := ""
	if exp.V == rx.Complete {
		// does the closing message carry records behind the closing SOA?
		cut := append([]rx.Env(nil), envs[:exp.OK]...)
		last := cut[exp.OK-1]
		if n := len(last.Recs); n > 0 {
			last.Recs = last.Recs[:n-1]
			cut[exp.OK-1] = last
			if o := rx.Expect(q, cut); o.V == rx.Complete && o.OK == exp.OK {
				trailing = "/closing-soa-not-last-in-message"
			}
		}
	}
	// one key per kind of miss, whatever the later symptom (e.g. an error that is only reported because
	// the stream ends afterwards)
	key := ""
	switch {
	case trailing != "":
		// The closing message carries records *behind* the closing SOA. No well-formed sender produces that
		// (RFC 5936 §2.2: the closing SOA is the last record) and it is not among the faults the property
		// quantifies over (it cannot arise from dropping, duplicating, reordering or altering whole messages),
		// so the statement does not fix the outcome. inAxfr only inspects the last record of a message and
		// reads on; recorded as an observation, not a violation.
		r.Count("observed: records behind the closing SOA inside the closing message ("+ctx+")", 1)
		return
	case wantErr && (!gotErr || (delivered != want && strings.HasPrefix(delivered, want))):
		key = "missed/" + c15Verdict(exp.V) + "/" + ctx + "/" + where
	case !wantErr && gotErr:
		key = "spurious-error/" + ctx
	case strings.HasPrefix(delivered, want):
		key = "delivers-beyond-end/" + ctx
	case strings.HasPrefix(want, delivered):
		key = "delivers-less/" + ctx
	default:
		key = "delivers-other/" + ctx
	}
	r.Fail(key, "%s; reference: %d message(s) delivered, then %s", desc(), exp.OK, c15Verdict(exp.V))
}

// c15Check runs one script on the real Transfer.In and judges it; returns the reference verdict.
// c15Check judges one script; a script with TSIG is run twice: with the keys in Transfer.TsigSecret, and with the same
// keys behind Transfer.TsigProvider (beside a TsigSecret map of other secrets).
func c15Check(r *fw.R, s *c15script, lay []c15msgLayout) rx.Verdict {
	if s.tsig && !s.viaProvider {
		s2 := *s
		s2.viaProvider = true
		c15CheckOne(r, &s2, lay)
	}
	return c15CheckOne(r, s, lay)
}

func c15CheckOne(r *fw.R, s *c15script, lay []c15msgLayout) rx.Verdict {
	if lay == nil {
		lay, _ = s.layout()
	}
	exp, envs, alteredAt := s.expected(lay)
	names := c15names{}
	var sent [][]string
	for _, e := range s.logical {
		names.add(e.recs)
	}
	for p := range envs {
		var m []string
		for _, rec := range s.logical[s.wire[p].src].recs {
			m = append(m, rec.text())
		}
		sent = append(sent, m)
	}
	var secrets map[string]string
	if s.tsig {
		secrets = c15Secrets()
	}
	problem := ""
	c15ViaProvider = s.viaProvider
	res := c15In(s.sh.query(s.tsig), secrets, s.seg, func(written []byte) []byte {
		req, mac, p := c15ParseRequest(written, 1, s.sh, s.tsig)
		if p != "" {
			problem = p
			return nil
		}
		out, _, err := s.stream(req, mac)
		if err != nil {
			problem = err.Error()
			return nil
		}
		return out
	})
	desc := func() string { return s.String() + "; observed: " + names.observed(res) }
	if problem != "" {
		r.Fail("request", "%s: %s", desc(), problem)
		return exp.V
	}
	if res.inErr == nil && !res.hang && res.writes != 1 {
		r.Fail("request", "%s: client wrote %d times", desc(), res.writes)
	}
	ctx := "axfr"
	if s.sh.ixfr {
		ctx = "ixfr"
	}
	// without TSIG an altered message that the receiver may reach carries arbitrary content (when the
	// reference says "unspecified" the receiver may read on as far as it likes)
	weak := !s.tsig && alteredAt >= 0 && (alteredAt <= exp.OK || exp.V == rx.Unspecified)
	c15Judge(r, desc, ctx, s.sh.refQuery(s.tsig), envs, exp, sent, res, weak)
	r.Count("transfers", 1)
	r.Count("reference-"+c15Verdict(exp.V), 1)
	return exp.V
}

// ---- enumeration of faults ----

const c15Chunk = 192

func c15Reference(s *c15script, lay []c15msgLayout) rx.Verdict {
	exp, _, _ := s.expected(lay)
	return exp.V
}

type c15bounds struct {
	rcodes   []int
	idXors   []int
	masks    []int // xor masks for altered octets
	alterAll bool  // false: a stated subset of offsets per message
	weak     []int // xor masks for altered octets without TSIG (structural guarantees only)
}

func c15OpsA(s *c15script, b *c15bounds) []c15op {
	var ops []c15op
	e := len(s.logical)
	for i := 0; i < e; i++ {
		for _, x := range b.idXors {
			ops = append(ops, c15op{opWrongID, i, x})
		}
		for _, rc := range b.rcodes {
			ops = append(ops, c15op{opRcode, i, rc})
		}
	}
	for v := 0; v < 3; v++ {
		if v == 1 || (e > 0 && len(s.logical[0].recs) > 0) {
			ops = append(ops, c15op{opFirstNotSOA, v, 0})
		}
	}
	for v := 0; v < 6; v++ {
		if e > 0 {
			ops = append(ops, c15op{opExtras, v, 0})
		}
	}
	for i := 0; i <= e; i++ {
		ops = append(ops, c15op{opEmpty, i, 0})
	}
	return ops
}

func c15OpsB(s *c15script) []c15op {
	var ops []c15op
	e := len(s.wire)
	for i := 0; i < e; i++ {
		ops = append(ops, c15op{opDrop, i, 0}, c15op{opDup, i, 0})
		for j := i + 1; j < e; j++ {
			ops = append(ops, c15op{opSwap, i, j})
		}
		if s.tsig && s.wire[i].mode == wSigned {
			ops = append(ops, c15op{opStrip, i, 0}, c15op{opStripKeepAR, i, 0}, c15op{opRekeySecret, i, 0}, c15op{opRekeyName, i, 0}, c15op{opRekeyKnown, i, 0}, c15op{opMacShort, i, 0}, c15op{opMacShort, i, 1}, c15op{opMacShort, i, 9}, c15op{opMacShort, i, 15})
		}
	}
	return ops
}

// c15OpsAlter: with TSIG every octet the digest covers; without TSIG every octet of the message.
func c15OpsAlter(s *c15script, lay []c15msgLayout, b *c15bounds) []c15op {
	var ops []c15op
	for p, l := range lay {
		var offs []int
		switch {
		case !s.tsig || l.tsigOff < 0:
			if s.tsig {
				continue // already unsigned or re-keyed: not a message of the running chain
			}
			for o := 0; o < l.length; o++ {
				offs = append(offs, o)
			}
		default:
			for o := 0; o < l.tsigOff; o++ {
				offs = append(offs, o)
			}
			for o := l.timeOff; o < l.timeOff+8; o++ {
				offs = append(offs, o)
			}
			for o := l.macOff; o < l.origOff+2; o++ {
				offs = append(offs, o)
			}
		}
		if !b.alterAll {
			// header flags, ANCOUNT, first and last octet before the TSIG RR / of the message, first and last MAC octet
			end := l.length
			if l.tsigOff >= 0 {
				end = l.tsigOff
			}
			sub := []int{2, 7, 12, end - 1}
			if l.tsigOff >= 0 {
				sub = append(sub, l.macOff, l.macOff+l.macLen-1)
			}
			offs = sub
		}
		masks := b.masks
		if !s.tsig && b.weak != nil {
			masks = b.weak
		}
		for _, o := range offs {
			for _, m := range masks {
				ops = append(ops, c15op{opAlter, p, o<<8 | m})
			}
		}
	}
	return ops
}

func c15OpsCut(total int) []c15op {
	ops := make([]c15op, 0, total)
	for c := 0; c < total; c++ {
		ops = append(ops, c15op{opCut, c, 0})
	}
	return ops
}

func c15Spaces(c *fw.Ctx) {
	// Transfer.ReadMsg allocates a 64 KiB buffer per message; with the default GC target the collector
	// runs every few dozen messages and dominates the run time. The live heap of a worker stays tiny.
	debug.SetGCPercent(1600)
	maxM := 9
	shapes := c15Shapes(maxM)

	c.Space("base", fmt.Sprintf("every answer shape with ≤ %d transmitted records (AXFR zones of 1..5 records; IXFR: single SOA up to date (equal / client newer), single SOA although the server is newer, AXFR-style fallback of 1..5 records, 1..3 difference sequences with 0..2 deletions and additions each, first old serial = or > client serial) × all 2^(m-1) compositions into messages × TSIG off/on × reads unsegmented / one octet × compression off/on, no fault; non-trivial: more than one transmitted record", maxM), true,
		func(emit func(func(*fw.R))) {
			for _, sh := range shapes {
				for _, tsig := range []bool{false, true} {
					sh, tsig := sh, tsig
					emit(func(r *fw.R) {
						if len(sh.recs) > 1 {
							r.Nontrivial()
						}
						for mask := 0; mask < 1<<(len(sh.recs)-1); mask++ {
							for _, seg := range []int{0, 1} {
								for _, comp := range []bool{false, true} {
									s := c15Base(sh, mask, tsig)
									s.seg, s.compress = seg, comp
									c15Check(r, s, nil)
									if mask == 1 && seg == 0 && !comp {
										r.Sample(func() any { return s.String() })
									}
								}
							}
						}
					})
				}
			}
		})

	wrap := c15WrapShapes()
	c.Space("serial-wrap", fmt.Sprintf("%d IXFR answer shapes whose serials straddle the 32-bit wrap or lie more than 2^31 apart as integers (single SOA with the client equal / newer in RFC 1982 arithmetic; 1–2 difference sequences and the AXFR-style fallback with the server newer in serial arithmetic although its serial is the smaller integer) × all compositions into messages × TSIG off/on, no fault; non-trivial: more than one transmitted record", len(wrap)), true,
		func(emit func(func(*fw.R))) {
			for _, sh := range wrap {
				for _, tsig := range []bool{false, true} {
					sh, tsig := sh, tsig
					emit(func(r *fw.R) {
						if len(sh.recs) > 1 {
							r.Nontrivial()
						}
						for mask := 0; mask < 1<<(len(sh.recs)-1); mask++ {
							s := c15Base(sh, mask, tsig)
							c15Check(r, s, nil)
							if mask == 1 {
								r.Sample(func() any { return s.String() })
							}
						}
					})
				}
			}
		})

	b := &c15bounds{rcodes: []int{2, 5, 9}, idXors: []int{0x0001, 0x8000}, masks: []int{0x01, 0x80}, alterAll: true}
	faultM := 6
	if c.Thorough {
		b.rcodes = []int{1, 2, 3, 4, 5, 9, 15}
		b.masks = []int{0x01, 0x02, 0x04, 0x08, 0x10, 0x20, 0x40, 0x80, 0xff}
		b.weak = []int{0x01, 0x80}
		faultM = 9
	}
	const alterM = 6 // octets are altered in streams of ≤ alterM records; longer ones get every other fault
	c.Space("fault1", fmt.Sprintf("every shape with ≤ %d transmitted records (beyond 6 records: IXFR difference shapes with first old serial = client serial only, and no altered octets) × every composition × TSIG off/on × every single fault: wrong ID (xor %v) / RCODE %v on any message; first record replaced, preceded by a non-SOA, or missing; 6 kinds of extra records behind the closing SOA (same or new message, SOA or not); an empty-answer message inserted at any position; any message dropped, duplicated, any two swapped; with TSIG any message unsigned, unsigned with another additional record, signed with another secret, signed with an unknown key, signed with another key the client has configured, or carrying only the first 0, 1, 9 or 15 octets of its MAC; any digest-covered octet (without TSIG: any octet, structural guarantees only) of any message xor %v; connection closed after every octet count 0..len-1; non-trivial: some fault changes the reference outcome to an error", faultM, b.idXors, b.rcodes, b.masks), true,
		func(emit func(func(*fw.R))) {
			for _, sh := range shapes {
				if len(sh.recs) > faultM || (len(sh.recs) > alterM && strings.HasSuffix(sh.name, "-qlt")) {
					continue
				}
				for mask := 0; mask < 1<<(len(sh.recs)-1); mask++ {
					for _, tsig := range []bool{false, true} {
						s0 := c15Base(sh, mask, tsig)
						lay, total := s0.layout()
						var ops []c15op
						ops = append(ops, c15OpsA(s0, b)...)
						ops = append(ops, c15OpsB(s0)...)
						if len(sh.recs) <= alterM {
							ops = append(ops, c15OpsAlter(s0, lay, b)...)
						}
						ops = append(ops, c15OpsCut(total)...)
						// cases of equal size (≤ c15Chunk faults each) so that the worker processes are evenly loaded
						for lo := 0; lo < len(ops); lo += c15Chunk {
							chunk := ops[lo:min(lo+c15Chunk, len(ops))]
							first := lo == 0
							emit(func(r *fw.R) {
								base := rx.Complete
								if first {
									base = c15Check(r, s0, lay)
								} else {
									base = c15Reference(s0, lay)
								}
								for _, o := range chunk {
									s := s0.with(o)
									var l []c15msgLayout
									if o.stage() >= 2 {
										l = lay
									}
									if v := c15Check(r, s, l); v != base && v != rx.Complete && v != rx.Unspecified {
										r.Nontrivial()
									}
								}
								if mask == 1 {
									r.Sample(func() any { return s0.with(chunk[len(chunk)/2]).String() })
								}
							})
						}
					}
				}
			}
		})

	pairN := 2
	pb := &c15bounds{rcodes: []int{2}, idXors: []int{0x0001}, masks: []int{0x01}}
	if c.Thorough {
		pairN = 3
		pb.rcodes = []int{2, 9}
	}
	c.Space("fault2", fmt.Sprintf("AXFR and AXFR-style IXFR of zones with ≤ %d records, IXFR single SOA, (thorough tier: IXFR with one difference sequence of ≤ 5 transmitted records) × every composition × TSIG off/on × every ordered pair of faults (first fault from the fault1 list with RCODE %v, ID xor %v and altered octets restricted to header flags, ANCOUNT, first/last octet before the TSIG RR, first/last MAC octet, xor 0x01; second fault: the same list on the result, of the same or a later stage [logical → signed messages → altered octet → connection closed at every octet]); non-trivial: the pair's reference outcome is an error", pairN, pb.rcodes, pb.idXors), true,
		func(emit func(func(*fw.R))) {
			for _, sh := range shapes {
				switch {
				case strings.HasPrefix(sh.name, "axfr-n"), strings.HasPrefix(sh.name, "ixfr-fallback-n"):
					if len(sh.recs) > pairN+1 {
						continue
					}
				case strings.HasPrefix(sh.name, "ixfr-k1"):
					if !c.Thorough || len(sh.recs) > 5 || strings.HasSuffix(sh.name, "-qlt") {
						continue
					}
				case strings.HasPrefix(sh.name, "ixfr-k"):
					continue
				}
				for mask := 0; mask < 1<<(len(sh.recs)-1); mask++ {
					for _, tsig := range []bool{false, true} {
						s0 := c15Base(sh, mask, tsig)
						lay0, _ := s0.layout()
						var first []c15op
						first = append(first, c15OpsA(s0, pb)...)
						first = append(first, c15OpsB(s0)...)
						first = append(first, c15OpsAlter(s0, lay0, pb)...)
						for _, f1 := range first {
							s0, f1 := s0, f1
							emit(func(r *fw.R) {
								s1 := s0.with(f1)
								lay, total := s1.layout()
								var second []c15op
								if f1.stage() == 0 {
									second = append(second, c15OpsA(s1, pb)...)
								}
								if f1.stage() <= 1 {
									second = append(second, c15OpsB(s1)...)
									second = append(second, c15OpsAlter(s1, lay, pb)...)
								}
								second = append(second, c15OpsCut(total)...)
								for _, f2 := range second {
									s2 := s1.with(f2)
									var l []c15msgLayout
									if f2.stage() >= 2 {
										l = lay
									}
									if v := c15Check(r, s2, l); v != rx.Complete && v != rx.Unspecified {
										r.Nontrivial()
									}
								}
								if len(second) > 0 {
									r.Sample(func() any { return s1.with(second[len(second)/3]).String() })
								}
							})
						}
					}
				}
			}
		})

	c.Space("out", "the real sender: a dns.Server on an in-memory listener whose handler sends the messages with Transfer.Out (response.WriteMsg, TsigTimersOnly); every shape with ≤ 9 records × every composition × TSIG off/on; its octets are checked message by message (ID, answer section, TSIG chain: first message over the request MAC with full variables, later ones over the previous MAC with timers only) and fed to Transfer.In; non-trivial: more than one message in some composition", true,
		func(emit func(func(*fw.R))) {
			for _, sh := range shapes {
				for _, tsig := range []bool{false, true} {
					sh, tsig := sh, tsig
					emit(func(r *fw.R) {
						if len(sh.recs) > 1 {
							r.Nontrivial()
						}
						for mask := 0; mask < 1<<(len(sh.recs)-1); mask++ {
							c15OutCase(r, sh, mask, tsig)
						}
					})
				}
			}
		})
}

// c15OutCase: Transfer.Out through the real server, sender's octets checked, then consumed by Transfer.In.
func c15OutCase(r *fw.R, sh *c15shape, mask int, tsig bool) {
	s := c15Base(sh, mask, tsig) // used for its description and the reference outcome only
	names := c15names{}
	names.add(sh.recs)
	var envRR [][]dns.RR
	var sent [][]string
	var envs []rx.Env
	for _, e := range s.logical {
		envRR = append(envRR, c15RRs(e.recs))
		var m []string
		env := rx.Env{ID: c15ID, Verified: true}
		for _, rec := range e.recs {
			m = append(m, rec.text())
			env.Recs = append(env.Recs, rx.Rec{SOA: rec.soa, Serial: rec.serial})
		}
		sent = append(sent, m)
		envs = append(envs, env)
	}
	var secrets map[string]string
	if tsig {
		secrets = c15Secrets()
	}
	var stream []byte
	var savedReq []byte
	var reqMAC string
	problem := ""
	res := c15In(sh.query(tsig), secrets, 0, func(written []byte) []byte {
		_, mac, p := c15ParseRequest(written, 1, sh, tsig)
		if p != "" {
			problem = "request: " + p
			return nil
		}
		reqMAC = mac
		savedReq = append([]byte(nil), written...)
		out, outErr, handled, srvErr := c15ServeOut(written, secrets, envRR)
		if outErr != nil || srvErr != nil || handled != 1 {
			problem = fmt.Sprintf("server: Transfer.Out error %v, ActivateAndServe error %v, handler calls %d", outErr, srvErr, handled)
		}
		stream = out
		return out
	})
	desc := func() string {
		return "Transfer.Out via dns.Server → Transfer.In; " + s.String() + "; observed: " + names.observed(res)
	}
	if problem != "" {
		r.Fail("out/server", "%s: %s", desc(), problem)
		return
	}
	// the sender's octets, judged without Transfer.In
	prev, off := reqMAC, 0
	for i := 0; ; i++ {
		if off == len(stream) {
			if i != len(envRR) {
				r.Fail("out/message-count", "%s: %d messages written for %d envelopes", desc(), i, len(envRR))
			}
			break
		}
		if off+2 > len(stream) || off+2+int(binary.BigEndian.Uint16(stream[off:])) > len(stream) {
			r.Fail("out/framing", "%s: bad framing at octet %d of %x", desc(), off, stream)
			break
		}
		raw := stream[off+2 : off+2+int(binary.BigEndian.Uint16(stream[off:]))]
		off += 2 + len(raw)
		m := new(dns.Msg)
		if err := m.Unpack(raw); err != nil {
			r.Fail("out/unpack", "%s: message %d: %v", desc(), i, err)
			break
		}
		if i >= len(envRR) {
			continue
		}
		var txt []string
		for _, rr := range m.Answer {
			txt = append(txt, rr.String())
		}
		if m.Id != c15ID || !m.Response || m.Rcode != 0 || strings.Join(txt, "\n") != strings.Join(sent[i], "\n") {
			r.Fail("out/message-content", "%s: message %d is id %#x response=%v rcode=%d answer %s", desc(), i, m.Id, m.Response, m.Rcode, names.render(m.Answer))
		}
		t := m.IsTsig()
		if !tsig {
			if t != nil {
				r.Fail("out/unexpected-tsig", "%s: message %d", desc(), i)
			}
			continue
		}
		if t == nil {
			r.Fail("out/unsigned-message", "%s: message %d of a signed transfer carries no TSIG", desc(), i)
			break
		}
		if err := c15RefVerify(append([]byte(nil), raw...), c15Secret, prev, i > 0); err != nil {
			r.Fail("out/tsig-chain", "%s: message %d does not verify over the %s with %s: %v", desc(), i,
				map[bool]string{false: "request MAC", true: "previous message's MAC"}[i > 0],
				map[bool]string{false: "all TSIG variables", true: "timers only"}[i > 0], err)
			break
		}
		prev = t.MAC
	}
	if tsig && savedReq != nil {
		// the same signed request twice on one connection: the second transfer is a transfer of its own — its first
		// message is signed over the request MAC with all TSIG variables, whatever the first transfer left behind
		out2, outErr, handled, srvErr := c15ServeOut(append(append([]byte(nil), savedReq...), savedReq...), secrets, envRR)
		if outErr != nil || srvErr != nil || handled != 2 {
			r.Fail("out/second-transfer/server", "%s: two requests on one connection: Transfer.Out error %v, ActivateAndServe error %v, handler calls %d", desc(), outErr, srvErr, handled)
		} else {
			prev, off := reqMAC, 0
			for i := 0; off < len(out2); i++ {
				if off+2 > len(out2) || off+2+int(binary.BigEndian.Uint16(out2[off:])) > len(out2) {
					r.Fail("out/second-transfer/framing", "%s: bad framing at octet %d", desc(), off)
					break
				}
				raw := out2[off+2 : off+2+int(binary.BigEndian.Uint16(out2[off:]))]
				off += 2 + len(raw)
				m := new(dns.Msg)
				if err := m.Unpack(raw); err != nil || m.IsTsig() == nil {
					r.Fail("out/second-transfer/unsigned", "%s: message %d of two transfers on one connection: unpack %v, TSIG present %v", desc(), i, err, err == nil && m.IsTsig() != nil)
					break
				}
				first := i%len(envRR) == 0
				if first {
					prev = reqMAC
				}
				if err := c15RefVerify(append([]byte(nil), raw...), c15Secret, prev, !first); err != nil {
					r.Fail("out/second-transfer/tsig-chain", "%s: two identical signed requests on one connection: message %d (message %d of transfer %d) does not verify (%s): %v", desc(), i, i%len(envRR), i/len(envRR)+1,
						map[bool]string{true: "over the request MAC with all TSIG variables", false: "over the previous message's MAC, timers only"}[first], err)
					break
				}
				prev = m.IsTsig().MAC
			}
		}
	}
	q := sh.refQuery(tsig)
	exp := rx.Expect(q, envs)
	ctx := "out-axfr"
	if sh.ixfr {
		ctx = "out-ixfr"
	}
	c15Judge(r, desc, ctx, q, envs, exp, sent, res, false)
	r.Count("transfers", 1)
	if mask == 1 {
		r.Sample(func() any { return "Transfer.Out → Transfer.In; " + s.String() })
	}
}
