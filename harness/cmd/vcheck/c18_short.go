package main

import (
	"crypto/ecdsa"
	"fmt"

	"github.com/miekg/dns"
	"verif/harness/fw"
)

// C18 with ECDSA signatures whose r or s has leading zero octets (see c10_short.go: the harness signer re-signs
// with the fixed key until the integers have the wanted lengths; two missing octets take about 2^16 attempts).
func c18ShortSpace(c *fw.Ctx) {
	type shape struct{ dr, ds int }
	algs := []string{"ECDSAP256SHA256"}
	if c.Thorough {
		algs = append(algs, "ECDSAP384SHA384")
	}
	shapes := []shape{{0, 0}, {1, 0}, {0, 1}, {1, 1}, {2, 0}, {0, 2}}
	c.Space("ecdsa-integer-lengths", fmt.Sprintf("messages {query, reply3} signed with the fixed %v keys through a harness signer that re-signs until r and s have the wanted lengths, (octets missing from r, from s) ∈ %v: Sign output = Pack(m) with ARCOUNT+1 ‖ SIG RR ‖ r|s each left-padded to the field size; the reference verifier and SIG.Verify accept it; non-trivial: r or s is short", algs, shapes), true,
		func(emit func(func(*fw.R))) {
			for _, an := range algs {
				for _, sh := range shapes {
					for _, mn := range []string{"query", "reply3"} {
						an, sh, mn := an, sh, mn
						emit(func(r *fw.R) {
							var a c18Alg
							for _, x := range c18Algs {
								if x.name == an {
									a = x
								}
							}
							k := c18LoadKey(a.file)
							priv, ok := k.priv.(*ecdsa.PrivateKey)
							if !ok {
								r.Fail("internal/key", "key %s is a %T", a.file, k.priv)
								return
							}
							n := (priv.Curve.Params().BitSize + 7) / 8
							signer := &c10ShapedSigner{key: priv, rLen: n - sh.dr, sLen: n - sh.ds}
							if sh.dr+sh.ds > 0 {
								r.Nontrivial()
							}
							k2 := *k
							k2.priv = signer
							var m *dns.Msg
							for _, ms := range c18Msgs {
								if ms.name == mn {
									m = ms.build()
								}
							}
							if m == nil {
								r.Fail("internal/msg", "no message shape %s", mn)
								return
							}
							id := fmt.Sprintf("msg=%s alg=%s |r|=%d |s|=%d of %d", mn, an, signer.rLen, signer.sLen, n)
							s := c18SignAndCheck(r, id, a, &k2, m, c18FixedInception, c18FixedExpiration)
							r.Count("signing attempts until the lengths were met", int64(signer.tries))
							if s == nil {
								return
							}
							for _, sg := range []*dns.SIG{s.sig, s.wireSig} {
								if sg == nil {
									continue
								}
								if err, pan := c18Verify(sg, k.rr, s.out); err != nil || pan != nil {
									r.Fail("verify/untampered-rejected", "%s: SIG.Verify of the untampered Sign output = %v (panic %v); reference verifies: %v; buffer %s", id, err, pan, s.refOK, c18Hex(s.out))
								}
							}
						})
					}
				}
			}
		})
}
