package main

import (
	"crypto/ecdsa"
	"bytes"
	"crypto"
	"encoding/base64"
	"encoding/hex"
	"fmt"
	"io"
	"math/big"
	"strings"
	"time"

	"github.com/miekg/dns"
	"verif/harness/fw"
	"verif/harness/ref/canon"
	rn "verif/harness/ref/name"
)

// C17 — key tags, DS, NSEC3 hash/match/cover, key import/export, validity period (DESIGN §5 C17).

func init() {
	fw.Register(&fw.Check{Prop: "C17", Level: "exploration",
		Assume: []string{
			"reference model ref/canon (RFC 4034 App. B and §5.1.4, RFC 4509, RFC 6605, RFC 5155 §5, RFC 3110/6605/8080 key formats, RFC 1982) is the oracle; it is itself checked against the worked examples of RFC 4034 §5.4, RFC 5155 App. A, RFC 6605 §6.1 and RFC 8080 §6.1 (go test ./ref/canon)",
			"DNSKEY values are built as Go structs with PublicKey = standard base64 of the key octets; NSEC3 values as structs with an upper-case (wire-derived) or lower-case (zone-file) base32hex NextDomain",
			"digest types other than 1, 2, 4 have no value defined by the RFCs the statement names: for them only the absence of a panic and the tag/algorithm/type fields of a non-nil result are checked",
			"key octets are enumerated up to 4093 octets: 4092 is the longest key whose RDATA fits the 4096-octet scratch buffer of KeyTag/ToDS, 4093 the first that does not (reported under its own key *key-over-4092-octets*); DNSKEY RDATA may be up to 65535 octets",
			"BIND private-key text: RSA integers minimal big-endian, ECDSA PrivateKey fixed-width (32/48 octets), Ed25519 the 32-octet seed; the exported text is read back by an independent strict reader as well as by NewPrivateKey",
			"fresh keys come from DNSKEY.Generate (crypto/rand): the set of cases is fixed, the key material is not",
			"ValidityPeriod: times are Unix seconds >= 0; inception/expiration are the 32-bit residues of instants within 68 years (68*365 days) of t; the zero time.Time means 'now' and is checked with the stable-second protocol",
			"dns.PackRR supplies uncompressed wire RDATA to the reference signer/verifier in the cross sign/verify clauses (plumbing; C01)",
		},
		Spaces: c17Spaces})
}

func c17Pattern(n, pat int) []byte {
	b := make([]byte, n)
	for i := range b {
		switch pat {
		case 1:
			b[i] = 0xff
		case 2:
			b[i] = byte(i + 1)
		}
	}
	return b
}

func c17DNSKEY(owner string, flags uint16, proto, alg uint8, key []byte) *dns.DNSKEY {
	return &dns.DNSKEY{Hdr: dns.RR_Header{Name: owner, Rrtype: dns.TypeDNSKEY, Class: dns.ClassINET, Ttl: 3600},
		Flags: flags, Protocol: proto, Algorithm: alg, PublicKey: base64.StdEncoding.EncodeToString(key)}
}

func c17RData(flags uint16, proto, alg uint8, key []byte) []byte {
	return canon.Key{Flags: flags, Protocol: proto, Algorithm: alg, PublicKey: key}.RData()
}

func c17KeyTagCase(r *fw.R, flags uint16, proto, alg uint8, key []byte, what string) {
	k := c17DNSKEY("example.", flags, proto, alg, key)
	rd := c17RData(flags, proto, alg, key)
	want := canon.KeyTag(rd)
	got := k.KeyTag()
	var sum uint64
	for i, v := range rd {
		if i&1 == 1 {
			sum += uint64(v)
		} else {
			sum += uint64(v) << 8
		}
	}
	if len(key)%2 == 1 || sum > 0xffff {
		r.Nontrivial()
	}
	if got != want {
		cls := "even-length"
		if len(key)%2 == 1 {
			cls = "odd-length"
		}
		if len(key) > 4092 {
			cls = "key-over-4092-octets" // RDATA no longer fits the 4096-octet scratch buffer of KeyTag
		}
		r.Fail("keytag/"+cls, "DNSKEY flags=%d protocol=%d algorithm=%d key(%s, %d octets)=%s: KeyTag() = %d, RFC 4034 App. B gives %d",
			flags, proto, alg, what, len(key), c17Clip(key), got, want)
	}
}

func c17Clip(b []byte) string {
	if len(b) > 80 {
		return fmt.Sprintf("%x…%x", b[:40], b[len(b)-8:])
	}
	return fmt.Sprintf("%x", b)
}

// owner spellings for DS / names for NSEC3 hashing. Each entry: the name in lower case.
var c17Names = []string{
	".",
	"example.",
	"a.example.",
	"*.example.",
	"_sip._tcp.example.",
	"xn--bcher-kva.example.",
	`a\.b.example.`,
	`\000\255z.example.`,
	"0-9.example.",
	"x.y.w.example.",
	"\xc3\x80x.example.", // raw UTF-8 (À): Unicode-aware case folding would change its octets
	"\xe9x.example.",     // a raw octet that is not valid UTF-8
	strings.Repeat("k", 63) + ".example.",
	strings.Repeat("a", 63) + "." + strings.Repeat("b", 63) + "." + strings.Repeat("c", 63) + "." + strings.Repeat("d", 61) + ".",
}

// c17EscapeUpper spells the first lower-case letter of s as the \DDD escape of its upper-case octet
// (e.g. "example." → "\069xample."); ok is false when s has no letter outside an escape.
func c17EscapeUpper(s string) (string, bool) {
	for i := 0; i < len(s); i++ {
		c := s[i]
		if c == '\\' {
			if i+3 < len(s) && s[i+1] >= '0' && s[i+1] <= '9' {
				i += 3
			} else {
				i++
			}
			continue
		}
		if c >= 'a' && c <= 'z' {
			return fmt.Sprintf("%s\\%03d%s", s[:i], c-32, s[i+1:]), true
		}
	}
	return "", false
}

type c17Form struct {
	what, name string
}

// c17Forms: the spellings of one name whose results must all agree: lower, upper, alternating, and
// (separately keyed) an upper-case letter written as \DDD.
func c17Forms(lower string) []c17Form {
	f := []c17Form{{"lower", lower}, {"upper", c10Spell(lower, 2)}, {"mixed", c10Spell(lower, 3)}}
	if e, ok := c17EscapeUpper(lower); ok {
		f = append(f, c17Form{"escaped-uppercase-letter", e})
	}
	return f
}

func c17Spaces(c *fw.Ctx) {
	c17KeyTagSpace(c)
	c17DSSpace(c)
	c17HashSpace(c)
	c17CoverSpace(c)
	c17NoHashSpace(c)
	c17FixedKeySpace(c)
	c17FreshKeySpace(c)
	c17KeyShapeSpace(c)
	c17SiblingKeySpace(c)
	c17ValiditySpace(c)
}

// ---------------------------------------------------------------------------------------------

func c17KeyTagSpace(c *fw.Ctx) {
	flagsSet := []uint16{0, 1, 256, 257, 0xffff}
	protoSet := []uint8{0, 3, 255}
	algSet := []uint8{3, 5, 8, 10, 13, 14, 15, 253}
	lenSet := []int{0, 1, 2, 3, 64, 65, 255, 256, 1023, 3000, 4092, 4093}
	lenDesc := "{0,1,2,3,64,65,255,256,1023,3000,4092,4093}"
	if c.Thorough {
		lenSet = nil
		for n := 0; n <= 132; n++ {
			lenSet = append(lenSet, n)
		}
		lenSet = append(lenSet, 255, 256, 257, 259, 260, 511, 512, 513, 516, 1023, 1024, 3000, 4091, 4092, 4093)
		lenDesc = "{0..132, 255, 256, 257, 259, 260, 511, 512, 513, 516, 1023, 1024, 3000, 4091, 4092, 4093}"
	}
	c.Space("keytag", "flags {0,1,256,257,0xffff} × protocol {0,3,255} × algorithm {3,5,8,10,13,14,15,253} × key octets of length "+lenDesc+" in patterns {00…, ff…, counting}, plus per header a 4-octet key that makes the 32-bit sum exactly 0x1ffff (the fold produces a second carry), plus the fixed keys of /verif/keys; non-trivial: odd key length or sum > 0xffff", true,
		func(emit func(func(*fw.R))) {
			for _, fl := range flagsSet {
				for _, pr := range protoSet {
					for _, al := range algSet {
						fl, pr, al := fl, pr, al
						for _, n := range lenSet {
							for pat := 0; pat < 3; pat++ {
								n, pat := n, pat
								emit(func(r *fw.R) {
									c17KeyTagCase(r, fl, pr, al, c17Pattern(n, pat), fmt.Sprintf("pattern %d", pat))
									r.Sample(func() any { return fmt.Sprintf("flags=%d proto=%d alg=%d keylen=%d pattern=%d", fl, pr, al, n, pat) })
								})
							}
						}
						emit(func(r *fw.R) {
							// header sum h = flags + (proto<<8|alg); choose words w1 = 0xffff, w2 so that h + w1 + w2 = 0x1ffff
							h := uint32(fl) + (uint32(pr)<<8 | uint32(al))
							if h > 0x10000 {
								// two words cannot compensate; use w1 = w2 = 0 and let the header alone overflow
								c17KeyTagCase(r, fl, pr, al, []byte{0, 0, 0, 0}, "zero words, header overflows")
								return
							}
							w2 := 0x10000 - h
							key := []byte{0xff, 0xff, byte(w2 >> 8), byte(w2)}
							if w2 == 0x10000 {
								key = []byte{0xff, 0xff, 0xff, 0xff, 0x00, 0x01}
							}
							c17KeyTagCase(r, fl, pr, al, key, "sum 0x1ffff")
						})
					}
				}
			}
			for i := range c10KeyNames {
				i := i
				emit(func(r *fw.R) {
					k := c10Keys()[i]
					c17KeyTagCase(r, k.DNSKEY.Flags, k.DNSKEY.Protocol, k.DNSKEY.Algorithm, k.Ref.PublicKey, "fixed key "+k.Name)
					for _, fl := range []uint16{0, 128, 256, 257, 385} { // REVOKE changes the tag (RFC 5011)
						c17KeyTagCase(r, fl, 3, k.DNSKEY.Algorithm, k.Ref.PublicKey, "fixed key "+k.Name)
					}
				})
			}
		})
}

// ---------------------------------------------------------------------------------------------

func c17DSSpace(c *fw.Ctx) {
	type ks struct {
		flags uint16
		alg   uint8
		n     int
	}
	var keyset []ks
	for _, fl := range []uint16{256, 257} {
		for _, al := range []uint8{8, 13, 15, 253} {
			for _, n := range []int{0, 1, 64, 65, 256} {
				keyset = append(keyset, ks{fl, al, n})
			}
		}
	}
	keyset = append(keyset, ks{257, 8, 4092}, ks{257, 8, 4093})
	nfixed := len(c10KeyNames)
	c.Space("ds", "14 owner names × spellings {lower, upper, alternating, one upper-case letter as \\DDD} × (42 synthetic DNSKEYs: flags {256,257} × algorithm {8,13,15,253} × counting key octets of length {0,1,64,65,256}, two of 4092 and 4093 octets, + the fixed keys) × digest types {1,2,4} and {0,3,5,255}; non-trivial: the owner spelling contains an upper-case letter", true,
		func(emit func(func(*fw.R))) {
			for _, lower := range c17Names {
				for _, form := range c17Forms(lower) {
					for ki := 0; ki < len(keyset)+nfixed; ki++ {
						lower, form, ki := lower, form, ki
						emit(func(r *fw.R) {
							var k *dns.DNSKEY
							var rdata []byte
							if ki < len(keyset) {
								s := keyset[ki]
								key := c17Pattern(s.n, 2)
								k = c17DNSKEY(form.name, s.flags, 3, s.alg, key)
								rdata = c17RData(s.flags, 3, s.alg, key)
							} else {
								fk := c10Keys()[ki-len(keyset)]
								cp := *fk.DNSKEY
								cp.Hdr.Name = form.name
								k = &cp
								rdata = fk.Ref.RData()
							}
							if form.what != "lower" {
								r.Nontrivial()
							}
							owner := c10Labels(lower)
							for _, dt := range []uint8{1, 2, 4, 0, 3, 5, 255} {
								ds := k.ToDS(dt)
								want, defined := canon.DSDigest(dt, owner, rdata)
								desc := fmt.Sprintf("DNSKEY owner %q (%s spelling of %q) flags=%d protocol=3 algorithm=%d key=%s, digest type %d", form.name, form.what, lower, k.Flags, k.Algorithm, c17Clip(rdata[4:]), dt)
								if !defined {
									if ds == nil {
										r.Count("undefined-digest-type-nil", 1)
										continue
									}
									r.Count(fmt.Sprintf("undefined-digest-type-%d-non-nil", dt), 1)
									if ds.KeyTag != canon.KeyTag(rdata) || ds.Algorithm != k.Algorithm || ds.DigestType != dt {
										r.Fail("ds/fields", "%s: ToDS = %v", desc, ds)
									}
									continue
								}
								if ds == nil {
									key := "ds/nil"
									if len(rdata) > 4096 {
										key = "ds/key-over-4092-octets"
									}
									r.Fail(key, "%s: ToDS returned nil", desc)
									continue
								}
								got, err := hex.DecodeString(ds.Digest)
								if err != nil || !bytes.Equal(got, want) {
									key := "ds/digest"
									if form.what == "escaped-uppercase-letter" {
										key = "ds/escaped-uppercase-letter"
									} else if form.what != "lower" {
										key = "ds/digest-case-dependent"
									}
									r.Fail(key, "%s: digest %s, RFC 4034 §5.1.4 gives %x", desc, ds.Digest, want)
								}
								if ds.KeyTag != canon.KeyTag(rdata) || ds.Algorithm != k.Algorithm || ds.DigestType != dt ||
									ds.Hdr.Rrtype != dns.TypeDS || ds.Hdr.Class != k.Hdr.Class {
									r.Fail("ds/fields", "%s: ToDS = %v (want key tag %d)", desc, ds, canon.KeyTag(rdata))
								}
								if p := rn.Parse(ds.Hdr.Name); !p.OK || !rn.EqualFold(p.Labels, owner) {
									r.Fail("ds/owner", "%s: DS owner %q", desc, ds.Hdr.Name)
								}
							}
							r.Sample(func() any {
								return fmt.Sprintf("owner %q key flags=%d alg=%d len=%d", form.name, k.Flags, k.Algorithm, len(rdata)-4)
							})
						})
					}
				}
			}
		})
}

// ---------------------------------------------------------------------------------------------

var c17Salts = []int{0, 1, 8, 255}

func c17Salt(n int) []byte {
	b := make([]byte, n)
	for i := range b {
		b[i] = byte(0xa5 + 7*i)
	}
	return b
}

func c17HashSpace(c *fw.Ctx) {
	iters := []uint16{0, 1, 2, 3, 10, 100, 150, 65535}
	if c.Thorough {
		iters = append(iters, 11, 12, 255, 256, 1000, 2500, 65534)
	}
	c.Space("nsec3hash", fmt.Sprintf("14 names (root, apex, wildcard, underscore, escaped dot, octets 0 and 255, raw UTF-8 À, a raw non-UTF-8 octet, 63-octet label, 255-octet name, …) × salts of {0,1,8,255} octets × iterations %v × spellings {lower, upper, alternating, one upper-case letter as \\DDD}, each call preceded by one that cannot give a hash (bad salt, unknown algorithm, bad name); non-trivial: iterations > 0 or salt non-empty", iters), true,
		func(emit func(func(*fw.R))) {
			for _, lower := range c17Names {
				for _, sl := range c17Salts {
					for _, it := range iters {
						lower, sl, it := lower, sl, it
						emit(func(r *fw.R) {
							salt := c17Salt(sl)
							if it > 0 || sl > 0 {
								r.Nontrivial()
							}
							want := canon.NSEC3Hash(c10Labels(lower), salt, it)
							nPre := 0
							for _, form := range c17Forms(lower) {
								for _, saltHex := range []string{hex.EncodeToString(salt), strings.ToUpper(hex.EncodeToString(salt))} {
									// the call before the judged one is one that cannot give a hash (salt of odd length, salt that is
									// not hex, unknown hash algorithm, name that cannot be packed): what it leaves behind — a pooled or
									// cached digest state — may not reach the next call
									pre := [...][3]string{{form.name, "abc", "1"}, {form.name, "zz", "1"}, {form.name, saltHex, "2"}, {"bad..name.", saltHex, "1"}}[nPre%4]
									nPre++
									if junk := dns.HashName(pre[0], uint8(pre[2][0]-'0'), it, pre[1]); junk != "" {
										r.Fail("hashname/no-hash", "HashName(%q, hash %s, %d, %q) = %q, want \"\"", pre[0], pre[2], it, pre[1], junk)
									}
									got := dns.HashName(form.name, dns.SHA1, it, saltHex)
									gb, err := canon.FromBase32Hex(got)
									if err == nil && bytes.Equal(gb, want[:]) && got == strings.ToUpper(got) {
										continue
									}
									key := "hashname/value"
									switch {
									case err == nil && bytes.Equal(gb, want[:]):
										key = "hashname/not-uppercase" // documented result form, Cover/Match rely on it
									case form.what == "escaped-uppercase-letter":
										key = "hashname/escaped-uppercase-letter"
									case form.what != "lower":
										key = "hashname/case-dependent"
									}
									r.Fail(key, "HashName(%q, 1, %d, %q) = %q, RFC 5155 §5 gives %s (name is the %s spelling of %q)", form.name, it, saltHex, got, canon.Base32Hex(want[:]), form.what, lower)
								}
							}
							r.Sample(func() any { return fmt.Sprintf("name %q salt %d octets iterations %d", lower, sl, it) })
						})
					}
				}
			}
		})
}

// ---------------------------------------------------------------------------------------------

var c17Mod160 = new(big.Int).Lsh(big.NewInt(1), 160)

func c17Add160(h []byte, d *big.Int) []byte {
	x := new(big.Int).SetBytes(h)
	x.Add(x, d)
	x.Mod(x, c17Mod160)
	return x.FillBytes(make([]byte, 20))
}

type c17Off struct {
	name string
	d    *big.Int
}

func c17Offsets() []c17Off {
	big1 := new(big.Int).Lsh(big.NewInt(1), 150)
	big2 := new(big.Int).Lsh(big.NewInt(3), 151)
	neg := func(x *big.Int) *big.Int { return new(big.Int).Neg(x) }
	return []c17Off{
		{"-far2", neg(big2)}, {"-far1", neg(big1)}, {"-2", big.NewInt(-2)}, {"-1", big.NewInt(-1)}, {"0", big.NewInt(0)},
		{"+1", big.NewInt(1)}, {"+2", big.NewInt(2)}, {"+far1", big1}, {"+far2", big2},
	}
}

// c17Classify names the interval shape and the position of h relative to it (for keys and counters).
func c17Classify(owner, next, h []byte) (shape, pos string) {
	o, n, x := new(big.Int).SetBytes(owner), new(big.Int).SetBytes(next), new(big.Int).SetBytes(h)
	one := big.NewInt(1)
	op1 := new(big.Int).Add(o, one)
	switch {
	case o.Cmp(n) == 0:
		shape = "empty"
	case op1.Cmp(n) == 0:
		shape = "adjacent"
	case o.Cmp(n) < 0:
		shape = "normal"
	default:
		shape = "wrapping"
	}
	nm1 := new(big.Int).Sub(n, one)
	switch {
	case x.Cmp(o) == 0 && x.Cmp(n) == 0:
		pos = "hash-equals-owner-and-next"
	case x.Cmp(o) == 0:
		pos = "hash-equals-owner"
	case x.Cmp(n) == 0:
		pos = "hash-equals-next"
	case x.Cmp(op1) == 0:
		pos = "owner+1"
	case x.Cmp(nm1) == 0:
		pos = "next-1"
	case x.Cmp(o) < 0 && x.Cmp(n) < 0:
		pos = "below-both"
	case x.Cmp(o) > 0 && x.Cmp(n) > 0:
		pos = "above-both"
	case x.Cmp(o) > 0:
		pos = "between(owner<h<next)"
	default:
		pos = "between(next<h<owner)"
	}
	return
}

func c17CoverSpace(c *fw.Ctx) {
	type zn struct {
		zone  string
		names []string // lower case
	}
	zones := []zn{
		{"example.", []string{"a.example.", "x.y.example.", "*.example.", "example.", "a.example.org.", "com.", "a.xexample.", "a.example2.", ".",
			"a\\.example.", "x.a\\.example.", "a\\.b.example.", "a\\\\.example.", "a\\046example."}},
		{"sub.example.", []string{"a.sub.example.", "sub.example.", "example.", "a.example.", "xsub.example.", "a.sub.example2.",
			"a\\.sub.example.", "a.x\\.sub.example.", "a\\\\.sub.example."}},
		{".", []string{"com.", "a.example.", "."}},
		// raw octets ≥ 0x80 (Unicode-aware case mapping would merge or rewrite them)
		{"\xe9.example.", []string{"a.\xe9.example.", "a.\xea.example.", "\xe9.example.", "a.\xc3\xa9.example."}},
		{"\xc3\xa0.example.", []string{"a.\xc3\xa0.example.", "a.\xc3\x80.example.", "a.\xe0.example."}},
	}
	type si struct {
		salt int
		iter uint16
	}
	params := []si{{0, 0}, {4, 1}, {8, 12}, {255, 150}}
	if c.Thorough {
		params = append(params, si{1, 2}, si{0, 100}, si{16, 0}, si{8, 2500})
	}
	offs := c17Offsets()
	c.Space("cover", "NSEC3 records built by construction: owner hash = H(name)+a, next hash = H(name)+b (mod 2^160) for a, b ∈ {−3·2^151, −2^150, −2, −1, 0, +1, +2, +2^150, +3·2^151} (all 81 pairs: normal, wrapping, empty, adjacent intervals × hash below / = owner / owner+1 / inside / next−1 / = next / above) × zones {example., sub.example., ., a zone with a raw non-UTF-8 octet, a zone with raw UTF-8 à} × names {in zone, wildcard, apex, parent, other TLD, string-suffix sibling, root, a label ending in an escaped dot right before the zone's labels (outside the zone), the same with an escaped backslash (inside)} × (salt, iterations) × name spelling {lower, upper} × owner label {upper, lower} × NextDomain {upper, lower}; expected Match/Cover from 160-bit integer comparison and label-wise zone membership; non-trivial: name inside the record's zone", true,
		func(emit func(func(*fw.R))) {
			for _, z := range zones {
				for _, lower := range z.names {
					for _, p := range params {
						for spell := 1; spell <= 2; spell++ {
							z, lower, p, spell := z, lower, p, spell
							emit(func(r *fw.R) {
								zl, nl := c10Labels(z.zone), c10Labels(lower)
								inZone := canon.IsSubdomain(zl, nl)
								if inZone {
									r.Nontrivial()
								}
								salt := c17Salt(p.salt)
								h := canon.NSEC3Hash(nl, salt, p.iter)
								name := c10Spell(lower, spell)
								for _, a := range offs {
									for _, b := range offs {
										owner, next := c17Add160(h[:], a.d), c17Add160(h[:], b.d)
										m, cv := canon.NSEC3Relation(owner, next, h[:])
										wantMatch, wantCover := inZone && m, inZone && cv
										shape, pos := c17Classify(owner, next, h[:])
										r.Count("shape="+shape+" pos="+pos, 1)
										for variant := 0; variant < 4; variant++ {
											ol, nx := canon.Base32Hex(owner), canon.Base32Hex(next)
											if variant&1 == 1 {
												ol = strings.ToLower(ol)
											}
											if variant&2 == 2 {
												nx = strings.ToLower(nx)
											}
											on := ol + "." + z.zone
											if z.zone == "." {
												on = ol + "."
											}
											rec := &dns.NSEC3{Hdr: dns.RR_Header{Name: on, Rrtype: dns.TypeNSEC3, Class: dns.ClassINET, Ttl: 300},
												Hash: 1, Iterations: p.iter, SaltLength: uint8(len(salt)), Salt: hex.EncodeToString(salt),
												HashLength: 20, NextDomain: nx, TypeBitMap: []uint16{dns.TypeA}}
											gotMatch, gotCover := rec.Match(name), rec.Cover(name)
											desc := fmt.Sprintf("NSEC3 owner %q next %q salt %q iterations %d (owner = H%s, next = H%s, interval %s), name %q with H = %s (%s), name in zone: %v",
												on, nx, rec.Salt, p.iter, a.name, b.name, shape, name, canon.Base32Hex(h[:]), pos, inZone)
											ctx := ""
											switch {
											case z.zone == ".":
												ctx = "root-zone"
											case variant&2 == 2:
												ctx = "next-lowercase"
											case !inZone:
												ctx = "out-of-zone"
											}
											if gotCover != wantCover {
												key := "cover/" + shape + "/" + pos
												switch {
												case ctx != "":
													key = "cover/" + ctx
												case pos == "hash-equals-owner":
													key = "cover/hash-equals-owner"
												}
												r.Fail(key, "%s: Cover = %v, want %v", desc, gotCover, wantCover)
											}
											if gotMatch != wantMatch {
												key := "match/" + pos
												if ctx != "" {
													key = "match/" + ctx
												}
												r.Fail(key, "%s: Match = %v, want %v", desc, gotMatch, wantMatch)
											}
										}
									}
								}
								r.Sample(func() any {
									return fmt.Sprintf("zone %q name %q salt %d octets iterations %d: 81 (owner,next) placements × 4 spellings", z.zone, name, p.salt, p.iter)
								})
							})
						}
					}
				}
			}
		})
}

// c17NoHashSpace: NSEC3 records for which the library cannot compute a name's hash at all — a hash algorithm
// other than SHA-1 (RFC 5155 defines only 1), a salt that is not hex. No hash lies in no interval and equals no
// owner hash: Match and Cover are false for every interval shape.
func c17NoHashSpace(c *fw.Ctx) {
	offs := c17Offsets()
	type nh struct {
		what string
		hash uint8
		salt string
	}
	kinds := []nh{{"hash algorithm 0", 0, "ab"}, {"hash algorithm 2", 2, "ab"}, {"hash algorithm 255", 255, ""}, {"salt with a non-hex digit", 1, "zz"}, {"salt of odd length", 1, "abc"}}
	c.Space("cover-no-hash", fmt.Sprintf("NSEC3 records whose hash the library cannot compute (%d kinds: hash algorithm 0, 2, 255; salt not hex, of odd length) × all 81 (owner, next) placements around SHA-1(name) × names {in zone, apex, out of zone}: HashName is empty, Match and Cover are false; non-trivial: wrapping or empty interval", len(kinds)), true,
		func(emit func(func(*fw.R))) {
			for _, k := range kinds {
				for _, name := range []string{"a.example.", "example.", "a.example.org."} {
					k, name := k, name
					emit(func(r *fw.R) {
						h := canon.NSEC3Hash(c10Labels(name), nil, 0)
						if got := dns.HashName(name, k.hash, 0, k.salt); got != "" {
							r.Fail("hashname/no-hash", "HashName(%q, hash %d, salt %q) = %q, want \"\" (%s)", name, k.hash, k.salt, got, k.what)
						}
						for _, a := range offs {
							for _, b := range offs {
								owner, next := c17Add160(h[:], a.d), c17Add160(h[:], b.d)
								shape, _ := c17Classify(owner, next, h[:])
								if shape != "normal" {
									r.Nontrivial()
								}
								rec := &dns.NSEC3{Hdr: dns.RR_Header{Name: canon.Base32Hex(owner) + ".example.", Rrtype: dns.TypeNSEC3, Class: dns.ClassINET, Ttl: 300},
									Hash: k.hash, Salt: k.salt, SaltLength: uint8(len(k.salt) / 2), HashLength: 20, NextDomain: canon.Base32Hex(next)}
								if rec.Cover(name) {
									r.Fail("cover/no-hash", "NSEC3 %q next %q with %s (interval %s): Cover(%q) = true although no hash of the name exists", rec.Hdr.Name, rec.NextDomain, k.what, shape, name)
								}
								if rec.Match(name) {
									r.Fail("match/no-hash", "NSEC3 %q with %s: Match(%q) = true although no hash of the name exists", rec.Hdr.Name, k.what, name)
								}
							}
						}
						r.Sample(func() any { return k.what + ", name " + name })
					})
				}
			}
		})
}

// ---------------------------------------------------------------------------------------------
// keys

// c17TestRRset is the RRset signed in the cross sign/verify clauses.
func c17TestRRset() []dns.RR {
	var out []dns.RR
	for _, s := range []string{"Host.Example. 300 IN MX 10 Mail.Example.", "Host.Example. 300 IN MX 5 a.MAIL.example."} {
		rr, err := dns.NewRR(s)
		if err != nil {
			panic(err)
		}
		out = append(out, rr)
	}
	return out
}

func c17SigTemplate(k *dns.DNSKEY, rrset []dns.RR) *dns.RRSIG {
	return &dns.RRSIG{Hdr: dns.RR_Header{Name: rrset[0].Header().Name, Rrtype: dns.TypeRRSIG, Class: dns.ClassINET, Ttl: 300},
		TypeCovered: rrset[0].Header().Rrtype, Algorithm: k.Algorithm, Labels: 2, OrigTtl: 300,
		Expiration: 1900000000, Inception: 1700000000, KeyTag: canon.KeyTag(c17KeyRData(k)), SignerName: k.Hdr.Name}
}

func c17KeyRData(k *dns.DNSKEY) []byte {
	rk, err := c10RefKey(k)
	if err != nil {
		panic(err)
	}
	return rk.RData()
}

// c17Interchange: every signer in signers (library-side crypto.Signer values and reference-side private
// keys of the same key) must produce signatures that verify under the DNSKEY both with the library
// and with the reference verifier.
func c17Interchange(r *fw.R, keyPrefix, what string, k *dns.DNSKEY, libSigners map[string]crypto.PrivateKey, refSigners map[string]crypto.PrivateKey) {
	rrset := c17TestRRset()
	for _, name := range c17SortedKeys(libSigners) {
		p := libSigners[name]
		signer, ok := p.(crypto.Signer)
		if !ok {
			r.Fail(keyPrefix+"/not-a-signer", "%s: %s key of type %T is not a crypto.Signer", what, name, p)
			continue
		}
		sig := &dns.RRSIG{KeyTag: k.KeyTag(), SignerName: k.Hdr.Name, Algorithm: k.Algorithm, Inception: 1700000000, Expiration: 1900000000}
		if err := sig.Sign(signer, rrset); err != nil {
			r.Fail(keyPrefix+"/sign-error", "%s: Sign with the %s key: %v", what, name, err)
			continue
		}
		if err := sig.Verify(k, rrset); err != nil {
			r.Fail(keyPrefix+"/verify-own", "%s: signature made with the %s key does not verify under the DNSKEY %v: %v (rrsig %v)", what, name, k, err, sig)
		}
		if err, bridge := c10RefVerify(k, sig, rrset); err != nil {
			r.Fail(keyPrefix+"/reference-rejects", "%s: signature made with the %s key is rejected by the reference verifier (bridge error: %v): %v; DNSKEY %v; rrsig %v", what, name, bridge, err, k, sig)
		}
	}
	for _, name := range c17SortedKeys(refSigners) {
		sig, err := c10RefSign(refSigners[name], c17SigTemplate(k, rrset), rrset, canon.Reading{})
		if err != nil {
			r.Fail(keyPrefix+"/reference-sign", "%s: reference signer with the %s key: %v", what, name, err)
			continue
		}
		if err := sig.Verify(k, rrset); err != nil {
			r.Fail(keyPrefix+"/verify-reference-signed", "%s: reference signature made with the %s key does not verify under the DNSKEY %v: %v (rrsig %v)", what, name, k, err, sig)
		}
	}
}

func c17SortedKeys(m map[string]crypto.PrivateKey) []string {
	var s []string
	for k := range m {
		s = append(s, k)
	}
	for i := range s {
		for j := i + 1; j < len(s); j++ {
			if s[j] < s[i] {
				s[i], s[j] = s[j], s[i]
			}
		}
	}
	return s
}

// c17ExportImport checks PrivateKeyString(priv) → independent strict reader and → NewPrivateKey.
func c17ExportImport(r *fw.R, keyPrefix, what string, k *dns.DNSKEY, priv crypto.PrivateKey) (text string, reread crypto.PrivateKey, refread crypto.PrivateKey) {
	text = k.PrivateKeyString(priv)
	if text == "" {
		r.Fail(keyPrefix+"/export-empty", "%s: PrivateKeyString returned \"\" for a %T", what, priv)
		return
	}
	pf, err := canon.ParsePrivateKey(text)
	switch {
	case err != nil:
		r.Fail(keyPrefix+"/export-format", "%s: the exported text is not a well-formed BIND private key: %v\n%s", what, err, c17Redact(text))
	case pf.Algorithm != k.Algorithm:
		r.Fail(keyPrefix+"/export-format", "%s: exported Algorithm %d, DNSKEY has %d", what, pf.Algorithm, k.Algorithm)
	case !canon.SameKey(pf.Key, priv):
		r.Fail(keyPrefix+"/export-differs", "%s: the exported text denotes a different key\n%s", what, c17Redact(text))
	default:
		refread = pf.Key
	}
	p2, err := k.NewPrivateKey(text)
	if err != nil {
		r.Fail(keyPrefix+"/reimport-error", "%s: NewPrivateKey(PrivateKeyString(key)): %v", what, err)
		return
	}
	if !canon.SameKey(p2, priv) {
		r.Fail(keyPrefix+"/reimport-differs", "%s: NewPrivateKey(PrivateKeyString(key)) is a different key (%T)", what, p2)
	}
	reread = p2
	// without the trailing newline, and in the v1.2 spelling
	for _, alt := range []string{strings.TrimSuffix(text, "\n"), strings.Replace(text, "v1.3", "v1.2", 1)} {
		p3, err := k.NewPrivateKey(alt)
		if err != nil || !canon.SameKey(p3, priv) {
			r.Fail(keyPrefix+"/reimport-variant", "%s: NewPrivateKey of the exported text (no final newline / v1.2): %v", what, err)
		}
	}
	// the other entry point: ReadPrivateKey on a reader, with the text as exported, without its final newline (a file
	// cut by an editor) and delivered one octet per Read
	for vi, alt := range []string{text, strings.TrimSuffix(text, "\n")} {
		for _, slow := range []bool{false, true} {
			var rd io.Reader = strings.NewReader(alt)
			if slow {
				rd = iotest1{strings.NewReader(alt)}
			}
			p4, err := k.ReadPrivateKey(rd, "key.private")
			if err != nil || p4 == nil || !canon.SameKey(p4, priv) {
				r.Fail(keyPrefix+"/readprivatekey", "%s: ReadPrivateKey of the exported text (variant %d: 0 as exported, 1 no final newline; one octet per Read %v) = %T, %v — not the key that was exported", what, vi, slow, p4, err)
			}
		}
	}
	return
}

// c17Redact keeps the structure of a private key text (field names and value lengths).
func c17Redact(text string) string {
	var sb strings.Builder
	for _, ln := range strings.Split(text, "\n") {
		k, v, ok := strings.Cut(ln, ": ")
		if ok && !strings.HasPrefix(k, "Private-key-format") && k != "Algorithm" {
			b, _ := base64.StdEncoding.DecodeString(v)
			fmt.Fprintf(&sb, "%s: <%d base64 chars, %d octets, first octet %#x>\n", k, len(v), len(b), c17First(b))
		} else {
			sb.WriteString(ln + "\n")
		}
	}
	return sb.String()
}

func c17First(b []byte) int {
	if len(b) == 0 {
		return -1
	}
	return int(b[0])
}

func c17PublicKeyMatches(r *fw.R, keyPrefix, what string, k *dns.DNSKEY, priv crypto.PrivateKey) {
	want, err := canon.EncodePublicKey(k.Algorithm, canon.PublicOf(priv))
	if err != nil {
		r.Fail(keyPrefix+"/public-key", "%s: %v", what, err)
		return
	}
	got, err := base64.StdEncoding.DecodeString(k.PublicKey)
	if err != nil || !bytes.Equal(got, want) {
		r.Fail(keyPrefix+"/public-key", "%s: DNSKEY public key field %x (%v), RFC 3110/6605/8080 encoding of the key is %x", what, got, err, want)
	}
}

func c17FixedKeySpace(c *fw.Ctx) {
	c.Space("fixedkeys", "the fixed keys of /verif/keys (written by an independent generator; RSA 1024/2048 × SHA-1/-256/-512 and one of 4096 bits, P-256, P-384, Ed25519, incl. ECDSA keys whose private scalar / public X has a leading zero octet): NewPrivateKey(file) = reference reading; PrivateKeyString → strict reference reader and → NewPrivateKey give the same key; signatures by {file key, re-read key, reference key} verify under library and reference; non-trivial: every case (the large RSA keys are included in both tiers)", true,
		func(emit func(func(*fw.R))) {
			for i := range c10KeyNames {
				i := i
				emit(func(r *fw.R) {
					r.Nontrivial()
					k := c10Keys()[i]
					what := "fixed key " + k.Name
					if !canon.SameKey(k.Priv, k.RefPriv) {
						r.Fail("import/differs", "%s: NewPrivateKey(file) differs from the reference reading of the same file", what)
					}
					c17PublicKeyMatches(r, "import", what, k.DNSKEY, k.RefPriv)
					_, reread, refread := c17ExportImport(r, "export", what, k.DNSKEY, k.Priv)
					lib := map[string]crypto.PrivateKey{"file": k.Priv}
					ref := map[string]crypto.PrivateKey{"file(reference reader)": k.RefPriv}
					if reread != nil {
						lib["re-read"] = reread
					}
					if refread != nil {
						ref["exported(reference reader)"] = refread
					}
					c17Interchange(r, "interchange", what, k.DNSKEY, lib, ref)
					r.Sample(func() any { return what })
				})
			}
		})
}

func c17FreshKeySpace(c *fw.Ctx) {
	type gs struct {
		alg  uint8
		bits int
		reps int
	}
	specs := []gs{
		{dns.RSASHA1, 1024, 2}, {dns.RSASHA1NSEC3SHA1, 1024, 2}, {dns.RSASHA256, 1024, 2}, {dns.RSASHA512, 1024, 2},
		{dns.RSASHA256, 2048, 2}, {dns.RSASHA512, 2048, 1},
		{dns.ECDSAP256SHA256, 256, 64}, {dns.ECDSAP384SHA384, 384, 48}, {dns.ED25519, 256, 32},
	}
	if c.Thorough {
		specs = []gs{
			{dns.RSASHA1, 1024, 8}, {dns.RSASHA1NSEC3SHA1, 1024, 8}, {dns.RSASHA256, 1024, 8}, {dns.RSASHA512, 1024, 8},
			{dns.RSASHA1, 2048, 4}, {dns.RSASHA1NSEC3SHA1, 2048, 4}, {dns.RSASHA256, 2048, 4}, {dns.RSASHA512, 2048, 4},
			{dns.RSASHA256, 1536, 2}, {dns.RSASHA256, 3072, 1}, {dns.RSASHA512, 4096, 1},
			{dns.ECDSAP256SHA256, 256, 512}, {dns.ECDSAP384SHA384, 384, 256}, {dns.ED25519, 256, 128},
		}
	}
	c.Space("freshkeys", fmt.Sprintf("DNSKEY.Generate for (algorithm, bits, repetitions) %v: public key field = RFC encoding of the generated key; PrivateKeyString → strict reference reader and → NewPrivateKey give the same key; signatures by {generated, re-read, reference-read} keys verify under library and reference verifier; non-trivial: every case", specs), true,
		func(emit func(func(*fw.R))) {
			for _, s := range specs {
				for rep := 0; rep < s.reps; rep++ {
					s := s
					emit(func(r *fw.R) {
						r.Nontrivial()
						k := &dns.DNSKEY{Hdr: dns.RR_Header{Name: "Example.", Rrtype: dns.TypeDNSKEY, Class: dns.ClassINET, Ttl: 3600},
							Flags: 257, Protocol: 3, Algorithm: s.alg}
						what := fmt.Sprintf("Generate(%d) for algorithm %d", s.bits, s.alg)
						priv, err := k.Generate(s.bits)
						if err != nil {
							r.Fail("generate/error", "%s: %v", what, err)
							return
						}
						what += " → DNSKEY " + k.String()
						c17PublicKeyMatches(r, "generate", what, k, priv)
						if s.bits > 384 {
							if pk, err := canon.ParsePublicKey(s.alg, c17MustB64(k.PublicKey)); err != nil {
								r.Fail("generate/public-key", "%s: %v", what, err)
							} else if n := pk.(interface{ Size() int }).Size() * 8; n != s.bits {
								r.Fail("generate/size", "%s: modulus has %d bits", what, n)
							}
						}
						_, reread, refread := c17ExportImport(r, "export", what, k, priv)
						lib := map[string]crypto.PrivateKey{"generated": priv}
						ref := map[string]crypto.PrivateKey{}
						if reread != nil {
							lib["re-read"] = reread
						}
						if refread != nil {
							ref["exported(reference reader)"] = refread
						}
						c17Interchange(r, "interchange", what, k, lib, ref)
						r.Sample(func() any { return fmt.Sprintf("Generate(%d) algorithm %d", s.bits, s.alg) })
					})
				}
			}
		})
}

// c17KeyShapeSpace: ECDSA public keys are two fixed-width integers (RFC 6605 §4: 32 / 48 octets each, left-padded).
// A generated point whose X, whose Y or both have a leading zero octet takes the padding path of the encoder; the
// last shape turns up once in 65 536 keys, so Generate is repeated until every shape has been seen (deterministic
// in what is checked, not in which key shows it).
func c17KeyShapeSpace(c *fw.Ctx) {
	type gs struct {
		alg   uint8
		bits  int
		width int
	}
	specs := []gs{{dns.ECDSAP256SHA256, 256, 32}, {dns.ECDSAP384SHA384, 384, 48}}
	c.Space("generated-key-shapes", "DNSKEY.Generate for ECDSA P-256 and P-384 repeated until the generated public point has been seen with a leading zero octet in X only, in Y only and in both (≤ 600 000 keys, about 65 536 expected): for the first key of each shape the public key field is the RFC 6605 fixed-width encoding, PrivateKeyString → NewPrivateKey gives the key back, and signatures verify both ways; non-trivial: all", true,
		func(emit func(func(*fw.R))) {
			for _, s := range specs {
				s := s
				emit(func(r *fw.R) {
					r.Nontrivial()
					seen := map[string]bool{}
					for try := 0; try < 600000 && len(seen) < 3; try++ {
						k := &dns.DNSKEY{Hdr: dns.RR_Header{Name: "Example.", Rrtype: dns.TypeDNSKEY, Class: dns.ClassINET, Ttl: 3600},
							Flags: 257, Protocol: 3, Algorithm: s.alg}
						priv, err := k.Generate(s.bits)
						if err != nil {
							r.Fail("generate/error", "Generate(%d) for algorithm %d: %v", s.bits, s.alg, err)
							return
						}
						ep, ok := priv.(*ecdsa.PrivateKey)
						if !ok {
							r.Fail("generate/type", "Generate returned %T", priv)
							return
						}
						xs, ys := len(ep.X.Bytes()) < s.width, len(ep.Y.Bytes()) < s.width
						shape := map[[2]bool]string{{true, false}: "x-short", {false, true}: "y-short", {true, true}: "both-short"}[[2]bool{xs, ys}]
						if shape == "" || seen[shape] {
							continue
						}
						seen[shape] = true
						what := fmt.Sprintf("Generate(%d) for algorithm %d, public point with %s coordinate(s) → DNSKEY %s", s.bits, s.alg, shape, k.String())
						c17PublicKeyMatches(r, "generate", what, k, priv)
						_, reread, refread := c17ExportImport(r, "export", what, k, priv)
						lib := map[string]crypto.PrivateKey{"generated": priv}
						ref := map[string]crypto.PrivateKey{}
						if reread != nil {
							lib["re-read"] = reread
						}
						if refread != nil {
							ref["exported(reference reader)"] = refread
						}
						c17Interchange(r, "interchange", what, k, lib, ref)
					}
					for _, sh := range []string{"x-short", "y-short", "both-short"} {
						if seen[sh] {
							r.Count("shape seen: "+sh, 1)
						} else {
							r.Count("shape not seen within 600000 keys: "+sh, 1)
						}
					}
				})
			}
		})
}

// c17SiblingKeySpace: for every fixed RSA key K a sibling K' with the same owner, flags, algorithm and key tag but
// another modulus (one octet +1, another octet of the same parity −1: the appendix-B sum is unchanged). Key tags are
// hints, not identities: whatever is remembered about "the key with this name, algorithm and tag" may not leak
// from one of the two into verification with the other, in either order.
func c17SiblingKeySpace(c *fw.Ctx) {
	var rsaKeys []int
	for i, kn := range c10KeyNames {
		if kn.bits > 0 && kn.bits <= 2048 {
			rsaKeys = append(rsaKeys, i)
		}
	}
	c.Space("same-tag-siblings", fmt.Sprintf("%d fixed RSA keys, each with a sibling DNSKEY of the same owner, flags, algorithm and key tag but another modulus: a signature by the key verifies under the key and not under the sibling, for every order of 4 Verify calls over {key, sibling} (what was verified before does not matter); non-trivial: all", len(rsaKeys)), true,
		func(emit func(func(*fw.R))) {
			for _, ki := range rsaKeys {
				ki := ki
				emit(func(r *fw.R) {
					r.Nontrivial()
					k := c10Keys()[ki]
					raw := c17MustB64(k.DNSKEY.PublicKey)
					sib := append([]byte(nil), raw...)
					// two octets of the modulus at even distance, away from its ends
					i, j := len(sib)-40, len(sib)-20
					if sib[i] == 0xff || sib[j] == 0 {
						i, j = j, i
					}
					sib[i]++
					sib[j]--
					sk := dns.Copy(k.DNSKEY).(*dns.DNSKEY)
					sk.PublicKey = base64.StdEncoding.EncodeToString(sib)
					if sk.KeyTag() != k.DNSKEY.KeyTag() {
						panic("harness: sibling key has another tag")
					}
					rrset := c17TestRRset()
					sig := &dns.RRSIG{KeyTag: k.DNSKEY.KeyTag(), SignerName: k.DNSKEY.Hdr.Name, Algorithm: k.DNSKEY.Algorithm, Inception: 1700000000, Expiration: 1900000000}
					if err := sig.Sign(k.Priv, rrset); err != nil {
						r.Fail("siblings/sign-error", "%v", err)
						return
					}
					for seq := 0; seq < 16; seq++ {
						var trace []string
						for step := 0; step < 4; step++ {
							useSib := (seq>>step)&1 == 1
							key := k.DNSKEY
							if useSib {
								key = sk
							}
							err := sig.Verify(key, rrset)
							trace = append(trace, fmt.Sprintf("%s → %v", map[bool]string{false: "key", true: "sibling"}[useSib], err))
							if (err == nil) == useSib {
								r.Fail("siblings/verdict", "RSA key %s and its same-tag sibling (tag %d): Verify calls in the order %v — step %d is wrong (a signature by the key verifies under the key only)", k.Name, sig.KeyTag, trace, step+1)
								break
							}
						}
					}
				})
			}
		})
}

func c17MustB64(s string) []byte {
	b, _ := base64.StdEncoding.DecodeString(s)
	return b
}

// ---------------------------------------------------------------------------------------------

const c17Years68 = int64(68 * 365 * 86400)

func c17ValiditySpace(c *fw.Ctx) {
	anchors := []struct {
		name string
		at   int64
	}{
		{"1970", 0}, {"2026", 1790000000}, {"2038", 1 << 31}, {"2106", 1 << 32}, {"2242", 2 << 32},
	}
	widths := []int64{0, 1, 2, 3600, 30 * 86400, 20 * 365 * 86400, c17Years68 - 10}
	c.Space("validity", "inception I = anchor+ε for anchors {1970, 2026, 2^31 (2038), 2^32 (2106 wrap), 2^33} and ε ∈ {−2..2}, expiration E = I + width for widths {0,1,2,1h,30d,20y,68y−10s}; t ∈ {I−1, I, I+1, mid, E−1, E, E+1, I−68y+1, E+68y−1} restricted to t ≥ 0 and |t−I|, |t−E| < 68 years; RRSIG fields are I, E mod 2^32; expected I ≤ t ≤ E; plus the zero time (= now) against windows around the current second; non-trivial: I, t, E do not all lie in [0, 2^32) (serial arithmetic matters)", true,
		func(emit func(func(*fw.R))) {
			for _, an := range anchors {
				for eps := int64(-2); eps <= 2; eps++ {
					for _, w := range widths {
						an, eps, w := an, eps, w
						I := an.at + eps
						if I < 0 {
							continue
						}
						emit(func(r *fw.R) {
							E := I + w
							ts := []int64{I - 1, I, I + 1, I + w/2, E - 1, E, E + 1, I - c17Years68 + 1, E + c17Years68 - 1}
							seen := map[int64]bool{}
							for _, t := range ts {
								if t < 0 || seen[t] || c17Abs64(t-I) >= c17Years68 || c17Abs64(t-E) >= c17Years68 {
									continue
								}
								seen[t] = true
								rr := &dns.RRSIG{Inception: uint32(I & 0xffffffff), Expiration: uint32(E & 0xffffffff)}
								got := rr.ValidityPeriod(time.Unix(t, 0))
								want := I <= t && t <= E
								eI, eT, eE := I>>32, t>>32, E>>32
								r.Count("evaluations", 1)
								if eI != 0 || eT != 0 || eE != 0 {
									r.Nontrivial()
								}
								if got != want {
									key := "validity/plain"
									switch {
									case eT > 0:
										key = "validity/t-after-2106"
									case eE > 0 || eI > 0:
										key = "validity/window-crosses-2106"
									}
									r.Fail(key, "RRSIG inception=%d expiration=%d (instants %d=%s, %d=%s), t=%d (%s): ValidityPeriod = %v, want %v",
										rr.Inception, rr.Expiration, I, c17T(I), E, c17T(E), t, c17T(t), got, want)
								}
							}
							r.Sample(func() any { return fmt.Sprintf("I=%d (%s) E=I+%d", I, c17T(I), w) })
						})
					}
				}
			}
			// zero time = now, stable-second protocol
			for _, d := range [][2]int64{{-10, 10}, {0, 0}, {0, 10}, {-10, 0}, {1, 10}, {-10, -1}, {-20 * 365 * 86400, c17Years68 - 10}, {5, -5}} {
				d := d
				emit(func(r *fw.R) {
					for try := 0; try < 50; try++ {
						now := time.Now().Unix()
						rr := &dns.RRSIG{Inception: uint32((now + d[0]) & 0xffffffff), Expiration: uint32((now + d[1]) & 0xffffffff)}
						got := rr.ValidityPeriod(time.Time{})
						if time.Now().Unix() != now {
							continue
						}
						want := d[0] <= 0 && 0 <= d[1]
						if got != want {
							r.Fail("validity/now", "RRSIG inception=now%+d expiration=now%+d (now=%d): ValidityPeriod(zero time) = %v, want %v", d[0], d[1], now, got, want)
						}
						return
					}
					r.Fail("validity/now-unstable", "no stable second in 50 attempts")
				})
			}
		})
}

func c17Abs64(x int64) int64 {
	if x < 0 {
		return -x
	}
	return x
}

func c17T(u int64) string { return time.Unix(u, 0).UTC().Format("2006-01-02T15:04:05Z") }

// iotest1 delivers one octet per Read.
type iotest1 struct{ r io.Reader }

func (o iotest1) Read(p []byte) (int, error) {
	if len(p) == 0 {
		return 0, nil
	}
	return o.r.Read(p[:1])
}
