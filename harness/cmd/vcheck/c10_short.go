package main

import (
	"crypto"
	"crypto/ecdsa"
	"crypto/ed25519"
	"crypto/sha256"
	"encoding/asn1"
	"encoding/base64"
	"encoding/binary"
	"fmt"
	"io"
	"math/big"
	"verif/harness/ref/canon"

	"github.com/miekg/dns"
	"verif/harness/fw"
)

// ECDSA signatures whose r or s is shorter than the field (leading zero octets): about one signature in
// 128 per integer, so nothing that signs a few hundred RRsets is guaranteed to meet one. The signer below
// belongs to the harness: it is the fixed key, but it keeps signing until the integers have the wanted
// lengths, so that every length class is met in every run.

type c10ShapedSigner struct {
	key        *ecdsa.PrivateKey
	rLen, sLen int // wanted octet lengths of r and s (big-endian, minimal)
	r, s       *big.Int
	tries      int
}

func (s *c10ShapedSigner) Public() crypto.PublicKey { return s.key.Public() }

func (s *c10ShapedSigner) Sign(rand io.Reader, digest []byte, opts crypto.SignerOpts) ([]byte, error) {
	for s.tries = 1; s.tries < 1<<24; s.tries++ {
		der, err := s.key.Sign(rand, digest, opts)
		if err != nil {
			return nil, err
		}
		var v struct{ R, S *big.Int }
		if _, err := asn1.Unmarshal(der, &v); err != nil {
			return nil, err
		}
		if len(v.R.Bytes()) == s.rLen && len(v.S.Bytes()) == s.sLen {
			s.r, s.s = v.R, v.S
			return der, nil
		}
	}
	return nil, fmt.Errorf("no signature with |r|=%d |s|=%d found", s.rLen, s.sLen)
}

func c10ShortSpace(c *fw.Ctx) {
	type shape struct{ dr, ds int } // octets missing from r and from s
	// two missing octets take about 2^16 signing attempts (a second or two with P-256, much longer with P-384):
	// in the quick tier they are asked of the P-256 key only
	shapes := []shape{{0, 0}, {1, 0}, {0, 1}, {1, 1}, {2, 0}, {0, 2}}
	c.Space("ecdsa-integer-lengths", "the fixed ECDSA P-256 / P-384 keys signing RRsets of {MX, A} through a harness signer that re-signs until r and s have the wanted lengths: (octets missing from r, from s) ∈ "+fmt.Sprint(shapes)+": the RRSIG holds r and s each left-padded to the field size, the reference verifier and Verify accept it, one flipped bit is rejected; non-trivial: r or s is short", true,
		func(emit func(func(*fw.R))) {
			for _, kn := range []string{"ecdsap256", "ecdsap256-d0", "ecdsap384"} {
				for _, sh := range shapes {
					for _, tn := range []string{"MX", "A"} {
						kn, sh, tn := kn, sh, tn
						emit(func(r *fw.R) {
							var k *c10Key
							for _, x := range c10Keys() {
								if x.Name == kn {
									k = x
								}
							}
							priv, ok := k.RefPriv.(*ecdsa.PrivateKey)
							if !ok {
								r.Fail("model/key", "key %s is not an ECDSA key", kn)
								return
							}
							n := (priv.Curve.Params().BitSize + 7) / 8
							if sh.dr+sh.ds > 1 && (n > 32 || tn != "MX" || kn != "ecdsap256") && !c.Thorough {
								r.Count("skipped in the quick tier (≥ 2 missing octets: P-256, MX only)", 1)
								return
							}
							signer := &c10ShapedSigner{key: priv, rLen: n - sh.dr, sLen: n - sh.ds}
							if sh.dr+sh.ds > 0 {
								r.Nontrivial()
							}
							t := c10Types[c10TypeIdx(tn)[0]]
							sym := c10Symbols(t, c10Owners[0], c10Variants[0])
							rrset := []dns.RR{sym[0], sym[1]}
							sig := &dns.RRSIG{KeyTag: k.DNSKEY.KeyTag(), SignerName: "example.", Algorithm: k.DNSKEY.Algorithm, Inception: c10Inception, Expiration: c10Expiration}
							if err := c10Sign(sig, signer, rrset); err != nil {
								r.Fail("sign/error", "Sign failed: %v (|r|=%d |s|=%d); %s", err, signer.rLen, signer.sLen, c10Desc(k, sig, rrset))
								return
							}
							r.Count("signing attempts until the lengths were met", int64(signer.tries))
							raw, err := base64.StdEncoding.DecodeString(sig.Signature)
							want := append(signer.r.FillBytes(make([]byte, n)), signer.s.FillBytes(make([]byte, n))...)
							if err != nil || string(raw) != string(want) {
								r.Fail("sign/ecdsa-integer-padding", "signature with |r|=%d |s|=%d octets (field %d): RRSIG holds %x, RFC 6605 §4 gives r|s = %x; %s", signer.rLen, signer.sLen, n, raw, want, c10Desc(k, sig, rrset))
							}
							if e, _ := c10RefVerify(k.DNSKEY, sig, rrset); e != nil {
								r.Fail("sign/reference-rejects", "the reference verifier rejects Sign's output (|r|=%d |s|=%d): %v; %s", signer.rLen, signer.sLen, e, c10Desc(k, sig, rrset))
							}
							if e, _ := c10Verify(sig, k.DNSKEY, rrset); e != nil {
								r.Fail("verify/rejects-own-signature", "Verify rejects Sign's output (|r|=%d |s|=%d): %v; %s", signer.rLen, signer.sLen, e, c10Desc(k, sig, rrset))
							}
							// a reference-made signature of the same shape (r|s from the signer, padded by the harness)
							good := *sig
							good.Signature = base64.StdEncoding.EncodeToString(want)
							if e, _ := c10Verify(&good, k.DNSKEY, rrset); e != nil {
								r.Fail("verify/rejects-valid", "Verify rejects a valid signature with |r|=%d |s|=%d: %v; %s", signer.rLen, signer.sLen, e, c10Desc(k, &good, rrset))
							}
							bad := *sig
							w2 := append([]byte(nil), want...)
							w2[len(w2)-1] ^= 1
							bad.Signature = base64.StdEncoding.EncodeToString(w2)
							if e, _ := c10Verify(&bad, k.DNSKEY, rrset); e == nil {
								r.Fail("verify/accepts-altered", "Verify accepts a signature with the last bit flipped; %s", c10Desc(k, &bad, rrset))
							}
						})
					}
				}
			}
		})
}

// c10AllKeysSpace: every fixed key, whatever its size, signs and verifies one RRset in both tiers (the other
// spaces leave the 2048- and 4096-bit RSA keys to the thorough tier).
func c10AllKeysSpace(c *fw.Ctx) {
	c.Space("all-fixed-keys", fmt.Sprintf("each of the %d fixed keys of /verif/keys (RSA 1024/2048/4096 bits — 4096 is the largest modulus the library takes —, P-256, P-384, Ed25519) × RRsets of {MX, A}: Sign → reference verifier and Verify; reference signer → Verify; one flipped signature bit is rejected; non-trivial: all", len(c10KeyNames)), true,
		func(emit func(func(*fw.R))) {
			for ki := range c10KeyNames {
				for _, tn := range []string{"MX", "A"} {
					ki, tn := ki, tn
					emit(func(r *fw.R) {
						r.Nontrivial()
						k := c10Keys()[ki]
						t := c10Types[c10TypeIdx(tn)[0]]
						sym := c10Symbols(t, c10Owners[0], c10Variants[0])
						rrset := []dns.RR{sym[1], sym[0]}
						sig := &dns.RRSIG{KeyTag: k.DNSKEY.KeyTag(), SignerName: "example.", Algorithm: k.DNSKEY.Algorithm, Inception: c10Inception, Expiration: c10Expiration}
						if err := c10Sign(sig, k.Priv, rrset); err != nil {
							r.Fail("sign/error", "Sign failed: %v; %s", err, c10Desc(k, sig, rrset))
							return
						}
						c10Judge(r, "all-fixed-keys/library-signed", "signature by Sign", k, k.DNSKEY, sig, rrset)
						if e, _ := c10RefVerify(k.DNSKEY, sig, rrset); e != nil {
							r.Fail("sign/reference-rejects", "the reference verifier rejects Sign's output: %v; %s", e, c10Desc(k, sig, rrset))
						}
						if e, _ := c10Verify(sig, k.DNSKEY, rrset); e != nil {
							r.Fail("verify/rejects-own-signature", "Verify rejects Sign's output: %v; %s", e, c10Desc(k, sig, rrset))
						}
					})
				}
			}
		})
}

// c10KeyStructSpace: one *dns.DNSKEY value whose key material is replaced between Verify calls. A decoder that
// remembers what it decoded for "this key" (by pointer, owner or tag) is invisible as long as every key lives in
// its own struct; a validator that refreshes a DNSKEY it holds (key rollover) reuses the struct.
func c10KeyStructSpace(c *fw.Ctx) {
	pairs := [][2]string{{"rsasha256-1024", "rsasha256-2048"}, {"rsasha1-1024", "rsasha1-2048"}, {"rsasha512-1024", "rsasha512-2048"}, {"ecdsap256", "ecdsap256-d0"}, {"ecdsap384", "ecdsap384-d0"}, {"rsasha256-2048", "rsasha256-4096"}}
	c.Space("key-struct-reuse", fmt.Sprintf("%d pairs (A, B) of fixed keys of one algorithm: one DNSKEY struct, every sequence of 3 steps over {material A, material B} × {RRSIG made with A, RRSIG made with B}; before each step the struct is overwritten with that key's fields (same pointer), then Verify is called: nil exactly when material and signature belong together, whatever was verified with that struct before; non-trivial: all", len(pairs)), true,
		func(emit func(func(*fw.R))) {
			for _, pr := range pairs {
				pr := pr
				emit(func(r *fw.R) {
					r.Nontrivial()
					var ks [2]*c10Key
					for _, k := range c10Keys() {
						for i := range pr {
							if k.Name == pr[i] {
								ks[i] = k
							}
						}
					}
					t := c10Types[c10TypeIdx("MX")[0]]
					sym := c10Symbols(t, c10Owners[0], c10Variants[0])
					rrset := []dns.RR{sym[1], sym[0]}
					var sigs [2]*dns.RRSIG
					for i, k := range ks {
						// both signatures carry the key tag of their own key; Verify compares it with the struct's current tag
						sigs[i] = &dns.RRSIG{KeyTag: k.DNSKEY.KeyTag(), SignerName: "example.", Algorithm: k.DNSKEY.Algorithm, Inception: c10Inception, Expiration: c10Expiration}
						if err := c10Sign(sigs[i], k.Priv, rrset); err != nil {
							r.Fail("sign/error", "Sign failed: %v; %s", err, c10Desc(k, sigs[i], rrset))
							return
						}
					}
					for seq := 0; seq < 64; seq++ {
						key := dns.Copy(ks[0].DNSKEY).(*dns.DNSKEY)
						var trace []string
						for step := 0; step < 3; step++ {
							mat, sg := (seq>>(2*step))&1, (seq>>(2*step+1))&1
							*key = *ks[mat].DNSKEY // same struct (same pointer), new contents
							err, _ := c10Verify(sigs[sg], key, rrset)
							trace = append(trace, fmt.Sprintf("material %s + signature by %s → %v", pr[mat], pr[sg], err))
							if (err == nil) != (mat == sg) {
								r.Fail("verify/key-struct-reuse", "one DNSKEY struct overwritten before each Verify: step %d gives the wrong verdict: %v", step+1, trace)
								break
							}
						}
					}
					r.Count("sequences", 64)
				})
			}
		})
}

// c10KeytagEdgeSpace: two Ed25519 keys derived from fixed seeds (found by a search over seeds SHA-256("verif-c10-keytag-" ‖ i)):
// #9339, whose RFC 4034 appendix B word sum carries a second time when the carry is added back (tag 5), and #22949,
// whose tag is 0. The key tag is what ties an RRSIG to its key before any cryptography; both shapes are about one
// key in several thousand and none of the fixed key files has them.
func c10KeytagEdgeSpace(c *fw.Ctx) {
	type ek struct {
		idx  uint64
		what string
	}
	keys := []ek{{9339, "second-carry"}, {22949, "tag-0"}}
	c.Space("keytag-edge", "two Ed25519 keys from fixed seeds — one whose appendix-B sum carries twice (tag 5), one whose tag is 0 — × RRsets {MX, A}: KeyTag() equals the reference tag; Sign succeeds and sets that tag, its output verifies under the reference and under Verify; a reference-made RRSIG carrying the real tag verifies, one made over tag+1 (and tag−1) is refused; non-trivial: all", true,
		func(emit func(func(*fw.R))) {
			for _, e := range keys {
				for _, tn := range []string{"MX", "A"} {
					e, tn := e, tn
					emit(func(r *fw.R) {
						r.Nontrivial()
						var b [8]byte
						binary.BigEndian.PutUint64(b[:], e.idx)
						seed := sha256.Sum256(append([]byte("verif-c10-keytag-"), b[:]...))
						priv := ed25519.NewKeyFromSeed(seed[:])
						dk := &dns.DNSKEY{Hdr: dns.RR_Header{Name: "example.", Rrtype: dns.TypeDNSKEY, Class: dns.ClassINET, Ttl: 3600}, Flags: 257, Protocol: 3, Algorithm: dns.ED25519,
							PublicKey: base64.StdEncoding.EncodeToString(priv.Public().(ed25519.PublicKey))}
						ref, err := c10RefKey(dk)
						if err != nil {
							panic(err)
						}
						k := &c10Key{Name: "ed25519-seed-" + e.what, DNSKEY: dk, Priv: priv, Ref: ref, RefPriv: priv, KeyText: dk.String()}
						want := canon.KeyTag(ref.RData())
						if (e.what == "tag-0") != (want == 0) || (e.what == "second-carry" && want != 5) {
							panic(fmt.Sprintf("harness: seed %d no longer gives the %s key (reference tag %d)", e.idx, e.what, want))
						}
						if got := dk.KeyTag(); got != want {
							r.Fail("keytag-edge/keytag/"+e.what, "KeyTag() = %d, RFC 4034 appendix B gives %d; DNSKEY %s", got, want, dk.String())
						}
						t := c10Types[c10TypeIdx(tn)[0]]
						sym := c10Symbols(t, c10Owners[0], c10Variants[0])
						rrset := []dns.RR{sym[1], sym[0]}
						lsig := &dns.RRSIG{KeyTag: want, SignerName: "example.", Algorithm: dns.ED25519, Inception: c10Inception, Expiration: c10Expiration}
						if err := c10Sign(lsig, priv, rrset); err != nil {
							r.Fail("keytag-edge/sign-error/"+e.what, "Sign with the %s key (tag %d) failed: %v; %s", e.what, want, err, c10Desc(k, lsig, rrset))
						} else {
							if lsig.KeyTag != want {
								r.Fail("keytag-edge/sign-tag/"+e.what, "Sign left Key Tag %d in the RRSIG, the key's tag is %d", lsig.KeyTag, want)
							}
							c10Judge(r, "keytag-edge/"+e.what+"/library-signed", "signature by Sign", k, dk, lsig, rrset)
							if e2, _ := c10Verify(lsig, dk, rrset); e2 != nil {
								r.Fail("keytag-edge/verify-rejects-own/"+e.what, "Verify rejects Sign's output: %v; %s", e2, c10Desc(k, lsig, rrset))
							}
						}
						for _, dlt := range []int{0, 1, -1} {
							tag := uint16(int(want) + dlt)
							rsig, err := c10RefSign(priv, &dns.RRSIG{Hdr: dns.RR_Header{Name: rrset[0].Header().Name, Rrtype: dns.TypeRRSIG, Class: dns.ClassINET, Ttl: 300},
								TypeCovered: rrset[0].Header().Rrtype, Algorithm: dns.ED25519, Labels: uint8(dns.CountLabel(rrset[0].Header().Name)), OrigTtl: rrset[0].Header().Ttl,
								Inception: c10Inception, Expiration: c10Expiration, KeyTag: tag, SignerName: "example."}, rrset, canon.Reading{})
							if err != nil {
								panic(err)
							}
							c10Judge(r, fmt.Sprintf("keytag-edge/%s/reference-signed-tag%+d", e.what, dlt), fmt.Sprintf("reference signature over Key Tag %d (the key's tag is %d)", tag, want), k, dk, rsig, rrset)
						}
					})
				}
			}
		})
}
