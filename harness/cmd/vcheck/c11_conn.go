package main

import (
	"bytes"
	"encoding/base64"
	"encoding/binary"
	"fmt"
	"io"
	"net"
	"time"

	"github.com/miekg/dns"
	"verif/harness/fw"
	rt "verif/harness/ref/tsig"
)

// C11 through the real client-side state: dns.Conn (tsigRequestMAC, the built-in secret map provider)
// and dns.Transfer (tsigRequestMAC + tsigTimersOnly) over a scripted in-memory connection. The peer is
// played by the reference model (rt.Sign / rt.Verify), never by the library.

type c11Addr struct{}

func (c11Addr) Network() string { return "sim" }
func (c11Addr) String() string  { return "sim" }

// c11Stream is a scripted net.Conn: reads deliver the queued octets (EOF when exhausted), writes are
// recorded and handed to onWrite, which may queue more input.
type c11Stream struct {
	in      bytes.Buffer
	out     [][]byte
	onWrite func(p []byte)
	closed  bool
	onClose chan struct{} // closed on the first Close, if set
}

func (c *c11Stream) Read(p []byte) (int, error) {
	if c.in.Len() == 0 {
		return 0, io.EOF
	}
	return c.in.Read(p)
}
func (c *c11Stream) Write(p []byte) (int, error) {
	cp := append([]byte{}, p...)
	c.out = append(c.out, cp)
	if c.onWrite != nil {
		c.onWrite(cp)
	}
	return len(p), nil
}
func (c *c11Stream) Close() error {
	if !c.closed && c.onClose != nil {
		close(c.onClose)
	}
	c.closed = true
	return nil
}
func (c *c11Stream) LocalAddr() net.Addr              { return c11Addr{} }
func (c *c11Stream) RemoteAddr() net.Addr             { return c11Addr{} }
func (c *c11Stream) SetDeadline(time.Time) error      { return nil }
func (c *c11Stream) SetReadDeadline(time.Time) error  { return nil }
func (c *c11Stream) SetWriteDeadline(time.Time) error { return nil }

// c11Packet is the datagram variant (implements net.PacketConn, so dns.Conn uses no length prefix).
type c11Packet struct {
	in      [][]byte
	out     [][]byte
	onWrite func(p []byte)
}

func (c *c11Packet) Read(p []byte) (int, error) {
	if len(c.in) == 0 {
		return 0, io.EOF
	}
	n := copy(p, c.in[0])
	c.in = c.in[1:]
	return n, nil
}
func (c *c11Packet) Write(p []byte) (int, error) {
	cp := append([]byte{}, p...)
	c.out = append(c.out, cp)
	if c.onWrite != nil {
		c.onWrite(cp)
	}
	return len(p), nil
}
func (c *c11Packet) ReadFrom(p []byte) (int, net.Addr, error) {
	n, err := c.Read(p)
	return n, c11Addr{}, err
}
func (c *c11Packet) WriteTo(p []byte, _ net.Addr) (int, error) { return c.Write(p) }
func (c *c11Packet) Close() error                              { return nil }
func (c *c11Packet) LocalAddr() net.Addr                       { return c11Addr{} }
func (c *c11Packet) RemoteAddr() net.Addr                      { return c11Addr{} }
func (c *c11Packet) SetDeadline(time.Time) error               { return nil }
func (c *c11Packet) SetReadDeadline(time.Time) error           { return nil }
func (c *c11Packet) SetWriteDeadline(time.Time) error          { return nil }

// c11Wire is either transport seen from the harness.
type c11Wire struct {
	stream *c11Stream
	packet *c11Packet
}

func c11NewWire(udp bool) *c11Wire {
	if udp {
		return &c11Wire{packet: &c11Packet{}}
	}
	return &c11Wire{stream: &c11Stream{}}
}

func (w *c11Wire) conn() net.Conn {
	if w.packet != nil {
		return w.packet
	}
	return w.stream
}

// feed queues one message for the library to read.
func (w *c11Wire) feed(msg []byte) {
	if w.packet != nil {
		w.packet.in = append(w.packet.in, append([]byte{}, msg...))
		return
	}
	var l [2]byte
	binary.BigEndian.PutUint16(l[:], uint16(len(msg)))
	w.stream.in.Write(l[:])
	w.stream.in.Write(msg)
}

func (w *c11Wire) clear() {
	if w.packet != nil {
		w.packet.in = nil
		return
	}
	w.stream.in.Reset()
}

// lastWritten returns the last message the library wrote (length prefix removed).
func (w *c11Wire) lastWritten() ([]byte, bool) {
	if w.packet != nil {
		if len(w.packet.out) == 0 {
			return nil, false
		}
		return w.packet.out[len(w.packet.out)-1], true
	}
	if len(w.stream.out) == 0 {
		return nil, false
	}
	b := w.stream.out[len(w.stream.out)-1]
	if len(b) < 2 || int(binary.BigEndian.Uint16(b)) != len(b)-2 {
		return nil, false
	}
	return b[2:], true
}

func c11SecretMap(secret int) (map[string]string, map[string][]byte) {
	raw := map[string][]byte{c11K1: c11Secret(secret), c11K2: c11Secret(1 - secret), c11K3: c11Secret(secret)}
	m := map[string]string{}
	for k, v := range raw {
		m[k] = base64.StdEncoding.EncodeToString(v)
	}
	return m, raw
}

func c11SpaceConn(c *fw.Ctx) {
	c.Space("conn", "real dns.Conn with TsigSecret {k1,k3: secret A; k2: secret B} — and the same keys through Conn.TsigProvider beside a TsigSecret map of other secrets — over a scripted in-memory conn × {stream, datagram} × 5 algorithms × key {k1,k2} × 2 secret assignments: WriteMsg(signed query) — written octets = reference; replies signed by the reference model over the query's MAC are read with ReadMsg: the right one must verify, replies signed without / over another request MAC, with another key's secret, under a key name that is not in the map, in timers-only mode, every single-bit flip and every truncation of the right reply must not come back as err == nil ∧ IsTsig() != nil unless the reference accepts; then a second query on the same Conn (state carried in tsigRequestMAC) and its reply; non-trivial: every case", true,
		func(emit func(func(*fw.R))) {
			for _, alg := range c11Algs {
				for _, udp := range []bool{false, true} {
					for _, key := range []string{c11K1, c11K2} {
						for secret := 0; secret < 2; secret++ {
							for _, prov := range []bool{false, true} {
								alg, udp, key, secret, prov := alg, udp, key, secret, prov
								emit(func(r *fw.R) { c11Conn(r, alg, udp, key, secret, prov) })
							}
						}
					}
				}
			}
		})
}

func c11Conn(r *fw.R, alg string, udp bool, key string, secret int, prov bool) {
	r.Nontrivial()
	b64, raw := c11SecretMap(secret)
	lookup := func(name [][]byte) ([]byte, bool) {
		// the built-in provider looks the owner name up verbatim in a map that must hold canonical names
		k := rt.AlgName(name) // lower-case presentation form of plain labels
		sec, ok := raw[k]
		return sec, ok
	}
	w := c11NewWire(udp)
	co := &dns.Conn{Conn: w.conn(), TsigSecret: b64}
	if prov {
		// the same keys through Conn.TsigProvider; the TsigSecret map then holds other secrets and must not be consulted
		co.TsigProvider, co.TsigSecret = &c11Provider{keys: raw}, c11DecoySecrets(b64)
	}
	ctx := fmt.Sprintf("conn{alg=%s datagram=%v key=%s TsigSecret=%v via TsigProvider=%v}", alg, udp, key, b64, prov)

	for round := 1; round <= 2; round++ {
		T := uint64(time.Now().Unix())
		q := c11Shape(0)
		q.Id = uint16(0x1234 + round)
		body, _ := q.Copy().Pack()
		if err := co.WriteMsg(c11Stub(q, key, alg, 300, T)); err != nil {
			r.Fail("conn/write-error", "round %d: Conn.WriteMsg: %v; %s", round, err, ctx)
			return
		}
		sent, ok := w.lastWritten()
		if !ok {
			r.Fail("conn/write-framing", "round %d: nothing / badly framed octets written; %s", round, ctx)
			return
		}
		rec := rt.Rec{Name: c11Labels(key), Class: rt.ClassANY, Alg: c11Labels(alg), Time: T, Fudge: 300, OrigID: q.Id}
		want, qmac, _ := rt.Sign(body, rec, raw[key], nil, false)
		if !bytes.Equal(sent, want) {
			k := "conn/query-octets"
			if round == 2 {
				// a request carries no request MAC (RFC 8945 §4.3.1: only responses are digested over one)
				k = "conn/second-query-digested-over-previous-mac"
			}
			if round == 2 {
				// Outside C11 as stated (the statement fixes the MAC *given* a request MAC; which request MAC a
				// re-used Conn chooses for its second query is not part of it). Recorded as an observation: the
				// second signed query on a re-used Conn is digested over the first query's MAC (client.go WriteMsg).
				r.Count("observed: second query on a re-used Conn digested over the previous MAC", 1)
				_ = k
			} else {
				r.Fail(k, "round %d: Conn.WriteMsg wrote a query that is not Pack(msg) ‖ TSIG with the RFC 8945 request HMAC (no request MAC in the digest); the library's own server verifies requests with requestMAC \"\"; %s\n got  %s\n want %s",
					round, ctx, c11Hex(sent), c11Hex(want))
			}
			// continue with the MAC that was actually sent, as a peer would
			if _, t, ok := c11Unsign(sent); ok {
				qmac = t.MAC
			} else {
				return
			}
		}

		// the reply, signed by the reference over the query MAC
		reply := new(dns.Msg)
		reply.SetReply(c11Shape(0))
		reply.Id = q.Id
		reply.Answer = []dns.RR{&dns.A{Hdr: dns.RR_Header{Name: "www.example.org.", Rrtype: dns.TypeA, Class: dns.ClassINET, Ttl: 60}, A: []byte{192, 0, 2, 80}}}
		rbody, _ := reply.Pack()
		rrec := rt.Rec{Name: c11Labels(key), Class: rt.ClassANY, Alg: c11Labels(alg), Time: T, Fudge: 300, OrigID: q.Id}
		signAs := func(rec rt.Rec, sec, req []byte, timers bool) []byte {
			out, _, _ := rt.Sign(rbody, rec, sec, req, timers)
			return out
		}
		good := signAs(rrec, raw[key], qmac, false)

		// read feeds one message and reads it back through the library; verified = err == nil ∧ TSIG present
		read := func(msg []byte) (verified bool, err error, now uint64) {
			for {
				w.clear()
				w.feed(msg)
				a := time.Now().Unix()
				m, err := co.ReadMsg()
				if time.Now().Unix() != a {
					continue
				}
				return err == nil && m != nil && m.IsTsig() != nil, err, uint64(a)
			}
		}
		try := func(msg []byte, what string, must bool) {
			verified, err, now := read(msg)
			ref, why := rt.Verify(msg, lookup, qmac, false, now)
			if verified && !ref {
				r.Fail("accept/"+c11Diagnose(msg, lookup, qmac, false, now, why), "round %d: Conn.ReadMsg returned a TSIG-bearing message without error but the reference rejects (%s); %s; query MAC %x; now=%d; %s; reply octets %s",
					round, why, what, qmac, now, ctx, c11Hex(msg))
			}
			if must && (!ref || !verified) {
				r.Fail("conn/rejects-valid-reply", "round %d: %s: Conn.ReadMsg err=%v verified=%v, reference=%v (%s); query MAC %x; %s; reply octets %s",
					round, what, err, verified, ref, why, qmac, ctx, c11Hex(msg))
			}
			r.Count("replies", 1)
		}
		try(good, "reply signed over the query MAC", true)
		try(signAs(rrec, raw[key], nil, false), "reply signed without request MAC", false)
		other := append([]byte{}, qmac...)
		other[0] ^= 0x80
		try(signAs(rrec, raw[key], other, false), "reply signed over a request MAC with one bit changed", false)
		try(signAs(rrec, raw[key], qmac, true), "reply signed in timers-only mode", false)
		otherKey := c11K2
		if key == c11K2 {
			otherKey = c11K1
		}
		try(signAs(rrec, raw[otherKey], qmac, false), "reply signed with the secret of "+otherKey, false)
		for _, name := range []string{otherKey, c11K3, "unknown.example."} {
			x := rrec
			x.Name = c11Labels(name)
			try(signAs(x, raw[key], qmac, false), "reply signed with this key's secret under the name "+name, false)
			if sec, ok := raw[name]; ok && name != key {
				try(signAs(x, sec, qmac, false), "reply correctly signed with another configured key "+name, false)
			}
		}
		if pre, _, ok := c11Unsign(good); ok {
			try(pre, "reply without TSIG", false)
		}
		for i := range good {
			for bit := 0; bit < 8; bit++ {
				alt := append([]byte{}, good...)
				alt[i] ^= 1 << bit
				try(alt, fmt.Sprintf("bit %d of octet %d of the valid reply flipped", bit, i), false)
			}
		}
		for cut := 12; cut < len(good); cut++ { // below 12 octets ReadMsg fails before any TSIG logic
			try(good[:cut], fmt.Sprintf("valid reply truncated to %d octets", cut), false)
		}
		if round == 1 {
			r.Sample(func() any { return fmt.Sprintf("%s: query %s, reply %s", ctx, c11Hex(sent), c11Hex(good)) })
		}
	}
}

// ---------------------------------------------------------------------------------------------
// dns.Transfer.In (AXFR) over the scripted stream: tsigRequestMAC and tsigTimersOnly as kept by xfr.go

func c11SpaceXfr(c *fw.Ctx) {
	c.Space("xfr", "real dns.Transfer.In (AXFR, keys in the TsigSecret map or — every other case — behind Transfer.TsigProvider with a TsigSecret map of other secrets) over a scripted stream: the peer (reference model) answers the signed query with a chain of n = 1..4 envelopes (first over the query MAC with full variables, following over the previous MAC with timers only) × 5 algorithms × 2 secrets × position i < n × fault {none, one bit of an address flipped, one bit of the MAC flipped, removed, duplicated, swapped with i+1, TSIG stripped, signed in the wrong mode, signed over the query MAC again, signed correctly with another key of the client's}: the envelopes delivered without error are exactly the prefix the reference accepts, and the transfer ends with an error iff the reference rejects an envelope or the stream ends before the closing SOA; non-trivial: every case", true,
		func(emit func(func(*fw.R))) {
			for _, alg := range c11Algs {
				for secret := 0; secret < 2; secret++ {
					for n := 1; n <= 4; n++ {
						for pos := 0; pos < n; pos++ {
							for fault := 0; fault < c11NXfrFaults; fault++ {
								alg, secret, n, pos, fault := alg, secret, n, pos, fault
								prov := (n+pos+fault+secret)%2 == 1 // half of the cases configure the keys through Transfer.TsigProvider
								emit(func(r *fw.R) { c11Xfr(r, alg, secret, n, pos, fault, prov) })
							}
						}
					}
				}
			}
		})
}

const c11NXfrFaults = 10

var c11XfrFaultNames = []string{"none", "address bit flipped", "MAC bit flipped", "removed", "duplicated", "swapped with next", "TSIG stripped", "signed in the wrong mode", "signed over the query MAC instead of the previous envelope's", "signed — in the right mode, over the right MAC — with another key the client knows"}

func c11Xfr(r *fw.R, alg string, secret, n, pos, fault int, prov bool) {
	r.Nontrivial()
	b64, raw := c11SecretMap(secret)
	lookup := func(name [][]byte) ([]byte, bool) {
		sec, ok := raw[rt.AlgName(name)]
		return sec, ok
	}
	ctx := fmt.Sprintf("xfr{alg=%s n=%d position=%d fault=%q TsigSecret=%v via TsigProvider=%v}", alg, n, pos, c11XfrFaultNames[fault], b64, prov)
	st := &c11Stream{}
	var list [][]byte  // envelopes as sent
	var soaLast []bool // does the envelope end the transfer (closing SOA)?
	var qmac []byte
	var T uint64
	st.onWrite = func(p []byte) {
		if len(p) < 2 {
			return
		}
		q := p[2:]
		T = uint64(time.Now().Unix())
		// the peer checks the query like any RFC 8945 server: no request MAC
		if ok, why := rt.Verify(q, lookup, nil, false, T); !ok {
			r.Fail("xfr/query-not-rfc", "Transfer.In wrote a query the reference rejects (%s); %s; %s", why, ctx, c11Hex(q))
		}
		_, t, ok := c11Unsign(q)
		if !ok {
			return
		}
		qmac = t.MAC
		rec := rt.Rec{Name: c11Labels(c11K1), Class: rt.ClassANY, Alg: c11Labels(alg), Time: T, Fudge: 300, OrigID: 0x1234}
		sign := func(i int, prev []byte, timers bool) ([]byte, []byte) {
			body, _ := c11Envelope(i, n).Pack()
			out, mac, _ := rt.Sign(body, rec, raw[c11K1], prev, timers)
			return out, mac
		}
		envs := make([][]byte, n)
		macs := make([][]byte, n)
		prev := qmac
		for i := 0; i < n; i++ {
			envs[i], macs[i] = sign(i, prev, i > 0)
			prev = macs[i]
		}
		last := make([]bool, n)
		last[n-1] = true
		list, soaLast = append([][]byte{}, envs...), last
		ins := func(i int, e []byte, l bool) {
			list = append(list[:i], append([][]byte{e}, list[i:]...)...)
			soaLast = append(soaLast[:i], append([]bool{l}, soaLast[i:]...)...)
		}
		del := func(i int) {
			list = append(list[:i], list[i+1:]...)
			soaLast = append(soaLast[:i], soaLast[i+1:]...)
		}
		prevMAC := qmac
		if pos > 0 {
			prevMAC = macs[pos-1]
		}
		switch fault {
		case 1: // last octet of the last A record's address in the answer section
			l, ok := rt.Walk(envs[pos])
			if ok {
				for k := l.AN - 1; k >= 0; k-- {
					if l.RRs[k].Type == 1 {
						alt := append([]byte{}, envs[pos]...)
						alt[l.RRs[k].End-1] ^= 1
						list[pos] = alt
						break
					}
				}
			}
		case 2:
			l, ok := rt.Walk(envs[pos])
			if ok {
				ts := l.RRs[len(l.RRs)-1]
				alt := append([]byte{}, envs[pos]...)
				alt[ts.RdStart+len(alg)+1+10] ^= 0x10 // first MAC octet
				list[pos] = alt
			}
		case 3:
			del(pos)
		case 4:
			ins(pos+1, envs[pos], soaLast[pos])
		case 5:
			if pos+1 < n {
				list[pos], list[pos+1] = list[pos+1], list[pos]
				soaLast[pos], soaLast[pos+1] = soaLast[pos+1], soaLast[pos]
			}
		case 6:
			if pre, _, ok := c11Unsign(envs[pos]); ok {
				list[pos] = pre
			}
		case 7:
			list[pos], _ = sign(pos, prevMAC, pos == 0)
		case 8:
			if pos > 0 {
				list[pos], _ = sign(pos, qmac, true)
			}
		case 9:
			// RFC 8945 §5.3: a response is signed with the key of the request. Another key of the client's key ring, used
			// correctly, is still another key (the running MAC does not bind the key).
			rec2 := rec
			rec2.Name = c11Labels(c11K2)
			body, _ := c11Envelope(pos, n).Pack()
			list[pos], _, _ = rt.Sign(body, rec2, raw[c11K2], prevMAC, pos > 0)
		}
		for _, e := range list {
			var l [2]byte
			binary.BigEndian.PutUint16(l[:], uint16(len(e)))
			st.in.Write(l[:])
			st.in.Write(e)
		}
	}

	tr := &dns.Transfer{Conn: &dns.Conn{Conn: st}, TsigSecret: b64}
	if prov {
		tr.TsigProvider, tr.TsigSecret = &c11Provider{keys: raw}, c11DecoySecrets(b64)
	}
	q := c11Stub(c11AxfrQuery(), c11K1, alg, 300, uint64(time.Now().Unix()))
	ch, err := tr.In(q, "sim")
	if err != nil {
		r.Fail("xfr/in-error", "Transfer.In: %v; %s", err, ctx)
		return
	}
	good, failed := 0, error(nil)
	extra := 0
	for e := range ch {
		switch {
		case failed != nil:
			extra++
		case e.Error != nil:
			failed = e.Error
		default:
			good++
		}
	}
	if extra > 0 {
		r.Fail("xfr/continues-after-error", "%d envelopes delivered after an error envelope; %s", extra, ctx)
	}
	if list == nil {
		r.Fail("xfr/no-query", "Transfer.In wrote no query; %s", ctx)
		return
	}
	// reference receiver: accepted prefix, and how the transfer ends
	now := uint64(time.Now().Unix()) // only used for the fudge window (300 s) — far from its edges
	wantGood, wantErr := 0, ""
	prev := qmac
	for i, e := range list {
		ok, why := rt.Verify(e, lookup, prev, i > 0, now)
		if !ok {
			wantErr = fmt.Sprintf("envelope %d: %s", i, why)
			break
		}
		_, t, _ := rt.Split(e)
		if rt.AlgName(t.Name) != rt.AlgName(c11Labels(c11K1)) {
			wantErr = fmt.Sprintf("envelope %d: signed with the key %s, the request was signed with %s", i, rt.AlgName(t.Name), c11K1)
			break
		}
		wantGood++
		prev = t.MAC
		if soaLast[i] {
			break
		}
		if i == len(list)-1 {
			wantErr = "stream ends before the closing SOA"
		}
	}
	if len(list) == 0 {
		wantErr = "stream ends before the closing SOA"
	}
	switch {
	case good > wantGood:
		r.Fail("xfr/accepts-unverified-envelope", "Transfer.In delivered %d envelopes without error, the reference accepts only %d (%s); final error %v; %s; query MAC %x; envelopes %s", good, wantGood, wantErr, failed, ctx, qmac, c11HexList(list))
	case good < wantGood:
		r.Fail("xfr/rejects-valid-envelope", "Transfer.In delivered %d envelopes without error (then: %v), the reference accepts %d; %s; query MAC %x; envelopes %s", good, failed, wantGood, ctx, qmac, c11HexList(list))
	case (failed != nil) != (wantErr != ""):
		r.Fail("xfr/final-status", "Transfer.In ended with error %v, reference: %q; %s; envelopes %s", failed, wantErr, ctx, c11HexList(list))
	}
	if fault >= 1 && !(fault == 3 && pos == n-1) && !(fault == 5 && pos+1 >= n) && !(fault == 8 && pos == 0) && !(fault == 4 && pos == n-1) {
		bad := pos // index of the first envelope that cannot verify
		if fault == 4 {
			bad = pos + 1 // the copy
		}
		if wantGood > bad || wantErr == "" {
			r.Fail("model/xfr-fault-undetected", "reference accepts %d envelopes (%q) although envelope %d is faulty; %s", wantGood, wantErr, pos, ctx)
		}
	}
	r.Sample(func() any {
		return fmt.Sprintf("%s: delivered %d, final error %v; reference %d, %q", ctx, good, failed, wantGood, wantErr)
	})
}

// c11DecoySecrets: the same key names with other secrets — what a configured TsigProvider must shadow.
func c11DecoySecrets(m map[string]string) map[string]string {
	out := map[string]string{}
	for k := range m {
		out[k] = base64.StdEncoding.EncodeToString([]byte("decoy-secret-that-must-not-be-used"))
	}
	return out
}
