package main

import (
	"errors"
	"fmt"
	"io/fs"
	"os"
	"path/filepath"
	"strconv"
	"strings"

	"github.com/miekg/dns"
	"verif/harness/fw"
)

// C07 — hostile zone text is safe and bounded (DESIGN §5 C07).

func init() {
	fw.Register(&fw.Check{Prop: "C07", Level: "exploration",
		Assume: []string{
			"memory: cumulative heap allocation of one parse (runtime/metrics /gc/heap/allocs:bytes as a screen, runtime.MemStats.TotalAlloc, minimum of 3 re-runs, to confirm) must stay ≤ 2048·len(input) + 256 KiB; inputs with a $GENERATE are bounded by record count (≤ 65536 per directive) instead",
			"error position: ParseError exposes no fields; line and column are read from the documented Error() text '… at line: L:C' and the file name from its '<file>: dns: ' prefix; line must be ≥ 1; column must be ≥ 1 except that column 0 is accepted for an error reported at a line terminator that stands first on its line (the statement only asks that a column is carried); an invalid initial origin is a configuration error and carries no position",
			"the include depth limit is the documented constant (scan.go: maxIncludeDepth = 7): a chain of $INCLUDEs may open at most 7 files",
			"termination: the framework's per-case watchdog (20 s) covers every case; a case parses at most a few thousand short texts",
			"file opens are observed with a counting fs.FS; for the os.Open path a sentinel file on disk whose record would appear in the output",
			"an $INCLUDE written inside a $GENERATE body does not use the configured FS (DESIGN C06 'not demanded'); such opens are not counted here",
		},
		Spaces: c07Spaces})
}

// ---------------------------------------------------------------------------------------------
// file systems

type c07FS struct {
	files map[string]string
	opens int
}

type c07File struct{ *strings.Reader }

func (c07File) Stat() (fs.FileInfo, error) { return nil, fs.ErrInvalid }
func (c07File) Close() error               { return nil }

func (f *c07FS) Open(name string) (fs.File, error) {
	f.opens++
	d, ok := f.files[name]
	if !ok {
		return nil, &fs.PathError{Op: "open", Path: name, Err: fs.ErrNotExist}
	}
	return c07File{strings.NewReader(d)}, nil
}

const c07Sentinel = "sentinel.example."

var c07FSKinds = []string{"counting", "self-including", "chain-8", "none(os.Open)"}

func c07NewFS(kind int) *c07FS {
	switch kind {
	case 0:
		return &c07FS{files: map[string]string{"x": "inc.example. 5 IN A 192.0.2.7\n"}}
	case 1:
		return &c07FS{files: map[string]string{"x": "$INCLUDE x\nself.example. 5 IN A 192.0.2.8\n"}}
	case 2:
		m := map[string]string{"x": "$INCLUDE x1\n"}
		for i := 1; i < 8; i++ {
			m[fmt.Sprintf("x%d", i)] = fmt.Sprintf("$INCLUDE x%d\n", i+1)
		}
		m["x8"] = "deep.example. 5 IN A 192.0.2.9\n"
		return &c07FS{files: m}
	}
	return nil
}

// on-disk directory with the sentinel file "x" (one per worker process)
var c07Dir string

func c07DiskDir() string {
	if c07Dir == "" {
		d, err := os.MkdirTemp("", "vcheck-c07-")
		if err != nil {
			panic(err)
		}
		if err := os.WriteFile(filepath.Join(d, "x"), []byte(c07Sentinel+" 5 IN A 192.0.2.99\n"), 0o644); err != nil {
			panic(err)
		}
		c07Dir = d
	}
	return c07Dir
}

// ---------------------------------------------------------------------------------------------
// one parse and its oracle

type c07Cfg struct {
	origin  string
	allowed bool
	fsKind  int // index into c07FSKinds
}

func (c c07Cfg) String() string {
	return fmt.Sprintf("origin=%q includes=%v fs=%s", c.origin, c.allowed, c07FSKinds[c.fsKind])
}

const c07BadOrigin = "bad..origin."

type c07Res struct {
	nrec     int
	after    bool // a record owned by "after." was returned
	first    dns.RR
	err      error
	opens    int
	sentinel bool
	alloc    uint64
}

const c07MaxRecords = 1 << 20 // stop a runaway parse (reported as a violation)

// c07Run parses text once. It only observes; c07Check judges.
func c07Run(text string, cfg c07Cfg, problems *[]string) c07Res {
	file := "main.zone"
	var cfs *c07FS
	if cfg.fsKind == 3 {
		file = filepath.Join(c07DiskDir(), "main.zone")
	} else {
		cfs = c07NewFS(cfg.fsKind)
	}
	var res c07Res
	a0 := fw.AllocBytes()
	zp := dns.NewZoneParser(strings.NewReader(text), cfg.origin, file)
	zp.SetIncludeAllowed(cfg.allowed)
	if cfs != nil {
		zp.SetIncludeFS(cfs)
	}
	for {
		rr, ok := zp.Next()
		if !ok {
			if rr != nil {
				*problems = append(*problems, "next-nil/Next returned a non-nil record together with false")
			}
			break
		}
		if rr == nil {
			*problems = append(*problems, "next-nil/Next returned (nil, true)")
			break
		}
		if res.nrec == 0 {
			res.first = rr
		}
		res.nrec++
		if rr.Header().Name == "after." {
			res.after = true
		}
		if rr.Header().Name == c07Sentinel {
			res.sentinel = true
		}
		if res.nrec > c07MaxRecords {
			*problems = append(*problems, fmt.Sprintf("runaway/more than %d records", c07MaxRecords))
			break
		}
	}
	res.err = zp.Err()
	res.alloc = fw.AllocBytes() - a0
	// stickiness: after (nil,false) nothing more comes and Err() stays the same
	for i := 0; i < 3; i++ {
		if rr, ok := zp.Next(); ok || rr != nil {
			*problems = append(*problems, fmt.Sprintf("sticky/Next returned (%v,%v) after it had returned (nil,false)", rr, ok))
			break
		}
		if e := zp.Err(); e != res.err && !(e != nil && res.err != nil && e.Error() == res.err.Error()) {
			*problems = append(*problems, fmt.Sprintf("sticky/Err() changed from %v to %v", res.err, e))
			break
		}
	}
	if cfs != nil {
		res.opens = cfs.opens
	}
	return res
}

// c07ErrPos reads "<file>: dns: <msg>: <token> at line: L:C".
func c07ErrPos(msg string) (file string, line, col int, ok bool) {
	i := strings.LastIndex(msg, " at line: ")
	if i < 0 {
		return "", 0, 0, false
	}
	lc := msg[i+len(" at line: "):]
	j := strings.IndexByte(lc, ':')
	if j < 0 {
		return "", 0, 0, false
	}
	l, e1 := strconv.Atoi(lc[:j])
	c, e2 := strconv.Atoi(lc[j+1:])
	if e1 != nil || e2 != nil {
		return "", 0, 0, false
	}
	if k := strings.Index(msg, ": dns: "); k >= 0 {
		file = msg[:k]
	} else if !strings.HasPrefix(msg, "dns: ") {
		return "", 0, 0, false
	}
	return file, l, c, true
}

// c07Lex is the harness's own reading of RFC 1035 §5.1 lexical structure, just far enough to find
// texts that are malformed under every reading: a ")" with no open "(" (outside quotes, comments and
// escapes), a "(" still open at the end of the text, a quote still open at the end of the text.
type c07LexInfo struct {
	extraClose    bool
	extraCloseCtx string // first word of the line on which the extra ")" stands, upper-cased ("" = none)
	unclosedParen bool
	openQuote     bool
	lastCtx       string // first word of the unfinished last entry if it is a directive, else "record"
}

// c07Ctx: the directive keyword an entry starts with (parentheses and quotes stripped), else "record".
func c07Ctx(entry string) string {
	var sb strings.Builder
	comment := false
	for i := 0; i < len(entry); i++ {
		c := entry[i]
		switch {
		case c == '\n':
			comment = false
			sb.WriteByte(' ')
		case comment:
		case c == ';':
			comment = true
		case c == '(' || c == ')' || c == '"':
			sb.WriteByte(' ')
		default:
			sb.WriteByte(c)
		}
	}
	w := strings.Fields(sb.String())
	if len(w) > 0 && strings.HasPrefix(w[0], "$") {
		return strings.ToUpper(w[0])
	}
	return "record"
}

func c07Lex(text string) c07LexInfo {
	var li c07LexInfo
	if strings.Contains(text, "\\\r") {
		// backslash before CR: whether the CR is escaped or dropped first is a matter of reading; no claim
		return li
	}
	depth := 0
	quote, comment, escape := false, false, false
	lineStart := 0
	for i := 0; i < len(text); i++ {
		c := text[i]
		if c == '\n' {
			if !quote && depth == 0 {
				lineStart = i + 1
			}
			comment, escape = false, false
			continue
		}
		if comment {
			continue
		}
		if escape {
			escape = false
			continue
		}
		switch {
		case c == '\\':
			escape = true
		case c == '"':
			quote = !quote
		case quote:
		case c == ';':
			comment = true
		case c == '(':
			depth++
		case c == ')':
			depth--
			if depth < 0 {
				li.extraClose = true
				li.extraCloseCtx = c07Ctx(text[lineStart:i])
				return li
			}
		}
	}
	li.unclosedParen = depth > 0
	li.openQuote = quote
	li.lastCtx = c07Ctx(text[lineStart:])
	return li
}

func c07HasGenerate(text string) bool {
	return strings.Contains(strings.ToUpper(text), "$GENERATE")
}

// c07Check runs text under cfg and applies the oracle. want, when not nil, is an extra expectation on
// the result (prefix record etc.).
func c07Check(r *fw.R, text string, cfg c07Cfg, want func(res c07Res, fail func(key, what string))) c07Res {
	var problems []string
	res := c07Run(text, cfg, &problems)
	fail := func(key, what string) {
		r.Fail(key, "%s\n   config: %s\n   input (%d octets): %s\n   records: %d, Err() = %v", what, cfg, len(text), c07Show(text), res.nrec, res.err)
	}
	for _, p := range problems {
		k := strings.IndexByte(p, '/')
		fail(p[:k], p[k+1:])
	}
	// errors
	if res.err != nil {
		var pe *dns.ParseError
		if !errors.As(res.err, &pe) {
			fail("error/not-a-ParseError", fmt.Sprintf("Err() is a %T", res.err))
		} else if cfg.origin != c07BadOrigin {
			f, l, c, ok := c07ErrPos(res.err.Error())
			switch {
			case !ok:
				fail("error/no-position", "the error text carries no line:column")
			case l < 1:
				fail("error/line<1", fmt.Sprintf("line %d", l))
			case c < 0 || c == 0 && l == 1 && !strings.HasPrefix(text, "\n"):
				// column 0 is the position of a line terminator on an empty line (the lexer counts the
				// characters consumed on the line); it is accepted as "a column" from line 2 on.
				fail("error/column<1", fmt.Sprintf("column %d", c))
			case f == "":
				fail("error/no-file", "a file name was given to NewZoneParser but the error names none")
			default:
				base := filepath.Base(f)
				if base != "main.zone" && !(strings.HasPrefix(base, "x") && len(base) <= 2) {
					fail("error/wrong-file", fmt.Sprintf("the error names file %q, which is neither the zone file nor an included file", f))
				}
			}
		}
	} else if cfg.origin == c07BadOrigin {
		fail("bad-origin-accepted", "an invalid initial origin was accepted")
	}
	if cfg.origin == c07BadOrigin && res.nrec > 0 {
		fail("bad-origin-accepted", "records were returned although the initial origin is invalid")
	}
	// include gate
	if !cfg.allowed {
		if res.opens > 0 {
			fail("include-gate/fs-open", fmt.Sprintf("includes are not allowed but Open was called %d times", res.opens))
		}
		if res.sentinel {
			fail("include-gate/os-open", "includes are not allowed but the record of the on-disk sentinel file was returned")
		}
	} else {
		nInc := strings.Count(strings.ToUpper(text), "$INCLUDE")
		switch cfg.fsKind {
		case 0:
			if res.opens > nInc {
				fail("include-count", fmt.Sprintf("Open was called %d times for %d $INCLUDE directives", res.opens, nInc))
			}
		case 1, 2:
			if res.opens > 7 {
				fail("include-depth/opens", fmt.Sprintf("Open was called %d times along one include chain (documented limit 7)", res.opens))
			}
			if res.opens > 0 && res.err == nil {
				fail("include-depth/no-error", fmt.Sprintf("an endless / 8-deep include chain was entered (Open called %d times) but no error was reported", res.opens))
			}
			if cfg.fsKind == 1 && res.opens > 0 && res.nrec > 0 && res.first != nil && res.first.Header().Name == "self.example." {
				fail("include-depth/record", "a record from the self-including file was returned")
			}
		}
	}
	// memory
	if !c07HasGenerate(text) {
		bound := uint64(2048*len(text) + 256<<10)
		if res.alloc > bound {
			min := ^uint64(0)
			for i := 0; i < 3; i++ {
				var p2 []string
				a := fw.ExactAlloc(func() { c07Run(text, cfg, &p2) })
				if a < min {
					min = a
				}
			}
			if min > bound {
				fail("alloc", fmt.Sprintf("one parse allocated %d bytes (minimum of 3 exact measurements; screen %d), bound %d", min, res.alloc, bound))
			}
		}
	} else if n := strings.Count(strings.ToUpper(text), "$GENERATE"); res.nrec > 65536*n {
		fail("generate-records", fmt.Sprintf("%d records from %d $GENERATE directives", res.nrec, n))
	} else if bound := uint64(8192*len(text)+128<<10)*uint64(res.nrec+1) + uint64(len(text))*uint64(len(text)); res.alloc > bound {
		// a $GENERATE multiplies its line by the number of records it yields, not by anything else in the text
		// (a field width in a ${…} modifier, say). What is measured is the total allocated, not the live heap: the
		// directive's line is put together token by token with string concatenation, which allocates up to n²/2
		// octets in total for a line of n octets while holding only n at a time — hence the quadratic term.
		min := ^uint64(0)
		for i := 0; i < 3; i++ {
			var p2 []string
			a := fw.ExactAlloc(func() { c07Run(text, cfg, &p2) })
			if a < min {
				min = a
			}
		}
		if min > bound {
			fail("alloc/generate", fmt.Sprintf("one parse allocated %d bytes for %d records (minimum of 3 exact measurements), bound %d", min, res.nrec, bound))
		}
	}
	// definite lexical problems must be reported
	if res.err == nil {
		li := c07Lex(text)
		key := func(kind, ctx string) string {
			if ctx == "$INCLUDE" {
				// one cause: the $INCLUDE handler does not look at what follows the file name
				return "lexical-error-swallowed/$INCLUDE"
			}
			return "lexical-error-swallowed/" + kind + "/" + ctx
		}
		switch {
		case li.extraClose:
			fail(key("extra-close", li.extraCloseCtx), "the text has a closing parenthesis that was never opened, but no error was reported")
		case li.unclosedParen:
			fail(key("unclosed-paren", li.lastCtx), "the text ends inside parentheses, but no error was reported")
		case li.openQuote:
			fail(key("open-quote", li.lastCtx), "the text ends inside a quoted string, but no error was reported")
		}
	}
	if want != nil {
		want(res, fail)
	}
	return res
}

func c07Show(s string) string {
	if len(s) <= 300 {
		return strconv.Quote(s)
	}
	// long runs of one octet are written as counts
	var sb strings.Builder
	start := 0
	flush := func(end int) {
		if end > start {
			sb.WriteString(strconv.Quote(s[start:end]))
		}
	}
	for i := 0; i < len(s); {
		j := i
		for j < len(s) && s[j] == s[i] {
			j++
		}
		if j-i > 8 {
			flush(i)
			fmt.Fprintf(&sb, "<%q×%d>", s[i], j-i)
			start = j
		}
		i = j
	}
	flush(len(s))
	return sb.String()
}

// ---------------------------------------------------------------------------------------------
// spaces

var c07Alphabet = []string{"a", ".", " ", "\t", "\n", "\r", `"`, `\`, ";", "(", ")", "@", "\x00", "\xff", "IN", "A", "TXT", "$TTL", "$ORIGIN", "$INCLUDE x", "$GENERATE 0-1", strings.Repeat("k", 600)}

var c07Prefixes = []string{"", "v.example. 5 IN A 192.0.2.1\n", "q.example. 5 IN TXT \"x", "p.example. 5 IN A 192.0.2.1 ("}

func c07Configs(text string) []c07Cfg {
	var cs []c07Cfg
	inc := strings.Contains(text, "$INCLUDE")
	for _, o := range []string{"", "example.", c07BadOrigin} {
		cs = append(cs, c07Cfg{o, false, 0}, c07Cfg{o, true, 0})
		if inc {
			for k := 1; k <= 3; k++ {
				cs = append(cs, c07Cfg{o, false, k}, c07Cfg{o, true, k})
			}
		}
	}
	return cs
}

// c07Text: everything that is done with one input text.
func c07Text(r *fw.R, body string) (n int, interesting bool) {
	for pi, pre := range c07Prefixes {
		text := pre + body
		for _, cfg := range c07Configs(text) {
			var want func(res c07Res, fail func(key, what string))
			if pi == 1 && cfg.origin != c07BadOrigin {
				want = func(res c07Res, fail func(key, what string)) {
					a, ok := res.first.(*dns.A)
					if res.nrec < 1 || !ok || a.Hdr.Name != "v.example." || a.Hdr.Ttl != 5 || a.Hdr.Class != dns.ClassINET || !a.A.Equal([]byte{192, 0, 2, 1}) {
						fail("first-record-lost", fmt.Sprintf("the valid first line was not returned as the first record (first = %v)", res.first))
					}
				}
			}
			res := c07Check(r, text, cfg, want)
			n++
			if res.opens > 0 || res.nrec > 1 || res.nrec == 1 && pi != 1 {
				interesting = true
			}
		}
		if !strings.Contains(text, "$INCLUDE") {
			// NewRR: same lexer through the convenience entry point
			rr, err := dns.NewRR(text)
			n++
			if err != nil {
				var pe *dns.ParseError
				if !errors.As(err, &pe) {
					r.Fail("newrr/not-a-ParseError", "NewRR(%s) error is a %T: %v", c07Show(text), err, err)
				}
				if rr != nil {
					r.Fail("newrr/record-with-error", "NewRR(%s) returned both a record and an error: %v, %v", c07Show(text), rr, err)
				}
			}
		}
	}
	return n, interesting
}

func c07Spaces(c *fw.Ctx) {
	defer func() {
		if c07Dir != "" {
			os.RemoveAll(c07Dir)
			c07Dir = ""
		}
	}()
	maxTok := 4
	if c.Thorough {
		maxTok = 5
	}
	A := c07Alphabet
	c.Space("tokens", fmt.Sprintf("all strings of ≤ %d tokens over the 22-token alphabet {a . SP TAB LF CR \" \\ ; ( ) @ NUL 0xff IN A TXT $TTL $ORIGIN '$INCLUDE x' '$GENERATE 0-1' k×600}, each alone, after a valid record line, after an unterminated quote and after an unclosed parenthesis × origins {\"\", example., invalid} × includes {off,on} with a counting fs.FS (strings with an $INCLUDE also: × {FS whose file includes itself, FS with an 8-deep chain, no FS + on-disk sentinel}); plus NewRR on strings without $INCLUDE; one case = one choice of the first (length-2) tokens; non-trivial: some parse in the case returned a record beyond the prefix line or took an include", maxTok), true,
		func(emit func(func(*fw.R))) {
			// strings of 0 and 1 tokens
			emit(func(r *fw.R) {
				n, _ := c07Text(r, "")
				r.Nontrivial() // the prefixes alone
				r.Count("texts_parsed", int64(n))
			})
			// one case per choice of the first maxTok-2 tokens
			head := maxTok - 2
			var gen func(s string, depth int)
			gen = func(s string, depth int) {
				if depth == head {
					emit(func(r *fw.R) {
						n, nt := 0, false
						var rec func(s string, depth int)
						rec = func(s string, depth int) {
							k, i := c07Text(r, s)
							n += k
							nt = nt || i
							if depth == maxTok {
								return
							}
							for _, t := range A {
								rec(s+t, depth+1)
							}
						}
						rec(s, depth)
						if nt {
							r.Nontrivial()
						}
						r.Count("texts_parsed", int64(n))
						r.Sample(func() any { return c07Show(s + "…") })
					})
					return
				}
				if depth > 0 {
					emit(func(r *fw.R) { // the shorter strings themselves
						n, nt := c07Text(r, s)
						if nt {
							r.Nontrivial()
						}
						r.Count("texts_parsed", int64(n))
					})
				}
				for _, t := range A {
					gen(s+t, depth+1)
				}
			}
			gen("", 0)
		})

	c07LengthSpace(c)
	c07DirectiveSpace(c)
	c07ReadFaultSpace(c)
	c07ErrorPositionSpace(c)
	c07DryDirectiveSpace(c)
	c07CutShortSpace(c)
	c07RdataSpace(c)
	c07GenerateYieldSpace(c)
}
