package main

import (
	"crypto"
	"io"
)

type cryptoPublicKey = crypto.PublicKey
type cryptoSignerOpts = crypto.SignerOpts
type ioReader = io.Reader
