package main

import (
	"encoding/binary"
	"fmt"
	"time"

	"github.com/miekg/dns"
	"verif/harness/fw"
	rt "verif/harness/ref/tsig"
)

// C11 fault families on one signed message: bit flips, truncations, single-field alterations, TSIG
// misplaced or absent.

func c11NameWireLen(labels [][]byte) int {
	n := 1
	for _, l := range labels {
		n += 1 + len(l)
	}
	return n
}

// c11BigReduced is the stated sub-family of octet positions used for the near-64-KiB shape in the quick
// tier: the first 64 octets, the last 320 octets, and every 251st octet in between.
func c11BigReduced(i, n int) bool { return i < 64 || i >= n-320 || i%251 == 0 }

func c11SpaceFlip(c *fw.Ctx) {
	type job struct {
		p             c11Params
		path          int
		chunk, chunks int
		reduced       bool
	}
	var jobs []job
	for shape := 0; shape < 5; shape++ {
		for _, alg := range c11Algs {
			for req := 0; req < 3; req++ {
				for _, timers := range []bool{false, true} {
					for _, other := range []bool{false, true} {
						for _, ncase := range []int{0, 3} {
							for path := 0; path < 2; path++ {
								for chunk := 0; chunk < 4; chunk++ {
									jobs = append(jobs, job{c11Params{shape: shape, alg: alg, secret: (shape + req) % 2, req: req, timers: timers, other: other, ncase: ncase, fudge: 300, key: c11K1, origID: -1}, path, chunk, 4, false})
								}
							}
						}
					}
				}
			}
		}
	}
	bigAlgs, bigChunks := []string{dns.HmacSHA1, dns.HmacSHA256}, 16
	rule := "every single-bit flip of the signed octets of shapes query/reply/opt/compressed/noquestion × 5 algorithms × request MAC {none,20,64} × timers-only × other data × name case {lower, mixed} × path {secret, provider}; near-64-KiB shape × {sha1,sha256} × timers-only: all bits of the first 64 octets, of the last 320 octets and of every 251st octet"
	if c.Thorough {
		bigAlgs, bigChunks = []string{dns.HmacSHA1, dns.HmacSHA512}, 1024
		rule = "every single-bit flip of the signed octets of all 6 shapes (near-64-KiB shape: × {sha1,sha512} × timers-only, request MAC 20) and, for the small shapes, × 5 algorithms × request MAC {none,20,64} × timers-only × other data × name case {lower, mixed} × path {secret, provider}"
	}
	for _, alg := range bigAlgs {
		for _, timers := range []bool{false, true} {
			for chunk := 0; chunk < bigChunks; chunk++ {
				jobs = append(jobs, job{c11Params{shape: 5, alg: alg, req: 1, timers: timers, fudge: 300, key: c11K1, origID: -1}, 0, chunk, bigChunks, !c.Thorough})
			}
		}
	}
	c.Space("flip", rule+" (each case: the octets i ≡ chunk mod chunks of one message); library accepts ⇒ reference accepts, both directions for the two ID octets; non-trivial: at least one flip of the case is rejected by the reference because the MAC no longer matches (not by a parse failure)", true,
		func(emit func(func(*fw.R))) {
			for _, j := range jobs {
				j := j
				emit(func(r *fw.R) { c11Flip(r, j.p, j.path, j.chunk, j.chunks, j.reduced) })
			}
		})
}

func c11Flip(r *fw.R, p c11Params, path, chunk, chunks int, reduced bool) {
	p.timeSig = uint64(time.Now().Unix())
	s := c11NewSide(path, p.secret)
	req := c11ReqMAC(p.req)
	out, _, err := s.generate(p.msg(), req, p.timers)
	if err != nil {
		r.Fail("generate/error", "TsigGenerate: %v; %v", err, p)
		return
	}
	if _, ref := s.judge(r, out, req, p.timers, true, "untampered TsigGenerate output", p); !ref {
		r.Fail("model/rejects-generated", "reference rejects the untampered output; %v; %s", p, c11Hex(out))
		return
	}
	l, ok := rt.Walk(out)
	_, t, why := rt.Split(out)
	if !ok || why != "" {
		return
	}
	ts := l.RRs[len(l.RRs)-1]
	ownerEnd := ts.RdStart - 10
	algEnd := ts.RdStart + c11NameWireLen(t.Alg)
	isLetter := func(b byte) bool { return b >= 'a' && b <= 'z' || b >= 'A' && b <= 'Z' }
	msg := make([]byte, len(out))
	var flips int64
	for i := chunk; i < len(out); i += chunks {
		if reduced && !c11BigReduced(i, len(out)) {
			continue
		}
		for bit := 0; bit < 8; bit++ {
			copy(msg, out)
			msg[i] ^= 1 << bit
			flips++
			lib, now := s.verify(msg, req, p.timers)
			ref, why := rt.Verify(msg, s.lookup, req, p.timers, now)
			if why == "MAC mismatch" {
				r.Nontrivial()
			}
			what := fmt.Sprintf("bit %d of octet %d flipped (%02x→%02x)", bit, i, out[i], msg[i])
			switch {
			case lib == nil && !ref:
				r.Fail("accept/"+c11Diagnose(msg, s.lookup, req, p.timers, now, why), "TsigVerify returned nil but the RFC 8945 reference rejects (%s); %s; verify(%s, requestMAC=%x, timersOnly=%v) at now=%d; %v; untampered %s",
					why, what, s, req, p.timers, now, p, c11Hex(out))
			case lib != nil && ref && i < 2:
				r.Fail("verify/rejects-changed-id", "TsigVerify returned %q for a message whose header ID was changed in transit (digest is over the Original ID, RFC 8945 §4.3.2); %s; verify(%s, requestMAC=%x, timersOnly=%v); %v; untampered %s",
					lib, what, s, req, p.timers, p, c11Hex(out))
			case lib == nil && ref:
				switch {
				case i < 2:
					r.Count("accepted-id-flips", 1)
				case bit == 5 && (i >= ts.Start && i < ownerEnd || i >= ts.RdStart && i < algEnd) && isLetter(out[i]):
					r.Count("accepted-case-flips", 1)
				case p.timers && i >= ts.Start && i < ts.End:
					r.Count("accepted-flips-outside-timers-digest", 1)
				default:
					r.Fail("model/unexplained-accept", "both the library and the reference accept %s; %v; %s", what, p, c11Hex(out))
				}
			case lib != nil && ref:
				r.Count("reference-accepts-library-rejects", 1)
			}
		}
	}
	r.Count("flips", flips)
	if chunk == 0 {
		r.Sample(func() any {
			return fmt.Sprintf("%v via %s: %d octets, every bit of octets ≡ %d mod %d", p, s, len(out), chunk, chunks)
		})
	}
}

func c11SpaceTrunc(c *fw.Ctx) {
	type job struct {
		p             c11Params
		path          int
		chunk, chunks int
	}
	var jobs []job
	for shape := 0; shape < 5; shape++ {
		for _, alg := range c11Algs {
			for req := 0; req < 2; req++ {
				for _, timers := range []bool{false, true} {
					for path := 0; path < 2; path++ {
						jobs = append(jobs, job{c11Params{shape: shape, alg: alg, secret: shape % 2, req: 2 * req, timers: timers, other: shape == 1, fudge: 300, key: c11K1, origID: -1}, path, 0, 1})
					}
				}
			}
		}
	}
	for _, timers := range []bool{false, true} {
		for chunk := 0; chunk < 64; chunk++ {
			jobs = append(jobs, job{c11Params{shape: 5, alg: dns.HmacSHA256, req: 1, timers: timers, fudge: 300, key: c11K1, origID: -1}, 0, chunk, 64})
		}
	}
	c.Space("trunc", "every proper prefix (length 0..n−1) of the signed octets: 5 small shapes × 5 algorithms × request MAC {none,64} × timers-only × path {secret, provider}, and the near-64-KiB shape × sha256 × timers-only (64 cases of lengths ≡ chunk mod 64): must give an error; non-trivial: every case", true,
		func(emit func(func(*fw.R))) {
			for _, j := range jobs {
				j := j
				emit(func(r *fw.R) {
					p := j.p
					p.timeSig = uint64(time.Now().Unix())
					s := c11NewSide(j.path, p.secret)
					req := c11ReqMAC(p.req)
					out, _, err := s.generate(p.msg(), req, p.timers)
					if err != nil {
						r.Fail("generate/error", "TsigGenerate: %v; %v", err, p)
						return
					}
					r.Nontrivial()
					var n int64
					for cut := j.chunk; cut < len(out); cut += j.chunks {
						n++
						lib, ref := s.judge(r, out[:cut], req, p.timers, false, fmt.Sprintf("truncated to %d of %d octets", cut, len(out)), p)
						if ref {
							r.Fail("model/truncation-accepted", "reference accepts the first %d of %d octets; %v; %s", cut, len(out), p, c11Hex(out))
						}
						_ = lib
					}
					r.Count("truncations", n)
					r.Sample(func() any { return fmt.Sprintf("%v via %s: all %d proper prefixes", p, s, len(out)) })
				})
			}
		})
}

// ---------------------------------------------------------------------------------------------
// single-field alterations of the TSIG RR

type c11Alt struct {
	name string
	f    func(t *rt.Rec, T uint64)
}

func c11Alts(f uint16) []c11Alt {
	alts := []c11Alt{
		{"time signed := 0", func(t *rt.Rec, T uint64) { t.Time = 0 }},
		{"time signed −1", func(t *rt.Rec, T uint64) { t.Time-- }},
		{"time signed +1", func(t *rt.Rec, T uint64) { t.Time++ }},
		{"time signed + fudge", func(t *rt.Rec, T uint64) { t.Time += uint64(t.Fudge) }},
		{"time signed bit 40 set", func(t *rt.Rec, T uint64) { t.Time ^= 1 << 40 }},
		{"fudge := 0", func(t *rt.Rec, T uint64) { t.Fudge = 0 }},
		{"fudge −1", func(t *rt.Rec, T uint64) { t.Fudge-- }},
		{"fudge +1", func(t *rt.Rec, T uint64) { t.Fudge++ }},
		{"fudge := 65535", func(t *rt.Rec, T uint64) { t.Fudge = 65535 }},
		{"fudge := 300", func(t *rt.Rec, T uint64) { t.Fudge = 300 }},
		{"error := 1", func(t *rt.Rec, T uint64) { t.Error = 1 }},
		{"error := BADSIG", func(t *rt.Rec, T uint64) { t.Error = 16 }},
		{"error := BADKEY", func(t *rt.Rec, T uint64) { t.Error = 17 }},
		{"error toggled NOERROR/BADTIME", func(t *rt.Rec, T uint64) { t.Error ^= 18 }},
		{"other data: 6 octets appended", func(t *rt.Rec, T uint64) { t.Other = append(append([]byte{}, t.Other...), 1, 2, 3, 4, 5, 6) }},
		{"other data: removed / one octet added", func(t *rt.Rec, T uint64) {
			if len(t.Other) > 0 {
				t.Other = nil
			} else {
				t.Other = []byte{0}
			}
		}},
		{"original ID +1", func(t *rt.Rec, T uint64) { t.OrigID++ }},
		{"original ID top bit", func(t *rt.Rec, T uint64) { t.OrigID ^= 0x8000 }},
		{"MAC truncated to half", func(t *rt.Rec, T uint64) { t.MAC = t.MAC[:len(t.MAC)/2] }},
		{"MAC truncated to 10 octets", func(t *rt.Rec, T uint64) { t.MAC = t.MAC[:10] }},
		{"MAC with a zero octet appended", func(t *rt.Rec, T uint64) { t.MAC = append(append([]byte{}, t.MAC...), 0) }},
		{"MAC empty", func(t *rt.Rec, T uint64) { t.MAC = nil }},
		{"MAC all zero", func(t *rt.Rec, T uint64) { t.MAC = make([]byte, len(t.MAC)) }},
		{"class := IN", func(t *rt.Rec, T uint64) { t.Class = 1 }},
		{"class := NONE", func(t *rt.Rec, T uint64) { t.Class = 254 }},
		{"class := 0", func(t *rt.Rec, T uint64) { t.Class = 0 }},
		{"TTL := 1", func(t *rt.Rec, T uint64) { t.TTL = 1 }},
		{"TTL top bit", func(t *rt.Rec, T uint64) { t.TTL = 1 << 31 }},
		{"key name := " + c11K2, func(t *rt.Rec, T uint64) { t.Name = c11Labels(c11K2) }},
		{"key name := " + c11K3, func(t *rt.Rec, T uint64) { t.Name = c11Labels(c11K3) }},
		{"key name := unknown.example.", func(t *rt.Rec, T uint64) { t.Name = c11Labels("unknown.example.") }},
		{"key name := parent", func(t *rt.Rec, T uint64) { t.Name = t.Name[1:] }},
		{"key name := root", func(t *rt.Rec, T uint64) { t.Name = nil }},
	}
	for _, a := range append(append([]string{}, c11Algs...), c11AlgMD5, c11AlgUnknown, ".") {
		a := a
		alts = append(alts, c11Alt{"algorithm name := " + a, func(t *rt.Rec, T uint64) { t.Alg = c11Labels(a) }})
	}
	return alts
}

func c11SpaceField(c *fw.Ctx) {
	fudges := []uint16{300, 1, 65535}
	c.Space("field", fmt.Sprintf("shapes query/reply/opt/compressed × 5 algorithms × request MAC {none,20} × timers-only × fudge {300,1,65535} × path {secret, provider}; each case applies %d single-field replacements of the TSIG RR (time, fudge, error, other data, original ID, MAC length/content, class, TTL, key name, algorithm name; incl. the values 0 that the library treats as 'unset'), signed and verified in the same second: library accepts ⇒ reference accepts; non-trivial: every case", len(c11Alts(300))), true,
		func(emit func(func(*fw.R))) {
			for shape := 0; shape < 4; shape++ {
				for _, alg := range c11Algs {
					for req := 0; req < 2; req++ {
						for _, timers := range []bool{false, true} {
							for _, fudge := range fudges {
								for path := 0; path < 2; path++ {
									p := c11Params{shape: shape, alg: alg, secret: shape % 2, req: req, timers: timers, other: shape == 1, fudge: fudge, key: c11K1, origID: -1}
									path := path
									emit(func(r *fw.R) { c11Field(r, p, path) })
								}
							}
						}
					}
				}
			}
		})
}

func c11Field(r *fw.R, p c11Params, path int) {
	r.Nontrivial()
	s := c11NewSide(path, p.secret)
	req := c11ReqMAC(p.req)
	alts := c11Alts(p.fudge)
	for try := 0; try < 50; try++ {
		T := uint64(time.Now().Unix())
		p.timeSig = T
		out, _, err := s.generate(p.msg(), req, p.timers)
		if err != nil {
			r.Fail("generate/error", "TsigGenerate: %v; %v", err, p)
			return
		}
		pre, t, ok := c11Unsign(out)
		if !ok {
			r.Fail("model/split", "reference cannot split the generated message; %v; %s", p, c11Hex(out))
			return
		}
		same := true
		var acc int64
		for _, a := range alts {
			t2 := *t
			a.f(&t2, T)
			msg := rt.Attach(pre, &t2)
			lib, now := s.verify(msg, req, p.timers)
			if now != T {
				same = false
				break
			}
			ref, why := rt.Verify(msg, s.lookup, req, p.timers, now)
			if lib == nil && !ref {
				r.Fail("accept/"+c11Diagnose(msg, s.lookup, req, p.timers, now, why), "TsigVerify returned nil but the RFC 8945 reference rejects (%s); TSIG field altered after signing: %s; verify(%s, requestMAC=%x, timersOnly=%v) at now=%d; %v; untampered %s; altered %s",
					why, a.name, s, req, p.timers, now, p, c11Hex(out), c11Hex(msg))
			}
			if lib == nil && ref {
				acc++
			}
		}
		if !same {
			continue
		}
		r.Count("alterations", int64(len(alts)))
		r.Count("accepted-by-both", acc)
		r.Sample(func() any { return fmt.Sprintf("%v via %s: %d field alterations at now=%d", p, s, len(alts), T) })
		return
	}
	r.Fail("model/time-unstable", "no stable second in 50 attempts")
}

// ---------------------------------------------------------------------------------------------
// TSIG misplaced or absent

func c11SpaceAbsent(c *fw.Ctx) {
	c.Space("absent", "6 shapes × 5 algorithms × request MAC {none,20} × timers-only × path {secret, provider}: (a) the message without any TSIG with ARCOUNT ∈ {0,1,2} real additional records, and with ARCOUNT claiming 1 or 2 records that are not there; (b) the signed message with the TSIG swapped with the preceding RR, followed by one more counted RR, duplicated, moved to the end of the answer section, or followed by uncounted octets: never verified, except (b5) trailing octets where the reference accepts too (counted); non-trivial: every case", true,
		func(emit func(func(*fw.R))) {
			for shape := 0; shape < c11NShapes; shape++ {
				for _, alg := range c11Algs {
					for req := 0; req < 2; req++ {
						for _, timers := range []bool{false, true} {
							for path := 0; path < 2; path++ {
								p := c11Params{shape: shape, alg: alg, secret: shape % 2, req: req, timers: timers, fudge: 300, key: c11K1, origID: -1}
								path := path
								emit(func(r *fw.R) { c11Absent(r, p, path) })
							}
						}
					}
				}
			}
		})
}

func c11Absent(r *fw.R, p c11Params, path int) {
	r.Nontrivial()
	s := c11NewSide(path, p.secret)
	req := c11ReqMAC(p.req)
	never := func(msg []byte, what string) {
		lib, ref := s.judge(r, msg, req, p.timers, false, what, p)
		if ref {
			r.Fail("model/unsigned-accepted", "reference accepts %s; %s", what, c11Hex(msg))
		}
		if lib == nil {
			r.Fail("verify/no-tsig-verified", "TsigVerify returned nil for %s; verify(%s, requestMAC=%x, timersOnly=%v); %s", what, s, req, p.timers, c11Hex(msg))
		}
		r.Count("messages", 1)
	}
	// (a) no TSIG at all
	extraA := func(n string) dns.RR {
		return &dns.A{Hdr: dns.RR_Header{Name: n, Rrtype: dns.TypeA, Class: dns.ClassINET, Ttl: 5}, A: []byte{203, 0, 113, 7}}
	}
	for ar := 0; ar <= 2; ar++ {
		m := c11Shape(p.shape)
		for len(m.Extra) > ar {
			m.Extra = m.Extra[:len(m.Extra)-1]
		}
		for len(m.Extra) < ar {
			m.Extra = append(m.Extra, extraA(fmt.Sprintf("x%d.example.org.", len(m.Extra))))
		}
		b, err := m.Pack()
		if err != nil {
			r.Fail("model/pack", "Pack: %v", err)
			return
		}
		never(b, fmt.Sprintf("a message without TSIG and %d additional records", ar))
		if ar == 0 {
			for _, claim := range []uint16{1, 2} {
				lie := append([]byte{}, b...)
				binary.BigEndian.PutUint16(lie[10:], claim)
				never(lie, fmt.Sprintf("a message without additional records whose ARCOUNT claims %d", claim))
			}
		}
	}
	// (b) TSIG present but not where it belongs
	p.timeSig = uint64(time.Now().Unix())
	out, _, err := s.generate(p.msg(), req, p.timers)
	if err != nil {
		r.Fail("generate/error", "TsigGenerate: %v; %v", err, p)
		return
	}
	l, ok := rt.Walk(out)
	if !ok || len(l.RRs) == 0 {
		return
	}
	ts := l.RRs[len(l.RRs)-1]
	tsig := out[ts.Start:ts.End]
	setCounts := func(b []byte, an, ar int) {
		binary.BigEndian.PutUint16(b[6:], uint16(an))
		binary.BigEndian.PutUint16(b[10:], uint16(ar))
	}
	cat := func(parts ...[]byte) []byte {
		var b []byte
		for _, x := range parts {
			b = append(b, x...)
		}
		return b
	}
	if l.AR >= 2 { // swap with the preceding additional RR (valid only when that RR holds no pointer into what moves: shapes here keep names uncompressed in the additional section or point backwards)
		prev := l.RRs[len(l.RRs)-2]
		never(cat(out[:prev.Start], tsig, out[prev.Start:prev.End]), "the signed message with the TSIG swapped with the preceding additional RR")
	}
	extra := []byte{1, 'z', 0, 0, 1, 0, 1, 0, 0, 0, 5, 0, 4, 203, 0, 113, 9} // z. 5 IN A 203.0.113.9
	more := cat(out, extra)
	setCounts(more, l.AN, l.AR+1)
	never(more, "the signed message followed by one more counted additional RR")
	dup := cat(out, tsig)
	setCounts(dup, l.AN, l.AR+1)
	never(dup, "the signed message with the TSIG RR duplicated")
	anEnd := 12
	if l.AN > 0 {
		anEnd = l.RRs[l.AN-1].End
	} else if len(l.RRs) > 0 {
		anEnd = l.RRs[0].Start
	}
	moved := cat(out[:anEnd], tsig, out[anEnd:ts.Start])
	setCounts(moved, l.AN+1, l.AR-1)
	never(moved, "the signed message with the TSIG moved to the end of the answer section")
	// (b5) uncounted octets behind the TSIG: not part of the message
	trail := cat(out, extra)
	lib, ref := s.judge(r, trail, req, p.timers, false, "uncounted octets behind the TSIG", p)
	if lib == nil && ref {
		r.Count("trailing-octets-accepted", 1)
	}
	r.Sample(func() any { return fmt.Sprintf("%v via %s", p, s) })
}
