// vcheck runs the bounded-exhaustive checks (engines E1 and E3) against the dns package built from
// /repo's working tree.
package main

import "verif/harness/fw"

func main() { fw.Main() }
