package main

import (
	"fmt"
	"os"
	"path/filepath"
	"runtime/debug"
	"strconv"
	"strings"
	"testing/fstest"

	"github.com/miekg/dns"
	"verif/harness/bind"
	"verif/harness/enum"
	"verif/harness/fw"
	"verif/harness/ref/wire"
)

// c07LengthSpace: token and comment lengths around the multiples of the lexer's buffer quantum
// (scan.go: maxTok = 512), inside and outside parentheses and quotes.
func c07LengthSpace(c *fw.Ctx) {
	var lens []int
	mult := []int{1, 2, 4, 16, 32} // 16, 32: long enough for quadratic buffer handling to break the linear bound
	if c.Thorough {
		mult = []int{1, 2, 3, 4, 8, 16, 32, 64}
	}
	for _, m := range mult {
		for d := -3; d <= 3; d++ {
			lens = append(lens, 512*m+d)
		}
	}
	type shape struct {
		name  string
		build func(x string) string // x: the long run
		valid bool                  // the text is a valid zone whatever the length: 1 record, no error expected?
	}
	// fill characters: plain, escape-heavy, high octets
	fills := []struct {
		name string
		unit string
	}{{"a", "a"}, {`\.`, `\.`}, {`\065`, `\065`}, {"0xff", "\xff"}, {" ", " "}, {";", ";"}, {`"`, `"`}, {"(", "("}, {")", ")"}, {`\`, `\`}}
	shapes := []shape{
		{"owner", func(x string) string { return x + " 5 IN A 192.0.2.1\n" }, false},
		{"rdata-token", func(x string) string { return "a. 5 IN TXT " + x + "\n" }, false},
		{"quoted", func(x string) string { return "a. 5 IN TXT \"" + x + "\"\n" }, false},
		{"quoted-unterminated", func(x string) string { return "a. 5 IN TXT \"" + x }, false},
		{"rdata-in-paren", func(x string) string { return "a. 5 IN TXT ( \"s\"\n " + x + "\n )\n" }, false},
		{"quoted-in-paren", func(x string) string { return "a. 5 IN TXT ( \"" + x + "\"\n )\n" }, false},
		{"comment", func(x string) string { return "a. 5 IN A 192.0.2.1 ;" + x + "\n" }, true},
		{"comment-line", func(x string) string { return ";" + x + "\na. 5 IN A 192.0.2.1\n" }, true},
		{"comment-no-newline", func(x string) string { return "a. 5 IN A 192.0.2.1 ;" + x }, true},
		{"comment-in-paren", func(x string) string { return "a. 5 IN A ( ;" + x + "\n 192.0.2.1 )\n" }, true},
		{"two-comments-in-paren", func(x string) string {
			h := len(x) / 2
			return "a. 5 IN A ( ;" + x[:h] + "\n 192.0.2.1 ;" + x[h:] + "\n ) ; end\n"
		}, true},
		{"comments-every-line-in-paren", func(x string) string {
			var sb strings.Builder
			sb.WriteString("a. 5 IN SOA ( ; c\n")
			q := len(x) / 7
			for i, f := range []string{"ns.", "mb.", "1", "2", "3", "4", "5"} {
				sb.WriteString(" " + f + " ;" + x[i*q:(i+1)*q] + "\n")
			}
			sb.WriteString(")\n")
			return sb.String()
		}, true},
		{"unclosed-paren", func(x string) string { return "a. 5 IN A ( 192.0.2.1 ;" + x + "\n" + x }, false},
		{"generate-body", func(x string) string { return "$GENERATE 0-1 " + x + " 5 IN A 192.0.2.$\n" }, false},
		{"include-path", func(x string) string { return "$INCLUDE " + x + "\n" }, false},
		{"ttl-directive", func(x string) string { return "$TTL " + x + "\n" }, false},
		{"origin-directive", func(x string) string { return "$ORIGIN " + x + "\n" }, false},
		{"blank-run", func(x string) string { return "a. 5 IN A" + strings.Repeat(" ", len(x)) + "192.0.2.1\n" }, true},
	}
	c.Space("lengths", fmt.Sprintf("runs of length n ∈ 512·%v + {-3…3} (the lexer grows its token and comment buffers by maxTok = 512) of each fill {a, \\., \\065, 0xff, SP, ;, \", (, ), \\} (escape fills: the run is cut to n octets) placed as %d shapes: owner, RDATA token, quoted string (terminated, unterminated, in parentheses), comment (after a record, own line, at EOF, in parentheses, split over two / seven lines in parentheses), after an unclosed parenthesis, in a $GENERATE body, as $INCLUDE path / $TTL / $ORIGIN argument, run of blanks × origins {\"\", example.} × includes {off,on}; comment shapes with a comment-safe fill must still give exactly the one record; non-trivial: the run is longer than 512", mult, len(shapes)), true,
		func(emit func(func(*fw.R))) {
			for _, sh := range shapes {
				for _, f := range fills {
					for _, n := range lens {
						sh, f, n := sh, f, n
						emit(func(r *fw.R) {
							if n > 512 {
								r.Nontrivial()
							}
							x := strings.Repeat(f.unit, n/len(f.unit)+1)[:n]
							text := sh.build(x)
							cnt := 0
							for _, o := range []string{"", "example."} {
								for _, al := range []bool{false, true} {
									cfg := c07Cfg{o, al, 0}
									var want func(res c07Res, fail func(key, what string))
									// inside a comment every character is inert
									if sh.valid && (strings.HasPrefix(sh.name, "comment") || strings.Contains(sh.name, "comments")) {
										want = func(res c07Res, fail func(key, what string)) {
											if res.err != nil || res.nrec != 1 {
												fail("long-comment-changes-result", "a record with a long comment must still be the one record it is")
											}
										}
									} else if sh.valid && f.unit == " " {
										want = func(res c07Res, fail func(key, what string)) {
											if res.err != nil || res.nrec != 1 {
												fail("long-blank-run-changes-result", "a long run of blanks between two fields must not change the record")
											}
										}
									}
									c07Check(r, text, cfg, want)
									cnt++
								}
							}
							r.Count("texts_parsed", int64(cnt))
							r.Sample(func() any { return sh.name + ": " + c07Show(text) })
						})
					}
				}
			}
		})
}

// c07DirectiveSpace: the include gate, the depth limit, nested $GENERATE and the $GENERATE record bound,
// written out (the token space reaches only their shortest spellings).
func c07DirectiveSpace(c *fw.Ctx) {
	type tc struct {
		name string
		text string
		// expectations
		wantErr  bool // an error must be reported
		maxRec   int  // at most this many records (-1: no bound here)
		exactRec int  // exactly this many records (-1: not checked)
	}
	var cases []tc
	kws := []string{"$GENERATE", "$generate", "$Generate"}
	seps := []string{" ", "\t", "  "}
	// nested $GENERATE: the body of a $GENERATE spells a $GENERATE (the dollar escaped so that it survives)
	for _, k1 := range kws {
		for _, k2 := range kws {
			for _, sp := range seps {
				for _, pre := range []string{"", "v.example. 5 IN A 192.0.2.1\n"} {
					for _, rng := range []string{"0-1", "0-0", "1-3/2"} {
						body := `\` + k2 + sp + "0-1" + sp + "n$" + sp + "5" + sp + "IN" + sp + "A" + sp + "192.0.2.$"
						n := 0
						if pre != "" {
							n = 1
						}
						cases = append(cases, tc{"nested-generate", pre + k1 + sp + rng + sp + body + "\n", true, n, -1})
					}
				}
			}
		}
	}
	// $GENERATE record bound
	for _, g := range []struct {
		rng string
		n   int // records expected; -1: must be rejected
	}{
		{"0-65535", 65536}, {"0-65536", -1}, {"1-65536", 65536}, {"1-65537", -1}, {"0-131071/2", 65536}, {"0-131072/2", -1},
		{"0-99999999", -1}, {"0-4294967296", -1}, {"0-9223372036854775807", -1}, {"0-9223372036854775807/140737488355328", 65536},
		{"0-9223372036854775807/140737488355327", -1}, {"9223372036854775000-9223372036854775807", 808}, {"0-18446744073709551616", -1},
		{"-5-5", -1}, {"5-1", -1}, {"0-10/0", -1}, {"0-10/-1", -1}, {"0-10/99999999999999999999", -1}, {"0-2147483647/32768", 65536}, {"0-2147483648/32768", -1},
	} {
		text := "$GENERATE " + g.rng + " h$ 5 IN A 192.0.2.1\n"
		if g.n < 0 {
			cases = append(cases, tc{"generate-bound", text, true, 0, -1})
		} else {
			cases = append(cases, tc{"generate-bound", text, false, 65536, g.n})
		}
	}
	// ${offset,width,base} modifiers with field widths up to and far beyond what a name or a string can hold: whatever
	// is accepted, the parse stays within the memory bound of its text times the records it yields
	for _, w := range []string{"0", "1", "63", "64", "254", "255", "256", "257", "1000", "65535", "65536", "1000000", "9999999", "4294967296", "99999999999999999999"} {
		for _, tmpl := range []string{"h 5 IN TXT ${0,%s,d}", "h${0,%s,d} 5 IN A 192.0.2.1", "h 5 IN TXT ${0,%s,x} ${1,%s,o}"} {
			cases = append(cases, tc{"generate-width", "$GENERATE 0-1 " + strings.ReplaceAll(tmpl, "%s", w) + "\n", false, 2, -1})
		}
	}
	// an extra ")" at every token boundary of record and directive lines
	for _, line := range []string{"a. 5 IN A 192.0.2.1", "a. 5 IN MX 10 m.", "a. 5 IN SOA ns. mb. 1 2 3 4 5", "a. 5 IN TXT \"s\" t", "a. 5 IN NS ns.", "a. 5 IN CNAME c.",
		"$TTL 5", "$ORIGIN o.", "$INCLUDE x", "$INCLUDE x o.", "$GENERATE 0-1 h$ 5 IN A 192.0.2.$"} {
		f := strings.Fields(line)
		for i := 0; i <= len(f); i++ {
			for _, glue := range []string{" ) ", ")", " )", ") "} {
				t := strings.Join(f[:i], " ") + glue + strings.Join(f[i:], " ")
				cases = append(cases, tc{"extra-close", strings.TrimLeft(t, " ") + "\nafter. 5 IN A 192.0.2.1\n", false, -1, -1}) // judged by the lexical oracle in c07Check
			}
		}
	}
	// the same for one record line of every registered type (the line is the library's own rendering of the
	// type's default vector — plumbing; what is judged is the text), and an unmatched "(" as well
	nTyped := 0
	for _, t := range regTypes() {
		sp := wire.Specs[t]
		if sp == nil || t == 41 {
			continue
		}
		rr, err := bind.ToGo(&wire.RR{Name: enum.L("a", "example"), Type: t, Class: 1, TTL: 5, Vals: enum.Default(sp)})
		if err != nil {
			continue
		}
		line := rr.String()
		if x, err := dns.NewRR(line); err != nil || x == nil {
			continue // not re-readable as it stands (C05's business), or rendered as a comment (NULL)
		}
		nTyped++
		f := strings.Fields(line)
		for i := 3; i <= len(f); i++ {
			for _, glue := range []string{" ) ", ")", " ( ", "("} {
				t := strings.Join(f[:i], " ") + glue + strings.Join(f[i:], " ")
				cases = append(cases, tc{"extra-close", t + "\nafter. 5 IN A 192.0.2.1\n", false, -1, -1})
			}
		}
	}
	c.Space("directives", fmt.Sprintf("%d written-out directive inputs: an extra ')' at every token boundary (4 spacings) of A/MX/SOA/TXT/NS/CNAME record lines and of each directive line, and an extra ')' / '(' (2 spacings each) at every token boundary behind the class of one record line of each of %d registered types, followed by a valid line (must be an error, and the following line's record must not be returned after an unmatched ')'); $GENERATE modifiers with field widths 0 … 10^20 (memory bound per record yielded); nested $GENERATE (3×3 keyword cases × 3 separators × with/without a preceding record × 3 outer ranges: must be an error with no generated record) and 20 $GENERATE ranges at and beyond the 65536-record bound and the int64 edges (count exact, or rejected with no record) × origins {\"\",example.} × includes {off,on}; and $GENERATE → $INCLUDE → $GENERATE through on-disk files; non-trivial: all", len(cases), nTyped), true,
		func(emit func(func(*fw.R))) {
			for _, t := range cases {
				t := t
				emit(func(r *fw.R) {
					r.Nontrivial()
					for _, o := range []string{"", "example."} {
						for _, al := range []bool{false, true} {
							if t.exactRec > 1000 && (o == "" || al) {
								continue // the 65536-record runs once
							}
							c07Check(r, t.text, c07Cfg{o, al, 0}, func(res c07Res, fail func(key, what string)) {
								if t.wantErr && res.err == nil {
									fail(t.name+"/no-error", "an error must be reported")
								}
								if !t.wantErr && t.name == "generate-bound" && res.err != nil && o != "" {
									fail(t.name+"/rejected", "a range within the limits was rejected")
								}
								if t.name == "extra-close" && res.after {
									fail("record-after-lexical-error", "the record of the line after the one with the unmatched ')' was returned")
								}
								if t.maxRec >= 0 && res.nrec > t.maxRec {
									fail(t.name+"/records", fmt.Sprintf("at most %d records may be returned", t.maxRec))
								}
								if t.exactRec >= 0 && res.err == nil && res.nrec != t.exactRec {
									fail(t.name+"/count", fmt.Sprintf("want exactly %d records", t.exactRec))
								}
							})
						}
					}
					r.Sample(func() any { return t.name + ": " + c07Show(t.text) })
				})
			}
			// $GENERATE whose body includes a file that itself has a $GENERATE (dynamic nesting)
			emit(func(r *fw.R) {
				r.Nontrivial()
				d := c07DiskDir()
				if err := os.WriteFile(filepath.Join(d, "g"), []byte("$GENERATE 0-1 inner$ 5 IN A 192.0.2.$\n"), 0o644); err != nil {
					panic(err)
				}
				text := "$GENERATE 0-1 \\$INCLUDE g\n"
				for _, al := range []bool{false, true} {
					zp := dns.NewZoneParser(strings.NewReader(text), "example.", filepath.Join(d, "main.zone"))
					zp.SetIncludeAllowed(al)
					n := 0
					for _, ok := zp.Next(); ok && n < 100; _, ok = zp.Next() {
						n++
					}
					if !al && n > 0 {
						r.Fail("include-gate/os-open-via-generate", "includes off, but $GENERATE 0-1 \\$INCLUDE g returned %d records from the on-disk file", n)
					}
					if al && n > 0 {
						r.Fail("nested-generate/via-include", "a $GENERATE ran inside a $GENERATE (through an $INCLUDE in the outer body): %q with g = %q returned %d records, Err() = %v", text, "$GENERATE 0-1 inner$ 5 IN A 192.0.2.$\n", n, zp.Err())
					}
				}
			})
		})
}

// c07ErrorPositionSpace: "syntax errors carry file, line and column" — the line is the line of the input on which
// the offending token stands. One bad single-line entry whose fault is a token of that line, behind every prefix
// shape that moves the line count (records, blank lines, comment lines, a record parenthesised over three lines
// with a comment inside, a quoted string holding a line break, CR LF line ends, an $ORIGIN and a $TTL line).
func c07ErrorPositionSpace(c *fw.Ctx) {
	bads := []string{
		"b. 3600 IN A 1.2.3.400", "b. 3600 IN MX ten mail.", "b. 3600 IN BOGUSTYPE x", "b. 3600 XX A 1.2.3.4", "b. 99999999999 IN A 1.2.3.4",
		"b. 3600 IN AAAA 1.2.3.4", "b. 3600 IN SOA a. b. 1 2 3 4 x", "b. 3600 IN SRV 1 2 x target.", "$TTL abc", "$ORIGIN not..valid.",
		"b. 3600 IN SVCB 1 . port=abc", "b. 3600 IN NID 1 zz", "b. 3600 IN LOC 91 0 0 N 0 0 0 E 0m", "b..c. 3600 IN A 1.2.3.4", "b. 3600 IN MX 10 a..b.",
		"b. 3600 IN A 1.2.3.4 extra", "b. 3600 IN TXT \"a\" )", "b. 3600 IN NSEC c. BOGUS", "b. 3600 IN RRSIG A 8 2 3600 x y 1 example. AAAA",
		"b. 3600 IN APL x:1.2.3.4/32", "b. 3600 IN IPSECKEY 1 1 1 zzz AAAA", "b. 3600 IN NAPTR 1 1 a b c", "b. 3600 IN A ( 1.2.3.400 )", "  3600 IN A 1.2.3.400",
	}
	type pre struct {
		text string
		recs int
	}
	pres := []pre{
		{"", 0},
		{"a. 3600 IN A 1.2.3.4\n", 1},
		{"\n\n", 0},
		{"; only a comment\n", 0},
		{"a. 3600 IN A 1.2.3.4 ; trailing comment\n\n; c\n", 1},
		{"a. 3600 IN MX 1 (\n m. ; inside\n )\n", 1},
		{"a. 3600 IN TXT \"line one\nline two\"\n", 1},
		{"a. 3600 IN A 1.2.3.4\r\na. 3600 IN A 1.2.3.5\r\n", 2},
		{"$ORIGIN example.\n$TTL 60\nx A 1.2.3.4\n", 1},
		{"a. 3600 IN A 1.2.3.4\n\n\n\n\n\n\n\n\n\n", 1},
	}
	c.Space("error-position", fmt.Sprintf("%d bad single-line entries (the fault is a token of that line: bad address, number, type, class, TTL, name, rdata word, unmatched ')', garbage after rdata; omitted-owner form included) behind %d prefixes that move the line count (records, blank and comment lines, a record parenthesised over three lines, a quoted string holding a line break, CR LF line ends, directives, ten blank lines) and followed by a valid line × origins {\"\", example.}: an error is reported, it names the zone file, its line is the line the bad entry stands on, its column lies within that line, the records before it were returned and the one after it was not; non-trivial: all", len(bads), len(pres)), true,
		func(emit func(func(*fw.R))) {
			for _, b := range bads {
				for _, p := range pres {
					b, p := b, p
					emit(func(r *fw.R) {
						r.Nontrivial()
						text := p.text + b + "\nafter. 5 IN A 192.0.2.1\n"
						wantLine := strings.Count(p.text, "\n") + 1
						for _, o := range []string{"", "example."} {
							c07Check(r, text, c07Cfg{o, false, 0}, func(res c07Res, fail func(key, what string)) {
								if res.err == nil {
									fail("error-position/no-error", "the entry "+strconv.Quote(b)+" must be reported as an error")
									return
								}
								if res.after {
									fail("error-position/record-after-error", "the record behind the bad entry was returned")
								}
								if res.nrec != p.recs && !(o == "" && strings.Contains(p.text, "\nx A")) {
									fail("error-position/records-before", fmt.Sprintf("%d records were returned before the error, the text has %d before the bad entry", res.nrec, p.recs))
								}
								_, l, col, ok := c07ErrPos(res.err.Error())
								if !ok {
									return // reported by c07Check
								}
								if l != wantLine {
									fail("error-position/line", fmt.Sprintf("the error is reported at line %d, the bad entry %s stands on line %d", l, strconv.Quote(b), wantLine))
								} else if col < 1 || col > len(b)+1 {
									fail("error-position/column", fmt.Sprintf("the error is reported at column %d of a line of %d characters", col, len(b)))
								}
							})
						}
						r.Sample(func() any { return c07Show(text) })
					})
				}
			}
		})
}

// c07DryDirectiveSpace: long runs of directives that yield no record. The parser hands the records of a $GENERATE
// or $INCLUDE on through a sub-parser; what it does when a sub-parser runs dry must not cost stack per directive
// (a zone of a few megabytes is "memory proportional to the input", a goroutine stack that grows by a kilobyte per
// line until the runtime kills the process is not). The goroutine stack is capped at 32 MiB for these cases so that
// 60 000 lines show what otherwise takes 500 000.
func c07DryDirectiveSpace(c *fw.Ctx) {
	kinds := []struct{ name, line string }{
		{"$GENERATE with an empty template", "$GENERATE 0-0 \n"},
		{"$INCLUDE of a file without records", "$INCLUDE e\n"},
		{"$INCLUDE of a file holding a dry $GENERATE", "$INCLUDE g\n"},
		{"both, alternating", "$GENERATE 0-0 \n$INCLUDE e\n"},
	}
	c.Space("dry-directives", "n ∈ {1, 1000, 60000} directives in a row that yield no record ($GENERATE with an empty template, $INCLUDE of an empty file, $INCLUDE of a file with a dry $GENERATE, alternating), then one record; goroutine stack capped at 32 MiB: the record is returned, no error, no crash; non-trivial: n = 60000", true,
		func(emit func(func(*fw.R))) {
			for _, k := range kinds {
				for _, n := range []int{1, 1000, 60000} {
					k, n := k, n
					emit(func(r *fw.R) {
						if n == 60000 {
							r.Nontrivial()
						}
						old := debug.SetMaxStack(32 << 20)
						defer debug.SetMaxStack(old)
						text := strings.Repeat(k.line, n) + "after. 5 IN A 192.0.2.1\n"
						zp := dns.NewZoneParser(strings.NewReader(text), "example.", "main.zone")
						zp.SetIncludeAllowed(true)
						zp.SetIncludeFS(fstest.MapFS{"e": {Data: []byte("; nothing here\n")}, "g": {Data: []byte("$GENERATE 0-0 \n")}})
						recs := 0
						for _, ok := zp.Next(); ok && recs < 10; _, ok = zp.Next() {
							recs++
						}
						if recs != 1 || zp.Err() != nil {
							r.Fail("dry-directives/result", "%d × %s, then one record: %d records, Err() = %v", n, k.name, recs, zp.Err())
						}
					})
				}
			}
		})
}

// c07CutShortSpace: the input ends in the middle of an entry. Whether the last line has a line terminator is lexical
// trivia: a text that is an error when a newline follows it is an error without one too — the parser may not drop
// the entry it could not finish.
func c07CutShortSpace(c *fw.Ctx) {
	entries := []string{
		"a. 5 IN A 192.0.2.1", "a. IN 5 MX 10 mail.example.", "  5 IN A 192.0.2.1", "a. A 192.0.2.1", "a. 5 IN TXT \"x y\" ( \"z\" )",
		"$TTL 300", "$ORIGIN example.", "$INCLUDE x1", "$GENERATE 1-2 a$ A 192.0.2.$", "a. 5 IN SOA ns. hm. 1 2 3 4 5",
	}
	c.Space("cut-short", fmt.Sprintf("%d entries (records in four header shapes, TXT in parentheses, SOA, $TTL, $ORIGIN, $INCLUDE, $GENERATE) behind a complete record line, the text cut after every octet of the entry, without a final newline: if the same text followed by a newline is an error, the text itself is an error too or yields a record for the cut entry (it is not dropped silently), and the record of the first line is returned in both; × origins {\"\", example.}; non-trivial: the cut text with a newline is an error", len(entries)), true,
		func(emit func(func(*fw.R))) {
			for _, e := range entries {
				e := e
				emit(func(r *fw.R) {
					pre := "first. 5 IN A 192.0.2.9\n"
					for k := 1; k <= len(e); k++ {
						cut := pre + e[:k]
						for _, o := range []string{"", "example."} {
							cfg := c07Cfg{o, true, 1}
							var p1, p2 []string
							with := c07Run(cut+"\n", cfg, &p1)
							without := c07Run(cut, cfg, &p2)
							if with.err != nil {
								r.Nontrivial()
								// (an RDATA-less record — 'a. 5 IN A ' at the end of the input — is a record, not a dropped entry)
								if without.err == nil && without.nrec <= 1 {
									r.Fail("cut-short/dropped-silently", "the input %s (no final newline) ends in the middle of an entry and is accepted: %d records, Err() = nil; with a newline behind it: %v\n   config: %s", c07Show(cut), without.nrec, with.err, cfg)
								}
							}
							if without.nrec < 1 || with.nrec < 1 {
								r.Fail("cut-short/first-record-lost", "the complete first line was not returned for %s: %d / %d records (without / with final newline)", c07Show(cut), without.nrec, with.nrec)
							}
						}
					}
					r.Count("cuts", int64(len(e)))
				})
			}
		})
}
