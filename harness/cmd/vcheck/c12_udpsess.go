package main

import (
	"fmt"
	"net"
	"time"

	"github.com/miekg/dns"
	"verif/harness/fw"
)

// C12, datagram sessions on a real socket: a Server on a wildcard *net.UDPConn answers from the address each
// request was sent to (udp.go keeps the kernel's control message in the SessionUDP). The simulated sockets of the
// scheduler engine cannot reach this code (it needs *net.UDPConn), so this space uses the loopback interface:
// k requests to different local addresses are read one after the other while every handler is held back (the
// order is forced with channels, nothing is left to timing), then the handlers reply in every order. A reply must
// arrive at the socket that sent its request, from the address that request was sent to, with that request's
// question. A reply that does not arrive within 5 s counts as inconclusive, never as a violation.

var c12Locals = []string{"127.0.0.1", "127.0.0.2", "127.0.0.3"}

func c12UDPSessionSpace(c *fw.Ctx) {
	type cs struct {
		dst  []int
		perm []int
	}
	var cases []cs
	perms := func(k int) [][]int {
		var out [][]int
		var rec func(cur []int, used int)
		rec = func(cur []int, used int) {
			if len(cur) == k {
				out = append(out, append([]int(nil), cur...))
				return
			}
			for i := 0; i < k; i++ {
				if used&(1<<i) == 0 {
					rec(append(cur, i), used|1<<i)
				}
			}
		}
		rec(nil, 0)
		return out
	}
	for k := 2; k <= 3; k++ {
		n := 1
		for i := 0; i < k; i++ {
			n *= len(c12Locals)
		}
		for a := 0; a < n; a++ {
			dst := make([]int, k)
			for i, x := 0, a; i < k; i, x = i+1, x/len(c12Locals) {
				dst[i] = x % len(c12Locals)
			}
			for _, p := range perms(k) {
				cases = append(cases, cs{dst, p})
			}
		}
	}
	c.Space("udp-sessions", fmt.Sprintf("a Server on a wildcard UDP socket of the loopback interface: k ∈ {2,3} requests sent to every assignment of the local addresses %v, all read while their handlers are held back (order forced with channels), the handlers then reply in every order (%d cases): each reply arrives at its requester's socket from the address the request was sent to, with that request's question and ID; a reply missing after 5 s is inconclusive; non-trivial: two requests went to different addresses", c12Locals, len(cases)), true,
		func(emit func(func(*fw.R))) {
			for _, t := range cases {
				t := t
				emit(func(r *fw.R) {
					for i := range t.dst {
						if t.dst[i] != t.dst[0] {
							r.Nontrivial()
						}
					}
					c12UDPSessionCase(r, t.dst, t.perm)
				})
			}
		})
}

func c12UDPSessionCase(r *fw.R, dst, perm []int) {
	k := len(dst)
	pc, err := net.ListenUDP("udp4", &net.UDPAddr{IP: net.IPv4zero, Port: 0})
	if err != nil {
		r.Count("inconclusive/no-socket", 1)
		return
	}
	port := pc.LocalAddr().(*net.UDPAddr).Port
	started := make([]chan struct{}, k)
	release := make([]chan struct{}, k)
	for i := range started {
		started[i], release[i] = make(chan struct{}), make(chan struct{})
	}
	up := make(chan struct{})
	srv := &dns.Server{PacketConn: pc, NotifyStartedFunc: func() { close(up) }}
	srv.Handler = dns.HandlerFunc(func(w dns.ResponseWriter, q *dns.Msg) {
		i := int(q.Id) - 1000
		if i < 0 || i >= k {
			return
		}
		close(started[i])
		<-release[i]
		m := new(dns.Msg)
		m.SetReply(q)
		m.Answer = []dns.RR{&dns.TXT{Hdr: dns.RR_Header{Name: q.Question[0].Name, Rrtype: dns.TypeTXT, Class: 1, Ttl: 1}, Txt: []string{fmt.Sprintf("reply-%d", i)}}}
		w.WriteMsg(m)
	})
	done := make(chan error, 1)
	go func() { done <- srv.ActivateAndServe() }()
	select {
	case <-up:
	case err := <-done:
		r.Count("inconclusive/no-server", 1)
		_ = err
		pc.Close()
		return
	}
	defer func() {
		for i := range release {
			select {
			case <-release[i]:
			default:
				close(release[i])
			}
		}
		srv.Shutdown()
	}()
	socks := make([]*net.UDPConn, k)
	for i := 0; i < k; i++ {
		s, err := net.ListenUDP("udp4", &net.UDPAddr{IP: net.IPv4(127, 0, 0, 1), Port: 0})
		if err != nil {
			r.Count("inconclusive/no-socket", 1)
			return
		}
		defer s.Close()
		socks[i] = s
		q := new(dns.Msg)
		q.SetQuestion(fmt.Sprintf("q%d.example.", i), dns.TypeTXT)
		q.Id = uint16(1000 + i)
		b, _ := q.Pack()
		if _, err := s.WriteToUDP(b, &net.UDPAddr{IP: net.ParseIP(c12Locals[dst[i]]), Port: port}); err != nil {
			r.Count("inconclusive/cannot-send", 1)
			return
		}
		select {
		case <-started[i]:
		case <-time.After(5 * time.Second):
			r.Count("inconclusive/request-not-delivered", 1)
			return
		}
	}
	for _, i := range perm {
		close(release[i])
		buf := make([]byte, 2048)
		socks[i].SetReadDeadline(time.Now().Add(5 * time.Second))
		n, from, err := socks[i].ReadFromUDP(buf)
		if err != nil {
			// a reply sent from another address than the one asked still arrives here (the socket is not
			// connected); nothing arriving at all is not evidence
			r.Count("inconclusive/no-reply", 1)
			continue
		}
		m := new(dns.Msg)
		if err := m.Unpack(buf[:n]); err != nil {
			r.Fail("udp-session/reply-undecodable", "client %d: %v", i, err)
			continue
		}
		want := c12Locals[dst[i]]
		if !from.IP.Equal(net.ParseIP(want)) {
			r.Fail("udp-session/reply-from-other-address", "requests sent to %v, replies released in order %v: the reply for request %d (sent to %s) came from %s", dstNames(dst), perm, i, want, from.IP)
		}
		if int(m.Id) != 1000+i || len(m.Question) != 1 || m.Question[0].Name != fmt.Sprintf("q%d.example.", i) || len(m.Answer) != 1 || m.Answer[0].(*dns.TXT).Txt[0] != fmt.Sprintf("reply-%d", i) {
			r.Fail("udp-session/foreign-reply", "client %d received %v", i, m)
		}
	}
}

func dstNames(dst []int) []string {
	var s []string
	for _, d := range dst {
		s = append(s, c12Locals[d])
	}
	return s
}
