package main

import (
	"encoding/base64"
	"encoding/binary"
	"encoding/hex"
	"fmt"
	"net"
	"strings"
	"time"
	rn "verif/harness/ref/name"
	rt "verif/harness/ref/tsig"

	"github.com/miekg/dns"
	rx "verif/harness/ref/xfr"
)

// C15 fault scripts: what the scripted server transmits. A script is a shape (query + record
// sequence), a composition of the records into envelopes, and a list of fault operations applied in
// three stages: (A) on the logical envelopes before signing, (B) on the signed messages, (C) on the
// octet stream.

const (
	c15Zone    = "example."
	c15Key     = "xfr-key."
	c15KeyAlt  = "other-key."                                       // not configured at the client
	c15Key2    = "second-key."                                      // configured at the client (secret c15Secret2), not the key of the request
	c15Secret  = "Vm9yIGRlbSBHZXNldHogc3RlaHQgZWluIFTDvHJow7x0ZXI=" // fixed shared secrets (base64)
	c15Secret2 = "RGVyIFByb3plc3MgLSBLYWZrYSAtIDE5MjUgLSBLYXAuIDk="
	c15ID      = 0x4d2c
)

func c15Secrets() map[string]string {
	return map[string]string{c15Key: c15Secret, c15Key2: c15Secret2}
}

// ---- records ----

type c15rec struct {
	soa    bool
	serial uint32
	idx    int // non-SOA: which one
}

func (x c15rec) String() string {
	if x.soa {
		return fmt.Sprintf("SOA%d", x.serial)
	}
	return fmt.Sprintf("r%d", x.idx)
}

func (x c15rec) rr() dns.RR {
	if x.soa {
		return &dns.SOA{Hdr: dns.RR_Header{Name: c15Zone, Rrtype: dns.TypeSOA, Class: dns.ClassINET, Ttl: 3600},
			Ns: "ns." + c15Zone, Mbox: "root." + c15Zone, Serial: x.serial, Refresh: 7200, Retry: 3600, Expire: 1209600, Minttl: 300}
	}
	owner := fmt.Sprintf("h%d.%s", x.idx, c15Zone)
	switch x.idx % 4 {
	case 0:
		return &dns.A{Hdr: dns.RR_Header{Name: owner, Rrtype: dns.TypeA, Class: dns.ClassINET, Ttl: 300}, A: net.IPv4(192, 0, 2, byte(x.idx+1)).To4()}
	case 1:
		return &dns.TXT{Hdr: dns.RR_Header{Name: owner, Rrtype: dns.TypeTXT, Class: dns.ClassINET, Ttl: 60}, Txt: []string{fmt.Sprintf("record %d", x.idx)}}
	case 2:
		return &dns.MX{Hdr: dns.RR_Header{Name: c15Zone, Rrtype: dns.TypeMX, Class: dns.ClassINET, Ttl: 300}, Preference: uint16(x.idx), Mx: owner}
	}
	return &dns.AAAA{Hdr: dns.RR_Header{Name: owner, Rrtype: dns.TypeAAAA, Class: dns.ClassINET, Ttl: 300}, AAAA: net.ParseIP(fmt.Sprintf("2001:db8::%x", x.idx+1))}
}

var c15textCache = map[c15rec]string{}

// text is the record's presentation form (used to compare delivered with transmitted records).
func (x c15rec) text() string {
	t, ok := c15textCache[x]
	if !ok {
		t = x.rr().String()
		c15textCache[x] = t
	}
	return t
}

func c15SOA(s uint32) c15rec { return c15rec{soa: true, serial: s} }

// ---- shapes ----

type c15shape struct {
	name string
	ixfr bool
	qser uint32
	recs []c15rec
}

func (sh *c15shape) query(tsig bool) *dns.Msg {
	q := new(dns.Msg)
	if sh.ixfr {
		q.SetIxfr(c15Zone, sh.qser, "ns."+c15Zone, "root."+c15Zone)
	} else {
		q.SetAxfr(c15Zone)
	}
	q.Id = c15ID
	if tsig {
		q.SetTsig(c15Key, dns.HmacSHA256, 300, time.Now().Unix())
	}
	return q
}

func (sh *c15shape) refQuery(tsig bool) rx.Query {
	return rx.Query{IXFR: sh.ixfr, Serial: sh.qser, ID: c15ID, TSIG: tsig}
}

// zone of n records (SOA + n-1 others) as transmitted: n+1 records.
func c15ZoneRecs(n int, serial uint32) []c15rec {
	recs := []c15rec{c15SOA(serial)}
	for i := 1; i < n; i++ {
		recs = append(recs, c15rec{idx: i})
	}
	return append(recs, c15SOA(serial))
}

// c15Shapes lists every answer shape with at most maxM transmitted records.
func c15Shapes(maxM int) []*c15shape {
	var out []*c15shape
	add := func(sh *c15shape) {
		if len(sh.recs) <= maxM {
			out = append(out, sh)
		}
	}
	for n := 1; n <= 5; n++ {
		add(&c15shape{name: fmt.Sprintf("axfr-n%d", n), recs: c15ZoneRecs(n, 3)})
	}
	add(&c15shape{name: "ixfr-uptodate-equal", ixfr: true, qser: 3, recs: []c15rec{c15SOA(3)}})
	add(&c15shape{name: "ixfr-uptodate-client-newer", ixfr: true, qser: 4, recs: []c15rec{c15SOA(3)}})
	add(&c15shape{name: "ixfr-single-soa-but-server-newer", ixfr: true, qser: 2, recs: []c15rec{c15SOA(3)}})
	for n := 1; n <= 5; n++ {
		add(&c15shape{name: fmt.Sprintf("ixfr-fallback-n%d", n), ixfr: true, qser: 1, recs: c15ZoneRecs(n, 3)})
	}
	// k difference sequences, sequence i deletes d[i] and adds a[i] records (0..2 each); serials S-k .. S.
	const S = 10
	for k := 1; k <= 3; k++ {
		da := make([]int, 2*k)
		var rec func(pos int)
		rec = func(pos int) {
			if pos == len(da) {
				recs := []c15rec{c15SOA(S)}
				idx := 1
				var nm strings.Builder
				for i := 0; i < k; i++ {
					fmt.Fprintf(&nm, "-d%da%d", da[2*i], da[2*i+1])
					recs = append(recs, c15SOA(uint32(S-k+i)))
					for j := 0; j < da[2*i]; j++ {
						recs = append(recs, c15rec{idx: idx})
						idx++
					}
					recs = append(recs, c15SOA(uint32(S-k+i+1)))
					for j := 0; j < da[2*i+1]; j++ {
						recs = append(recs, c15rec{idx: idx})
						idx++
					}
				}
				recs = append(recs, c15SOA(S))
				// the first difference starts at the client's serial (the normal case) or the client is older still
				add(&c15shape{name: fmt.Sprintf("ixfr-k%d%s-qeq", k, nm.String()), ixfr: true, qser: uint32(S - k), recs: recs})
				add(&c15shape{name: fmt.Sprintf("ixfr-k%d%s-qlt", k, nm.String()), ixfr: true, qser: uint32(S - k - 1), recs: recs})
				return
			}
			for v := 0; v <= 2; v++ {
				da[pos] = v
				rec(pos + 1)
			}
		}
		rec(0)
	}
	return out
}

// c15WrapShapes: IXFR answers whose serials lie on both sides of the 32-bit wrap or more than 2^31 apart as
// plain integers, where "same or newer" (RFC 1995 §2) must be RFC 1982 serial arithmetic.
func c15WrapShapes() []*c15shape {
	var out []*c15shape
	const M = 0xFFFFFFFF
	// the single-SOA answer: client up to date (equal / newer in serial arithmetic although smaller as an integer)
	// … and with the serial 0 on either side (a legal serial, not "no serial"): client 0 / server 0, client 0 / server older
	// than 0 in serial arithmetic, client newer than a server at 0
	for _, p := range [][2]uint32{{M, M}, {M, 1}, {M - 1, 3}, {0x80000005, 7}, {5, 0x7FFFFFF0}, {0, 0}, {M, 0}, {0x80000001, 0}, {0, 1}, {0, 0x7FFFFFFF}} {
		out = append(out, &c15shape{name: fmt.Sprintf("ixfr-uptodate-S%d-q%d", p[0], p[1]), ixfr: true, qser: p[1], recs: []c15rec{c15SOA(p[0])}})
	}
	// the server is newer in serial arithmetic although its serial is the smaller integer: one and two difference
	// sequences across the wrap, and the AXFR-style fallback
	type seq struct{ ser []uint32 } // ser[0] = client serial = first old serial … ser[k] = S
	for _, sq := range []seq{{[]uint32{M, 1}}, {[]uint32{M - 1, M, 2}}, {[]uint32{0x80000006, 5}}, {[]uint32{0xF0000000, 0x10000000, 0x30000000}}} {
		k := len(sq.ser) - 1
		S := sq.ser[k]
		for d := 0; d <= 2; d++ {
			for a := 0; a <= 2; a++ {
				recs := []c15rec{c15SOA(S)}
				idx := 1
				for i := 0; i < k; i++ {
					recs = append(recs, c15SOA(sq.ser[i]))
					for j := 0; j < d; j++ {
						recs = append(recs, c15rec{idx: idx})
						idx++
					}
					recs = append(recs, c15SOA(sq.ser[i+1]))
					for j := 0; j < a; j++ {
						recs = append(recs, c15rec{idx: idx})
						idx++
					}
				}
				recs = append(recs, c15SOA(S))
				if len(recs) <= 9 {
					out = append(out, &c15shape{name: fmt.Sprintf("ixfr-wrap-k%d-d%da%d-S%d-q%d", k, d, a, S, sq.ser[0]), ixfr: true, qser: sq.ser[0], recs: recs})
				}
			}
		}
		for n := 1; n <= 3; n++ {
			out = append(out, &c15shape{name: fmt.Sprintf("ixfr-wrap-fallback-n%d-S%d-q%d", n, S, sq.ser[0]), ixfr: true, qser: sq.ser[0], recs: c15ZoneRecs(n, S)})
		}
	}
	return out
}

// compose splits recs into envelopes: bit g of mask set = envelope boundary after record g.
func c15Compose(recs []c15rec, mask int) [][]c15rec {
	var envs [][]c15rec
	cur := []c15rec{}
	for i, r := range recs {
		cur = append(cur, r)
		if i == len(recs)-1 || mask&(1<<i) != 0 {
			envs = append(envs, cur)
			cur = []c15rec{}
		}
	}
	return envs
}

// ---- fault operations ----

type c15opKind int

const (
	// stage A: logical envelopes (the sender signs the result correctly)
	opWrongID c15opKind = iota
	opRcode
	opFirstNotSOA
	opExtras
	opEmpty
	// stage B: signed messages
	opDrop
	opDup
	opSwap
	opStrip
	opStripKeepAR
	opRekeySecret
	opRekeyName
	opRekeyKnown
	opMacShort
	// stage B2: one octet of one message
	opAlter
	// stage C: the octet stream
	opCut
)

type c15op struct {
	k    c15opKind
	i, j int
}

func (o c15op) stage() int {
	switch {
	case o.k <= opEmpty:
		return 0
	case o.k <= opMacShort:
		return 1
	case o.k == opAlter:
		return 2
	}
	return 3
}

func (o c15op) String() string {
	switch o.k {
	case opWrongID:
		return fmt.Sprintf("wrong-id(env %d, xor %#x)", o.i, o.j)
	case opRcode:
		return fmt.Sprintf("rcode(env %d, %d)", o.i, o.j)
	case opFirstNotSOA:
		return fmt.Sprintf("first-not-soa(variant %d)", o.i)
	case opExtras:
		return fmt.Sprintf("extras-after-closing-soa(variant %d)", o.i)
	case opEmpty:
		return fmt.Sprintf("insert-empty-answer(before env %d)", o.i)
	case opDrop:
		return fmt.Sprintf("drop(msg %d)", o.i)
	case opDup:
		return fmt.Sprintf("duplicate(msg %d)", o.i)
	case opSwap:
		return fmt.Sprintf("swap(msg %d, msg %d)", o.i, o.j)
	case opStrip:
		return fmt.Sprintf("strip-tsig(msg %d)", o.i)
	case opStripKeepAR:
		return fmt.Sprintf("replace-tsig-by-TXT(msg %d)", o.i)
	case opRekeySecret:
		return fmt.Sprintf("re-sign-with-other-secret(msg %d)", o.i)
	case opRekeyName:
		return fmt.Sprintf("re-sign-with-unknown-key(msg %d)", o.i)
	case opRekeyKnown:
		return fmt.Sprintf("re-sign-with-another-configured-key(msg %d)", o.i)
	case opMacShort:
		return fmt.Sprintf("mac-shortened-to(msg %d, %d octets)", o.i, o.j)
	case opAlter:
		return fmt.Sprintf("alter(msg %d, octet %d, xor %#02x)", o.i, o.j>>8, o.j&0xff)
	case opCut:
		return fmt.Sprintf("close-connection-after(%d octets)", o.i)
	}
	return "?"
}

type c15lenv struct {
	idXor uint16
	rcode int
	recs  []c15rec
}

const (
	wSigned = iota
	wStripped
	wStrippedKeepAR
	wRekeySecret
	wRekeyName
	wRekeyKnown
	wMacShort
)

type c15wenv struct {
	src    int // index of the logical envelope (= position in the sender's MAC chain)
	mode   int
	alter  [][2]int // offset, xor mask
	macLen int      // wMacShort: octets of the MAC that are kept
}

type c15script struct {
	viaProvider bool // the client's keys are configured through Transfer.TsigProvider
	sh          *c15shape
	tsig        bool
	compress    bool
	seg         int
	logical     []c15lenv
	wire        []c15wenv
	cut         int // -1: the whole stream is delivered
	ops         []c15op
	mask        int
}

func c15Base(sh *c15shape, mask int, tsig bool) *c15script {
	s := &c15script{sh: sh, tsig: tsig, cut: -1, mask: mask}
	for _, e := range c15Compose(sh.recs, mask) {
		s.logical = append(s.logical, c15lenv{recs: e})
	}
	s.initWire()
	return s
}

func (s *c15script) initWire() {
	s.wire = s.wire[:0]
	for i := range s.logical {
		s.wire = append(s.wire, c15wenv{src: i})
	}
}

func (s *c15script) clone() *c15script {
	c := *s
	c.logical = make([]c15lenv, len(s.logical))
	for i, e := range s.logical {
		e.recs = append([]c15rec(nil), e.recs...)
		c.logical[i] = e
	}
	c.wire = make([]c15wenv, len(s.wire))
	for i, w := range s.wire {
		w.alter = append([][2]int(nil), w.alter...)
		c.wire[i] = w
	}
	c.ops = append([]c15op(nil), s.ops...)
	return &c
}

// with returns the script with one more fault applied. Operations must be applied in stage order.
func (s *c15script) with(o c15op) *c15script {
	c := s.clone()
	c.ops = append(c.ops, o)
	last := len(c.logical) - 1
	x := func(i int) c15rec { return c15rec{idx: 90 + i} }
	S := c.sh.recs[0].serial
	switch o.k {
	case opWrongID:
		c.logical[o.i].idXor ^= uint16(o.j)
	case opRcode:
		c.logical[o.i].rcode = o.j
	case opFirstNotSOA:
		switch o.i {
		case 0: // first record replaced by an ordinary record
			c.logical[0].recs[0] = x(0)
		case 1: // an ordinary record in front of the SOA
			c.logical[0].recs = append([]c15rec{x(0)}, c.logical[0].recs...)
		case 2: // first record missing
			c.logical[0].recs = c.logical[0].recs[1:]
		}
	case opExtras:
		switch o.i {
		case 0: // one more record in a message of its own
			c.logical = append(c.logical, c15lenv{recs: []c15rec{x(0)}})
		case 1: // the SOA once more in a message of its own
			c.logical = append(c.logical, c15lenv{recs: []c15rec{c15SOA(S)}})
		case 2: // what looks like the tail of another transfer
			c.logical = append(c.logical, c15lenv{recs: []c15rec{x(0)}}, c15lenv{recs: []c15rec{x(1), c15SOA(S)}})
		case 3: // one more record in the message that holds the closing SOA
			c.logical[last].recs = append(c.logical[last].recs, x(0))
		case 4: // the SOA once more in the message that holds the closing SOA
			c.logical[last].recs = append(c.logical[last].recs, c15SOA(S))
		case 5: // a trailing record in the closing message, then more messages ending in the SOA
			c.logical[last].recs = append(c.logical[last].recs, x(0))
			c.logical = append(c.logical, c15lenv{recs: []c15rec{x(1), c15SOA(S)}})
		}
	case opEmpty:
		c.logical = append(c.logical[:o.i], append([]c15lenv{{recs: []c15rec{}}}, c.logical[o.i:]...)...)
	case opDrop:
		c.wire = append(c.wire[:o.i], c.wire[o.i+1:]...)
	case opDup:
		c.wire = append(c.wire[:o.i+1], c.wire[o.i:]...)
	case opSwap:
		c.wire[o.i], c.wire[o.j] = c.wire[o.j], c.wire[o.i]
	case opStrip:
		c.wire[o.i].mode = wStripped
	case opStripKeepAR:
		c.wire[o.i].mode = wStrippedKeepAR
	case opRekeySecret:
		c.wire[o.i].mode = wRekeySecret
	case opRekeyName:
		c.wire[o.i].mode = wRekeyName
	case opRekeyKnown:
		c.wire[o.i].mode = wRekeyKnown
	case opMacShort:
		c.wire[o.i].mode = wMacShort
		c.wire[o.i].macLen = o.j
	case opAlter:
		c.wire[o.i].alter = append(c.wire[o.i].alter, [2]int{o.j >> 8, o.j & 0xff})
	case opCut:
		c.cut = o.i
	}
	if o.stage() == 0 {
		c.initWire()
	}
	return c
}

func (s *c15script) String() string {
	var b strings.Builder
	if s.sh.ixfr {
		fmt.Fprintf(&b, "IXFR(client serial %d)", s.sh.qser)
	} else {
		b.WriteString("AXFR")
	}
	fmt.Fprintf(&b, " shape=%s tsig=%v compress=%v read-segment=%d; sender's messages:", s.sh.name, s.tsig, s.compress, s.seg)
	for i, e := range s.logical {
		fmt.Fprintf(&b, " %d:[", i)
		for j, r := range e.recs {
			if j > 0 {
				b.WriteByte(' ')
			}
			b.WriteString(r.String())
		}
		b.WriteByte(']')
		if e.idXor != 0 {
			fmt.Fprintf(&b, "id^%#x", e.idXor)
		}
		if e.rcode != 0 {
			fmt.Fprintf(&b, "rcode=%d", e.rcode)
		}
	}
	b.WriteString("; on the wire:")
	for _, w := range s.wire {
		fmt.Fprintf(&b, " %d", w.src)
		switch w.mode {
		case wStripped:
			b.WriteString("(unsigned)")
		case wStrippedKeepAR:
			b.WriteString("(unsigned+TXT)")
		case wRekeySecret:
			b.WriteString("(other secret)")
		case wRekeyName:
			b.WriteString("(unknown key)")
		case wRekeyKnown:
			b.WriteString("(another configured key)")
		case wMacShort:
			fmt.Fprintf(&b, "(MAC cut to its first %d octets, MAC size and RDLENGTH adjusted)", w.macLen)
		}
		for _, a := range w.alter {
			fmt.Fprintf(&b, "(octet %d ^= %#02x)", a[0], a[1])
		}
	}
	if s.cut >= 0 {
		fmt.Fprintf(&b, "; connection closed after %d octets", s.cut)
	}
	if len(s.ops) > 0 {
		b.WriteString("; faults:")
		for _, o := range s.ops {
			b.WriteString(" " + o.String())
		}
	}
	return b.String()
}

// ---- building the octet stream ----

type c15msgLayout struct {
	length  int // message octets (without the two length octets)
	tsigOff int // offset of the TSIG RR, -1 if none
	macOff  int // offset of the MAC field
	macLen  int
	timeOff int // time signed (6) + fudge (2)
	origOff int // original ID (2)
}

func c15NameWireLen(s string) int { return len(s) + 1 } // plain ASCII, fully qualified, no escapes

// message builds logical envelope i as a reply to req.
func (s *c15script) message(req *dns.Msg, i int) *dns.Msg {
	e := s.logical[i]
	m := new(dns.Msg)
	m.Id = req.Id ^ e.idXor
	m.Response = true
	m.Authoritative = true
	m.Opcode = req.Opcode
	m.Rcode = e.rcode
	m.Compress = s.compress
	m.Question = append([]dns.Question(nil), req.Question...)
	m.Answer = make([]dns.RR, 0, len(e.recs))
	for _, r := range e.recs {
		m.Answer = append(m.Answer, r.rr())
	}
	return m
}

// c15RefSign signs m with the independent RFC 8945 model (ref/tsig): the message is packed without TSIG, the TSIG
// record (HMAC-SHA256, fudge 300) is computed and attached by the model. reqMAC and the returned MAC are hex strings
// as the library holds them. The library's own TsigGenerate takes no part, so a digest that signer and verifier of
// the library change together is seen by the transfers checked here.
func c15RefSign(m *dns.Msg, key, secretB64, reqMACHex string, timersOnly bool, now int64) ([]byte, string, error) {
	body, err := m.Pack()
	if err != nil {
		return nil, "", err
	}
	secret, err := base64.StdEncoding.DecodeString(secretB64)
	if err != nil {
		return nil, "", err
	}
	prev, err := hex.DecodeString(reqMACHex)
	if err != nil {
		return nil, "", err
	}
	rec := rt.Rec{Name: rn.Parse(key).Labels, Class: 255, TTL: 0, Alg: rn.Parse("hmac-sha256.").Labels, Time: uint64(now), Fudge: 300, OrigID: m.Id}
	w, mac, ok := rt.Sign(body, rec, secret, prev, timersOnly)
	if !ok {
		return nil, "", fmt.Errorf("reference TSIG signer refused")
	}
	return w, hex.EncodeToString(mac), nil
}

// c15RefVerify checks a TSIG-signed message with the model.
func c15RefVerify(raw []byte, secretB64, reqMACHex string, timersOnly bool) error {
	secret, err := base64.StdEncoding.DecodeString(secretB64)
	if err != nil {
		return err
	}
	prev, err := hex.DecodeString(reqMACHex)
	if err != nil {
		return err
	}
	now := uint64(time.Now().Unix())
	for try := 0; try < 2; try++ {
		ok, why := rt.Verify(raw, func(name [][]byte) ([]byte, bool) { return secret, true }, prev, timersOnly, now)
		if ok {
			return nil
		}
		err = fmt.Errorf("reference verifier: %s", why)
		now = uint64(time.Now().Unix())
	}
	return err
}

// stream produces what the scripted server sends in reply to req. With TSIG the sender behaves as RFC
// 8945 §5.3.1 says: the first message is signed over the request MAC with the full TSIG variables, each
// following one over the previous message's MAC with the timers only. The digest and the TSIG record come from the
// independent model ref/tsig; the chaining is this function's.
func (s *c15script) stream(req *dns.Msg, reqMAC string) ([]byte, []c15msgLayout, error) {
	type signed struct {
		wire   []byte
		prev   string
		timers bool
	}
	now := time.Now().Unix()
	chain := make([]signed, len(s.logical))
	if s.tsig {
		prev := reqMAC
		for i := range s.logical {
			m := s.message(req, i)
			w, mac, err := c15RefSign(m, c15Key, c15Secret, prev, i > 0, now)
			if err != nil {
				return nil, nil, fmt.Errorf("scripted server: reference TSIG signer: %v", err)
			}
			chain[i] = signed{wire: w, prev: prev, timers: i > 0}
			prev = mac
		}
	}
	var out []byte
	var lay []c15msgLayout
	for _, w := range s.wire {
		var msg []byte
		var err error
		l := c15msgLayout{tsigOff: -1}
		switch {
		case !s.tsig || w.mode == wStripped:
			msg, err = s.message(req, w.src).Pack()
		case w.mode == wStrippedKeepAR:
			m := s.message(req, w.src)
			m.Extra = append(m.Extra, &dns.TXT{Hdr: dns.RR_Header{Name: c15Key, Rrtype: dns.TypeTXT, Class: dns.ClassINET}, Txt: []string{"not a signature"}})
			msg, err = m.Pack()
		case w.mode == wSigned:
			msg = append([]byte(nil), chain[w.src].wire...)
		case w.mode == wMacShort:
			// the correctly signed message with only the first macLen octets of its MAC (RFC 8945 §5.2.2.1: a MAC
			// shorter than max(10, half the digest) MUST be refused)
			full := chain[w.src].wire
			var unsigned []byte
			unsigned, err = s.message(req, w.src).Pack()
			if err == nil {
				tsigOff := len(unsigned)
				rdlenOff := tsigOff + c15NameWireLen(c15Key) + 8
				macOff := tsigOff + c15NameWireLen(c15Key) + 10 + c15NameWireLen(dns.HmacSHA256) + 10
				msg = append([]byte(nil), full[:macOff]...)
				msg = append(msg, full[macOff:macOff+w.macLen]...)
				msg = append(msg, full[macOff+32:]...)
				binary.BigEndian.PutUint16(msg[macOff-2:], uint16(w.macLen))
				binary.BigEndian.PutUint16(msg[rdlenOff:], binary.BigEndian.Uint16(full[rdlenOff:])-uint16(32-w.macLen))
			}
		default: // signed at the right place of the chain, but not with the key the client trusts
			m := s.message(req, w.src)
			key, secret := c15Key, c15Secret2
			if w.mode == wRekeyName {
				key, secret = c15KeyAlt, c15Secret
			}
			if w.mode == wRekeyKnown {
				key, secret = c15Key2, c15Secret2
			}
			msg, _, err = c15RefSign(m, key, secret, chain[w.src].prev, chain[w.src].timers, now)
		}
		if err != nil {
			return nil, nil, fmt.Errorf("scripted server: %v", err)
		}
		if s.tsig && w.mode == wSigned {
			var unsigned []byte
			unsigned, err = s.message(req, w.src).Pack()
			if err != nil {
				return nil, nil, err
			}
			l.tsigOff = len(unsigned)
			l.timeOff = l.tsigOff + c15NameWireLen(c15Key) + 10 + c15NameWireLen(dns.HmacSHA256)
			l.macOff = l.timeOff + 10
			l.macLen = 32
			l.origOff = l.macOff + l.macLen
		}
		for _, a := range w.alter {
			msg[a[0]] ^= byte(a[1])
		}
		l.length = len(msg)
		lay = append(lay, l)
		out = binary.BigEndian.AppendUint16(out, uint16(len(msg)))
		out = append(out, msg...)
	}
	if s.cut >= 0 && s.cut < len(out) {
		out = out[:s.cut]
	}
	return out, lay, nil
}

// layout is a dry run of stream (message lengths do not depend on MAC values).
func (s *c15script) layout() ([]c15msgLayout, int) {
	c := *s
	c.cut = -1
	out, lay, err := c.stream(s.sh.query(false), strings.Repeat("00", 32))
	if err != nil {
		panic(err)
	}
	return lay, len(out)
}

// expected asks the reference model what must happen for this script.
func (s *c15script) expected(lay []c15msgLayout) (rx.Outcome, []rx.Env, int) {
	var envs []rx.Env
	altered := -1 // first completely arriving message with an altered octet
	off := 0
	for p, w := range s.wire {
		off += 2 + lay[p].length
		if s.cut >= 0 && off > s.cut {
			break // this message does not arrive completely
		}
		if len(w.alter) > 0 && altered < 0 {
			altered = p
		}
		e := s.logical[w.src]
		env := rx.Env{ID: c15ID ^ e.idXor, Rcode: e.rcode,
			Verified: w.mode == wSigned && len(w.alter) == 0 && w.src == p}
		for _, r := range e.recs {
			env.Recs = append(env.Recs, rx.Rec{SOA: r.soa, Serial: r.serial})
		}
		envs = append(envs, env)
	}
	return rx.Expect(s.sh.refQuery(s.tsig), envs), envs, altered
}
