package main

import (
	"bytes"
	"encoding/base64"
	"errors"
	"fmt"
	"io"
	"net"
	"os"
	"strings"
	"time"
	rn "verif/harness/ref/name"
	rt "verif/harness/ref/tsig"

	"github.com/miekg/dns"
	"verif/harness/fw"
)

// C12 (E3 part) — stream framing under every segmentation, early EOF at every offset, size limits,
// ID matching under every order of stale / foreign / matching replies. The concurrent part (no cross-talk
// between clients, connections and recycled buffers; server-side segmentation; response.Write limits) runs
// under the controlled scheduler (cmd/vsched, spaces e2/…) and is appended to the same evidence file.

func init() {
	fw.Register(&fw.Check{Prop: "C12", Level: "fault_enumeration",
		Assume: []string{
			"scripted in-memory net.Conn / net.PacketConn: a read returns exactly the next scripted segment (never more), EOF or a timeout error after the script ends; no real sockets, no real time (one exception, next line)",
			"space udp-sessions only: real UDP sockets on the loopback interface (127.0.0.1-3), because the control-message code of udp.go needs a *net.UDPConn; the order of events is forced with channels, a datagram that does not arrive within 5 s makes the case inconclusive (counted), never a violation",
			"message bodies are arbitrary octets with a valid 12-octet header (framing must not depend on the content)",
		},
		Spaces: c12Spaces})
}

// segConn delivers a byte stream in scripted segments.
type segConn struct {
	data    []byte
	cuts    []int // ascending offsets where a read must stop (segment boundaries)
	pos     int
	zeroAt  map[int]bool // deliver one zero-length read before the segment starting at this offset
	written []byte
	writes  int
	eofErr  error
}

func (c *segConn) Read(p []byte) (int, error) {
	if c.zeroAt[c.pos] {
		delete(c.zeroAt, c.pos)
		return 0, nil
	}
	if c.pos >= len(c.data) {
		if c.eofErr != nil {
			return 0, c.eofErr
		}
		return 0, io.EOF
	}
	end := len(c.data)
	for _, k := range c.cuts {
		if k > c.pos {
			end = k
			break
		}
	}
	n := copy(p, c.data[c.pos:end])
	c.pos += n
	return n, nil
}
func (c *segConn) Write(p []byte) (int, error) {
	c.writes++
	c.written = append(c.written, p...)
	return len(p), nil
}
func (c *segConn) Close() error                       { return nil }
func (c *segConn) LocalAddr() net.Addr                { return &net.TCPAddr{} }
func (c *segConn) RemoteAddr() net.Addr               { return &net.TCPAddr{} }
func (c *segConn) SetDeadline(t time.Time) error      { return nil }
func (c *segConn) SetReadDeadline(t time.Time) error  { return nil }
func (c *segConn) SetWriteDeadline(t time.Time) error { return nil }

// dgramConn is a datagram socket (net.Conn + net.PacketConn) that returns one scripted datagram per Read.
type dgramConn struct {
	in      [][]byte
	written [][]byte
	// deadline bookkeeping (space ids-deadline): every read deadline that was set, and which one was in force at
	// each Read; pause is slept before every Read after the first so that "now" moves between them
	rdl    []time.Time
	readAt []int
	pause  time.Duration
}

type timeoutErr struct{}

func (timeoutErr) Error() string   { return "i/o timeout (scripted deadline)" }
func (timeoutErr) Timeout() bool   { return true }
func (timeoutErr) Temporary() bool { return true }

func (c *dgramConn) Read(p []byte) (int, error) {
	if c.pause > 0 && len(c.readAt) > 0 {
		time.Sleep(c.pause)
	}
	c.readAt = append(c.readAt, len(c.rdl))
	if len(c.in) == 0 {
		return 0, timeoutErr{}
	}
	d := c.in[0]
	c.in = c.in[1:]
	return copy(p, d), nil
}
func (c *dgramConn) ReadFrom(p []byte) (int, net.Addr, error) {
	n, err := c.Read(p)
	return n, &net.UDPAddr{}, err
}
func (c *dgramConn) Write(p []byte) (int, error) {
	c.written = append(c.written, append([]byte(nil), p...))
	return len(p), nil
}
func (c *dgramConn) WriteTo(p []byte, a net.Addr) (int, error) { return c.Write(p) }
func (c *dgramConn) Close() error                              { return nil }
func (c *dgramConn) LocalAddr() net.Addr                       { return &net.UDPAddr{} }
func (c *dgramConn) RemoteAddr() net.Addr                      { return &net.UDPAddr{} }
func (c *dgramConn) SetDeadline(t time.Time) error             { c.rdl = append(c.rdl, t); return nil }
func (c *dgramConn) SetReadDeadline(t time.Time) error         { c.rdl = append(c.rdl, t); return nil }
func (c *dgramConn) SetWriteDeadline(t time.Time) error        { return nil }

func c12Body(n int, seed byte) []byte {
	b := make([]byte, n)
	for i := range b {
		b[i] = byte(i)*7 + seed
	}
	// a plausible header: id, flags=response, counts 0
	copy(b, []byte{0x12, seed, 0x80, 0, 0, 0, 0, 0, 0, 0, 0, 0})
	return b
}

func c12Frame(body []byte) []byte {
	return append([]byte{byte(len(body) >> 8), byte(len(body))}, body...)
}

// c12ReadTwo reads two framed messages from a stream cut at `cuts` through each of the three read entry points.
func c12ReadTwo(r *fw.R, a, b []byte, cuts []int, zero map[int]bool, how int) {
	stream := append(c12Frame(a), c12Frame(b)...)
	sc := &segConn{data: stream, cuts: cuts, zeroAt: zero}
	co := &dns.Conn{Conn: sc}
	read := func() ([]byte, error) {
		switch how {
		case 0:
			return co.ReadMsgHeader(nil)
		case 1:
			var h dns.Header
			p, err := co.ReadMsgHeader(&h)
			if err == nil && (h.Id != uint16(p[0])<<8|uint16(p[1])) {
				return p, fmt.Errorf("header id %#x does not match the message", h.Id)
			}
			return p, err
		default:
			buf := make([]byte, 65535)
			n, err := co.Read(buf)
			return buf[:n], err
		}
	}
	for i, want := range [][]byte{a, b} {
		got, err := read()
		if err != nil || !bytes.Equal(got, want) {
			r.Fail(fmt.Sprintf("stream-framing/entry-%d", how), "message %d of 2 (sizes %d,%d) cut at %v (zero-length reads before %v): got %d octets, err %v; want %d octets intact", i, len(a), len(b), cuts, zero, len(got), err, len(want))
			return
		}
	}
	if _, err := read(); err == nil {
		r.Fail(fmt.Sprintf("stream-framing/entry-%d", how), "a third message was returned from a stream of two")
	}
}

func c12Spaces(c *fw.Ctx) {
	defer c12UDPSessionSpace(c)
	small := []int{12, 13, 255, 256, 257, 511, 512, 513}
	c.Space("stream/2-cuts", "two back-to-back framed messages (first of size s ∈ {12,13,255,256,257,511,512,513}, second of 12 or 300 octets) with the stream cut at every position (all 2-segment splits) and, for s ≤ 257, at every pair of positions inside the first frame (all 3-segment splits); through ReadMsgHeader(nil), ReadMsgHeader(&hdr) and Conn.Read; non-trivial: a cut falls inside the first frame", true,
		func(emit func(func(*fw.R))) {
			for _, s := range small {
				for _, s2 := range []int{12, 300} {
					total := 2 + s + 2 + s2
					for k := 1; k < total; k++ {
						s, s2, k := s, s2, k
						emit(func(r *fw.R) {
							if k < 2+s {
								r.Nontrivial()
							}
							a, b := c12Body(s, 1), c12Body(s2, 2)
							for how := 0; how < 3; how++ {
								c12ReadTwo(r, a, b, []int{k}, nil, how)
								c12ReadTwo(r, a, b, []int{k}, map[int]bool{k: true}, how) // a zero-length read at the boundary
							}
							if s <= 257 && s2 == 12 && k < 2+s {
								for k2 := k + 1; k2 <= 2+s; k2++ {
									c12ReadTwo(r, a, b, []int{k, k2}, nil, k2%3)
								}
								r.Count("3-segment splits", int64(2+s-k))
							}
							r.Sample(func() any { return fmt.Sprintf("sizes %d,%d cut at %d", s, s2, k) })
						})
					}
				}
			}
		})
	c.Space("stream/compositions", "a 14-octet frame (12-octet message) followed by a second one: all 2^13 compositions of the first frame into segments; non-trivial: ≥ 2 segments", true,
		func(emit func(func(*fw.R))) {
			for mask := 0; mask < 1<<13; mask++ {
				mask := mask
				emit(func(r *fw.R) {
					var cuts []int
					for i := 0; i < 13; i++ {
						if mask&(1<<i) != 0 {
							cuts = append(cuts, i+1)
						}
					}
					if len(cuts) > 0 {
						r.Nontrivial()
					}
					c12ReadTwo(r, c12Body(12, 3), c12Body(13, 4), cuts, nil, mask%3)
				})
			}
		})
	big := []int{4095, 4096, 4097, 65534, 65535}
	c.Space("stream/large", "first message of size s ∈ {4095,4096,4097,65534,65535}: 2-segment splits at every position (quick: every position in the first and last 80 octets and around 256-multiples; thorough: every position for ≤ 4097 and every 7th elsewhere); non-trivial: all", true,
		func(emit func(func(*fw.R))) {
			for _, s := range big {
				total := 2 + s
				var ks []int
				for k := 1; k <= total; k++ {
					near := k <= 80 || k >= total-80 || k%256 <= 2 || k%256 >= 254
					if near || (c.Thorough && (s <= 4097 || k%7 == 0)) {
						ks = append(ks, k)
					}
				}
				for i := 0; i < len(ks); i += 64 {
					s, chunk := s, ks[i:min(i+64, len(ks))]
					emit(func(r *fw.R) {
						r.Nontrivial()
						a, b := c12Body(s, 5), c12Body(12, 6)
						for _, k := range chunk {
							c12ReadTwo(r, a, b, []int{k}, nil, k%3)
						}
						r.Count("splits", int64(len(chunk)))
					})
				}
			}
		})
	allSizesRule := "every message size s from 12 to 65535"
	c.Space("stream/all-sizes", allSizesRule+": frame(s) followed by a 12-octet frame, cut after 1, 2, 3 octets, one octet before the end of the first frame, at its end and one octet into the second frame (six 2-segment splits, read entry point rotating with s), plus Conn.Write of s octets (one write, prefix = s); one case per 64 sizes; non-trivial: all", true,
		func(emit func(func(*fw.R))) {
			var sizes []int
			for s := 12; s <= 65535; s++ {
				sizes = append(sizes, s)
			}
			for i := 0; i < len(sizes); i += 64 {
				chunk := sizes[i:min(i+64, len(sizes))]
				emit(func(r *fw.R) {
					r.Nontrivial()
					b := c12Body(12, 2)
					for _, s := range chunk {
						a := c12Body(s, 1)
						for _, cut := range []int{1, 2, 3, s + 1, s + 2, s + 3} {
							c12ReadTwo(r, a, b, []int{cut}, nil, s%3)
						}
						sc := &segConn{}
						if k, err := (&dns.Conn{Conn: sc}).Write(a); err != nil || sc.writes != 1 || !bytes.Equal(sc.written, c12Frame(a)) {
							r.Fail("write/stream", "Write of %d octets: n=%d err=%v, %d octets in %d writes on the wire (prefix %x)", s, k, err, len(sc.written), sc.writes, sc.written[:min(2, len(sc.written))])
						}
					}
					r.Count("sizes", int64(len(chunk)))
				})
			}
		})

	c.Space("stream/eof", "one framed message of size s ∈ {12,13,255,256,257,513,4096} with the stream ending (EOF, and a timeout error) at every offset before the end, read through Conn.ReadMsg, ReadMsgHeader, Conn.Read and Transfer.ReadMsg: an error and no message; at the end: the message; non-trivial: EOF inside the frame", true,
		func(emit func(func(*fw.R))) {
			for _, s := range []int{12, 13, 255, 256, 257, 513, 4096} {
				for _, e := range []error{nil, timeoutErr{}} {
					s, e := s, e
					emit(func(r *fw.R) {
						r.Nontrivial()
						a := c12Body(s, 7)
						fr := c12Frame(a)
						for n := 0; n < len(fr); n++ {
							for how := 0; how < 4; how++ {
								co := &dns.Conn{Conn: &segConn{data: fr[:n], eofErr: e}}
								var got []byte
								var err error
								if how == 3 {
									// the read path of zone transfers
									var m *dns.Msg
									m, err = (&dns.Transfer{Conn: co}).ReadMsg()
									if m != nil && err == nil {
										got = []byte{1}
									}
								} else if how == 0 {
									var m *dns.Msg
									m, err = co.ReadMsg()
									if m != nil && err == nil {
										got = []byte{1}
									}
								} else if how == 1 {
									got, err = co.ReadMsgHeader(nil)
								} else {
									buf := make([]byte, 65535)
									var k int
									k, err = co.Read(buf)
									got = buf[:k]
									if err != nil {
										got = nil
									}
								}
								if err == nil || len(got) != 0 {
									r.Fail(fmt.Sprintf("stream-eof/entry-%d", how), "frame of %d octets cut after %d: returned %d octets, err %v; want an error and no message", len(fr), n, len(got), err)
								}
							}
						}
						r.Count("offsets", int64(len(fr)))
					})
				}
			}
		})
	c.Space("stream/runt-frames", "a frame whose length prefix announces 0..11 octets (shorter than a DNS header) followed by a good frame of 12 or 300 octets on the same stream, the runt frame cut at every position: the first read reports an error or hands over exactly the runt octets (Conn.Read, which does not look at the content, returns them; the decoding entry points must fail), and the NEXT read on the same connection returns the good message intact — the runt's octets were consumed with their frame; through ReadMsgHeader(nil), ReadMsgHeader(&hdr), Conn.Read, Conn.ReadMsg and Transfer.ReadMsg; non-trivial: all", true,
		func(emit func(func(*fw.R))) {
			for rs := 0; rs <= 11; rs++ {
				for _, s2 := range []int{12, 300} {
					rs, s2 := rs, s2
					emit(func(r *fw.R) {
						r.Nontrivial()
						runt := c12Body(12, 8)[:rs]
						// the good body must also decode for the ReadMsg entry points
						gm := new(dns.Msg)
						gm.Id = 0x1209
						gm.Response = true
						if s2 == 300 {
							gm.Answer = []dns.RR{&dns.TXT{Hdr: dns.RR_Header{Name: "x.", Rrtype: dns.TypeTXT, Class: dns.ClassINET}, Txt: []string{strings.Repeat("t", 200), strings.Repeat("u", 70)}}}
						}
						good, perr := gm.Pack()
						if perr != nil {
							panic(perr)
						}
						stream := append(c12Frame(runt), c12Frame(good)...)
						for cut := 0; cut <= 2+rs; cut++ {
							var cuts []int
							if cut > 0 {
								cuts = []int{cut}
							}
							for how := 0; how < 5; how++ {
								co := &dns.Conn{Conn: &segConn{data: stream, cuts: cuts}}
								read := func() ([]byte, error) {
									switch how {
									case 0:
										return co.ReadMsgHeader(nil)
									case 1:
										var h dns.Header
										return co.ReadMsgHeader(&h)
									case 2:
										buf := make([]byte, 65535)
										n, err := co.Read(buf)
										return buf[:n], err
									case 3:
										m, err := co.ReadMsg()
										if err != nil || m == nil {
											return nil, err
										}
										b, _ := m.Pack()
										return b, nil
									default:
										m, err := (&dns.Transfer{Conn: co}).ReadMsg()
										if err != nil || m == nil {
											return nil, err
										}
										b, _ := m.Pack()
										return b, nil
									}
								}
								got, err := read()
								if how == 2 {
									if err != nil || !bytes.Equal(got, runt) {
										r.Fail("stream-runt/entry-2", "Conn.Read of a %d-octet frame cut at %v: %d octets, err %v", rs, cuts, len(got), err)
									}
								} else if err == nil && (how >= 3 || !bytes.Equal(got, runt)) {
									// ReadMsgHeader may hand the runt frame's octets to its caller or refuse them (it refuses today);
									// the entry points that decode cannot succeed on fewer than 12 octets
									r.Fail(fmt.Sprintf("stream-runt/accepted/entry-%d", how), "a frame of %d octets (shorter than a header) was returned as a message of %d octets without error", rs, len(got))
								}
								got, err = read()
								if err != nil || !bytes.Equal(got, good) {
									r.Fail(fmt.Sprintf("stream-runt/next-message/entry-%d", how), "after a runt frame of %d octets (cut at %v) the next frame of %d octets on the same connection came back as %d octets, err %v; want it intact", rs, cuts, len(good), len(got), err)
								}
							}
						}
						r.Count("reads", int64(5*(3+rs)))
					})
				}
			}
		})
	c.Space("stream/short-buffer", "Conn.Read into a caller's buffer shorter than the frame: two frames (first of 12, 80 or 300 octets, second of 12 or 300), the first read with a buffer of every length 0..size−1, the stream whole or cut inside the first frame: the short read reports an error and delivers nothing, and the NEXT Conn.Read (with room) returns the second message intact — the refused message went with its frame; non-trivial: all", true,
		func(emit func(func(*fw.R))) {
			for _, s1 := range []int{12, 80, 300} {
				for _, s2 := range []int{12, 300} {
					s1, s2 := s1, s2
					emit(func(r *fw.R) {
						r.Nontrivial()
						a, b := c12Body(s1, 10), c12Body(s2, 11)
						stream := append(c12Frame(a), c12Frame(b)...)
						for bl := 0; bl < s1; bl++ {
							for _, cuts := range [][]int{nil, {1}, {2}, {2 + s1/2}, {2 + s1}} {
								co := &dns.Conn{Conn: &segConn{data: stream, cuts: cuts}}
								n, err := co.Read(make([]byte, bl))
								if err == nil {
									r.Fail("stream-short-buffer/accepted", "Conn.Read of a %d-octet message into %d octets: n=%d, no error", s1, bl, n)
								}
								buf := make([]byte, 65535)
								n, err = co.Read(buf)
								if err != nil || !bytes.Equal(buf[:n], b) {
									r.Fail("stream-short-buffer/next-message", "after a Conn.Read of a %d-octet message into a %d-octet buffer (stream cut at %v) the next Read returned %d octets, err %v (first octets %x); want the second message of %d octets intact", s1, bl, cuts, n, err, buf[:min(n, 8)], s2)
								}
							}
						}
						r.Count("reads", int64(5*s1))
					})
				}
			}
		})
	c.Space("write/limits", "Conn.Write / Conn.WriteMsg over stream and datagram with payloads of 0, 12, 65534, 65535, 65536, 65537, 70000 octets: ≤ 65535 is written as one frame with the right length prefix, larger is refused with nothing written; non-trivial: all", true,
		func(emit func(func(*fw.R))) {
			for _, n := range []int{0, 12, 65534, 65535, 65536, 65537, 70000} {
				n := n
				emit(func(r *fw.R) {
					r.Nontrivial()
					p := c12Body(max(n, 12), 9)[:n]
					sc := &segConn{}
					k, err := (&dns.Conn{Conn: sc}).Write(p)
					if n <= 65535 {
						if err != nil || !bytes.Equal(sc.written, c12Frame(p)) || sc.writes != 1 {
							r.Fail("write/stream", "Write of %d octets: n=%d err=%v, %d octets in %d writes on the wire", n, k, err, len(sc.written), sc.writes)
						}
					} else if err == nil || len(sc.written) != 0 {
						r.Fail("write/oversize-not-refused", "Write of %d octets over a stream: err=%v, %d octets written (prefix %x)", n, err, len(sc.written), sc.written[:min(2, len(sc.written))])
					}
					dc := &dgramConn{}
					k, err = (&dns.Conn{Conn: dc}).Write(p)
					if n <= 65535 {
						if err != nil || len(dc.written) != 1 || !bytes.Equal(dc.written[0], p) {
							r.Fail("write/datagram", "Write of %d octets: n=%d err=%v datagrams=%d", n, k, err, len(dc.written))
						}
					} else if err == nil || len(dc.written) != 0 {
						r.Fail("write/oversize-not-refused", "Write of %d octets over a datagram socket: err=%v, %d datagrams written", n, err, len(dc.written))
					}
				})
			}
			// WriteMsg with a message that packs to > 65535 octets
			emit(func(r *fw.R) {
				r.Nontrivial()
				m := new(dns.Msg)
				m.SetQuestion("big.example.", dns.TypeTXT)
				for i := 0; i < 300; i++ {
					m.Answer = append(m.Answer, &dns.TXT{Hdr: dns.RR_Header{Name: "big.example.", Rrtype: dns.TypeTXT, Class: 1, Ttl: 1}, Txt: []string{string(bytes.Repeat([]byte{'x'}, 250))}})
				}
				sc := &segConn{}
				if err := (&dns.Conn{Conn: sc}).WriteMsg(m); err == nil || len(sc.written) != 0 {
					r.Fail("write/oversize-not-refused", "WriteMsg of a %d-octet message: err=%v, %d octets written", m.Len(), err, len(sc.written))
				}
			})
		})

	// ---------------------------------------------------------------------------------------- ID matching
	kinds := []string{"stale", "stale-dup", "foreign", "match"}
	c.Space("ids", "Client.ExchangeWithConn over a scripted datagram socket and a scripted stream: every sequence of ≤ 3 replies over {stale ID, the same stale reply again, well-formed reply with a foreign ID and another question, matching} followed by {matching, nothing (deadline)}: datagram ⇒ the first matching reply, else the deadline error; stream ⇒ the first reply, ErrId if its ID differs; non-trivial: at least one non-matching reply precedes", true,
		func(emit func(func(*fw.R))) {
			var seqs [][]string
			var rec func(p []string)
			rec = func(p []string) {
				seqs = append(seqs, append([]string(nil), p...))
				if len(p) == 3 {
					return
				}
				for _, k := range kinds {
					rec(append(p, k))
				}
			}
			rec(nil)
			for _, sq := range seqs {
				for _, tail := range []string{"match", "deadline"} {
					sq, tail := sq, tail
					emit(func(r *fw.R) {
						if len(sq) > 0 && sq[0] != "match" {
							r.Nontrivial()
						}
						q := new(dns.Msg)
						q.SetQuestion("want.example.", dns.TypeA)
						q.Id = 0x4242
						mk := func(kind string, n int) []byte {
							m := new(dns.Msg)
							m.SetReply(q)
							switch kind {
							case "stale", "stale-dup":
								m.Id = 0x1111
							case "foreign":
								m.Id = 0x2222
								m.Question[0].Name = "other.example."
							}
							m.Answer = []dns.RR{&dns.A{Hdr: dns.RR_Header{Name: m.Question[0].Name, Rrtype: 1, Class: 1, Ttl: uint32(n)}, A: net.IP{10, 0, 0, byte(n)}}}
							b, _ := m.Pack()
							return b
						}
						full := append(append([]string(nil), sq...), tail)
						var dgrams [][]byte
						var stream []byte
						firstMatch := -1
						for i, k := range full {
							if k == "deadline" {
								break
							}
							b := mk(k, i+1)
							dgrams = append(dgrams, b)
							stream = append(stream, c12Frame(b)...)
							if k == "match" && firstMatch < 0 {
								firstMatch = i
							}
						}
						cl := &dns.Client{}
						// datagram
						rep, _, err := cl.ExchangeWithConn(q.Copy(), &dns.Conn{Conn: &dgramConn{in: dgrams}})
						if firstMatch >= 0 {
							if err != nil || rep == nil || rep.Id != q.Id || len(rep.Answer) != 1 || rep.Answer[0].Header().Ttl != uint32(firstMatch+1) {
								r.Fail("ids/datagram", "replies %v: got %v, err %v; want the reply at position %d", full, rep, err, firstMatch)
							}
						} else {
							var te timeoutErr
							if err == nil || !errors.As(err, &te) {
								r.Fail("ids/datagram", "replies %v (no matching one): got %v, err %v; want the deadline error", full, rep, err)
							}
						}
						// stream
						rep, _, err = cl.ExchangeWithConn(q.Copy(), &dns.Conn{Conn: &segConn{data: stream, eofErr: os.ErrDeadlineExceeded}})
						switch {
						case len(dgrams) == 0:
							if err == nil {
								r.Fail("ids/stream", "no reply: got %v without error", rep)
							}
						case full[0] == "match":
							if err != nil || rep == nil || rep.Id != q.Id || rep.Answer[0].Header().Ttl != 1 {
								r.Fail("ids/stream", "replies %v: got %v, err %v; want the first reply", full, rep, err)
							}
						default:
							if !errors.Is(err, dns.ErrId) {
								r.Fail("ids/stream", "replies %v: err %v; want ErrId because the first reply on a stream has another ID", full, err)
							}
						}
						r.Sample(func() any { return full })
					})
				}
			}
		})
	// TSIG-signed replies: the ID that is matched is the ID in the header of the reply. A TSIG record carries an
	// "original ID" of its own (RFC 8945 §4.2: what the ID was when the message was signed — a forwarder may have
	// rewritten the header since); a reply is no more this exchange's because its original ID equals the query's, and
	// no less because it differs. Replies are signed by the independent model (ref/tsig) over the MAC the query will
	// carry (the query's TSIG time is fixed, so the model can compute it beforehand).
	c.Space("ids-signed", "Client.ExchangeWithConn with a TSIG key over the scripted datagram socket and the scripted stream: signed replies {header ID foreign / original ID = query ID; header ID = query ID / original ID foreign (validly signed); both matching} in every order of ≤ 2 before a matching one: datagram ⇒ the first reply whose *header* ID matches, stream ⇒ the first reply, ErrId iff its header ID differs; non-trivial: all", true,
		func(emit func(func(*fw.R))) {
			kinds := []string{"hdr-foreign", "orig-foreign", "match"}
			var seqs [][]string
			for _, a := range kinds {
				seqs = append(seqs, []string{a})
				for _, b := range kinds {
					seqs = append(seqs, []string{a, b})
				}
			}
			for _, sq := range seqs {
				sq := sq
				emit(func(r *fw.R) {
					r.Nontrivial()
					secret := []byte("0123456789abcdef0123456789abcdef")
					b64 := base64.StdEncoding.EncodeToString(secret)
					now := time.Now().Unix()
					mkq := func() *dns.Msg {
						q := new(dns.Msg)
						q.SetQuestion("want.example.", dns.TypeA)
						q.Id = 0x4242
						q.SetTsig("k.example.", dns.HmacSHA256, 300, now)
						return q
					}
					// the MAC the query will carry, by the model
					qb := mkq()
					qb.Extra = nil
					qbody, _ := qb.Pack()
					rec := rt.Rec{Name: rn.Parse("k.example.").Labels, Class: 255, Alg: rn.Parse("hmac-sha256.").Labels, Time: uint64(now), Fudge: 300, OrigID: 0x4242}
					_, qmac, ok := rt.Sign(qbody, rec, secret, nil, false)
					if !ok {
						r.Fail("internal/ids-signed", "reference signer refused")
						return
					}
					full := append(append([]string(nil), sq...), "match")
					var dgrams [][]byte
					var stream []byte
					firstHdrMatch := -1
					for i, k := range full {
						m := new(dns.Msg)
						m.SetReply(mkq())
						m.Extra = nil
						m.Answer = []dns.RR{&dns.A{Hdr: dns.RR_Header{Name: "want.example.", Rrtype: 1, Class: 1, Ttl: uint32(i + 1)}, A: net.IP{10, 0, 0, byte(i + 1)}}}
						rr := rec
						switch k {
						case "hdr-foreign":
							m.Id, rr.OrigID = 0x2222, 0x4242
						case "orig-foreign":
							m.Id, rr.OrigID = 0x4242, 0x3333
						default:
							m.Id, rr.OrigID = 0x4242, 0x4242
						}
						body, _ := m.Pack()
						signed, _, ok := rt.Sign(body, rr, secret, qmac, false)
						if !ok {
							r.Fail("internal/ids-signed", "reference signer refused")
							return
						}
						dgrams = append(dgrams, signed)
						stream = append(stream, c12Frame(signed)...)
						if k != "hdr-foreign" && firstHdrMatch < 0 {
							firstHdrMatch = i
						}
					}
					cl := &dns.Client{TsigSecret: map[string]string{"k.example.": b64}}
					rep, _, err := cl.ExchangeWithConn(mkq(), &dns.Conn{Conn: &dgramConn{in: dgrams}, TsigSecret: cl.TsigSecret})
					if err != nil || rep == nil || rep.Id != 0x4242 || len(rep.Answer) != 1 || rep.Answer[0].Header().Ttl != uint32(firstHdrMatch+1) {
						got := -1
						if rep != nil && len(rep.Answer) == 1 {
							got = int(rep.Answer[0].Header().Ttl) - 1
						}
						r.Fail("ids/datagram-signed", "signed replies %v: got the reply at position %d (err %v); want the one at position %d, the first whose header ID is the query's", full, got, err, firstHdrMatch)
					}
					rep, _, err = cl.ExchangeWithConn(mkq(), &dns.Conn{Conn: &segConn{data: stream, eofErr: os.ErrDeadlineExceeded}, TsigSecret: cl.TsigSecret})
					if full[0] == "hdr-foreign" {
						if !errors.Is(err, dns.ErrId) {
							r.Fail("ids/stream-signed", "signed replies %v on a stream: err %v (reply %v); want ErrId, the first reply's header ID is not the query's", full, err, rep != nil)
						}
					} else if err != nil || rep == nil || rep.Id != 0x4242 || rep.Answer[0].Header().Ttl != 1 {
						r.Fail("ids/stream-signed", "signed replies %v on a stream: got %v, err %v; want the first reply (its header ID is the query's and its signature is valid)", full, rep, err)
					}
				})
			}
		})
	// "until the matching one or the deadline arrives": the deadline of an exchange is the one it starts with. A
	// client that arms a fresh read deadline for every reply it skips never reaches it under a trickle of foreign
	// replies. The scripted socket sleeps 200 ms before each Read after the first, so that a deadline computed
	// from "now" again lies at least that much later than the first one; only a move of more than 100 ms counts
	// (a deadline set again to the same instant, or recomputed from the remaining time, does not).
	c.Space("ids-deadline", "Client.ExchangeWithConn over the scripted datagram socket with 1..3 replies of other IDs before {the matching one, nothing} × client timeouts {default, Timeout 5 s, ReadTimeout 5 s}; the socket lets 200 ms pass between reads and records every read deadline set: the deadline in force at a later read is not more than 100 ms later than the one in force at the first read; non-trivial: all", true,
		func(emit func(func(*fw.R))) {
			for n := 1; n <= 3; n++ {
				for _, tail := range []string{"match", "deadline"} {
					for cfg := 0; cfg < 3; cfg++ {
						n, tail, cfg := n, tail, cfg
						emit(func(r *fw.R) {
							r.Nontrivial()
							q := new(dns.Msg)
							q.SetQuestion("want.example.", dns.TypeA)
							q.Id = 0x4242
							var dgrams [][]byte
							for i := 0; i < n; i++ {
								m := new(dns.Msg)
								m.SetReply(q)
								m.Id = uint16(0x1000 + i)
								b, _ := m.Pack()
								dgrams = append(dgrams, b)
							}
							if tail == "match" {
								m := new(dns.Msg)
								m.SetReply(q)
								b, _ := m.Pack()
								dgrams = append(dgrams, b)
							}
							cl := &dns.Client{}
							switch cfg {
							case 1:
								cl.Timeout = 5 * time.Second
							case 2:
								cl.ReadTimeout = 5 * time.Second
							}
							conn := &dgramConn{in: dgrams, pause: 200 * time.Millisecond}
							rep, _, err := cl.ExchangeWithConn(q.Copy(), &dns.Conn{Conn: conn})
							if tail == "match" && (err != nil || rep == nil || rep.Id != q.Id) {
								r.Fail("ids/datagram", "%d replies of other IDs, then the matching one: got %v, err %v", n, rep, err)
							}
							if len(conn.readAt) == 0 || conn.readAt[0] == 0 {
								r.Count("exchanges that read without a deadline set", 1)
								return
							}
							first := conn.rdl[conn.readAt[0]-1]
							for k, at := range conn.readAt[1:] {
								if d := conn.rdl[at-1]; d.Sub(first) > 100*time.Millisecond {
									r.Fail("ids/deadline-extended", "%d replies of other IDs (200 ms apart), client config %d: the read deadline in force at read %d is %v later than the one the exchange started with — every skipped reply re-arms the timeout, the exchange never reaches its deadline", n, cfg, k+2, d.Sub(first))
									break
								}
							}
							r.Count("reads", int64(len(conn.readAt)))
						})
					}
				}
			}
		})
}
