package main

import (
	"bytes"
	"fmt"
	"strconv"
	"strings"

	"github.com/miekg/dns"
	"verif/harness/bind"
	"verif/harness/enum"
	"verif/harness/fw"
	rn "verif/harness/ref/name"
	rt "verif/harness/ref/text"
	"verif/harness/ref/wire"
)

// C05 — presentation text is a faithful, re-readable encoding (DESIGN §5 C05).

func init() {
	fw.Register(&fw.Check{Prop: "C05", Level: "exploration",
		Assume: []string{
			"types without a presentation format are excluded: OPT, TSIG, TKEY, NULL, ANY, NXNAME and private types",
			"records are wire-origin (reference encoding → UnpackRR → String) and text-origin (the re-parsed record → String again)",
			"independent reading of the text: ref/text (RFC 1035 §5.1 tokenizer + per-kind field readers driven by the ref/wire layout table) for the types whose presentation is the plain field sequence; the other types are syntax-checked (one line, balanced quotes, only \\X and \\DDD ≤ 255 escapes, printable ASCII)",
		},
		Spaces: c05Spaces})
}

var c05NoText = map[uint16]bool{41: true, 250: true, 249: true, 10: true, 255: true, 128: true}

func c05Syntax(text string) string {
	inQ := false
	for i := 0; i < len(text); i++ {
		c := text[i]
		switch {
		case c == '\\':
			if i+1 >= len(text) {
				return "dangling backslash at the end"
			}
			if text[i+1] >= '0' && text[i+1] <= '9' {
				if i+3 >= len(text) || text[i+2] < '0' || text[i+2] > '9' || text[i+3] < '0' || text[i+3] > '9' {
					return fmt.Sprintf("backslash-digit that is not \\DDD at offset %d", i)
				}
				if v := int(text[i+1]-'0')*100 + int(text[i+2]-'0')*10 + int(text[i+3]-'0'); v > 255 {
					return fmt.Sprintf("\\DDD > 255 at offset %d", i)
				}
				i += 3
			} else {
				if text[i+1] < 0x20 || text[i+1] > 0x7e {
					return fmt.Sprintf("backslash before a non-printable octet at offset %d", i)
				}
				i++
			}
		case c == '"':
			inQ = !inQ
		case c == '\t' || c == ' ':
		case c == '\n':
			return fmt.Sprintf("raw newline at offset %d", i)
		case c < 0x20 || c > 0x7e:
			return fmt.Sprintf("raw octet %#x at offset %d", c, i)
		case (c == ';' || c == '(' || c == ')') && !inQ:
			return fmt.Sprintf("unquoted, unescaped %q at offset %d", c, i)
		}
	}
	if inQ {
		return "unbalanced quote"
	}
	return ""
}

// c05RR: one abstract record through wire → String → NewRR → wire.
func c05RR(r *fw.R, ar *wire.RR, tn string) {
	want, err := wire.EncodeRR(nil, ar)
	if err != nil {
		return
	}
	rr, _, err := dns.UnpackRR(want, 0)
	if err != nil {
		return // C01's business
	}
	text := rr.String()
	key := func(k string) string { return k + "/" + tn }
	if bf := c05BareField(ar); bf != "" {
		// one root cause, one key: the field is printed without quotes or escapes and read back as one bare token
		key = func(k string) string { return "bare-unescaped-field/" + bf + "#" }
	}
	if bad := c05Syntax(text); bad != "" {
		r.Fail(c05Key(key("syntax"), ar), "String() is not RFC 1035 master-file syntax: %s\n text %q\n record %s", bad, text, rrDesc(ar))
	}
	rr2, err := dns.NewRR(text)
	if err != nil || rr2 == nil {
		r.Fail(c05Key(key("not-reparsable"), ar), "NewRR(String()) fails: %v\n text %q\n record %s", err, text, rrDesc(ar))
		return
	}
	h, h2 := rr.Header(), rr2.Header()
	p1, p2 := rn.Parse(h.Name), rn.Parse(h2.Name)
	if !rn.Equal(p1.Labels, p2.Labels) || h.Class != h2.Class || h.Ttl != h2.Ttl || h.Rrtype != h2.Rrtype {
		r.Fail(key("header-differs"), "re-parsed header %q %d %d %d differs from %q %d %d %d; text %q", h2.Name, h2.Class, h2.Ttl, h2.Rrtype, h.Name, h.Class, h.Ttl, h.Rrtype, text)
	}
	off, err := dns.PackRR(rr2, packBuf, 0, nil, false)
	if err != nil {
		r.Fail(c05Key(key("reparsed-unpackable"), ar), "the re-parsed record cannot be packed: %v; text %q", err, text)
		return
	}
	if got := packBuf[:off]; !bytes.Equal(got, want) {
		r.Fail(c05Key(key("rdata-differs"), ar), "text %q re-parses to different octets\n got  %x\n want %x", text, got, want)
		return
	}
	// String() ends without a line terminator: the zone parser reads exactly that text (NewRR appends a newline)
	{
		zp := dns.NewZoneParser(strings.NewReader(text), "", "")
		x, ok := zp.Next()
		if !ok || zp.Err() != nil || x == nil || x.String() != rr2.String() {
			r.Fail(c05Key(key("text-without-newline"), ar), "the zone parser reads String() as it stands (no final newline) as %v, Err() = %v; with a newline it reads %q", x, zp.Err(), rr2.String())
		} else if _, again := zp.Next(); again {
			r.Fail(c05Key(key("text-without-newline"), ar), "the zone parser returns a second record for %q", text)
		}
	}
	// as a line of a zone: the same text followed by another record of the same type (the type's default record under
	// another owner — what one reader keeps between records of a type may not leak from one into the other) and by an A
	// record — the reader may neither run into the next line nor leave something of this one behind, and the first
	// record, looked at after the others have been read, is still what it was
	{
		sib := c05Sibling(ar.Type)
		lines := text + "\n"
		if sib != "" {
			lines += sib + "\n"
		}
		lines += "next.example.\t7\tIN\tA\t192.0.2.77\n"
		zp := dns.NewZoneParser(strings.NewReader(lines), "", "")
		var got []dns.RR
		for x, ok := zp.Next(); ok && len(got) < 5; x, ok = zp.Next() {
			got = append(got, x)
		}
		n := 2
		if sib != "" {
			n = 3
		}
		switch {
		case zp.Err() != nil || len(got) != n:
			r.Fail(c05Key(key("zone-context"), ar), "the text followed by other record lines reads as %d records, Err() = %v (alone it reads fine)\n text %q", len(got), zp.Err(), lines)
		case got[0].String() != rr2.String() || got[n-1].Header().Name != "next.example." || got[n-1].String() != "next.example.\t7\tIN\tA\t192.0.2.77":
			r.Fail(c05Key(key("zone-context"), ar), "the text followed by other record lines reads as %q … %q\n text %q", got[0], got[n-1], lines)
		case sib != "" && got[1].String() != sib:
			r.Fail(c05Key(key("zone-context"), ar), "the record of the same type behind this one reads as %q, alone as %q\n text %q", got[1], sib, lines)
		}
	}
	// text-origin: printing the parsed record and parsing again is stable
	text2 := rr2.String()
	rr3, err := dns.NewRR(text2)
	if err != nil || rr3 == nil {
		r.Fail(key("text-origin-not-reparsable"), "NewRR of the text-origin record's String() fails: %v; %q", err, text2)
	} else if off, err := dns.PackRR(rr3, packBuf, 0, nil, false); err != nil || !bytes.Equal(packBuf[:off], want) {
		r.Fail(key("text-origin-differs"), "text-origin round trip changes the record: %q → %x (%v), want %x", text2, packBuf[:max(off, 0)], err, want)
	}
	// independent reader
	if s := wire.Specs[ar.Type]; s != nil && rt.Plain(ar.Type) {
		rd, err := rt.ReadRR(text, s)
		if err != nil {
			r.Fail(c05Key(key("independent-reader"), ar), "the reference reader cannot read %q: %v", text, err)
		} else if !bytes.Equal(rd, want) {
			r.Fail(c05Key(key("independent-reader"), ar), "the reference reader reads %q as\n %x\nwant %x", text, rd, want)
		} else {
			r.Count("read independently", 1)
		}
	}
}

// c05BareField names the first field of ar that the library prints bare (X25 address, GPOS coordinates, CAA
// tag) and that holds an octet which cannot stand in a bare token (or is empty).
func c05Key(k string, ar *wire.RR) string {
	if strings.HasSuffix(k, "#") {
		return strings.TrimSuffix(k, "#")
	}
	cls := c05Class(ar)
	switch {
	case strings.Contains(cls, "type-code-0"):
		return "display-only-mnemonic/None" // Type(0) prints as "None", which the parser does not read
	case strings.Contains(cls, "type-code-65535"):
		return "display-only-mnemonic/Reserved" // Type(65535) prints as "Reserved"
	case strings.Contains(cls, "octet>255"):
		return "octet-field-over-255/" + wire.Specs[ar.Type].Mnem
	}
	return k + "/" + cls
}

func c05BareField(ar *wire.RR) string {
	bare := map[uint16]map[string]bool{19: {"PSDNAddress": true}, 257: {"Tag": true}}[ar.Type]
	if bare == nil || ar.Vals == nil {
		return ""
	}
	s := wire.Specs[ar.Type]
	for i, f := range s.Fields {
		if !bare[f.Go] {
			continue
		}
		b := ar.Vals[i].B
		hostile := len(b) == 0
		for _, c := range b {
			if c <= ' ' || c > '~' || c == '"' || c == '\\' || c == ';' || c == '(' || c == ')' {
				hostile = true
			}
		}
		if hostile {
			return s.Mnem + "." + f.Go
		}
	}
	return ""
}

// c05Class: what kind of hostile content the record carries (so that a known finding about one class does
// not hide another).
func c05Class(ar *wire.RR) string {
	s := wire.Specs[ar.Type]
	if s == nil || ar.Vals == nil {
		return "plain"
	}
	cls := map[string]bool{}
	note := func(field string, b []byte) {
		for _, c := range b {
			switch {
			case c == ' ' || c == '\t':
				cls[field+":blank"] = true
			case c == '"':
				cls[field+":quote"] = true
			case c == '\\':
				cls[field+":backslash"] = true
			case c == ';' || c == '(' || c == ')':
				cls[field+":special"] = true
			case c < 0x20 || c > 0x7e:
				cls[field+":non-printable"] = true
			}
		}
		if len(b) == 0 {
			cls[field+":empty"] = true
		}
	}
	for i, f := range s.Fields {
		v := ar.Vals[i]
		switch f.K {
		case wire.Str, wire.Octet:
			note(f.Go, v.B)
			if f.K == wire.Octet && len(v.B) > 255 {
				cls["octet>255"] = true
			}
		case wire.Txt:
			for _, x := range v.L {
				note(f.Go, x)
			}
		}
	}
	for i, f := range s.Fields {
		if f.K == wire.Nsec {
			for _, t := range ar.Vals[i].T {
				if t == 0 {
					cls["type-code-0"] = true
				}
			}
		}
		if f.K == wire.Nsec {
			for _, t := range ar.Vals[i].T {
				if t == 65535 {
					cls["type-code-65535"] = true
				}
			}
		}
		if f.Go == "TypeCovered" && ar.Vals[i].U == 0 {
			cls["type-code-0"] = true
		}
		if f.Go == "TypeCovered" && ar.Vals[i].U == 65535 {
			cls["type-code-65535"] = true
		}
	}
	if len(cls) == 0 {
		return "plain"
	}
	var ks []string
	for k := range cls {
		ks = append(ks, k)
	}
	sortStrings(ks)
	return strings.Join(ks, "+")
}

func sortStrings(s []string) {
	for i := 1; i < len(s); i++ {
		for j := i; j > 0 && s[j] < s[j-1]; j-- {
			s[j], s[j-1] = s[j-1], s[j]
		}
	}
}

// c05Presentable: records whose values the type's presentation format cannot express are outside "every record
// that has a presentation format": LOC with coordinates / precisions outside RFC 1876's ranges, HIP with an empty
// HIT or public key (RFC 8005 has no spelling for them), NSEC3 with an empty next-hashed-owner.
func c05Presentable(t uint16, s *wire.Spec, vals []wire.Val) bool {
	get := func(name string) wire.Val {
		for i, f := range s.Fields {
			if f.Go == name {
				return vals[i]
			}
		}
		return wire.Val{}
	}
	switch t {
	case 29: // LOC
		if get("Version").U != 0 {
			return false
		}
		for _, n := range []string{"Size", "HorizPre", "VertPre"} {
			v := get(n).U
			if v>>4 > 9 || v&0xf > 9 || (v>>4 == 0 && v&0xf != 0) {
				return false
			}
		}
		lat, lon := int64(get("Latitude").U)-(1<<31), int64(get("Longitude").U)-(1<<31)
		if lat < -90*3600000 || lat > 90*3600000 || lon < -180*3600000 || lon > 180*3600000 {
			return false
		}
	case 55: // HIP
		if len(get("Hit").B) == 0 || len(get("PublicKey").B) == 0 {
			return false
		}
	case 50: // NSEC3: an empty next hashed owner has no spelling; any other length is carried by the base32hex text
		if len(get("NextDomain").B) == 0 {
			return false
		}
	case 27: // GPOS: RFC 1712 strings are real numbers; the parser insists on that too
		for _, n := range []string{"Longitude", "Latitude", "Altitude"} {
			if _, err := strconv.ParseFloat(string(get(n).B), 64); err != nil || strings.ContainsAny(string(get(n).B), " \t\n\"\\;()") {
				return false
			}
		}
	}
	return true
}

func c05LOCVectors(yield func(vals []wire.Val, devs int)) {
	s := wire.Specs[29]
	sizes := []uint64{0x12, 0x00, 0x99, 0x13, 0x16, 0x90}
	lats := []uint64{1 << 31, 1<<31 + 1, 1<<31 - 324000000, 1<<31 + 324000000, 1<<31 + 1000, 1<<31 - 1}
	lons := []uint64{1 << 31, 1<<31 + 648000000, 1<<31 - 648000000, 1<<31 + 3599999}
	alts := []uint64{10000000, 0, 1<<32 - 1, 9999999, 10000001, 10000000 + 123456}
	for _, sz := range sizes {
		for _, hp := range sizes[:3] {
			for _, vp := range sizes[:3] {
				for _, la := range lats {
					for _, lo := range lons {
						for _, al := range alts {
							vals := make([]wire.Val, len(s.Fields))
							set := func(n string, v uint64) {
								for i, f := range s.Fields {
									if f.Go == n {
										vals[i].U = v
									}
								}
							}
							set("Size", sz)
							set("HorizPre", hp)
							set("VertPre", vp)
							set("Latitude", la)
							set("Longitude", lo)
							set("Altitude", al)
							yield(vals, 1)
						}
					}
				}
			}
		}
	}
}

func c05Spaces(c *fw.Ctx) {
	k, fullLimit, strLen := 3, 50000, 2
	if c.Thorough {
		k, fullLimit, strLen = 4, 1000000, 3
	}
	hostile := []byte{'a', '1', '"', '\\', ';', '(', ')', ' ', '\t', '\n', '@', '$', 0, 0x7f, 0xff}
	for _, t := range regTypes() {
		s := wire.Specs[t]
		if s == nil || c05NoText[t] {
			continue
		}
		tn := s.Mnem
		c.Space("rr/"+tn, fmt.Sprintf("type %s: field vectors (full product ≤ %d else ≤ %d deviations) with owner names from the name alphabet: wire → String → NewRR → wire identical; text re-read by the reference reader where the type is plain; non-trivial: ≥1 deviation", tn, fullLimit, k), true,
			func(emit func(func(*fw.R))) {
				gen := func(y func(vals []wire.Val, devs int)) { enum.Vectors(s, k, fullLimit, y) }
				if t == 29 {
					gen = c05LOCVectors
				}
				if t == 27 {
					gen = func(y func([]wire.Val, int)) {
						nums := []string{"-32.6882", "116.8652", "10.0", "0", "1e3", "-0.5"}
						for _, a := range nums {
							for _, b := range nums {
								for _, c := range nums {
									y([]wire.Val{{B: []byte(a)}, {B: []byte(b)}, {B: []byte(c)}}, 1)
								}
							}
						}
					}
				}
				gen(func(vals []wire.Val, devs int) {
					if !c05Presentable(t, s, vals) {
						return
					}
					emit(func(r *fw.R) {
						if devs > 0 {
							r.Nontrivial()
						}
						c05RR(r, &wire.RR{Name: enum.Names[0], Type: t, Class: 1, TTL: 3600, Vals: vals}, tn)
						r.Sample(func() any {
							rr, _ := bind.ToGo(&wire.RR{Name: enum.Names[0], Type: t, Class: 1, TTL: 3600, Vals: vals})
							if rr == nil {
								return tn
							}
							return rr.String()
						})
					})
				})
			})
		// hostile strings in every text-like field
		var textFields []int
		for i, f := range s.Fields {
			if f.K == wire.Str || f.K == wire.Octet || f.K == wire.Txt {
				textFields = append(textFields, i)
			}
		}
		if len(textFields) > 0 {
			c.Space("strings/"+tn, fmt.Sprintf("type %s: every character-string / text field set to every string of length ≤ %d over the 15-octet hostile alphabet {a 1 \" \\ ; ( ) SP TAB LF @ $ NUL DEL 0xff}; non-trivial: contains an octet that needs quoting or escaping", tn, strLen), true,
				func(emit func(func(*fw.R))) {
					var strs [][]byte
					var rec func(p []byte)
					rec = func(p []byte) {
						strs = append(strs, append([]byte(nil), p...))
						if len(p) == strLen {
							return
						}
						for _, h := range hostile {
							rec(append(p, h))
						}
					}
					rec(nil)
					for _, fi := range textFields {
						for _, str := range strs {
							fi, str := fi, str
							emit(func(r *fw.R) {
								if bytes.IndexAny(str, "\"\\;() \t\n@$\x00\x7f\xff") >= 0 {
									r.Nontrivial()
								}
								vals := enum.Default(s)
								if t == 27 {
									vals = []wire.Val{{B: []byte("1.5")}, {B: []byte("-2.5")}, {B: []byte("3")}}
								}
								if s.Fields[fi].K == wire.Txt {
									vals[fi] = wire.Val{L: [][]byte{str, []byte("z")}}
								} else {
									vals[fi] = wire.Val{B: str}
								}
								if !c05Presentable(t, s, vals) {
									r.Count("not presentable (outside the value space of the type)", 1)
									return
								}
								c05RR(r, &wire.RR{Name: enum.Names[0], Type: t, Class: 1, TTL: 60, Vals: vals}, tn)
							})
						}
					}
				})
		}
	}

	c.Space("loc-milliseconds", "LOC: every millisecond value 0..59999 of the seconds field, in latitude (north and south, at 0° 0′ and at 89° 59′) and longitude (east and west, at 0° 0′ and at 179° 59′): wire → String → NewRR → wire identical, and read the same by the reference reader; 100 values per case; non-trivial: all", true,
		func(emit func(func(*fw.R))) {
			s := wire.Specs[29]
			for base := 0; base < 60000; base += 100 {
				base := base
				emit(func(r *fw.R) {
					r.Nontrivial()
					for ms := base; ms < base+100; ms++ {
						for variant := 0; variant < 4; variant++ {
							lat, lon := uint64(ms), uint64(ms)
							if variant&2 != 0 {
								lat += 89*3600000 + 59*60000
								lon += 179*3600000 + 59*60000
							}
							la, lo := uint64(1<<31)+lat, uint64(1<<31)+lon
							if variant&1 != 0 {
								la, lo = uint64(1<<31)-lat, uint64(1<<31)-lon
							}
							vals := make([]wire.Val, len(s.Fields))
							for i, f := range s.Fields {
								switch f.Go {
								case "Size":
									vals[i].U = 0x12
								case "HorizPre":
									vals[i].U = 0x16
								case "VertPre":
									vals[i].U = 0x13
								case "Latitude":
									vals[i].U = la
								case "Longitude":
									vals[i].U = lo
								case "Altitude":
									vals[i].U = 10000000
								}
							}
							c05RR(r, &wire.RR{Name: enum.Names[0], Type: 29, Class: 1, TTL: 60, Vals: vals}, "LOC")
						}
					}
					r.Count("records", 400)
				})
			}
		})

	c.Space("apl-host-bits", "APL items whose address has bits set beyond the prefix length (an IPNet with host bits: 10.1.0.0/8, 10.128.0.0/1, 2001:db8::1/32 — RFC 3123 does not forbid them on the wire and Unpack accepts them), alone and behind a canonical item: the text printed for the unpacked record is read back to the same RDATA; non-trivial: all", true,
		func(emit func(func(*fw.R))) {
			items := []wire.AplItem{
				{Family: 1, Prefix: 8, Addr: []byte{10, 1}},
				{Family: 1, Prefix: 1, Addr: []byte{0xc0}},
				{Family: 1, Prefix: 31, Addr: []byte{10, 0, 0, 1}},
				{Family: 2, Prefix: 32, Neg: true, Addr: []byte{0x20, 1, 0x0d, 0xb8, 0, 0, 0, 0, 0, 0, 0, 0, 0, 0, 0, 1}},
			}
			canon := wire.AplItem{Family: 1, Prefix: 24, Addr: []byte{192, 0, 2}}
			for _, it := range items {
				for _, front := range []bool{false, true} {
					it, front := it, front
					emit(func(r *fw.R) {
						r.Nontrivial()
						its := []wire.AplItem{it}
						if front {
							its = []wire.AplItem{canon, it}
						}
						ar := &wire.RR{Name: enum.Names[0], Type: 42, Class: 1, TTL: 5, Vals: []wire.Val{{Apl: its}}}
						c05RR(r, ar, "APL-host-bits")
					})
				}
			}
		})
	c.Space("generic-form-reused", "for every registered type with a presentation format: one RFC3597 value receives ToRFC3597 of the type's default record, then of the next type's default record, then of an RDATA-less record (RFC 2136 form, class ANY) — after each step its String() is what a fresh RFC3597 value prints for the same record, and that text parses to a record with the same type, class and RDATA; non-trivial: all", true,
		func(emit func(func(*fw.R))) {
			types := regTypes()
			for ti, t := range types {
				sp := wire.Specs[t]
				if sp == nil || c05NoText[t] {
					continue
				}
				ti, t := ti, t
				emit(func(r *fw.R) {
					r.Nontrivial()
					mk := func(tt uint16) dns.RR {
						s2 := wire.Specs[tt]
						if s2 == nil || c05NoText[tt] {
							return nil
						}
						rr, err := bind.ToGo(&wire.RR{Name: enum.Names[0], Type: tt, Class: 1, TTL: 60, Vals: enum.Default(s2)})
						if err != nil {
							return nil
						}
						return rr
					}
					steps := []dns.RR{mk(t), mk(types[(ti+1)%len(types)]), &dns.ANY{Hdr: dns.RR_Header{Name: bind.LibName(enum.Names[0]), Rrtype: t, Class: dns.ClassANY}}, mk(t)}
					used := new(dns.RFC3597)
					for i, rr := range steps {
						if rr == nil {
							continue
						}
						fresh := new(dns.RFC3597)
						e1, e2 := used.ToRFC3597(rr), fresh.ToRFC3597(rr)
						if e1 != nil || e2 != nil {
							if (e1 == nil) != (e2 == nil) {
								r.Fail("generic-form-reused/error", "step %d: ToRFC3597(%s) = %v into a used value, %v into a fresh one", i, rr.String(), e1, e2)
							}
							continue
						}
						if used.String() != fresh.String() {
							r.Fail("generic-form-reused/text", "step %d: ToRFC3597(%s) prints %q from a value used before and %q from a fresh one", i, rr.String(), used.String(), fresh.String())
							continue
						}
						back, err := dns.NewRR(used.String())
						if err != nil || back == nil {
							r.Fail("generic-form-reused/not-reparsable", "step %d: %q: %v", i, used.String(), err)
							continue
						}
						if _, rdataLess := rr.(*dns.ANY); rdataLess {
							// "\\# 0" of a registered type reads back as that type's zero value, which packs with its
							// fixed-width fields (C01: a typed RDATA-less record is not demanded to re-pack to RDLENGTH 0);
							// what is demanded here is the text, compared above
							if back.Header().Rrtype != t || back.Header().Class != dns.ClassANY {
								r.Fail("generic-form-reused/header-differs", "step %d: %q reads back as type %d class %d", i, used.String(), back.Header().Rrtype, back.Header().Class)
							}
							continue
						}
						b1, b2 := make([]byte, 70000), make([]byte, 70000)
						n1, err1 := dns.PackRR(rr, b1, 0, nil, false)
						n2, err2 := dns.PackRR(back, b2, 0, nil, false)
						// TTL and Rdlength bookkeeping aside, the octets are the record's
						if err1 != nil || err2 != nil || !bytes.Equal(b1[:n1], b2[:n2]) {
							r.Fail("generic-form-reused/rdata-differs", "step %d: generic text %q reads back as %x (%v), the record is %x (%v)", i, used.String(), b2[:max(n2, 0)], err2, b1[:max(n1, 0)], err1)
						}
					}
				})
			}
		})

	c.Space("owner-class-ttl", "an A, an MX and a TXT record × every owner of the name alphabet × classes {1,3,4,254,255,0,2,65535} × TTLs {0,1,3600,2^31,2^32-1}; non-trivial: all", true,
		func(emit func(func(*fw.R))) {
			for _, own := range enum.Names {
				for _, cl := range []uint16{1, 3, 4, 254, 255, 0, 2, 65535} {
					for _, ttl := range []uint32{0, 1, 3600, 1 << 31, 1<<32 - 1} {
						own, cl, ttl := own, cl, ttl
						emit(func(r *fw.R) {
							r.Nontrivial()
							for _, t := range []uint16{1, 15, 16} {
								c05RR(r, &wire.RR{Name: own, Type: t, Class: cl, TTL: ttl, Vals: enum.Default(wire.Specs[t])}, "hdr")
							}
						})
					}
				}
			}
		})

	c.Space("type-codes", "all 65536 type codes: the numeric spelling TYPEnnn and, where the library has one, the mnemonic denote the same code; an unknown type prints as TYPEnnn with \\# rdata and re-parses to the same octets; every registered type written in the RFC 3597 generic form (\\# len hex of its default RDATA, also in upper-case hex digits split into two words) parses to the same record as its typed form; RDATA with surplus octets behind it in the generic form is refused where the type's wire format refuses it; a line that ends with its type (RDATA-less form; line break, next line, glued or separate comment behind it) reads the same with the mnemonic and with TYPEnnn; non-trivial: the code has a mnemonic", true,
		func(emit func(func(*fw.R))) {
			for code := 0; code < 65536; code++ {
				t := uint16(code)
				emit(func(r *fw.R) {
					num := fmt.Sprintf("TYPE%d", t)
					mn, hasMn := dns.TypeToString[t]
					if hasMn {
						r.Nontrivial()
					}
					// Type.String and the reverse maps
					if got := dns.Type(t).String(); hasMn && got != mn || !hasMn && got != num {
						r.Fail("type-code/string", "Type(%d).String() = %q", t, got)
					}
					if hasMn {
						if back, ok := dns.StringToType[mn]; !ok || back != t {
							r.Fail("type-code/mnemonic-map", "StringToType[%q] = %d, %v; want %d", mn, back, ok, t)
						}
					}
					s := wire.Specs[t]
					if c05NoText[t] {
						return
					}
					var rd []byte
					if s != nil {
						rd = (&wire.RR{Type: t, Vals: enum.Default(s)}).Rdata()
					} else {
						rd = []byte{1, 2, 3, byte(t)}
					}
					if s == nil && t%251 == 0 {
						rd = []byte{0x0a, 0xbc, 0xde, 0xf0 | byte(t&7)} // hex digits a-f among the data
					}
					want, _ := wire.EncodeRR(nil, &wire.RR{Name: enum.Names[0], Type: t, Class: 1, TTL: 7, Raw: rd, Generic: true})
					for si, spell := range []string{num, mn, num} {
						if spell == "" {
							continue
						}
						line := fmt.Sprintf("host.example. 7 IN %s \\# %d %x", spell, len(rd), rd)
						if si == 2 {
							// the same data in upper-case hex digits and cut into two words (RFC 3597 §5 allows white space
							// inside the hex; BIND and dig print upper case)
							h := strings.ToUpper(fmt.Sprintf("%x", rd))
							if len(h) < 4 || h == strings.ToLower(h) {
								continue
							}
							line = fmt.Sprintf("host.example. 7 IN %s \\# %d %s %s", spell, len(rd), h[:2], h[2:])
						}
						rr, err := dns.NewRR(line)
						if err != nil || rr == nil {
							if spell == "None" || spell == "Reserved" {
								r.Fail("display-only-mnemonic/"+spell, "NewRR(%q): %v (Type(%d).String() = %q is not readable)", line, err, t, spell)
								continue
							}
							r.Fail("type-code/generic-form-rejected", "NewRR(%q): %v", line, err)
							continue
						}
						off, err := dns.PackRR(rr, packBuf, 0, nil, false)
						if err != nil || !bytes.Equal(packBuf[:off], want) {
							r.Fail("type-code/generic-form-differs", "NewRR(%q) packs to %x (%v), want %x", line, packBuf[:max(off, 0)], err, want)
						}
					}
					if hasMn && mn != "None" && mn != "Reserved" && t != dns.TypeANY {
						// a line that ends with its type (the RDATA-less form of a dynamic update): where the mnemonic is
						// read, TYPEnnn is read the same way — with a line break, a comment or the end of the input behind it
						for _, tail := range []string{"\n", "\nnext. 7 IN A 192.0.2.1\n", ";c\n", " ;c\n"} {
							res := func(spell string) (string, error) {
								zp := dns.NewZoneParser(strings.NewReader("host.example. 7 IN "+spell+tail), "", "")
								rr, ok := zp.Next()
								if !ok || rr == nil {
									return "", zp.Err()
								}
								off, err := dns.PackRR(rr, packBuf, 0, nil, false)
								if err != nil {
									return "unpackable " + err.Error(), nil
								}
								return fmt.Sprintf("%x", packBuf[:off]), nil
							}
							a, ea := res(mn)
							b, eb := res(num)
							if a != "" && a != b {
								r.Fail("type-code/line-ends-with-type", "'host.example. 7 IN %s%s' gives the record %s, but with %s in its place: %q (%v)", mn, strings.ReplaceAll(tail, "\n", "<LF>"), a, num, b, eb)
							}
							if a == "" && b != "" {
								r.Fail("type-code/line-ends-with-type", "'host.example. 7 IN %s%s' gives the record %s, but with %s in its place an error: %v", num, strings.ReplaceAll(tail, "\n", "<LF>"), b, mn, ea)
							}
						}
					}
					if s != nil {
						// "any type may be written in the generic form with the same result": RDATA that the wire format of the
						// type does not allow (one octet, or a copy of the RDATA, behind the default RDATA) gives no record in the
						// generic form either, where the reference decoder of the type refuses it; where it is data of the
						// last field, the record carries it
						for _, extra := range [][]byte{{0}, {0xff, 0x01}, rd} {
							rd2 := append(append([]byte(nil), rd...), extra...)
							if len(rd2) > 60000 {
								continue
							}
							d := &wire.Decoder{Msg: rd2, LabelStarts: map[int]bool{}}
							_, derr := d.DecodeRdata(s, 0, len(rd2))
							line := fmt.Sprintf("host.example. 7 IN %s \\# %d %x", num, len(rd2), rd2)
							rr, err := dns.NewRR(line)
							if derr != nil && err == nil && rr != nil {
								r.Fail("type-code/generic-form-surplus-accepted", "NewRR(%q) = %q although these octets are no RDATA of type %s (reference decoder: %v): the generic form reads what the wire format refuses", clipStr(line, 300), clipStr(rr.String(), 200), mn, derr)
							}
							r.Count("generic forms with surplus octets", 1)
						}
					}
					if t%257 == 0 || s != nil {
						// RFC 3597 §5: the announced length must match the hex data
						for _, d := range []int{-1, 1} {
							if len(rd)+d < 0 {
								continue
							}
							line := fmt.Sprintf("host.example. 7 IN %s \\# %d %x", num, len(rd)+d, rd)
							if rr, err := dns.NewRR(line); err == nil && rr != nil {
								r.Fail("type-code/generic-form-length-ignored", "NewRR(%q) accepted a generic-form record whose length field does not match its data", line)
							}
						}
					}
					if s == nil {
						// unknown type from the wire prints in generic form
						rr, _, err := dns.UnpackRR(want, 0)
						if err == nil {
							text := rr.String()
							if !strings.Contains(text, num) || !strings.Contains(text, `\#`) {
								r.Fail("type-code/unknown-not-generic", "unknown type %d prints as %q", t, text)
							}
							if rr2, err := dns.NewRR(text); err != nil || rr2 == nil {
								r.Fail("type-code/unknown-not-reparsable", "NewRR(%q): %v", text, err)
							} else if off, err := dns.PackRR(rr2, packBuf, 0, nil, false); err != nil || !bytes.Equal(packBuf[:off], want) {
								r.Fail("type-code/unknown-differs", "%q → %x", text, packBuf[:max(off, 0)])
							}
						}
					}
				})
			}
		})

	c.Space("rdata-less-text", "for every registered type: the RDATA-less record (RFC 2136 §2.5.2 / §2.4: class ANY or NONE, RDLENGTH 0) as UnpackRR returns it from the wire: String() is read back by NewRR and by the zone parser (alone and followed by another record line) and gives a record with the same owner, class, TTL, type and no RDATA; one case per type; non-trivial: all", true,
		func(emit func(func(*fw.R))) {
			for _, t := range regTypes() {
				t := t
				if t == dns.TypeOPT || c05NoText[t] {
					continue
				}
				emit(func(r *fw.R) {
					r.Nontrivial()
					for _, class := range []uint16{dns.ClassANY, dns.ClassNONE} {
						wireb := []byte{4, 'h', 'o', 's', 't', 0, byte(t >> 8), byte(t), byte(class >> 8), byte(class), 0, 0, 0, 0, 0, 0}
						rr, _, err := dns.UnpackRR(wireb, 0)
						if err != nil || rr == nil {
							return // C01's business
						}
						text := rr.String()
						for vi, in := range []string{text, text + "\n", text + "\nnext. 7 IN A 192.0.2.1\n"} {
							zp := dns.NewZoneParser(strings.NewReader(in), "", "")
							back, ok := zp.Next()
							good := ok && back != nil && zp.Err() == nil
							if good {
								off, err := dns.PackRR(back, packBuf, 0, nil, false)
								good = err == nil && bytes.Equal(packBuf[:off], wireb)
							}
							if !good {
								r.Fail("not-reparsable/rdata-less", "type %d class %d without RDATA: String() = %q; read back (variant %d: 0 as it stands, 1 with a line break, 2 followed by another record) = %v, Err() = %v — not the record", t, class, text, vi, back, zp.Err())
								break
							}
						}
					}
				})
			}
		})

	c.Space("class-codes", "all 65536 class codes: CLASSnnn and the mnemonic (IN, CS, CH, HS, NONE, ANY) denote the same code in a record line; Class.String re-parses; non-trivial: the code has a mnemonic", true,
		func(emit func(func(*fw.R))) {
			for code := 0; code < 65536; code++ {
				cl := uint16(code)
				emit(func(r *fw.R) {
					mn, hasMn := dns.ClassToString[cl]
					if hasMn {
						r.Nontrivial()
					}
					for _, spell := range []string{fmt.Sprintf("CLASS%d", cl), mn, dns.Class(cl).String()} {
						if spell == "" {
							continue
						}
						line := fmt.Sprintf("host.example. 7 %s A 192.0.2.1", spell)
						rr, err := dns.NewRR(line)
						if err != nil || rr == nil {
							r.Fail("class-code/rejected/"+spell, "NewRR(%q): %v", line, err)
							continue
						}
						if rr.Header().Class != cl {
							r.Fail("class-code/differs", "NewRR(%q) has class %d, want %d", line, rr.Header().Class, cl)
						}
					}
				})
			}
		})
}

var c05SiblingCache = map[uint16]string{}

// c05Sibling returns the text of the default record of type t under the owner sibling.example. (as the library
// prints it after reading it), or "" when that text is not re-readable as it stands.
func c05Sibling(t uint16) string {
	if s, ok := c05SiblingCache[t]; ok {
		return s
	}
	out := ""
	if sp := wire.Specs[t]; sp != nil && t != 41 {
		if rr, err := bind.ToGo(&wire.RR{Name: enum.L("sibling", "example"), Type: t, Class: 1, TTL: 9, Vals: enum.Default(sp)}); err == nil {
			if x, err := dns.NewRR(rr.String()); err == nil && x != nil && x.String() == rr.String() && !strings.Contains(rr.String(), "\n") {
				out = rr.String()
			}
		}
	}
	c05SiblingCache[t] = out
	return out
}

func clipStr(s string, n int) string {
	if len(s) > n {
		return s[:n] + "…"
	}
	return s
}
