package main

import (
	"fmt"
	"net"
	"strings"

	"github.com/miekg/dns"
	"verif/harness/fw"
)

// Records in forms that only the Go structs can hold (the wire form is canonical, so vectors decoded from
// reference octets never have them): lists in an order the encoder has to sort, addresses in the 16-octet
// form of an IPv4 address, unmasked prefixes, mixed-case names. Every read-only operation has to leave
// exactly these alone — an encoder that normalises "in place" is invisible on canonical input.

func c16Perms(n int) [][]int {
	var out [][]int
	var rec func(p []int, used int)
	rec = func(p []int, used int) {
		if len(p) == n {
			out = append(out, append([]int(nil), p...))
			return
		}
		for i := 0; i < n; i++ {
			if used&(1<<i) == 0 {
				rec(append(p, i), used|1<<i)
			}
		}
	}
	rec(nil, 0)
	return out
}

type c16NC struct {
	what string
	mk   func() dns.RR
}

func c16NonCanonical() []c16NC {
	var out []c16NC
	hdr := func(t uint16) dns.RR_Header {
		return dns.RR_Header{Name: "Host.Example.ORG.", Rrtype: t, Class: dns.ClassINET, Ttl: 300}
	}
	// SVCB / HTTPS: every order of 4 parameters, each with every order of a 3-key mandatory list
	mandKeys := []dns.SVCBKey{dns.SVCB_ALPN, dns.SVCB_PORT, dns.SVCB_IPV4HINT}
	for _, t := range []uint16{dns.TypeSVCB, dns.TypeHTTPS} {
		for _, po := range c16Perms(4) {
			for _, mo := range c16Perms(3) {
				t, po, mo := t, po, mo
				out = append(out, c16NC{fmt.Sprintf("%s params in order %v, mandatory keys in order %v", dns.TypeToString[t], po, mo), func() dns.RR {
					mand := &dns.SVCBMandatory{}
					for _, i := range mo {
						mand.Code = append(mand.Code, mandKeys[i])
					}
					all := []dns.SVCBKeyValue{
						mand,
						&dns.SVCBAlpn{Alpn: []string{"h3", "h2"}},
						&dns.SVCBPort{Port: 8443},
						&dns.SVCBIPv4Hint{Hint: []net.IP{net.ParseIP("192.0.2.2"), net.IPv4(192, 0, 2, 1).To4()}},
					}
					var vals []dns.SVCBKeyValue
					for _, i := range po {
						vals = append(vals, all[i])
					}
					s := dns.SVCB{Hdr: hdr(t), Priority: 1, Target: "Svc.Example.ORG.", Value: vals}
					if t == dns.TypeHTTPS {
						return &dns.HTTPS{SVCB: s}
					}
					return &s
				}})
			}
		}
	}
	// type bitmaps in every order of 4 types over two windows (Pack refuses unsorted ones; it may not sort them)
	bm := []uint16{dns.TypeA, dns.TypeMX, dns.TypeRRSIG, dns.TypeCAA}
	for _, o := range c16Perms(4) {
		o := o
		bits := func() []uint16 {
			var b []uint16
			for _, i := range o {
				b = append(b, bm[i])
			}
			return b
		}
		out = append(out,
			c16NC{fmt.Sprintf("NSEC bitmap in order %v", o), func() dns.RR {
				return &dns.NSEC{Hdr: hdr(dns.TypeNSEC), NextDomain: "Next.Example.ORG.", TypeBitMap: bits()}
			}},
			c16NC{fmt.Sprintf("NSEC3 bitmap in order %v", o), func() dns.RR {
				return &dns.NSEC3{Hdr: hdr(dns.TypeNSEC3), Hash: 1, Iterations: 2, SaltLength: 2, Salt: "AbCd", HashLength: 20, NextDomain: "ck0pOJMG874LJREF7EFN8430QVIT8BSM", TypeBitMap: bits()}
			}},
			c16NC{fmt.Sprintf("CSYNC bitmap in order %v", o), func() dns.RR {
				return &dns.CSYNC{Hdr: hdr(dns.TypeCSYNC), Serial: 7, Flags: 3, TypeBitMap: bits()}
			}})
	}
	// OPT: every order of 4 options, with addresses / lists in non-canonical forms
	for _, o := range c16Perms(4) {
		o := o
		out = append(out, c16NC{fmt.Sprintf("OPT options in order %v (SUBNET IPv4 in 16-octet form with host bits set, DAU unsorted)", o), func() dns.RR {
			all := []dns.EDNS0{
				&dns.EDNS0_SUBNET{Code: dns.EDNS0SUBNET, Family: 1, SourceNetmask: 20, Address: net.ParseIP("192.0.2.255")},
				&dns.EDNS0_DAU{Code: dns.EDNS0DAU, AlgCode: []uint8{15, 8, 13}},
				&dns.EDNS0_COOKIE{Code: dns.EDNS0COOKIE, Cookie: "AbCdEf0123456789"},
				&dns.EDNS0_NSID{Code: dns.EDNS0NSID, Nsid: "AbCd"},
			}
			opt := &dns.OPT{Hdr: dns.RR_Header{Name: ".", Rrtype: dns.TypeOPT, Class: 1232}}
			for _, i := range o {
				opt.Option = append(opt.Option, all[i])
			}
			return opt
		}})
	}
	// OPT with 1..3 Report-Channel options whose agent domain is not fully qualified (the packer completes it)
	for n := 1; n <= 3; n++ {
		for _, agent := range []string{"agent.example.net", "Agent.Example.NET", "a"} {
			n, agent := n, agent
			out = append(out, c16NC{fmt.Sprintf("OPT with %d REPORTING option(s), agent domain %q not fully qualified", n, agent), func() dns.RR {
				opt := &dns.OPT{Hdr: dns.RR_Header{Name: ".", Rrtype: dns.TypeOPT, Class: 1232}}
				for i := 0; i < n; i++ {
					opt.Option = append(opt.Option, &dns.EDNS0_REPORTING{Code: dns.EDNS0REPORTING, AgentDomain: agent})
				}
				return opt
			}})
		}
	}
	// single records
	single := []c16NC{
		{"A with the address in 16-octet form", func() dns.RR { return &dns.A{Hdr: hdr(dns.TypeA), A: net.ParseIP("192.0.2.1")} }},
		{"AAAA holding a 4-octet address", func() dns.RR { return &dns.AAAA{Hdr: hdr(dns.TypeAAAA), AAAA: net.IPv4(192, 0, 2, 1).To4()} }},
		{"APL with unmasked prefixes, IPv4 in 16-octet form", func() dns.RR {
			return &dns.APL{Hdr: hdr(dns.TypeAPL), Prefixes: []dns.APLPrefix{
				{Network: net.IPNet{IP: net.ParseIP("192.0.2.255"), Mask: net.CIDRMask(20+96, 128)}},
				{Negation: true, Network: net.IPNet{IP: net.ParseIP("2001:db8::ff"), Mask: net.CIDRMask(32, 128)}},
				{Network: net.IPNet{IP: net.IPv4(10, 1, 2, 3).To4(), Mask: net.CIDRMask(8, 32)}}}}
		}},
		{"L32 with the locator in 16-octet form", func() dns.RR { return &dns.L32{Hdr: hdr(dns.TypeL32), Preference: 1, Locator32: net.ParseIP("192.0.2.1")} }},
		{"IPSECKEY gateway IPv4 in 16-octet form", func() dns.RR {
			return &dns.IPSECKEY{Hdr: hdr(dns.TypeIPSECKEY), Precedence: 1, GatewayType: 1, Algorithm: 2, GatewayAddr: net.ParseIP("192.0.2.1"), PublicKey: "AQNRU3mG7TVTO2BkR47usntb102uFJtugbo6BSGvgqt4AQ=="}
		}},
		{"AMTRELAY gateway host in mixed case", func() dns.RR {
			return &dns.AMTRELAY{Hdr: hdr(dns.TypeAMTRELAY), Precedence: 1, GatewayType: 3, GatewayHost: "Relay.Example.ORG."}
		}},
		{"TSIG with a mixed-case algorithm name and MAC", func() dns.RR {
			return &dns.TSIG{Hdr: dns.RR_Header{Name: "Key.Example.ORG.", Rrtype: dns.TypeTSIG, Class: dns.ClassANY}, Algorithm: "HMAC-SHA256.", TimeSigned: 1, Fudge: 300, MACSize: 2, MAC: "AbCd", OrigId: 7, OtherLen: 2, OtherData: "Ef01"}
		}},
		{"DS with a mixed-case digest", func() dns.RR { return &dns.DS{Hdr: hdr(dns.TypeDS), KeyTag: 1, Algorithm: 8, DigestType: 2, Digest: "AbCdEf"} }},
		{"SSHFP / TLSA / CERT mixed-case hex", func() dns.RR { return &dns.TLSA{Hdr: hdr(dns.TypeTLSA), Usage: 3, Selector: 1, MatchingType: 1, Certificate: "aBcDeF"} }},
		{"RRSIG with a mixed-case signer", func() dns.RR {
			return &dns.RRSIG{Hdr: hdr(dns.TypeRRSIG), TypeCovered: dns.TypeMX, Algorithm: 13, Labels: 3, OrigTtl: 300, Expiration: 2, Inception: 1, KeyTag: 5, SignerName: "Example.ORG.", Signature: "AbCd"}
		}},
		{"HIP with mixed-case servers", func() dns.RR {
			return &dns.HIP{Hdr: hdr(dns.TypeHIP), HitLength: 2, PublicKeyAlgorithm: 2, PublicKeyLength: 3, Hit: "AbCd", PublicKey: "AQID", RendezvousServers: []string{"Rvs2.Example.ORG.", "rvs1.example.org."}}
		}},
		{"TXT with an empty string and escapes", func() dns.RR { return &dns.TXT{Hdr: hdr(dns.TypeTXT), Txt: []string{"", "a\\\"b", "\\065"}} }},
		{"NSEC with an empty, non-nil bitmap", func() dns.RR { return &dns.NSEC{Hdr: hdr(dns.TypeNSEC), NextDomain: "Next.Example.ORG.", TypeBitMap: []uint16{}} }},
	}
	return append(out, single...)
}

// c16MsgReadOnly: the same record inside a message, through the message-level read-only operations.
func c16MsgReadOnly(r *fw.R, what string, mk func() dns.RR) {
	rr := mk()
	m := new(dns.Msg)
	m.SetQuestion("Host.Example.ORG.", dns.TypeANY)
	if rr.Header().Rrtype == dns.TypeOPT || rr.Header().Rrtype == dns.TypeTSIG {
		m.Extra = []dns.RR{rr}
	} else {
		m.Answer = []dns.RR{rr, mk()}
		m.Ns = []dns.RR{mk()}
	}
	before, _ := graph(m, false, true)
	ops := []struct {
		name string
		f    func()
	}{
		{"Msg.Len", func() { m.Len() }},
		{"Msg.Pack", func() { m.Pack() }},
		{"Msg.Pack-compress", func() { m.Compress = true; m.Pack(); m.Compress = false }},
		{"Msg.PackBuffer", func() { m.PackBuffer(make([]byte, 0, 8)) }},
		{"Msg.String", func() { _ = m.String() }},
		{"Msg.Copy", func() { m.Copy() }},
		{"Msg.IsEdns0", func() { m.IsEdns0(); m.IsTsig() }},
		{"Dedup-of-copies", func() {
			cp := m.Copy()
			dns.Dedup(cp.Answer, nil)
		}},
		{"IsRRset", func() { dns.IsRRset(m.Answer) }},
	}
	for _, op := range ops {
		op.f()
		if after, _ := graph(m, false, true); after != before {
			r.Fail("mutated-by/"+op.name+"/noncanonical", "%s changed its argument — %s:\n before %s\n after  %s", op.name, what, before, after)
			before = after
		}
	}
}

func c16NonCanonicalSpace(c *fw.Ctx) {
	list := c16NonCanonical()
	c.Space("noncanonical", fmt.Sprintf("%d records in forms only the Go structs can hold: SVCB/HTTPS with every order of 4 parameters × every order of a 3-key mandatory list, NSEC/NSEC3/CSYNC bitmaps in every order of 4 types over two windows, OPT with every order of 4 options (SUBNET IPv4 in 16-octet form with host bits, unsorted DAU), 16-octet IPv4 forms (A, L32, APL, IPSECKEY), unmasked APL prefixes, mixed-case names / hex / base64 (AMTRELAY, TSIG, DS, TLSA, RRSIG, HIP), TXT with empty strings: PackRR (± compression), Len, String, IsDuplicate (with itself, a copy and a freshly built twin), Copy, and inside a message Len / Pack (± compression) / PackBuffer / String / Copy / IsRRset / Dedup of a copy leave the argument unchanged; non-trivial: all", len(list)), true,
		func(emit func(func(*fw.R))) {
			for _, nc := range list {
				nc := nc
				emit(func(r *fw.R) {
					r.Nontrivial()
					tn := strings.Fields(nc.what)[0]
					rr := nc.mk()
					c16ReadOnly(r, tn+"/noncanonical", rr)
					// a twin built separately: IsDuplicate may change neither
					a, b := nc.mk(), nc.mk()
					ba, _ := graph(a, false, true)
					bb, _ := graph(b, false, true)
					dns.IsDuplicate(a, b)
					aa, _ := graph(a, false, true)
					ab, _ := graph(b, false, true)
					if aa != ba || ab != bb {
						r.Fail("mutated-by/IsDuplicate/"+tn+"/noncanonical", "IsDuplicate changed an argument — %s:\n before %s | %s\n after  %s | %s", nc.what, ba, bb, aa, ab)
					}
					c16MsgReadOnly(r, nc.what, nc.mk)
					r.Sample(func() any { return nc.what })
				})
			}
		})
}
