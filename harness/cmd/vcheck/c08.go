package main

import (
	"fmt"
	"strings"

	"github.com/miekg/dns"
	"verif/harness/bind"
	"verif/harness/enum"
	"verif/harness/fw"
	"verif/harness/ref/wire"
)

// C08 — Len never under-estimates, exact on plain messages, Pack always has room (DESIGN §5 C08).

func init() {
	fw.Register(&fw.Check{Prop: "C08", Level: "exploration",
		Assume: []string{
			"messages are built from the abstract cases of ref/wire through package bind; the packed length is the library's own Pack output (whose octets are checked by C01/C04)",
			"exactness is demanded only for the 16 common types listed in the property with escape-free names and strings",
		},
		Spaces: c08Spaces})
}

func isBufErr(err error) bool {
	if err == nil {
		return false
	}
	s := err.Error()
	return err == dns.ErrBuf || strings.Contains(s, "buffer size too small") || strings.Contains(s, "overflow")
}

func c08Msg(r *fw.R, m *wire.Msg, tag string) {
	g, err := bind.ToGoMsg(m)
	if err != nil {
		r.Fail("bind/msg", "%v", err)
		return
	}
	plain := msgPlain(m)
	if plain {
		r.Nontrivial()
	}
	var ulen int
	for _, comp := range []bool{false, true} {
		g.Compress = comp
		l := g.Len()
		b, err := g.Pack()
		if err != nil {
			if isBufErr(err) {
				r.Fail("pack-no-room/"+tag, "Pack(Compress=%v) failed for lack of space: %v (Len=%d)\n%s", comp, err, l, msgDesc(m))
			} else {
				r.Fail("pack-error/"+tag, "Pack(Compress=%v): %v\n%s", comp, err, msgDesc(m))
			}
			continue
		}
		if !comp {
			ulen = len(b)
		}
		if l < len(b) {
			r.Fail("len-underestimates/"+tag, "Len()=%d < len(Pack())=%d with Compress=%v\n%s", l, len(b), comp, msgDesc(m))
		}
		if plain && l != len(b) {
			r.Fail("len-inexact/"+tag, "Len()=%d but len(Pack())=%d with Compress=%v for an escape-free message of common types\n%s", l, len(b), comp, msgDesc(m))
		}
	}
	if ulen == 0 {
		return
	}
	// PackBuffer with caller buffers around the uncompressed length. "Uncompressed length" is what a caller
	// can know beforehand: Len() with Compress=false (≥ the true length; equal for plain messages).
	g.Compress = false
	lu := g.Len()
	g.Compress = true
	cl := g.Len() // the compressed length: a caller's buffer between it and the uncompressed length is too small, not "just enough"
	for _, comp := range []bool{false, true} {
		g.Compress = comp
		for _, n := range []int{ulen - 1, ulen, ulen + 1, lu - 1, lu, lu + 1, lu + 2, lu + 100, cl - 1, cl, cl + 1, cl + 2, cl + 5, cl + 9, (cl + ulen) / 2} {
			if n < 0 {
				continue
			}
			buf := make([]byte, n)
			out, err := g.PackBuffer(buf)
			if err != nil {
				if isBufErr(err) {
					r.Fail("packbuffer-no-room/"+tag, "PackBuffer(buf of %d, true uncompressed length %d, predicted %d, Compress=%v): %v\n%s", n, ulen, lu, comp, err, msgDesc(m))
				}
				continue
			}
			if n > lu && len(out) > 0 && &out[0] != &buf[0] {
				r.Fail("packbuffer-not-in-place/"+tag, "PackBuffer(buf of %d > uncompressed Len() %d, Compress=%v) did not write into the caller's buffer\n%s", n, lu, comp, msgDesc(m))
			}
		}
	}
}

// c08PackBufferGrid: PackBuffer with caller buffers around the true and the predicted uncompressed length never
// fails for lack of room (too small a buffer is replaced, one that is large enough is used), for a message built
// from Go structs.
func c08PackBufferGrid(r *fw.R, m *dns.Msg, tag, desc string) {
	keep := m.Compress
	defer func() { m.Compress = keep }()
	m.Compress = false
	lu := m.Len()
	b, err := m.Pack()
	if err != nil {
		return
	}
	ulen := len(b)
	m.Compress = true
	cl := m.Len()
	for _, comp := range []bool{false, true} {
		m.Compress = comp
		for _, n := range []int{0, ulen - 1, ulen, ulen + 1, lu - 1, lu, lu + 1, lu + 2, cl - 1, cl, cl + 1, cl + 2, cl + 5, cl + 9, (cl + ulen) / 2} {
			if n < 0 {
				continue
			}
			buf := make([]byte, n)
			out, err := m.PackBuffer(buf)
			if err != nil {
				if isBufErr(err) {
					r.Fail("packbuffer-no-room/"+tag, "PackBuffer(buf of %d, true uncompressed length %d, predicted %d, Compress=%v): %v — %s", n, ulen, lu, comp, err, desc)
				}
				continue
			}
			if n > lu && len(out) > 0 && &out[0] != &buf[0] {
				r.Fail("packbuffer-not-in-place/"+tag, "PackBuffer(buf of %d > uncompressed Len() %d, Compress=%v) did not write into the caller's buffer — %s", n, lu, comp, desc)
			}
		}
	}
}

func c08Spaces(c *fw.Ctx) {
	nU, dev := 6, 2
	k, fullLimit := 2, 3000
	if c.Thorough {
		nU, dev = 9, 3
		k, fullLimit = 3, 40000
	}
	// single records of every type: Len(rr) vs PackRR, and as the only answer of a message
	for _, t := range regTypes() {
		s := wire.Specs[t]
		if s == nil {
			continue
		}
		tn := s.Mnem
		owner := enum.Names[0]
		class, ttl := uint16(1), uint32(3600)
		if t == 41 {
			owner, class, ttl = nil, 1232, 0
		}
		c.Space("rr/"+tn, fmt.Sprintf("type %s: field vectors (full product ≤ %d else ≤ %d deviations), as a single record (Len(rr) ≥ PackRR) and as the answer of a message under both Compress settings; non-trivial: escape-free record of a common type (exactness applies)", tn, fullLimit, k), true,
			func(emit func(func(*fw.R))) {
				enum.Vectors(s, k, fullLimit, func(vals []wire.Val, devs int) {
					emit(func(r *fw.R) {
						ar := wire.RR{Name: owner, Type: t, Class: class, TTL: ttl, Vals: vals}
						rr, err := bind.ToGo(&ar)
						if err != nil {
							return // unrepresentable (C01 reports those)
						}
						off, err := dns.PackRR(rr, packBuf, 0, nil, false)
						if err == nil {
							if l := dns.Len(rr); l < off {
								r.Fail("len-rr-underestimates/"+tn, "Len(rr)=%d < packed %d: %s", l, off, rrDesc(&ar))
							}
						}
						m := &wire.Msg{ID: 9, Flags: 0x8000, Q: []wire.Question{{Name: enum.Names[0], Type: t, Class: 1}}}
						sec := 0
						if t == 41 {
							sec = 2
						}
						m.Sec[sec] = []wire.RR{ar}
						if len(ar.Rdata()) > 65000 {
							return
						}
						c08Msg(r, m, tn)
						r.Sample(func() any { return rrDesc(&ar) })
					})
				})
			})
	}
	c.Space("pairs", fmt.Sprintf("question + one record of every name-bearing type + one NS over the first %d names of the collision universe; non-trivial: escape-free common types", nU), true,
		func(emit func(func(*fw.R))) {
			genPairs(nU, func(m *wire.Msg) {
				emit(func(r *fw.R) {
					c08Msg(r, m, "pairs")
					r.Sample(func() any { return msgDesc(m) })
				})
			})
		})
	c.Space("sections", fmt.Sprintf("1-2 questions + ≤4 records of RFC 1035 types: all assignments ≤2 records, ≤%d deviations for 3-4; non-trivial: escape-free", dev), true,
		func(emit func(func(*fw.R))) {
			genSections(nU, dev, func(m *wire.Msg) {
				emit(func(r *fw.R) { c08Msg(r, m, "sections") })
			})
		})
	c.Space("escaped-name-tails", "the messages of C04's space of that name (names with escapes × every tail of their presentation text as a later name, 3 shapes): Len ≥ Pack under both Compress settings, PackBuffer as for every message; non-trivial: escape-free", true,
		func(emit func(func(*fw.R))) {
			genTails(func(m *wire.Msg, what string) {
				emit(func(r *fw.R) {
					r.Nontrivial()
					c08Msg(r, m, "escaped-name-tails")
					r.Sample(func() any { return what })
				})
			})
		})
	c.Space("offset-16384", "messages whose late names start at every offset 16360..16410 (compression map cut-off): Len ≥ Pack, exact when plain; non-trivial: escape-free", true,
		func(emit func(func(*fw.R))) {
			genOffsets(16360, 16410, func(m *wire.Msg, at int) {
				emit(func(r *fw.R) { c08Msg(r, m, "offset") })
			})
		})
	c.Space("offset-16384-typed", "one record of every name-bearing type starting at every offset 16290..16390 (its RDATA names, with suffixes new to the message, sweep across the 16384 pointer limit), followed by NS/MX/CNAME records with names below those suffixes: Len ≥ Pack, exact when plain; non-trivial: escape-free common type", true,
		func(emit func(func(*fw.R))) {
			genOffsetsTyped(16290, 16390, func(m *wire.Msg, at int, t uint16) {
				emit(func(r *fw.R) { c08Msg(r, m, "offset-typed") })
			})
		})
	c.Space("root", "question + one record of every name-bearing type + two NS over the names {root, example, a.example} in every position: Len ≥ Pack, exact when plain; non-trivial: escape-free common type", true,
		func(emit func(func(*fw.R))) {
			genRoot(false, func(m *wire.Msg) {
				emit(func(r *fw.R) { c08Msg(r, m, "root") })
			})
		})
	c.Space("zero-values", "every registered type as the Go zero value with only its header set (nil slices, empty strings: what a caller builds by hand and what Unpack returns for RDLENGTH 0), alone, twice and three times in a message, under both Compress settings: where Pack succeeds Len ≥ Pack, Len(rr) ≥ PackRR, and neither Pack nor PackBuffer (caller buffers of 0 and of the true / predicted uncompressed length −1…+2) fails for lack of room; non-trivial: PackRR succeeds", true,
		func(emit func(func(*fw.R))) {
			for _, t := range regTypes() {
				t := t
				emit(func(r *fw.R) {
					mk := func() dns.RR {
						rr := dns.TypeToRR[t]()
						*rr.Header() = dns.RR_Header{Name: "zero.example.", Rrtype: t, Class: dns.ClassINET, Ttl: 5}
						if t == dns.TypeOPT {
							*rr.Header() = dns.RR_Header{Name: ".", Rrtype: t, Class: 1232}
						}
						return rr
					}
					buf := make([]byte, 1024)
					if n, err := dns.PackRR(mk(), buf, 0, nil, false); err == nil {
						r.Nontrivial()
						if l := dns.Len(mk()); l < n {
							r.Fail("len-underestimates/zero-value", "type %d zero value: Len(rr) = %d < PackRR = %d octets", t, l, n)
						}
					} else {
						return // not packable as it stands: outside the statement
					}
					for k := 1; k <= 3; k++ {
						for _, comp := range []bool{false, true} {
							m := new(dns.Msg)
							m.Compress = comp
							m.SetQuestion("zero.example.", t)
							for i := 0; i < k; i++ {
								if t == dns.TypeOPT {
									m.Extra = append(m.Extra, mk())
								} else {
									m.Answer = append(m.Answer, mk())
								}
							}
							l := m.Len()
							b, err := m.Pack()
							switch {
							case err != nil && isBufErr(err):
								r.Fail("pack-no-room/zero-value", "%d zero-value records of type %d, Compress=%v: Pack fails for lack of room: %v (Len=%d)", k, t, comp, err, l)
							case err == nil && l < len(b):
								r.Fail("len-underestimates/zero-value", "%d zero-value records of type %d, Compress=%v: Len() = %d < len(Pack()) = %d", k, t, comp, l, len(b))
							}
							if comp {
								c08PackBufferGrid(r, m, "zero-value", fmt.Sprintf("%d zero-value records of type %d", k, t))
							}
						}
					}
				})
			}
		})
	ncList := c16NonCanonical()
	c.Space("go-forms", fmt.Sprintf("%d records in forms only the Go structs can hold (the list of C16's noncanonical space: parameter / option / bitmap lists in every order, 16-octet IPv4 forms, unmasked prefixes, mixed case, REPORTING agent domains that the packer has to complete with the root): Len(rr) ≥ PackRR, and 1, 2 and 3 of them in a message under both Compress settings: Len ≥ Pack and Pack never fails for lack of room (forms that PackRR refuses even with 65535 free octets — an unsorted bitmap, an AAAA holding 4 octets — are not packable messages and are counted); non-trivial: Pack succeeds", len(ncList)), true,
		func(emit func(func(*fw.R))) {
			for _, nc := range ncList {
				nc := nc
				emit(func(r *fw.R) {
					tn := strings.Fields(nc.what)[0]
					rr := nc.mk()
					buf := make([]byte, 65535)
					if off, err := dns.PackRR(rr, buf, 0, nil, false); err == nil {
						r.Nontrivial()
						if l := dns.Len(rr); l < off {
							r.Fail("rr-len-underestimates/"+tn+"/go-forms", "Len(rr)=%d < PackRR=%d — %s", l, off, nc.what)
						}
					} else {
						// not packable even into 65535 free octets: outside "every message that can be packed"
						r.Count("PackRR refuses the form", 1)
						return
					}
					for n := 1; n <= 3; n++ {
						for _, comp := range []bool{false, true} {
							m := new(dns.Msg)
							m.SetQuestion("Host.Example.ORG.", dns.TypeANY)
							m.Compress = comp
							for i := 0; i < n; i++ {
								if t := rr.Header().Rrtype; t == dns.TypeOPT || t == dns.TypeTSIG {
									m.Extra = append(m.Extra, nc.mk())
								} else {
									m.Answer = append(m.Answer, nc.mk())
								}
							}
							l := m.Len()
							b, err := m.Pack()
							switch {
							case err != nil && isBufErr(err):
								r.Fail("pack-no-room/"+tn+"/go-forms", "Pack(Compress=%v) of %d × {%s} failed for lack of space: %v (Len=%d)", comp, n, nc.what, err, l)
							case err != nil:
								r.Count("Pack refuses the form", 1)
							case l < len(b):
								r.Fail("len-underestimates/"+tn+"/go-forms", "Len()=%d < len(Pack())=%d with Compress=%v for %d × {%s}", l, len(b), comp, n, nc.what)
							}
							if comp && err == nil {
								c08PackBufferGrid(r, m, tn+"/go-forms", fmt.Sprintf("%d × {%s}", n, nc.what))
							}
						}
					}
					r.Sample(func() any { return nc.what })
				})
			}
		})

	c.Space("bitmaps", "NSEC, NSEC3 and CSYNC with every subset of the type set {0,1,255,256,257,65535} (ascending) as bitmap; non-trivial: non-empty subset", true,
		func(emit func(func(*fw.R))) {
			set := []uint16{0, 1, 255, 256, 257, 65535}
			for mask := 0; mask < 64; mask++ {
				mask := mask
				emit(func(r *fw.R) {
					var tb []uint16
					for i, t := range set {
						if mask&(1<<i) != 0 {
							tb = append(tb, t)
						}
					}
					if mask != 0 {
						r.Nontrivial()
					}
					for _, t := range []uint16{47, 50, 62} {
						s := wire.Specs[t]
						vals := enum.Default(s)
						for i, f := range s.Fields {
							if f.K == wire.Nsec {
								vals[i] = wire.Val{T: tb}
							}
						}
						m := &wire.Msg{ID: 9, Flags: 0x8000}
						m.Sec[1] = []wire.RR{{Name: enum.Names[0], Type: t, Class: 1, TTL: 1, Vals: vals}}
						c08Msg(r, m, "bitmap")
					}
				})
			}
		})
	c.Space("apl-prefixes", "APL with every prefix length 0..32 (IPv4) and 0..128 (IPv6) of the all-ones address, negated or not; non-trivial: all", true,
		func(emit func(func(*fw.R))) {
			for fam := 1; fam <= 2; fam++ {
				bits := 32
				if fam == 2 {
					bits = 128
				}
				for p := 0; p <= bits; p++ {
					fam, p := fam, p
					emit(func(r *fw.R) {
						r.Nontrivial()
						addr := make([]byte, (p+7)/8)
						for i := range addr {
							addr[i] = 0xff
						}
						if p%8 != 0 {
							addr[len(addr)-1] = byte(0xff << (8 - p%8))
						}
						for _, neg := range []bool{false, true} {
							m := &wire.Msg{ID: 9, Flags: 0x8000}
							m.Sec[0] = []wire.RR{{Name: enum.Names[0], Type: 42, Class: 1, TTL: 1, Vals: []wire.Val{{Apl: []wire.AplItem{{Family: uint16(fam), Prefix: uint8(p), Neg: neg, Addr: addr}, {Family: 1, Prefix: 8, Addr: []byte{10}}}}}}}
							c08Msg(r, m, "apl")
						}
					})
				}
			}
		})
}
