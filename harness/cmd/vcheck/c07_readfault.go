package main

import (
	"errors"
	"fmt"
	"io"
	"io/fs"
	"strings"
	"syscall"

	"github.com/miekg/dns"
	"verif/harness/fw"
)

// Read faults: the zone text, or a file it includes, delivers its first k octets and then fails with
// an error that is not a syntax error ("reports the first problem as an error ... returns no further
// records once an error has occurred").

var c07ErrRead = errors.New("c07: injected read error")

// c07FaultReader delivers data[:k] in chunks of at most chunk octets, then fails.
type c07FaultReader struct {
	data  string
	k     int
	chunk int
	pos   int
	err   error
	reads int // Read calls after the failure was delivered
}

func (f *c07FaultReader) Read(p []byte) (int, error) {
	if f.pos >= f.k {
		f.reads++
		return 0, f.err
	}
	n := f.k - f.pos
	if n > f.chunk {
		n = f.chunk
	}
	if n > len(p) {
		n = len(p)
	}
	copy(p, f.data[f.pos:f.pos+n])
	f.pos += n
	return n, nil
}
func (f *c07FaultReader) Stat() (fs.FileInfo, error) { return nil, fs.ErrInvalid }
func (f *c07FaultReader) Close() error               { return nil }

// c07FaultFS: every file is read through a c07FaultReader; fail[name] = number of octets delivered
// before the failure (absent: the whole file, then io.EOF); dirs open fine and fail on Read with EISDIR.
type c07FaultFS struct {
	files map[string]string
	fail  map[string]int
	dirs  map[string]bool
	chunk int
	opens int
}

func (f *c07FaultFS) Open(name string) (fs.File, error) {
	f.opens++
	if f.dirs[name] {
		return &c07FaultReader{err: &fs.PathError{Op: "read", Path: name, Err: syscall.EISDIR}, chunk: 1}, nil
	}
	d, ok := f.files[name]
	if !ok {
		return nil, &fs.PathError{Op: "open", Path: name, Err: fs.ErrNotExist}
	}
	k, faulty := f.fail[name]
	if !faulty {
		return &c07FaultReader{data: d, k: len(d), chunk: f.chunk, err: io.EOF}, nil
	}
	return &c07FaultReader{data: d, k: k, chunk: f.chunk, err: c07ErrRead}, nil
}

// c07CompleteLines: the number of newline-terminated lines within s[:k].
func c07CompleteLines(s string, k int) int { return strings.Count(s[:k], "\n") }

func c07ReadFaultSpace(c *fw.Ctx) {
	const (
		main  = "before. 5 IN A 192.0.2.1\n$INCLUDE x\nafter. 5 IN A 192.0.2.2\n"
		inner = "inc1.example. 5 IN A 192.0.2.7\ninc2.example. 5 IN TXT \"a b\" ( \"c\"\n ) ; comment\ninc3.example. 5 IN A 192.0.2.9\n"
		mid   = "mid1.example. 5 IN A 192.0.2.3\n$INCLUDE y\nmid2.example. 5 IN A 192.0.2.4\n"
	)
	chunks := []int{1, 7, 4096}
	type result struct {
		names []string
		err   error
		after bool
	}
	parse := func(r io.Reader, fsys fs.FS) (res result, problems []string) {
		zp := dns.NewZoneParser(r, "", "main.zone")
		zp.SetIncludeAllowed(true)
		if fsys != nil {
			zp.SetIncludeFS(fsys)
		}
		for n := 0; n < 100; n++ {
			rr, ok := zp.Next()
			if !ok {
				if rr != nil {
					problems = append(problems, "next-nil/Next returned a non-nil record together with false")
				}
				break
			}
			if rr == nil {
				problems = append(problems, "next-nil/Next returned (nil, true)")
				break
			}
			if zp.Err() != nil {
				problems = append(problems, fmt.Sprintf("record-with-error/Next returned %v while Err() = %v", rr, zp.Err()))
			}
			res.names = append(res.names, rr.Header().Name)
		}
		res.err = zp.Err()
		for i := 0; i < 3; i++ {
			if rr, ok := zp.Next(); ok || rr != nil {
				problems = append(problems, fmt.Sprintf("sticky/Next returned (%v,%v) after it had returned (nil,false)", rr, ok))
				break
			}
			if e := zp.Err(); (e == nil) != (res.err == nil) || e != nil && e.Error() != res.err.Error() {
				problems = append(problems, fmt.Sprintf("sticky/Err() changed from %v to %v", res.err, e))
				break
			}
		}
		return
	}
	// judge: want = names of the records that stand completely before the fault, in order; the parser
	// may return any prefix of them (it need not have handed out a record whose line it has not seen
	// the end of), must report an error, and must return nothing that stands after the fault.
	judge := func(r *fw.R, what string, want []string, res result, problems []string, wantErr error) {
		fail := func(key, msg string) {
			r.Fail("read-fault/"+key, "%s\n   %s\n   records returned: %v, Err() = %v", msg, what, res.names, res.err)
		}
		for _, p := range problems {
			k := strings.IndexByte(p, '/')
			fail(p[:k], p[k+1:])
		}
		// Any error is a report of the problem: text cut short by the fault may also fail as a syntax
		// error (an unterminated quote) before the parser looks at the reader's error.
		if res.err == nil {
			fail("error-lost", fmt.Sprintf("the input failed with a read error (%v), but Err() is nil", wantErr))
		}
		if len(res.names) > len(want) {
			fail("record-after-error", fmt.Sprintf("%d records were returned, only %d stand before the fault", len(res.names), len(want)))
			return
		}
		for i, n := range res.names {
			if n != want[i] {
				fail("wrong-record", fmt.Sprintf("record %d is owned by %q, expected %q", i, n, want[i]))
				return
			}
		}
	}
	ownersOf := func(s string, k int) []string {
		// owners of the complete logical lines within s[:k] (inner has one parenthesised record)
		var out []string
		depth := 0
		start := 0
		for i := 0; i < k; i++ {
			switch s[i] {
			case '(':
				depth++
			case ')':
				depth--
			case '\n':
				if depth == 0 {
					line := s[start:i]
					if f := strings.Fields(line); len(f) > 0 && !strings.HasPrefix(f[0], "$") {
						out = append(out, f[0])
					}
					start = i + 1
				}
			}
		}
		return out
	}
	c.Space("read-faults", fmt.Sprintf("a 3-record zone text that includes a 3-record file (one record parenthesised over two lines with a comment) between its records, directly and through a second file: the reader of the top-level text / of the included file / of the file included by the included file delivers its first k octets (every k from 0 to the length) in chunks of %v octets and then fails with a non-syntax error; plus an include target that is a directory (opens, fails on Read with EISDIR) at both depths, through an fs.FS and on disk; Err() must be non-nil, only records standing completely before the fault may be returned, in order, and nothing afterwards; non-trivial: at least one record precedes the fault", chunks), true,
		func(emit func(func(*fw.R))) {
			for _, chunk := range chunks {
				chunk := chunk
				// (a) the top-level reader fails
				for k := 0; k <= len(main); k++ {
					k := k
					emit(func(r *fw.R) {
						// the include is resolved fully when its line stands before the fault
						fsys := &c07FaultFS{files: map[string]string{"x": inner}, chunk: chunk}
						res, problems := parse(&c07FaultReader{data: main, k: k, chunk: chunk, err: c07ErrRead}, fsys)
						var want []string
						for _, o := range ownersOf(main, k) {
							want = append(want, o)
							if o == "before." && k >= len("before. 5 IN A 192.0.2.1\n$INCLUDE x\n") {
								want = append(want, ownersOf(inner, len(inner))...)
							}
						}
						judge(r, fmt.Sprintf("top-level text %q fails after %d octets (chunks of %d)", main, k, chunk), want, res, problems, c07ErrRead)
						if len(want) > 0 {
							r.Nontrivial()
						}
					})
				}
				// (b) the included file fails
				for k := 0; k <= len(inner); k++ {
					k := k
					emit(func(r *fw.R) {
						fsys := &c07FaultFS{files: map[string]string{"x": inner}, fail: map[string]int{"x": k}, chunk: chunk}
						res, problems := parse(strings.NewReader(main), fsys)
						want := append([]string{"before."}, ownersOf(inner, k)...)
						judge(r, fmt.Sprintf("main %q; included file x = %q fails after %d octets (chunks of %d)", main, inner, k, chunk), want, res, problems, c07ErrRead)
						r.Nontrivial()
					})
				}
				// (c) the file included by the included file fails
				for k := 0; k <= len(inner); k++ {
					k := k
					emit(func(r *fw.R) {
						fsys := &c07FaultFS{files: map[string]string{"x": mid, "y": inner}, fail: map[string]int{"y": k}, chunk: chunk}
						res, problems := parse(strings.NewReader(main), fsys)
						want := append([]string{"before.", "mid1.example."}, ownersOf(inner, k)...)
						judge(r, fmt.Sprintf("main %q; x = %q; y = %q fails after %d octets (chunks of %d)", main, mid, inner, k, chunk), want, res, problems, c07ErrRead)
						r.Nontrivial()
					})
				}
			}
			// (d) the include target is a directory
			emit(func(r *fw.R) {
				fsys := &c07FaultFS{dirs: map[string]bool{"x": true}, chunk: 1}
				res, problems := parse(strings.NewReader(main), fsys)
				judge(r, fmt.Sprintf("main %q; x is a directory of the fs.FS", main), []string{"before."}, res, problems, syscall.EISDIR)
				r.Nontrivial()
			})
			emit(func(r *fw.R) {
				fsys := &c07FaultFS{files: map[string]string{"x": mid}, dirs: map[string]bool{"y": true}, chunk: 1}
				res, problems := parse(strings.NewReader(main), fsys)
				judge(r, fmt.Sprintf("main %q; x = %q; y is a directory of the fs.FS", main, mid), []string{"before.", "mid1.example."}, res, problems, syscall.EISDIR)
				r.Nontrivial()
			})
			emit(func(r *fw.R) {
				// on disk: $INCLUDE of the directory that holds the sentinel file
				dir := c07DiskDir()
				text := "before. 5 IN A 192.0.2.1\n$INCLUDE " + dir + "\nafter. 5 IN A 192.0.2.2\n"
				res, problems := parse(strings.NewReader(text), nil)
				judge(r, fmt.Sprintf("main %q; the include target is an on-disk directory", text), []string{"before."}, res, problems, nil)
				r.Nontrivial()
			})
		})
}
