package main

import (
	"bytes"
	"encoding/binary"
	"errors"
	"fmt"
	"net"
	"sync"
	"time"

	"github.com/miekg/dns"
	"verif/harness/fw"
	rt "verif/harness/ref/tsig"
)

// C11 through the real server-side state: dns.Server (TsigSecret map) → response.tsigStatus /
// tsigRequestMAC / tsigTimersOnly, replies written by the real dns.Transfer.Out. The server runs on a
// scripted listener that hands out scripted streams; no sockets, no timeouts: every hand-over is a channel
// operation.

type c11Listener struct {
	ch   chan net.Conn
	done chan struct{}
	once sync.Once
}

func (l *c11Listener) Accept() (net.Conn, error) {
	select {
	case c := <-l.ch:
		return c, nil
	case <-l.done:
		return nil, errors.New("listener closed")
	}
}
func (l *c11Listener) Close() error   { l.once.Do(func() { close(l.done) }); return nil }
func (l *c11Listener) Addr() net.Addr { return c11Addr{} }

// what the handler saw and what the server wrote for one connection carrying one query
type c11SrvResult struct {
	called  bool
	hasTsig bool
	status  error
	written [][]byte
}

func c11SpaceServer(c *fw.Ctx) {
	c.Space("server", "real dns.Server (TsigSecret {k1,k3: A; k2: B}, and the same keys through Server.TsigProvider beside a TsigSecret map of other secrets) on a scripted listener, handler answers through the real dns.Transfer.Out with n = 1..3 envelopes × 5 algorithms × 2 secrets: the query signed by the reference model gives TsigStatus() == nil and every written envelope verifies under the reference as a chain over the query MAC (first: full variables, following: timers only), with the unsigned part = Pack(reply); a second, ordinary signed query on the same connection after the transfer is answered with a reply digested over its own MAC and the full variables; a query with the right MAC and a time far outside the fudge (alone, and behind a good exchange on the same connection) gives the time error, and the reply the handler signs is digested over that request's MAC; queries signed with another secret / unknown key / over a request MAC / in timers-only mode / unsigned, every single-bit flip and every truncation of the valid query: the handler must not see IsTsig() != nil ∧ TsigStatus() == nil unless the reference accepts, and then no reply may carry a TSIG; non-trivial: every case", true,
		func(emit func(func(*fw.R))) {
			for _, alg := range c11Algs {
				for secret := 0; secret < 2; secret++ {
					for n := 1; n <= 3; n++ {
						for _, prov := range []bool{false, true} {
							alg, secret, n, prov := alg, secret, n, prov
							emit(func(r *fw.R) { c11Server(r, alg, secret, n, prov) })
						}
					}
				}
			}
		})
}

func c11Server(r *fw.R, alg string, secret, n int, prov bool) {
	r.Nontrivial()
	b64, raw := c11SecretMap(secret)
	lookup := func(name [][]byte) ([]byte, bool) {
		sec, ok := raw[rt.AlgName(name)]
		return sec, ok
	}
	ctx := fmt.Sprintf("server{alg=%s envelopes=%d TsigSecret=%v via TsigProvider=%v}", alg, n, b64, prov)

	var cur *c11SrvResult
	handler := dns.HandlerFunc(func(w dns.ResponseWriter, req *dns.Msg) {
		res := cur
		res.called = true
		res.hasTsig = req.IsTsig() != nil
		res.status = w.TsigStatus()
		if len(req.Question) == 1 && req.Question[0].Qtype == dns.TypeSOA {
			// an ordinary query (the second one on a connection that has just carried a transfer): one reply,
			// signed by the server when the query verified
			m := new(dns.Msg)
			m.SetReply(req)
			// signed by the server when the query verified — and when only its time was off: RFC 8945 §5.2.3 has the
			// server answer BADTIME *signed*, over that request's MAC
			if t := req.IsTsig(); t != nil && (res.status == nil || errors.Is(res.status, dns.ErrTime)) {
				m.SetTsig(t.Hdr.Name, t.Algorithm, 300, time.Now().Unix())
			}
			w.WriteMsg(m)
			return
		}
		tr := new(dns.Transfer)
		ch := make(chan *dns.Envelope)
		done := make(chan error)
		go func() { done <- tr.Out(w, req, ch) }()
		for i := 0; i < n; i++ {
			ch <- &dns.Envelope{RR: c11Envelope(i, n).Answer}
		}
		close(ch)
		<-done
	})
	l := &c11Listener{ch: make(chan net.Conn), done: make(chan struct{})}
	started := make(chan struct{})
	srv := &dns.Server{Listener: l, TsigSecret: b64, Handler: handler, NotifyStartedFunc: func() { close(started) }}
	if prov {
		srv.TsigProvider, srv.TsigSecret = &c11Provider{keys: raw}, c11DecoySecrets(b64)
	}
	served := make(chan error, 1)
	go func() { served <- srv.ActivateAndServe() }()
	<-started
	defer func() {
		srv.Shutdown()
		<-served
	}()

	// exchange sends one query on a fresh connection and waits until the server has closed it
	var exchangeN func(queries ...[]byte) (*c11SrvResult, uint64)
	exchange := func(query []byte) (*c11SrvResult, uint64) { return exchangeN(query) }
	exchangeN = func(queries ...[]byte) (*c11SrvResult, uint64) {
		for {
			res := &c11SrvResult{}
			cur = res
			st := &c11Stream{onClose: make(chan struct{})}
			for _, query := range queries {
				var lp [2]byte
				binary.BigEndian.PutUint16(lp[:], uint16(len(query)))
				st.in.Write(lp[:])
				st.in.Write(query)
			}
			a := time.Now().Unix()
			l.ch <- st
			<-st.onClose
			if time.Now().Unix() != a {
				continue
			}
			for _, w := range st.out {
				if len(w) >= 2 && int(binary.BigEndian.Uint16(w)) == len(w)-2 {
					res.written = append(res.written, w[2:])
				} else {
					r.Fail("server/framing", "server wrote a badly framed message %x; %s", w, ctx)
				}
			}
			return res, uint64(a)
		}
	}

	T := uint64(time.Now().Unix())
	qbody, _ := c11AxfrQuery().Pack()
	rec := rt.Rec{Name: c11Labels(c11K1), Class: rt.ClassANY, Alg: c11Labels(alg), Time: T, Fudge: 300, OrigID: 0x1234}
	good, qmac, _ := rt.Sign(qbody, rec, raw[c11K1], nil, false)

	// check judges one exchange against the reference
	check := func(query []byte, what string, must bool) {
		res, now := exchange(query)
		ref, why := rt.Verify(query, lookup, nil, false, now)
		verified := res.called && res.hasTsig && res.status == nil
		r.Count("queries", 1)
		if verified && !ref {
			r.Fail("accept/"+c11Diagnose(query, lookup, nil, false, now, why), "server: the handler saw IsTsig() != nil and TsigStatus() == nil but the reference rejects the query (%s); %s; now=%d; %s; query octets %s", why, what, now, ctx, c11Hex(query))
		}
		if must && !verified {
			r.Fail("server/rejects-valid-query", "%s: handler called=%v IsTsig=%v TsigStatus=%v, reference accepts=%v (%s); %s; query octets %s", what, res.called, res.hasTsig, res.status, ref, why, ctx, c11Hex(query))
		}
		if !verified {
			// Transfer.Out signs only when the query verified: no reply may carry a TSIG
			for i, w := range res.written {
				if _, _, why := rt.Split(w); why == "" {
					r.Fail("server/signs-reply-to-unverified-query", "%s: reply %d to a query that did not verify carries a TSIG; %s; query %s; reply %s", what, i, ctx, c11Hex(query), c11Hex(w))
				}
			}
			return
		}
		// verified: the replies form a chain over the MAC of the query as received
		_, qt, _ := c11Unsign(query)
		if qt == nil {
			return
		}
		if len(res.written) != n {
			r.Fail("server/reply-count", "%s: %d replies written, want %d; %s", what, len(res.written), n, ctx)
			return
		}
		prev := qt.MAC
		for i, w := range res.written {
			ok, why := rt.Verify(w, lookup, prev, i > 0, now)
			if !ok {
				r.Fail("server/reply-mac", "%s: reply envelope %d does not verify under the reference (%s) with previous MAC %x, timersOnly=%v; %s; query %s; envelope %s", what, i, why, prev, i > 0, ctx, c11Hex(query), c11Hex(w))
				return
			}
			pre, t, _ := c11Unsign(w)
			prev = t.MAC
			if must {
				want := new(dns.Msg)
				want.SetReply(c11AxfrQuery())
				want.Authoritative = true
				want.Answer = c11Envelope(i, n).Answer
				wb, _ := want.Pack()
				if !bytes.Equal(pre, wb) || t.OrigID != 0x1234 || rt.AlgName(t.Name) != c11K1 || rt.AlgName(t.Alg) != alg {
					r.Fail("server/reply-octets", "reply envelope %d without its TSIG differs from Pack(reply), or the TSIG names another key/algorithm/ID; %s\n got  %s\n want %s", i, ctx, c11Hex(pre), c11Hex(wb))
				}
			}
		}
	}

	check(good, "query signed by the reference", true)

	// the same connection carries the transfer and then an ordinary signed query (RFC 8945 §5.3: every reply
	// to a request is digested with the request MAC and the full TSIG variables): state of the transfer
	// (timers-only mode, the last envelope's MAC) may not leak into the second exchange
	{
		q2 := new(dns.Msg)
		q2.SetQuestion("example.", dns.TypeSOA)
		q2.Id = 0x1235
		q2body, _ := q2.Pack()
		rec2 := rec
		rec2.OrigID = 0x1235
		good2, q2mac, _ := rt.Sign(q2body, rec2, raw[c11K1], nil, false)
		res, now := exchangeN(good, good2)
		switch {
		case len(res.written) != n+1:
			r.Fail("server/reuse/reply-count", "transfer (%d envelopes) then a signed SOA query on one connection: %d replies written, want %d; %s", n, len(res.written), n+1, ctx)
		default:
			last := res.written[n]
			if ok, why := rt.Verify(last, lookup, q2mac, false, now); !ok {
				alt, _ := rt.Verify(last, lookup, q2mac, true, now)
				r.Fail("server/reuse/reply-mac", "the reply to a signed query that follows a transfer on the same connection does not verify over that query's MAC with the full variables (%s); it verifies in timers-only mode: %v; %s; reply %s", why, alt, ctx, c11Hex(last))
			}
		}
	}
	// a query whose MAC is right and whose time is far outside the fudge (TsigStatus is the time error), alone on a
	// connection and behind a good exchange on the same connection: a reply the handler signs is digested over the MAC
	// of the request it answers, with the full variables — not over nothing, and not over what the connection carried before
	{
		q2 := new(dns.Msg)
		q2.SetQuestion("example.", dns.TypeSOA)
		q2.Id = 0x1235
		q2body, _ := q2.Pack()
		rec2 := rec
		rec2.OrigID = 0x1235
		good2, _, _ := rt.Sign(q2body, rec2, raw[c11K1], nil, false)
		q3 := new(dns.Msg)
		q3.SetQuestion("example.", dns.TypeSOA)
		q3.Id = 0x1236
		q3body, _ := q3.Pack()
		rec3 := rec
		rec3.OrigID = 0x1236
		rec3.Time = rec.Time - 100000
		stale3, q3mac, _ := rt.Sign(q3body, rec3, raw[c11K1], nil, false)
		for _, first := range [][]byte{nil, good2} {
			var res *c11SrvResult
			var now uint64
			want := 1
			if first == nil {
				res, now = exchangeN(stale3)
			} else {
				res, now = exchangeN(first, stale3)
				want = 2
			}
			what := fmt.Sprintf("a query signed %d s ago (MAC correct), %d-th on its connection", 100000, want)
			if !errors.Is(res.status, dns.ErrTime) {
				r.Fail("server/stale-time/status", "%s: TsigStatus() = %v, want the time error; %s", what, res.status, ctx)
				continue
			}
			if len(res.written) != want {
				r.Fail("server/stale-time/reply-count", "%s: %d replies written, want %d; %s", what, len(res.written), want, ctx)
				continue
			}
			last := res.written[want-1]
			if ok, why := rt.Verify(last, lookup, q3mac, false, now); !ok {
				overNothing, _ := rt.Verify(last, lookup, nil, false, now)
				r.Fail("server/stale-time/reply-mac", "%s: the signed reply does not verify over that request's MAC with the full variables (%s); it verifies over an empty request MAC: %v; %s; reply %s", what, why, overNothing, ctx, c11Hex(last))
			}
		}
	}
	r.Sample(func() any { return fmt.Sprintf("%s: query %s (MAC %x)", ctx, c11Hex(good), qmac) })
	signAs := func(rec rt.Rec, sec, req []byte, timers bool) []byte {
		out, _, _ := rt.Sign(qbody, rec, sec, req, timers)
		return out
	}
	check(signAs(rec, raw[c11K2], nil, false), "query signed with the secret of another key", false)
	check(signAs(rec, raw[c11K1], c11ReqMAC(1), false), "query signed over a request MAC", false)
	check(signAs(rec, raw[c11K1], nil, true), "query signed in timers-only mode", false)
	for _, name := range []string{c11K2, c11K3, "unknown.example."} {
		x := rec
		x.Name = c11Labels(name)
		check(signAs(x, raw[c11K1], nil, false), "query signed with k1's secret under the name "+name, false)
	}
	check(qbody, "unsigned query", false)
	for i := range good {
		for bit := 0; bit < 8; bit++ {
			alt := append([]byte{}, good...)
			alt[i] ^= 1 << bit
			check(alt, fmt.Sprintf("bit %d of octet %d of the valid query flipped", bit, i), false)
		}
	}
	for cut := 0; cut < len(good); cut++ {
		check(good[:cut], fmt.Sprintf("valid query truncated to %d octets", cut), false)
	}
}
