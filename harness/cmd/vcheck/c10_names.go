package main

import (
	"fmt"

	"github.com/miekg/dns"
	"verif/harness/bind"
	"verif/harness/fw"
	rn "verif/harness/ref/name"
)

// C10, added after a seeded change was missed: the DNSKEY owner and the RRSIG's own owner are not part of the
// signed octets, so only Verify's name comparisons stand between a valid signature and a key / RRSIG published
// under another name. Every octet value is tried in those names with every single-bit change that is not an
// ASCII letter-case change.
func c10NameSpace(c *fw.Ctx) {
	c.Space("name-octets", "zone and owner names whose first label is one arbitrary octet b (all 256) : a library-made Ed25519/P-256 signature over an MX RRset verifies with the key at that name; presenting the same key under a name whose octet differs in any single bit (8 × 256, ASCII letter-case pairs excluded), or the RRSIG under such an owner, must fail; non-trivial: b is not a letter", true,
		func(emit func(func(*fw.R))) {
			for b := 0; b < 256; b++ {
				b := b
				emit(func(r *fw.R) {
					letter := func(x byte) bool { return x|0x20 >= 'a' && x|0x20 <= 'z' }
					if !letter(byte(b)) {
						r.Nontrivial()
					}
					keys := c10Keys()
					var k *c10Key
					for _, x := range keys {
						if x.DNSKEY.Algorithm == dns.ED25519 && b%2 == 0 || x.DNSKEY.Algorithm == dns.ECDSAP256SHA256 && b%2 == 1 {
							k = x
							break
						}
					}
					if k == nil {
						r.Fail("internal/no-key", "no Ed25519/P-256 key")
						return
					}
					zoneL := [][]byte{{byte(b), 'z'}, []byte("example")}
					zone := bind.LibName(zoneL)
					ownerL := append([][]byte{{'h', byte(b)}}, zoneL...)
					owner := bind.LibName(ownerL)
					key := *k.DNSKEY
					key.Hdr.Name = zone
					set := []dns.RR{
						&dns.MX{Hdr: dns.RR_Header{Name: owner, Rrtype: dns.TypeMX, Class: 1, Ttl: 300}, Preference: 10, Mx: "mx1." + zone},
						&dns.MX{Hdr: dns.RR_Header{Name: owner, Rrtype: dns.TypeMX, Class: 1, Ttl: 300}, Preference: 20, Mx: "mx2." + zone},
					}
					sig := &dns.RRSIG{KeyTag: key.KeyTag(), SignerName: zone, Algorithm: key.Algorithm, Inception: c10Inception, Expiration: c10Expiration}
					if err := sig.Sign(k.Priv, set); err != nil {
						r.Fail("name-octets/sign-error", "Sign with zone %q: %v", zone, err)
						return
					}
					if err := sig.Verify(&key, set); err != nil {
						r.Fail("name-octets/rejects-valid", "Verify of a fresh signature, zone %q owner %q: %v", zone, owner, err)
						return
					}
					for bit := 0; bit < 8; bit++ {
						ob := byte(b) ^ 1<<bit
						if bit == 5 && letter(byte(b)) {
							continue // the other case of the same letter: must be accepted, checked elsewhere
						}
						// the key published under a different name
						z2 := [][]byte{{ob, 'z'}, []byte("example")}
						if rn.EqualFold(z2, zoneL) {
							continue
						}
						key2 := key
						key2.Hdr.Name = bind.LibName(z2)
						if err := sig.Verify(&key2, set); err == nil {
							r.Fail("name-octets/key-owner-accepted", "signer %q: Verify accepted the key presented under the different owner name %q (octet %#x vs %#x)", zone, key2.Hdr.Name, b, ob)
						}
						// the RRSIG published under a different owner
						o2 := append([][]byte{{'h', ob}}, zoneL...)
						s2 := *sig
						s2.Hdr.Name = bind.LibName(o2)
						if err := s2.Verify(&key, set); err == nil {
							r.Fail("name-octets/rrsig-owner-accepted", "RRset owner %q: Verify accepted the RRSIG under the different owner name %q (octet %#x vs %#x)", owner, s2.Hdr.Name, b, ob)
						}
						// an RRset record under a different owner (mixed set)
						s3 := *sig
						set3 := []dns.RR{dns.Copy(set[0]), dns.Copy(set[1])}
						set3[1].Header().Name = bind.LibName(o2)
						if err := s3.Verify(&key, set3); err == nil {
							r.Fail("name-octets/mixed-rrset-accepted", "Verify accepted an RRset whose records have the different owners %q and %q", owner, set3[1].Header().Name)
						}
					}
					r.Count("alterations", 24)
					r.Sample(func() any { return fmt.Sprintf("zone %q owner %q", zone, owner) })
				})
			}
		})
}
