package main

import (
	"fmt"
	"strings"

	"github.com/miekg/dns"
	"verif/harness/fw"
)

// c07GenerateYieldSpace: "a $GENERATE yields at most 65536 records" — whatever its template looks like. The range
// guard bounds the number of *steps*; the bound on records holds only if one step cannot yield several records, and
// that depends on the directive's reader and the sub-parser agreeing about where quoted strings end (a line break
// inside a quoted string of the template is part of the string, not the end of an entry). Enumerated: every
// template tail of ≤ n tokens over {", \\, \", line break + a would-be record line, blank, x}. Per tail the text is
// parsed with the ranges 0-0 and 0-1: k = records(0-1) − records(0-0) is what one step yields and
// 2·records(0-0) − records(0-1) what the lines behind the directive yield by themselves. When k > 1 the same text
// is parsed with the range 0-65535, and only that count is judged against the bound of the statement.
func c07GenerateYieldSpace(c *fw.Ctx) {
	toks := []string{`"`, `\\`, `\"`, "\nx TXT x", " ", "x"}
	maxTok := 7
	if c.Thorough {
		maxTok = 8
	}
	count := func(text string, limit int) (n int, err error) {
		zp := dns.NewZoneParser(strings.NewReader(text), "example.", "z")
		zp.SetDefaultTTL(5)
		for _, ok := zp.Next(); ok; _, ok = zp.Next() {
			n++
			if n >= limit {
				break
			}
		}
		return n, zp.Err()
	}
	c.Space("generate-yield", fmt.Sprintf("'$GENERATE <range> a$ TXT ' + every tail of ≤ %d tokens over %q + line break, ranges 0-0 and 0-1 (records per step = the difference); where one step yields more than one record, the range 0-65535 is parsed and its records — less those of the lines behind the directive — are judged against the 65536-record bound; one case = the first three tokens; non-trivial: both small parses succeeded and a step yields at least one record", maxTok, toks), true,
		func(emit func(func(*fw.R))) {
			var pre [][]int
			for a := -1; a < len(toks); a++ {
				for b := -1; b < len(toks); b++ {
					for d := -1; d < len(toks); d++ {
						if (a < 0 && (b >= 0 || d >= 0)) || (b < 0 && d >= 0) {
							continue // shorter prefixes are listed once, left-aligned
						}
						var p []int
						for _, x := range []int{a, b, d} {
							if x >= 0 {
								p = append(p, x)
							}
						}
						pre = append(pre, p)
					}
				}
			}
			for _, p := range pre {
				p := p
				emit(func(r *fw.R) {
					var rec func(seq []int)
					judge := func(seq []int) {
						var sb strings.Builder
						for _, t := range seq {
							sb.WriteString(toks[t])
						}
						tail := sb.String()
						t0 := "$GENERATE 0-0 a$ TXT " + tail + "\n"
						t1 := "$GENERATE 0-1 a$ TXT " + tail + "\n"
						r0, e0 := count(t0, 1000)
						r1, e1 := count(t1, 1000)
						r.Count("tails", 1)
						if e0 != nil || e1 != nil {
							r.Count("tails that do not parse", 1)
							return
						}
						k, rest := r1-r0, 2*r0-r1
						if k >= 1 {
							r.Nontrivial()
						}
						if k <= 1 {
							return
						}
						r.Count("tails where one step yields several records", 1)
						big, eb := count("$GENERATE 0-65535 a$ TXT "+tail+"\n", 1<<21)
						if big-rest > 65536 {
							r.Fail("generate-bound/records-per-directive", "one $GENERATE directive yielded %d records (Err() = %v; the lines behind it yield %d by themselves): %s — each of its 65536 steps yields %d records (range 0-0: %d records, range 0-1: %d)", big-rest, eb, rest, c07Show("$GENERATE 0-65535 a$ TXT "+tail+"\n"), k, r0, r1)
						}
					}
					rec = func(seq []int) {
						judge(seq)
						if len(seq) >= maxTok {
							return
						}
						for t := range toks {
							rec(append(seq, t))
						}
					}
					if len(p) < 3 {
						judge(p) // short tails: exactly this one
						return
					}
					rec(append([]int(nil), p...))
				})
			}
		})
}
