package main

import (
	"fmt"
	"strings"

	"github.com/miekg/dns"
	"verif/harness/bind"
	"verif/harness/enum"
	"verif/harness/fw"
	"verif/harness/ref/wire"
)

// RDATA made of hostile tokens: every per-type RDATA reader of scan_rr.go behind every prefix of a valid RDATA.

var c07RdataAlphabet = []string{`""`, `" "`, `"a"`, `a`, `0`, `1`, `65536`, `-1`, `.`, `@`, `\#`, `-`, `*`, `::1`, `1.2.3.4`, `AA==`, `( )`, `key=`, `"\000"`}

func c07RdataSpace(c *fw.Ctx) {
	depth := 2
	if c.Thorough {
		depth = 3
	}
	type tl struct {
		mnem string
		rd   []string
	}
	var lines []tl
	for _, t := range regTypes() {
		sp := wire.Specs[t]
		if sp == nil || t == 41 {
			continue
		}
		rr, err := bind.ToGo(&wire.RR{Name: enum.L("a", "example"), Type: t, Class: 1, TTL: 5, Vals: enum.Default(sp)})
		if err != nil {
			continue
		}
		line := rr.String()
		if x, err := dns.NewRR(line); err != nil || x == nil {
			// not re-readable as it stands, or rendered as a comment: the type still has a reader, feed it from scratch
			lines = append(lines, tl{sp.Mnem, nil})
			continue
		}
		f := strings.Fields(line)
		lines = append(lines, tl{sp.Mnem, f[4:]})
	}
	c.Space("rdata-tokens", fmt.Sprintf("for each of the %d registered types with a presentation format: 'a.example. 5 IN <TYPE>' + every prefix of the type's default RDATA + every sequence of 1..%d tokens over %d hostile tokens %q, followed by a valid record line: the parse terminates without panicking, an error carries its position and ends the stream, and a record that is returned can be printed, measured and packed without panicking; non-trivial: all", len(lines), depth, len(c07RdataAlphabet), c07RdataAlphabet), true,
		func(emit func(func(*fw.R))) {
			for _, l := range lines {
				for i := 0; i <= len(l.rd); i++ {
					l, i := l, i
					emit(func(r *fw.R) {
						r.Nontrivial()
						head := "a.example. 5 IN " + l.mnem + " " + strings.Join(l.rd[:i], " ")
						var rec func(text string, d int)
						rec = func(text string, d int) {
							for _, tok := range c07RdataAlphabet {
								t := text + " " + tok
								c07RdataOne(r, l.mnem, t+"\nafter. 5 IN A 192.0.2.1\n")
								if d+1 < depth {
									rec(t, d+1)
								}
							}
						}
						rec(head, 0)
					})
				}
			}
		})
}

func c07RdataOne(r *fw.R, mnem, text string) {
	r.Count("texts_parsed", 1)
	func() {
		defer func() {
			if e := recover(); e != nil {
				r.Fail("panic/rdata-tokens/"+mnem, "parsing panics: %v\n   input: %s", e, c07Show(text))
			}
		}()
		res := c07Check(r, text, c07Cfg{"example.", false, 0}, nil)
		if res.first == nil {
			return
		}
		func() {
			defer func() {
				if e := recover(); e != nil {
					r.Fail("accepted-record-panics/"+mnem, "a record returned by the parser panics when printed / measured / packed: %v\n   input: %s", e, c07Show(text))
				}
			}()
			_ = res.first.String()
			_ = dns.Len(res.first)
			buf := make([]byte, 70000)
			_, _ = dns.PackRR(res.first, buf, 0, nil, false)
			_ = dns.Copy(res.first)
		}()
	}()
}
