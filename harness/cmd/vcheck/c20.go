package main

import (
	"bytes"
	"encoding/base32"
	"encoding/base64"
	"encoding/hex"
	"fmt"
	"net"
	"reflect"
	"sort"
	"strings"

	"github.com/miekg/dns"
	"verif/harness/fw"
	rn "verif/harness/ref/name"
)

// C20 — record equality (IsDuplicate) and Dedup (DESIGN §5 C20).
//
// Records are built by reflection over the Go structs of every registered RR type (c20_build.go has
// nothing of its own: everything is in this file). Every record of a type's variant set carries an
// identity "by construction" (type, class, lower-cased owner, one identity per field; name fields
// lower-cased), which is the first oracle; the second oracle is computed from the packed octets.

func init() {
	fw.Register(&fw.Check{Prop: "C20", Level: "exploration",
		Assume: []string{
			"OPT (pseudo-record) and PrivateRR (user-defined comparison) are outside the relation's domain: their isDuplicate is deliberately constant false (DESIGN §7); OPT is the only registry type skipped",
			"dns.PackRR / dns.UnpackRR are plumbing that produce the wire form and the 'records obtained from the wire'; their faithfulness on the enumerated records is checked, not assumed (violation keys model/...)",
			"the wire relation is computed by this check from the octets: own header parser (ref/name.ParseWire), embedded names located in the RDATA by their reference encoding (ref/name.Parse+Wire of the name the check itself put in) and lower-cased in place",
			"which fields are domain names is read from the dns:\"domain-name\"/\"cdomain-name\" struct tags and cross-checked against a hand-written table from the RFCs (c20NameFields)",
			"length fields referenced by size-hex/size-base32/size-base64 tags and GatewayType/GatewayAddr are varied only together with the data they describe (a record with an inconsistent length field has no wire form)",
			"records whose text is a non-canonical spelling of the same wire value (\\DDD escapes, upper-case hex, lower-case base32, 16-octet IPv4, permuted SVCB pairs) take part in the reflexive/symmetric/transitive checks and, after a wire round trip, in the wire relation; the statement does not fix IsDuplicate between two such hand-built spellings, so no expectation is attached to those pairs",
			"Dedup: every list position holds a fresh record (no pointer shared between positions); the map argument is nil or a fresh empty map; r.String() is plumbing used only to confirm that the pool's groups are the statement's groups (text identical up to owner case and TTL)",
		},
		Spaces: c20Spaces})
}

// ---------------------------------------------------------------------------------------------
// small helpers (own case handling: nothing from the library)

func c20Lower(s string) string {
	b := []byte(s)
	for i, c := range b {
		if c >= 'A' && c <= 'Z' {
			b[i] = c + 32
		}
	}
	return string(b)
}

func c20IsLetter(c byte) bool { return c >= 'A' && c <= 'Z' || c >= 'a' && c <= 'z' }

// c20SwapAt flips the case of the letter at i.
func c20SwapAt(s string, i int) string {
	b := []byte(s)
	b[i] ^= 0x20
	return string(b)
}

func c20SwapAll(s string) string {
	b := []byte(s)
	for i, c := range b {
		if c20IsLetter(c) {
			b[i] = c ^ 0x20
		}
	}
	return string(b)
}

func c20FirstLetter(s string) int {
	for i := 0; i < len(s); i++ {
		if c20IsLetter(s[i]) {
			return i
		}
	}
	return -1
}

func c20LastLetter(s string) int {
	for i := len(s) - 1; i >= 0; i-- {
		if c20IsLetter(s[i]) {
			return i
		}
	}
	return -1
}

// c20Escaped spells the first octet of s as \DDD (same name, other text).
func c20Escaped(s string) string { return fmt.Sprintf("\\%03d%s", s[0], s[1:]) }

// ---------------------------------------------------------------------------------------------
// hand-written table: the RDATA fields that are domain names, per type (RFC 1035 §3.3, 1183, 2163,
// 2230, 2535, 2672, 2782, 2845, 2930, 3403, 4025, 4034, 5205, 6742, 8777, 9460, draft-talink).
// GatewayHost of IPSECKEY/AMTRELAY is a name only for gateway type 3.

var c20NameFields = map[string][]string{
	"AFSDB": {"Hostname"}, "AMTRELAY": {"GatewayHost"}, "CNAME": {"Target"}, "DNAME": {"Target"},
	"HIP": {"RendezvousServers"}, "HTTPS": {"Target"}, "IPSECKEY": {"GatewayHost"}, "KX": {"Exchanger"},
	"LP": {"Fqdn"}, "MB": {"Mb"}, "MD": {"Md"}, "MF": {"Mf"}, "MG": {"Mg"}, "MINFO": {"Rmail", "Email"},
	"MR": {"Mr"}, "MX": {"Mx"}, "NAPTR": {"Replacement"}, "NS": {"Ns"}, "NSAPPTR": {"Ptr"},
	"NSEC": {"NextDomain"}, "NXT": {"NextDomain"}, "PTR": {"Ptr"}, "PX": {"Map822", "Mapx400"},
	"RP": {"Mbox", "Txt"}, "RRSIG": {"SignerName"}, "RT": {"Host"}, "SIG": {"SignerName"},
	"SOA": {"Ns", "Mbox"}, "SRV": {"Target"}, "SVCB": {"Target"}, "TALINK": {"PreviousName", "NextName"},
	"TKEY": {"Algorithm"}, "TSIG": {"Algorithm"},
}

// ---------------------------------------------------------------------------------------------
// reflection model of one RR type

type c20Field struct {
	path []int
	name string
	tag  string
	typ  reflect.Type
}

// c20Val is one value of the alphabet of a field.
type c20Val struct {
	kind  string // base | value | name-case | text-case | free
	label string
	id    string   // identity by construction (names lower-cased)
	names []string // domain names inside this value, presentation form
	set   func(root reflect.Value)
}

type c20Type struct {
	code   uint16
	name   string
	mk     func() dns.RR
	fields []c20Field
	vals   [][]c20Val // per field; nil for derived fields (length fields, gateway type/address)
	layout string
}

var c20HdrType = reflect.TypeOf(dns.RR_Header{})

func c20Flatten(t reflect.Type, prefix []int, out *[]c20Field) {
	for i := 0; i < t.NumField(); i++ {
		f := t.Field(i)
		p := append(append([]int(nil), prefix...), i)
		if f.Type == c20HdrType {
			continue
		}
		if f.Anonymous && f.Type.Kind() == reflect.Struct {
			c20Flatten(f.Type, p, out)
			continue
		}
		*out = append(*out, c20Field{path: p, name: f.Name, tag: f.Tag.Get("dns"), typ: f.Type})
	}
}

const c20SynthType = 0xFF00 // an unassigned type: the library represents it as *RFC3597

// c20TypeCodes: every registry type in code order, minus OPT, plus one unknown type (RFC 3597).
func c20TypeCodes() (codes []uint16, skipped []string) {
	for t := range dns.TypeToRR {
		if t == dns.TypeOPT {
			skipped = append(skipped, "OPT")
			continue
		}
		codes = append(codes, t)
	}
	codes = append(codes, c20SynthType)
	sort.Slice(codes, func(i, j int) bool { return codes[i] < codes[j] })
	return
}

func c20NewType(code uint16) (*c20Type, error) {
	t := &c20Type{code: code}
	if code == c20SynthType {
		t.mk = func() dns.RR { return new(dns.RFC3597) }
	} else {
		t.mk = dns.TypeToRR[code]
	}
	rt := reflect.TypeOf(t.mk()).Elem()
	t.name = rt.Name()
	c20Flatten(rt, nil, &t.fields)
	derived := map[string]bool{}
	var sig []string
	for _, f := range t.fields {
		if strings.HasPrefix(f.tag, "size-") {
			derived[f.tag[strings.IndexByte(f.tag, ':')+1:]] = true
		}
		if f.tag == "ipsechost" || f.tag == "amtrelayhost" {
			derived["GatewayType"] = true
			derived["GatewayAddr"] = true
		}
		sig = append(sig, f.name+"|"+f.tag+"|"+f.typ.String())
	}
	t.layout = strings.Join(sig, ";")
	t.vals = make([][]c20Val, len(t.fields))
	for i, f := range t.fields {
		if derived[f.name] {
			continue
		}
		v, err := c20Vals(t.fields, i)
		if err != nil {
			return nil, fmt.Errorf("%s.%s: %v", t.name, f.name, err)
		}
		t.vals[i] = v
	}
	return t, nil
}

// nameFieldsByTag lists the fields the struct tags declare as names.
func (t *c20Type) nameFieldsByTag() []string {
	var o []string
	for _, f := range t.fields {
		switch f.tag {
		case "domain-name", "cdomain-name", "ipsechost", "amtrelayhost":
			o = append(o, f.name)
		}
	}
	return o
}

func c20NameVals(base string, set func(string) func(reflect.Value)) []c20Val {
	id := func(s string) string { return "n:" + c20Lower(s) }
	mk := func(kind, label, s string) c20Val {
		return c20Val{kind: kind, label: label, id: id(s), names: []string{s}, set: set(s)}
	}
	fl, ll := c20FirstLetter(base), c20LastLetter(base)
	dot := strings.IndexByte(base, '.')
	oneLetter := base[:dot+1] + "N" + base[dot+2:] // second label M… → N…
	longer := base[:dot+1] + "Sub." + base[dot+1:]
	return []c20Val{
		mk("base", "base", base),
		mk("name-case", "all-letters-swapped", c20SwapAll(base)),
		mk("name-case", "first-letter-swapped", c20SwapAt(base, fl)),
		mk("name-case", "last-letter-swapped", c20SwapAt(base, ll)),
		mk("value", "one-letter-differs", oneLetter),
		mk("value", "one-more-label", longer),
		mk("value", "root", "."),
		{kind: "free", label: "first-octet-escaped", names: []string{c20Escaped(base)}, set: set(c20Escaped(base))},
	}
}

func c20Vals(fs []c20Field, i int) ([]c20Val, error) {
	f := fs[i]
	k := i
	setAny := func(v any) func(reflect.Value) {
		return func(root reflect.Value) {
			fv := root.FieldByIndex(f.path)
			fv.Set(reflect.ValueOf(v).Convert(fv.Type()))
		}
	}
	setStr := func(s string) func(reflect.Value) { return setAny(s) }
	plain := func(kind, label string, v any) c20Val {
		return c20Val{kind: kind, label: label, id: fmt.Sprintf("v:%#v", v), set: setAny(v)}
	}

	// data with a separate length field
	if strings.HasPrefix(f.tag, "size-") {
		c := strings.IndexByte(f.tag, ':')
		enc, lenField := f.tag[:c], f.tag[c+1:]
		var encode func([]byte) string
		n := 6
		switch enc {
		case "size-hex":
			encode = hex.EncodeToString
		case "size-base64":
			encode = base64.StdEncoding.EncodeToString
		case "size-base32":
			encode = base32.HexEncoding.WithPadding(base32.NoPadding).EncodeToString
			n = 20
		default:
			return nil, fmt.Errorf("unknown tag %q", f.tag)
		}
		data := func(n int, last byte) []byte {
			b := make([]byte, n)
			for j := range b {
				b[j] = byte(0xA1 + 7*j + 16*k)
			}
			b[n-1] = last
			return b
		}
		sized := func(kind, label, text string, n int) c20Val {
			return c20Val{kind: kind, label: label, id: "v:" + text, set: func(root reflect.Value) {
				root.FieldByIndex(f.path).SetString(text)
				root.FieldByName(lenField).SetUint(uint64(n))
			}}
		}
		base := encode(data(n, 0x5A))
		out := []c20Val{
			sized("base", "base", base, n),
			sized("value", "last-octet-differs", encode(data(n, 0x5B)), n),
			sized("value", "first-octet-differs", encode(append([]byte{0x11}, data(n, 0x5A)[1:]...)), n),
			sized("value", "longer(with "+lenField+")", encode(data(n+2, 0x5A)), n+2),
			sized("value", "shorter(with "+lenField+")", encode(data(n-2, 0x5A)), n-2),
		}
		if enc == "size-base64" {
			// base64 text is case-sensitive: the swapped-case text is another value of the same length
			out = append(out, sized("value", "letter-case-of-base64-text-differs", c20SwapAll(base), n))
		}
		alt := strings.ToUpper(base)
		if enc == "size-base32" {
			alt = strings.ToLower(base)
		}
		if enc != "size-base64" && alt != base {
			v := sized("free", "other-letter-case-of-encoding", alt, n)
			v.id = ""
			out = append(out, v)
		}
		return out, nil
	}

	switch f.tag {
	case "domain-name", "cdomain-name":
		if f.typ.Kind() == reflect.String {
			return c20NameVals(fmt.Sprintf("F%d.Mail.Example.ORG.", k), setStr), nil
		}
		// []string of names (HIP)
		a, b, c := "Ra.Mail.Example.ORG.", "Rb.Relay.Example.ORG.", "Rc.Third.Example.ORG."
		mk := func(kind, label string, l ...string) c20Val {
			return c20Val{kind: kind, label: label, id: "n:" + c20Lower(strings.Join(l, " ")), names: l, set: setAny(l)}
		}
		esc := mk("free", "first-octet-escaped[1]", a, c20Escaped(b))
		esc.id = ""
		return []c20Val{
			mk("base", "base", a, b),
			mk("name-case", "[0]-all-letters-swapped", c20SwapAll(a), b),
			mk("name-case", "[1]-all-letters-swapped", a, c20SwapAll(b)),
			mk("name-case", "[1]-last-letter-swapped", a, c20SwapAt(b, c20LastLetter(b))),
			mk("name-case", "[0]-first-letter-swapped", c20SwapAt(a, 0), b),
			mk("value", "[1]-other-name", a, c),
			mk("value", "[0]-one-letter-differs", "Rx.Mail.Example.ORG.", b),
			mk("value", "one-element", a),
			mk("value", "three-elements", a, b, c),
			mk("value", "order-swapped", b, a),
			esc,
		}, nil

	case "ipsechost", "amtrelayhost":
		gw := func(kind, label string, typ uint8, addr net.IP, host string) c20Val {
			v := c20Val{kind: kind, label: label, set: func(root reflect.Value) {
				root.FieldByName("GatewayType").SetUint(uint64(typ))
				root.FieldByName("GatewayAddr").Set(reflect.ValueOf(addr))
				root.FieldByIndex(f.path).SetString(host)
			}}
			v.id = fmt.Sprintf("gw:%d:%v:%s", typ, []byte(addr), c20Lower(host))
			if typ&0x7f == 3 {
				v.names = []string{host}
			}
			return v
		}
		h := "Gw.Mail.Example.ORG."
		v4 := func(b byte) net.IP { return net.IP{192, 0, 2, b} }
		v6 := func(b byte) net.IP { return net.IP{0x20, 0x01, 0x0d, 0xb8, 0, 0, 0, 0, 0, 0, 0, 0, 0, 0, 0, b} }
		esc := gw("free", "host-first-octet-escaped", 3, nil, c20Escaped(h))
		esc.id = ""
		out := []c20Val{
			gw("base", "host", 3, nil, h),
			gw("name-case", "host-all-letters-swapped", 3, nil, c20SwapAll(h)),
			gw("name-case", "host-first-letter-swapped", 3, nil, c20SwapAt(h, 0)),
			gw("name-case", "host-last-letter-swapped", 3, nil, c20SwapAt(h, c20LastLetter(h))),
			gw("value", "host-one-letter-differs", 3, nil, "Gw.Nail.Example.ORG."),
			gw("value", "host-root", 3, nil, "."),
			gw("value", "ipv4", 1, v4(33), ""),
			gw("value", "ipv4-last-octet-differs", 1, v4(34), ""),
			gw("value", "ipv4-first-octet-differs", 1, net.IP{198, 0, 2, 33}, ""),
			gw("value", "ipv6", 2, v6(33), ""),
			gw("value", "ipv6-last-octet-differs", 2, v6(34), ""),
			gw("value", "no-gateway", 0, nil, ""),
			esc,
		}
		if f.tag == "amtrelayhost" {
			// RFC 8777 §4.2.2: the discovery bit shares the octet with the relay type (bit 0x80)
			out = append(out,
				gw("value", "discovery+host", 0x83, nil, h),
				gw("value", "discovery+host-all-letters-swapped", 0x83, nil, c20SwapAll(h)),
				gw("value", "discovery+host-one-letter-differs", 0x83, nil, "Gw.Nail.Example.ORG."),
				gw("value", "discovery+ipv4", 0x81, v4(33), ""),
				gw("value", "discovery+ipv4-last-octet-differs", 0x81, v4(34), ""),
				gw("value", "discovery+ipv6", 0x82, v6(33), ""),
				gw("value", "discovery+ipv6-last-octet-differs", 0x82, v6(34), ""),
				gw("value", "discovery+no-gateway", 0x80, nil, ""))
		}
		return out, nil

	case "a":
		b4 := net.IP{192, 0, 2, byte(1 + k)}
		fr := plain("free", "16-octet-form", b4.To16())
		fr.id = ""
		return []c20Val{
			plain("base", "base", b4),
			plain("value", "last-octet-differs", net.IP{192, 0, 2, byte(2 + k)}),
			plain("value", "first-octet-differs", net.IP{193, 0, 2, byte(1 + k)}),
			fr,
		}, nil
	case "aaaa":
		ip := func(first, last byte) net.IP {
			return net.IP{first, 0x01, 0x0d, 0xb8, 0, 0, 0, 0, 0, 0, 0, 0, 0, 0, 0, last}
		}
		return []c20Val{
			plain("base", "base", ip(0x20, byte(1+k))),
			plain("value", "last-octet-differs", ip(0x20, byte(2+k))),
			plain("value", "first-octet-differs", ip(0x21, byte(1+k))),
		}, nil

	case "txt":
		t0 := fmt.Sprintf("Text%d", k)
		return []c20Val{
			plain("base", "base", []string{t0, "second part"}),
			plain("value", "[0]-one-octet-appended", []string{t0 + "x", "second part"}),
			plain("value", "[1]-one-octet-differs", []string{t0, "second paru"}),
			plain("text-case", "[0]-case", []string{strings.ToUpper(t0), "second part"}),
			plain("text-case", "[1]-case", []string{t0, "second parT"}),
			plain("value", "one-element", []string{t0}),
			plain("value", "three-elements", []string{t0, "second part", "third"}),
			plain("value", "other-split", []string{t0 + "second part"}),
			plain("value", "order-swapped", []string{"second part", t0}),
		}, nil

	case "octet":
		u := fmt.Sprintf("https://Example.ORG/path%d", k)
		return []c20Val{
			plain("base", "base", u),
			plain("value", "one-octet-appended", u+"x"),
			plain("value", "last-octet-differs", u[:len(u)-1]+"z"),
			plain("text-case", "case", c20SwapAll(u)),
		}, nil

	case "base64":
		d := func(n int, last byte) string {
			b := make([]byte, n)
			for j := range b {
				b[j] = byte(0x31 + 5*j + 16*k)
			}
			b[n-1] = last
			return base64.StdEncoding.EncodeToString(b)
		}
		return []c20Val{
			plain("base", "base", d(9, 0x77)),
			plain("value", "last-octet-differs", d(9, 0x78)),
			plain("value", "longer-padded", d(10, 0x77)),
			plain("value", "shorter", d(6, 0x77)),
			plain("text-case", "case-of-encoding", c20SwapAll(d(9, 0x77))),
		}, nil

	case "hex":
		d := func(n int, last byte) string {
			b := make([]byte, n)
			for j := range b {
				b[j] = byte(0xA1 + 7*j + 16*k)
			}
			b[n-1] = last
			return hex.EncodeToString(b)
		}
		fr := plain("free", "upper-case-hex", strings.ToUpper(d(6, 0x5A)))
		fr.id = ""
		return []c20Val{
			plain("base", "base", d(6, 0x5A)),
			plain("value", "last-octet-differs", d(6, 0x5B)),
			plain("value", "longer", d(7, 0x5A)),
			plain("value", "shorter", d(5, 0x5A)),
			fr,
		}, nil

	case "any":
		return []c20Val{
			plain("base", "base", fmt.Sprintf("Data%d", k)),
			plain("value", "last-octet-differs", fmt.Sprintf("Datb%d", k)),
			plain("value", "longer", fmt.Sprintf("Data%dx", k)),
			plain("text-case", "case", fmt.Sprintf("DATA%d", k)),
		}, nil

	case "nsec":
		return []c20Val{
			plain("base", "base", []uint16{1, 2, 15, 46, 257}),
			plain("value", "one-element-differs", []uint16{1, 2, 16, 46, 257}),
			plain("value", "last-element-differs", []uint16{1, 2, 15, 46, 258}),
			plain("value", "shorter", []uint16{1, 2, 15, 46}),
			plain("value", "longer", []uint16{1, 2, 15, 46, 257, 1234}),
		}, nil

	case "apl":
		p4 := func(neg bool, third byte, bits int) dns.APLPrefix {
			return dns.APLPrefix{Negation: neg, Network: net.IPNet{IP: net.IP{192, 0, third, 0}, Mask: net.CIDRMask(bits, 32)}}
		}
		p6 := func(neg bool, b byte, bits int) dns.APLPrefix {
			return dns.APLPrefix{Negation: neg, Network: net.IPNet{IP: net.IP{0x20, 0x01, 0x0d, b, 0, 0, 0, 0, 0, 0, 0, 0, 0, 0, 0, 0}, Mask: net.CIDRMask(bits, 128)}}
		}
		apl := func(kind, label string, l ...dns.APLPrefix) c20Val {
			var ids []string
			for _, p := range l {
				ids = append(ids, fmt.Sprintf("%v:%v/%v", p.Negation, []byte(p.Network.IP), []byte(p.Network.Mask)))
			}
			return c20Val{kind: kind, label: label, id: "v:" + strings.Join(ids, ","), set: setAny(l)}
		}
		return []c20Val{
			apl("base", "base", p4(false, 2, 24), p6(true, 0xb8, 32)),
			apl("value", "[0]-negation", p4(true, 2, 24), p6(true, 0xb8, 32)),
			apl("value", "[1]-negation", p4(false, 2, 24), p6(false, 0xb8, 32)),
			apl("value", "[0]-prefix-length", p4(false, 2, 25), p6(true, 0xb8, 32)),
			apl("value", "[1]-prefix-length", p4(false, 2, 24), p6(true, 0xb8, 33)),
			apl("value", "[0]-address", p4(false, 3, 24), p6(true, 0xb8, 32)),
			apl("value", "[1]-address", p4(false, 2, 24), p6(true, 0xb9, 32)),
			apl("value", "one-element", p4(false, 2, 24)),
			apl("value", "three-elements", p4(false, 2, 24), p6(true, 0xb8, 32), p4(false, 9, 24)),
			apl("value", "order-swapped", p6(true, 0xb8, 32), p4(false, 2, 24)),
		}, nil

	case "pairs":
		type kv = dns.SVCBKeyValue
		v6 := func(b byte) net.IP { return net.IP{0x20, 0x01, 0x0d, 0xb8, 0, 0, 0, 0, 0, 0, 0, 0, 0, 0, 0, b} }
		basePairs := func() []kv {
			return []kv{
				&dns.SVCBMandatory{Code: []dns.SVCBKey{dns.SVCB_ALPN, dns.SVCB_PORT}},
				&dns.SVCBAlpn{Alpn: []string{"h2", "h3"}},
				&dns.SVCBNoDefaultAlpn{},
				&dns.SVCBPort{Port: 8443},
				&dns.SVCBIPv4Hint{Hint: []net.IP{{192, 0, 2, 1}, {192, 0, 2, 2}}},
				&dns.SVCBECHConfig{ECH: []byte{0, 4, 0xFE, 0x0D, 0, 0}},
				&dns.SVCBIPv6Hint{Hint: []net.IP{v6(1)}},
				&dns.SVCBDoHPath{Template: "/dns-query{?dns}"},
				&dns.SVCBOhttp{},
				&dns.SVCBLocal{KeyCode: 65280, Data: []byte("Local")},
			}
		}
		sv := func(kind, label string, edit func(l []kv) []kv) c20Val {
			l := basePairs()
			if edit != nil {
				l = edit(l)
			}
			return c20Val{kind: kind, label: label, id: "v:" + label, set: setAny(l)}
		}
		repl := func(i int, n kv) func(l []kv) []kv {
			return func(l []kv) []kv { l[i] = n; return l }
		}
		rev := sv("free", "pairs-in-reverse-order", func(l []kv) []kv {
			for a, b := 0, len(l)-1; a < b; a, b = a+1, b-1 {
				l[a], l[b] = l[b], l[a]
			}
			return l
		})
		rev.id = ""
		return []c20Val{
			sv("base", "base", nil),
			sv("value", "mandatory-set", repl(0, &dns.SVCBMandatory{Code: []dns.SVCBKey{dns.SVCB_ALPN, dns.SVCB_IPV4HINT}})),
			sv("value", "alpn-id", repl(1, &dns.SVCBAlpn{Alpn: []string{"h2", "h4"}})),
			sv("text-case", "alpn-case", repl(1, &dns.SVCBAlpn{Alpn: []string{"H2", "h3"}})),
			sv("value", "alpn-count", repl(1, &dns.SVCBAlpn{Alpn: []string{"h2"}})),
			sv("value", "port", repl(3, &dns.SVCBPort{Port: 8444})),
			sv("value", "ipv4hint-address", repl(4, &dns.SVCBIPv4Hint{Hint: []net.IP{{192, 0, 2, 1}, {192, 0, 2, 3}}})),
			sv("value", "ipv4hint-count", repl(4, &dns.SVCBIPv4Hint{Hint: []net.IP{{192, 0, 2, 1}}})),
			sv("value", "ech-octet", repl(5, &dns.SVCBECHConfig{ECH: []byte{0, 4, 0xFE, 0x0D, 0, 1}})),
			sv("value", "ipv6hint-address", repl(6, &dns.SVCBIPv6Hint{Hint: []net.IP{v6(2)}})),
			sv("value", "dohpath", repl(7, &dns.SVCBDoHPath{Template: "/dns-querx{?dns}"})),
			sv("text-case", "dohpath-case", repl(7, &dns.SVCBDoHPath{Template: "/DNS-query{?dns}"})),
			sv("value", "local-data", repl(9, &dns.SVCBLocal{KeyCode: 65280, Data: []byte("Locam")})),
			sv("text-case", "local-data-case", repl(9, &dns.SVCBLocal{KeyCode: 65280, Data: []byte("local")})),
			sv("value", "local-key", repl(9, &dns.SVCBLocal{KeyCode: 65281, Data: []byte("Local")})),
			sv("value", "pair-removed(ohttp)", func(l []kv) []kv { return append(l[:8:8], l[9:]...) }),
			sv("value", "pair-removed(last)", func(l []kv) []kv { return l[:9] }),
			sv("value", "pair-removed(first)", func(l []kv) []kv { return l[1:] }),
			sv("value", "no-pairs", func(l []kv) []kv { return nil }),
			rev,
		}, nil

	case "", "uint48":
		switch f.typ.Kind() {
		case reflect.Uint8, reflect.Uint16, reflect.Uint32, reflect.Uint64:
			bits := f.typ.Bits()
			if f.tag == "uint48" {
				bits = 48
			}
			base := uint64(0x0102030405060708)>>(64-uint(bits)) + uint64(k)
			return []c20Val{
				plain("base", "base", base),
				plain("value", "plus-one", base+1),
				plain("value", "top-bit-flipped", base^(1<<uint(bits-1))),
			}, nil
		case reflect.String:
			// <character-string>
			t0 := fmt.Sprintf("Text%d", k)
			return []c20Val{
				plain("base", "base", t0),
				plain("value", "one-octet-appended", t0+"x"),
				plain("value", "first-octet-differs", "U"+t0[1:]),
				plain("text-case", "case", strings.ToUpper(t0)),
			}, nil
		}
	}
	return nil, fmt.Errorf("no alphabet for kind %v tag %q", f.typ, f.tag)
}

// ---------------------------------------------------------------------------------------------
// records of a type's variant set

type c20Rec struct {
	kind  string // base copy ttl owner-case owner class type | field kinds: name-case value text-case free
	field string
	label string
	rr    dns.RR
	key   string // identity by construction; "" when free
	names []string
	wire  []byte
	wkey  string // identity from the wire
	x     dns.RR // UnpackRR(wire)
	y     dns.RR // the record as unpacked from a compressed message (Rdlength = compressed RDATA length); nil: no such form
}

func (v *c20Rec) free() bool { return v.key == "" }

func (v *c20Rec) what() string {
	if v.field != "" {
		return v.kind + " " + v.field + ":" + v.label
	}
	if v.label != "" {
		return v.kind + " " + v.label
	}
	return v.kind
}

const (
	c20Owner = "Host.Example.ORG."
	c20TTL   = 3600
)

// build makes one record: every field at its base value, except field fi at value vi (fi < 0: none).
func (t *c20Type) build(owner string, class uint16, ttl uint32, fi, vi int) *c20Rec {
	rr := t.mk()
	*rr.Header() = dns.RR_Header{Name: owner, Rrtype: t.code, Class: class, Ttl: ttl}
	root := reflect.ValueOf(rr).Elem()
	rec := &c20Rec{rr: rr}
	ids := []string{fmt.Sprintf("type=%d class=%d owner=%s", t.code, class, c20Lower(owner))}
	free := false
	for i, f := range t.fields {
		if t.vals[i] == nil {
			continue
		}
		val := t.vals[i][0]
		if i == fi {
			val = t.vals[i][vi]
			rec.kind, rec.field, rec.label = val.kind, f.name, val.label
		}
		val.set(root)
		if val.kind == "free" {
			free = true
		}
		ids = append(ids, f.name+"="+val.id)
		rec.names = append(rec.names, val.names...)
	}
	if !free {
		rec.key = strings.Join(ids, "\x00")
	}
	return rec
}

func (t *c20Type) variants(all []*c20Type) []*c20Rec {
	var out []*c20Rec
	hdr := func(kind, label, owner string, class uint16, ttl uint32) *c20Rec {
		v := t.build(owner, class, ttl, -1, 0)
		v.kind, v.label = kind, label
		out = append(out, v)
		return v
	}
	base := hdr("base", "", c20Owner, dns.ClassINET, c20TTL)
	cp := &c20Rec{kind: "copy", rr: dns.Copy(base.rr), key: base.key, names: base.names}
	out = append(out, cp)
	hdr("ttl", "7200", c20Owner, dns.ClassINET, 7200)
	hdr("ttl", "0", c20Owner, dns.ClassINET, 0)
	hdr("owner-case", "all-letters-swapped", c20SwapAll(c20Owner), dns.ClassINET, c20TTL)
	hdr("owner-case", "first-letter-swapped", c20SwapAt(c20Owner, 0), dns.ClassINET, c20TTL)
	hdr("owner-case", "last-letter-swapped", c20SwapAt(c20Owner, c20LastLetter(c20Owner)), dns.ClassINET, c20TTL)
	hdr("owner-case", "lower-case-and-ttl", c20Lower(c20Owner), dns.ClassINET, 1)
	for _, o := range []string{"Hosu.Example.ORG.", "Iost.Example.ORG.", "Host.Example.ORH.", "Host.Sub.Example.ORG.", "Example.ORG.", "Host[.Example.ORG.", "Host{.Example.ORG."} {
		hdr("owner", o, o, dns.ClassINET, c20TTL)
	}
	hdr("class", "CH", c20Owner, dns.ClassCHAOS, c20TTL)
	hdr("class", "ANY", c20Owner, dns.ClassANY, c20TTL)
	e := hdr("free", "owner-first-octet-escaped", c20Escaped(c20Owner), dns.ClassINET, c20TTL)
	e.key = ""
	for i := range t.fields {
		for j := 1; j < len(t.vals[i]); j++ {
			out = append(out, t.build(c20Owner, dns.ClassINET, c20TTL, i, j))
		}
	}
	// other types with the same owner: every type with the same field layout (same RDATA by
	// construction), and the next type in code order
	next := -1
	for i, o := range all {
		if o.code == t.code {
			next = (i + 1) % len(all)
		}
	}
	for i, o := range all {
		if o.code != t.code && (o.layout == t.layout || i == next) {
			v := o.build(c20Owner, dns.ClassINET, c20TTL, -1, 0)
			v.kind, v.label = "type", o.name
			out = append(out, v)
		}
	}
	return out
}

// c20WireKey packs v.rr, parses the octets with this check's own reader and computes the identity
// "type, class, lower-cased owner, RDATA with embedded names lower-cased". It also unpacks the octets
// again (the record obtained from the wire).
func c20WireKey(v *c20Rec) error {
	buf := make([]byte, 4096)
	off, err := dns.PackRR(v.rr, buf, 0, nil, false)
	if err != nil {
		return fmt.Errorf("PackRR: %v", err)
	}
	w := buf[:off]
	v.wire = w
	labels, n, ok := rn.ParseWire(w)
	if !ok || n+10 > len(w) {
		return fmt.Errorf("owner not an uncompressed name in %x", w)
	}
	typ := uint16(w[n])<<8 | uint16(w[n+1])
	class := uint16(w[n+2])<<8 | uint16(w[n+3])
	rdlen := int(w[n+8])<<8 | int(w[n+9])
	if n+10+rdlen != len(w) {
		return fmt.Errorf("RDLENGTH %d does not end the record %x", rdlen, w)
	}
	rdata := append([]byte(nil), w[n+10:]...)
	for _, s := range v.names {
		p := rn.Parse(s)
		if !p.OK || !p.FQDN {
			return fmt.Errorf("model: %q is not a name", s)
		}
		enc := rn.Wire(p.Labels)
		if c := bytes.Count(rdata, enc); c != 1 && !(p.Root && c >= 1) {
			return fmt.Errorf("encoding %x of embedded name %q occurs %d times in RDATA %x", enc, s, c, rdata)
		}
		at := bytes.Index(rdata, enc)
		copy(rdata[at:], rn.Wire(rn.Lower(p.Labels)))
	}
	v.wkey = fmt.Sprintf("%d %d %x %x", typ, class, rn.Wire(rn.Lower(labels)), rdata)
	x, xoff, err := dns.UnpackRR(w, 0)
	if err != nil || xoff != len(w) {
		return fmt.Errorf("UnpackRR(%x): off %d, %v", w, xoff, err)
	}
	v.x = x
	v.y = c20ViaCompressedMsg(v)
	return nil
}

// c20ViaCompressedMsg: the same record as it comes out of a compressed message in which its owner and
// its embedded names have been seen before (question = owner, one A record owned by each embedded name),
// so that the RDATA of the types that may be compressed is shorter than in v.wire and the header's
// Rdlength differs from that of v.x although the record is the same.
func c20ViaCompressedMsg(v *c20Rec) dns.RR {
	if v.rr.Header().Rrtype == dns.TypeOPT || v.rr.Header().Rrtype == dns.TypeTSIG {
		return nil
	}
	m := new(dns.Msg)
	m.Compress = true
	m.Question = []dns.Question{{Name: v.rr.Header().Name, Qtype: dns.TypeANY, Qclass: dns.ClassINET}}
	for _, n := range v.names {
		m.Answer = append(m.Answer, &dns.A{Hdr: dns.RR_Header{Name: n, Rrtype: dns.TypeA, Class: dns.ClassINET, Ttl: 1}, A: []byte{192, 0, 2, 1}})
	}
	m.Answer = append(m.Answer, v.rr)
	b, err := m.Pack()
	if err != nil {
		return nil
	}
	m2 := new(dns.Msg)
	if err := m2.Unpack(b); err != nil || len(m2.Answer) != len(m.Answer) {
		return nil
	}
	return m2.Answer[len(m2.Answer)-1]
}

func c20Show(rr dns.RR) string {
	return fmt.Sprintf("%T%+v", rr, reflect.ValueOf(rr).Elem().Interface())
}

// c20CheckType runs the whole variant set of one type.
func c20CheckType(r *fw.R, t *c20Type, all []*c20Type) {
	T := t.name
	// names by tag == names by the hand-written table
	want := append([]string(nil), c20NameFields[T]...)
	got := t.nameFieldsByTag()
	sort.Strings(want)
	sort.Strings(got)
	if strings.Join(want, ",") != strings.Join(got, ",") {
		r.Fail("model/name-fields/"+T, "%s: struct tags declare name fields %v, RFC table %v", T, got, want)
	}
	vs := t.variants(all)
	for _, v := range vs {
		if err := c20WireKey(v); err != nil {
			r.Fail("model/pack/"+T, "%s %s: %v; record %s", T, v.what(), err, c20Show(v.rr))
			return
		}
	}
	n := len(vs)
	recs := make([]dns.RR, 0, 2*n)
	for _, v := range vs {
		recs = append(recs, v.rr)
	}
	for _, v := range vs {
		recs = append(recs, v.x)
	}
	for _, v := range vs {
		if v.y == nil {
			v.y = dns.Copy(v.x)
		} else {
			r.Count("records also taken from a compressed message", 1)
			if v.y.Header().Rdlength != v.x.Header().Rdlength {
				r.Count("… with an Rdlength other than that of the uncompressed form", 1)
			}
		}
		recs = append(recs, v.y)
	}
	desc := func(i int) string {
		if i < n {
			return fmt.Sprintf("[built: %s] %s", vs[i].what(), c20Show(recs[i]))
		}
		if i >= 2*n {
			return fmt.Sprintf("[from a compressed message, of: %s] %s", vs[i-2*n].what(), c20Show(recs[i]))
		}
		return fmt.Sprintf("[from wire %x of: %s] %s", vs[i-n].wire, vs[i-n].what(), c20Show(recs[i]))
	}
	N := 3 * n
	D := make([][]bool, N)
	for i := range D {
		D[i] = make([]bool, N)
		for j := range D[i] {
			D[i][j] = dns.IsDuplicate(recs[i], recs[j])
		}
	}
	r.Count("records", int64(N))
	r.Count("ordered pairs", int64(N*N))
	r.Count("triples", int64(N*N*N))

	// (c) a record and its copy
	for i := range recs {
		c := dns.Copy(recs[i])
		if !dns.IsDuplicate(recs[i], c) || !dns.IsDuplicate(c, recs[i]) {
			r.Fail("copy/"+T, "IsDuplicate(r, Copy(r)) = %v, IsDuplicate(Copy(r), r) = %v for r = %s", dns.IsDuplicate(recs[i], c), dns.IsDuplicate(c, recs[i]), desc(i))
		}
	}
	// (b) equivalence relation
	for i := 0; i < N; i++ {
		if !D[i][i] {
			r.Fail("reflexive/"+T, "IsDuplicate(r, r) = false for r = %s", desc(i))
		}
		for j := i + 1; j < N; j++ {
			if D[i][j] != D[j][i] {
				r.Fail("symmetric/"+T, "IsDuplicate(a, b) = %v but IsDuplicate(b, a) = %v; a = %s; b = %s", D[i][j], D[j][i], desc(i), desc(j))
			}
		}
	}
	for i := 0; i < N; i++ {
		for j := 0; j < N; j++ {
			if !D[i][j] {
				continue
			}
			for k := 0; k < N; k++ {
				if D[j][k] && !D[i][k] {
					r.Fail("transitive/"+T, "a~b and b~c but not a~c; a = %s; b = %s; c = %s", desc(i), desc(j), desc(k))
				}
			}
		}
	}
	// (a1) identity by construction, built records; the base against each variant gets a key of its own
	for i := 0; i < n; i++ {
		for j := 0; j < n; j++ {
			a, b := vs[i], vs[j]
			if a.free() || b.free() {
				continue
			}
			exp := a.key == b.key
			// the model must agree with itself: construction identity == wire identity
			if (a.wkey == b.wkey) != exp {
				r.Fail("model/wire-vs-construction/"+T, "built %s and %s: equal by construction = %v, but wire identities %q / %q", a.what(), b.what(), exp, a.wkey, b.wkey)
				continue
			}
			for _, p := range [][2]int{{i, j}, {i, j + n}, {i + n, j}} {
				if D[p[0]][p[1]] == exp {
					continue
				}
				key := "pair/" + T
				switch {
				case p[0] >= n || p[1] >= n:
					key = "mixed/" + T
				case i == 0:
					key = c20Key(T, b)
				case j == 0:
					key = c20Key(T, a)
				}
				r.Fail(key, "IsDuplicate = %v, expected %v (records are %s by construction); a = %s; b = %s", D[p[0]][p[1]], exp, map[bool]string{true: "equal up to TTL and name case", false: "different"}[exp], desc(p[0]), desc(p[1]))
			}
		}
	}
	// (a2) records obtained from the wire: exactly the wire identity
	for i := 0; i < n; i++ {
		for j := 0; j < n; j++ {
			exp := vs[i].wkey == vs[j].wkey
			for _, p := range [][2]int{{n + i, n + j}, {n + i, 2*n + j}, {2*n + i, n + j}, {2*n + i, 2*n + j}} {
				if D[p[0]][p[1]] != exp {
					r.Fail("wire/"+T, "IsDuplicate = %v for two records from the wire whose (type, class, lower-cased owner, RDATA with names lower-cased) are equal = %v; a = %s; b = %s", D[p[0]][p[1]], exp, desc(p[0]), desc(p[1]))
				}
			}
		}
	}
	r.Sample(func() any {
		var l []string
		for _, v := range vs {
			l = append(l, v.what())
		}
		return map[string]any{"type": T, "base": c20Show(vs[0].rr), "variants": l}
	})
}

// c20Key: violation class for a disagreement between the base record and one variant.
func c20Key(T string, v *c20Rec) string {
	if v.field != "" {
		return "isDuplicate/" + T + "/" + v.field + "/" + v.kind
	}
	return "isDuplicate/" + T + "/header/" + v.kind
}

// ---------------------------------------------------------------------------------------------
// Dedup

var c20PoolGroup = []int{0, 0, 0, 0, 1, 1, 1, 1, 2, 3}

// c20Pool returns a fresh pool record: 0..3 group A, 4..7 group B (same as A but for the letter case
// of the name inside the RDATA), each in {TTL 5, 9} × {owner lower, upper}; 8 and 9 are singletons.
func c20Pool(i int) dns.RR {
	switch {
	case i < 8:
		// the owner contains a literal backslash directly followed by a letter, an escaped dot and a \DDD escape, so
		// that the case folding of Dedup's key has to get the escape state right
		owner, ttl, mx := `a\\b.x\.y.q\007z.example.org.`, uint32(5), "Mail.Example.ORG."
		if i&1 != 0 {
			ttl = 9
		}
		if i&2 != 0 {
			owner = `A\\B.X\.Y.Q\007Z.EXAMPLE.ORG.`
		}
		if i&4 != 0 {
			mx = "mail.example.org."
		}
		return &dns.MX{Hdr: dns.RR_Header{Name: owner, Rrtype: dns.TypeMX, Class: dns.ClassINET, Ttl: ttl}, Preference: 10, Mx: mx}
	case i == 8:
		return &dns.TXT{Hdr: dns.RR_Header{Name: `a\\b.x\.y.q\007z.example.org.`, Rrtype: dns.TypeTXT, Class: dns.ClassINET, Ttl: 7}, Txt: []string{"Mail.Example.ORG."}}
	default:
		return &dns.MX{Hdr: dns.RR_Header{Name: "Other.example.org.", Rrtype: dns.TypeMX, Class: dns.ClassINET, Ttl: 3}, Preference: 10, Mx: "Mail.Example.ORG."}
	}
}

// c20TextGroup: the statement's grouping key computed from the text: owner lower-cased, TTL removed.
func c20TextGroup(rr dns.RR) string {
	f := strings.SplitN(rr.String(), "\t", 3)
	if len(f) != 3 {
		return "?" + rr.String()
	}
	return c20Lower(f[0]) + "\t" + f[2]
}

func c20Dedup(r *fw.R, list []int) {
	type grp struct {
		first int
		ttl   uint32
	}
	var order []int
	g := map[int]*grp{}
	for pos, idx := range list {
		id := c20PoolGroup[idx]
		ttl := c20Pool(idx).Header().Ttl
		if e, ok := g[id]; ok {
			if ttl < e.ttl {
				e.ttl = ttl
			}
			continue
		}
		g[id] = &grp{first: pos, ttl: ttl}
		order = append(order, id)
	}
	if len(order) < len(list) {
		r.Nontrivial()
	}
	for mode := 0; mode < 5; mode++ {
		in := make([]dns.RR, len(list))
		shared := map[int]dns.RR{}
		for i, idx := range list {
			in[i] = c20Pool(idx)
			if mode == 4 { // the same record value at every position that names the same pool entry
				if x, ok := shared[idx]; ok {
					in[i] = x
				} else {
					shared[idx] = in[i]
				}
			}
		}
		orig := append([]dns.RR(nil), in...)
		var m map[string]dns.RR
		mname := "nil map"
		switch mode {
		case 1:
			m = make(map[string]dns.RR, 8)
			mname = "pre-allocated map"
		case 2:
			m = make(map[string]dns.RR)
			dns.Dedup([]dns.RR{c20Pool(8), c20Pool(9)}, m)
			mname = "the map of an earlier Dedup call on a list without duplicates"
		case 3:
			m = make(map[string]dns.RR)
			dns.Dedup([]dns.RR{c20Pool(0), c20Pool(9), c20Pool(1)}, m)
			mname = "the map of an earlier Dedup call on a list with duplicates"
		case 4:
			mname = "nil map, equal pool entries are the same record value"
		}
		out := dns.Dedup(in, m)
		r.Count("Dedup calls", 1)
		show := func() string {
			var o []string
			for _, x := range out {
				o = append(o, x.String())
			}
			return fmt.Sprintf("pool indices %v (%s); result %q", list, mname, o)
		}
		if len(out) != len(order) {
			r.Fail("dedup/length", "Dedup returned %d records, expected %d (one per group); %s", len(out), len(order), show())
			continue
		}
		for i, id := range order {
			e := g[id]
			if out[i] != orig[e.first] {
				r.Fail("dedup/representative", "result[%d] is not the first input record of its group (input position %d); %s", i, e.first, show())
				continue
			}
			if out[i].Header().Ttl != e.ttl {
				r.Fail("dedup/ttl", "result[%d] has TTL %d, the smallest TTL of its group is %d; %s", i, out[i].Header().Ttl, e.ttl, show())
			}
			want := c20Pool(list[e.first])
			want.Header().Ttl = e.ttl
			want.Header().Rdlength = out[i].Header().Rdlength
			if !reflect.DeepEqual(out[i], want) {
				r.Fail("dedup/content", "result[%d] = %s is not the input record %s with the group's TTL; %s", i, c20Show(out[i]), c20Show(want), show())
			}
		}
	}
}

// ---------------------------------------------------------------------------------------------

func c20Spaces(c *fw.Ctx) {
	codes, skipped := c20TypeCodes()
	// the type models are cheap (no library calls besides the constructors); built in every process
	var all []*c20Type
	var modelErr []string
	for _, code := range codes {
		t, err := c20NewType(code)
		if err != nil {
			modelErr = append(modelErr, err.Error())
			continue
		}
		all = append(all, t)
	}

	c.Space("types", fmt.Sprintf("every type of dns.TypeToRR in code order (skipped as outside the relation's domain: %v; no type is skipped for lack of a packable instance) plus one unassigned type (RFC3597 form): a base record built by reflection with every field non-zero (PackRR and UnpackRR must succeed), its Copy, 2 TTL variants, 4 owner-case variants, 7 other owners (one letter, label count, '[' vs '{'), 2 other classes, per name field 3 case variants + 3 other names, per other field 2–19 other values (text fields also in other letter case; sized data with its length field), gateway variants none/IPv4/IPv6/host for IPSECKEY and AMTRELAY, every other type with the same field layout and the next type with the same owner, non-canonical spellings (\\DDD, hex/base32 case, 16-octet IPv4, SVCB order); each record also after PackRR→UnpackRR and as unpacked from a compressed message that has seen its owner and embedded names before (other Rdlength, same record); all ordered pairs and all triples of the 3n records; non-trivial: the type has at least one RDATA field", skipped), true,
		func(emit func(func(*fw.R))) {
			emit(func(r *fw.R) {
				for _, e := range modelErr {
					r.Fail("model/alphabet", "%s", e)
				}
				r.Count("types skipped (OPT)", int64(len(skipped)))
			})
			for _, t := range all {
				t := t
				emit(func(r *fw.R) {
					if len(t.fields) > 0 {
						r.Nontrivial()
					}
					r.Count("types", 1)
					c20CheckType(r, t, all)
				})
			}
		})

	// RDATA that only the wire can carry (the packer never writes it, the unpacker keeps it): APL items with address
	// octets / bits behind the prefix length. Records from the wire are duplicates exactly when the octets are equal.
	c.Space("wire-only", "APL records unpacked from RDATA with one item: family {1,2} × prefix {0,8,12,32} × negation × address part {the prefix bits only, one more set bit behind the prefix in the same octet, one / two more non-zero octets}: all ordered pairs, IsDuplicate exactly when the RDATA octets are equal; non-trivial: all", true,
		func(emit func(func(*fw.R))) {
			type item struct {
				desc  string
				rdata []byte
			}
			var items []item
			for _, fam := range []byte{1, 2} {
				for _, pfx := range []byte{0, 8, 12, 32} {
					for _, neg := range []byte{0, 0x80} {
						base := []byte{10, 0x10, 0, 0}[:(int(pfx)+7)/8]
						parts := [][]byte{base}
						if pfx == 12 {
							parts = append(parts, []byte{10, 0x11}) // a bit behind the prefix, same octet
						}
						parts = append(parts, append(append([]byte(nil), base...), 7), append(append([]byte(nil), base...), 7, 9))
						for _, afd := range parts {
							rd := append([]byte{0, fam, pfx, neg | byte(len(afd))}, afd...)
							items = append(items, item{fmt.Sprintf("family %d prefix %d negation %v address part %x", fam, pfx, neg != 0, afd), rd})
						}
					}
				}
			}
			for i := range items {
				i := i
				emit(func(r *fw.R) {
					r.Nontrivial()
					mk := func(it item) dns.RR {
						w := append([]byte{1, 'a', 0, 0, 42, 0, 1, 0, 0, 0, 5, 0, byte(len(it.rdata))}, it.rdata...)
						rr, _, err := dns.UnpackRR(w, 0)
						if err != nil {
							return nil
						}
						return rr
					}
					a := mk(items[i])
					if a == nil {
						r.Count("not accepted by Unpack", 1)
						return
					}
					for j := range items {
						b := mk(items[j])
						if b == nil {
							continue
						}
						want := bytes.Equal(items[i].rdata, items[j].rdata)
						if got := dns.IsDuplicate(a, b); got != want {
							r.Fail("wire/APL/bits-behind-prefix", "IsDuplicate = %v for APL records from the wire with RDATA %x (%s) and %x (%s)", got, items[i].rdata, items[i].desc, items[j].rdata, items[j].desc)
						}
					}
				})
			}
		})

	// More RDATA that only the wire can carry and the unpacker accepts: an SVCB "mandatory" list whose keys are not
	// in ascending order, type bitmaps with a window block longer than needed (trailing zero octets).
	c.Space("wire-only-lists", "records unpacked from non-canonical RDATA that Unpack accepts: SVCB / HTTPS with mandatory = {alpn,port} written in both key orders (plus the parameters themselves), NSEC / CSYNC / NSEC3 type bitmaps for {A, MX} with window lengths 2, 3 and 32 (trailing zero octets): all ordered pairs per family, IsDuplicate exactly when the RDATA octets are equal; non-trivial: all", true,
		func(emit func(func(*fw.R))) {
			type item struct {
				typ   uint16
				desc  string
				rdata []byte
			}
			var fams [][]item
			for _, t := range []uint16{dns.TypeSVCB, dns.TypeHTTPS} {
				tail := []byte{0, 1, 0, 3, 2, 'h', '2', 0, 3, 0, 2, 0x20, 0xfb} // alpn=h2 port=8443
				fams = append(fams, []item{
					{t, "mandatory=alpn,port", append([]byte{0, 1, 0, 0, 0, 0, 4, 0, 1, 0, 3}, tail...)},
					{t, "mandatory=port,alpn (keys not ascending)", append([]byte{0, 1, 0, 0, 0, 0, 4, 0, 3, 0, 1}, tail...)},
				})
			}
			bm := func(n int) []byte { // window 0, n octets: A (bit 1) and MX (bit 15)
				b := make([]byte, 2+n)
				b[0], b[1] = 0, byte(n)
				b[2], b[3] = 0x40, 0x01
				return b
			}
			for _, t := range []uint16{dns.TypeNSEC, dns.TypeCSYNC, dns.TypeNSEC3} {
				var f []item
				for _, n := range []int{2, 3, 32} {
					var pre []byte
					switch t {
					case dns.TypeNSEC:
						pre = []byte{1, 'n', 0}
					case dns.TypeCSYNC:
						pre = []byte{0, 0, 0, 7, 0, 3}
					case dns.TypeNSEC3:
						pre = append([]byte{1, 0, 0, 1, 0, 20}, make([]byte, 20)...)
					}
					f = append(f, item{t, fmt.Sprintf("bitmap window 0 of %d octets", n), append(pre, bm(n)...)})
				}
				fams = append(fams, f)
			}
			for _, fam := range fams {
				fam := fam
				emit(func(r *fw.R) {
					r.Nontrivial()
					mk := func(it item) dns.RR {
						w := append([]byte{1, 'a', 0, byte(it.typ >> 8), byte(it.typ), 0, 1, 0, 0, 0, 5, byte(len(it.rdata) >> 8), byte(len(it.rdata))}, it.rdata...)
						rr, _, err := dns.UnpackRR(w, 0)
						if err != nil {
							return nil
						}
						return rr
					}
					for _, x := range fam {
						a := mk(x)
						if a == nil {
							r.Count("not accepted by Unpack: "+x.desc, 1)
							continue
						}
						for _, y := range fam {
							b := mk(y)
							if b == nil {
								continue
							}
							want := bytes.Equal(x.rdata, y.rdata)
							if got := dns.IsDuplicate(a, b); got != want {
								r.Fail("wire/"+dns.TypeToString[x.typ]+"/non-canonical-list", "IsDuplicate = %v for %s records from the wire with RDATA %x (%s) and %x (%s)", got, dns.TypeToString[x.typ], x.rdata, x.desc, y.rdata, y.desc)
							}
						}
					}
				})
			}
		})

	// records in forms only the Go structs can hold (16-octet IPv4 addresses, lists in any order, mixed case …):
	// whatever the form, a record is a duplicate of itself, of its copy and of a twin built the same way, and Dedup
	// keeps one of them
	ncList := c16NonCanonical()
	c.Space("go-forms", fmt.Sprintf("%d records in forms only the Go structs can hold (C16's noncanonical list: SVCB/HTTPS parameters and mandatory keys in every order with a 16-octet IPv4 hint, NSEC/NSEC3/CSYNC bitmaps in every order, 16-octet IPv4 addresses, unmasked prefixes, mixed-case names; OPT forms skipped): IsDuplicate(r, r), IsDuplicate(r, Copy(r)) and IsDuplicate(r, twin) hold in both directions, the copy prints like the original, Dedup([r, Copy(r), twin]) keeps exactly r; non-trivial: all", len(ncList)), true,
		func(emit func(func(*fw.R))) {
			for _, nc := range ncList {
				nc := nc
				emit(func(r *fw.R) {
					rr := nc.mk()
					if rr.Header().Rrtype == dns.TypeOPT {
						return
					}
					r.Nontrivial()
					tn := strings.Fields(nc.what)[0]
					cp, twin := dns.Copy(rr), nc.mk()
					if cp.String() != rr.String() {
						r.Fail("go-forms/copy-prints-differently/"+tn, "{%s}: the copy prints %q, the record %q", nc.what, cp.String(), rr.String())
					}
					for _, p := range []struct {
						n    string
						a, b dns.RR
					}{{"itself", rr, rr}, {"its copy", rr, cp}, {"copy vs record", cp, rr}, {"a twin", rr, twin}, {"twin vs copy", twin, cp}} {
						if !dns.IsDuplicate(p.a, p.b) {
							r.Fail("go-forms/not-duplicate/"+tn, "{%s}: IsDuplicate(record, %s) is false", nc.what, p.n)
						}
					}
					if out := dns.Dedup([]dns.RR{rr, cp, twin}, nil); len(out) != 1 || out[0] != rr {
						r.Fail("go-forms/dedup/"+tn, "{%s}: Dedup([r, Copy(r), twin]) keeps %d records", nc.what, len(out))
					}
				})
			}
		})

	// the RDATA-less representations of RFC 2136 (an RR_Header or an ANY struct carrying the type) next to the typed
	// struct of the same type: comparisons across the representations neither panic nor depend on the argument order
	c.Space("rdata-less-forms", "for every registered type: an RR_Header, an ANY struct and the zero typed struct, all with that type, class ANY and the same owner (in two letter cases): IsDuplicate over all ordered pairs returns without panicking, is symmetric, and holds between each representation and its copy; non-trivial: all", true,
		func(emit func(func(*fw.R))) {
			for _, t := range regTypes() {
				if t == dns.TypeOPT {
					continue
				}
				t := t
				emit(func(r *fw.R) {
					r.Nontrivial()
					tn := dns.TypeToString[t]
					mk := func(owner string) []dns.RR {
						h := dns.RR_Header{Name: owner, Rrtype: t, Class: dns.ClassANY}
						hh := h
						typed := dns.TypeToRR[t]()
						*typed.Header() = h
						return []dns.RR{&hh, &dns.ANY{Hdr: h}, typed}
					}
					all := append(mk("host.example."), mk("HOST.example.")...)
					defer func() {
						if e := recover(); e != nil {
							r.Fail("rdata-less-forms/panic/"+tn, "IsDuplicate over RDATA-less representations of %s panics: %v", tn, e)
						}
					}()
					for i, a := range all {
						// (RR_Header implements RR only formally: its copy method returns nil, "just to implement the interface")
						_, private := a.(*dns.PrivateRR)
						_, bare := a.(*dns.RR_Header)
						if !private && !bare && !dns.IsDuplicate(a, dns.Copy(a)) {
							r.Fail("rdata-less-forms/copy/"+tn, "IsDuplicate(%T of type %s, its copy) is false", a, tn)
						}
						for j, b := range all {
							if dns.IsDuplicate(a, b) != dns.IsDuplicate(b, a) {
								r.Fail("rdata-less-forms/asymmetric/"+tn, "IsDuplicate(%T #%d, %T #%d) = %v but %v the other way round", a, i, b, j, dns.IsDuplicate(a, b), dns.IsDuplicate(b, a))
							}
						}
					}
				})
			}
		})

	// Dedup groups by text, not by IsDuplicate: records of a registered private type (whose isDuplicate is constant
	// false, like OPT's) with the same text are one group all the same.
	// owners spelled as a zone file may spell them: a letter behind a backslash is still a letter, and its case is
	// owner-name case ("text identical up to owner-name case and TTL")
	c.Space("dedup-escaped-letter", "lists of two and three A records at the owners {\\A.nl., \\a.nl., \\097.NL.} spelled with an escaped letter (TTLs 10, 20, 30; same address), in every order: the first two spell one text up to letter case and are one group — one representative, the first, with the smaller TTL; the \\DDD spelling prints differently and stays; non-trivial: all", true,
		func(emit func(func(*fw.R))) {
			owners := []string{`\A.nl.`, `\a.nl.`, `\097.NL.`}
			ttls := []uint32{10, 20, 30}
			for _, list := range [][]int{{0, 1}, {1, 0}, {0, 1, 2}, {2, 1, 0}, {1, 2, 0}, {0, 0}, {1, 1, 0}} {
				list := list
				emit(func(r *fw.R) {
					r.Nontrivial()
					var in []dns.RR
					for _, i := range list {
						in = append(in, &dns.A{Hdr: dns.RR_Header{Name: owners[i], Rrtype: dns.TypeA, Class: dns.ClassINET, Ttl: ttls[i]}, A: net.IP{192, 0, 2, 1}})
					}
					// expected by the statement: group = text with the owner lower-cased and the TTL removed
					type g struct {
						pos int
						ttl uint32
					}
					var order []string
					groups := map[string]*g{}
					for pos, rr := range in {
						k := c20TextGroup(rr)
						if x, ok := groups[k]; ok {
							if rr.Header().Ttl < x.ttl {
								x.ttl = rr.Header().Ttl
							}
							continue
						}
						groups[k] = &g{pos, rr.Header().Ttl}
						order = append(order, k)
					}
					desc := fmt.Sprint(list)
					out := dns.Dedup(in, nil)
					if len(out) != len(order) {
						var got []string
						for _, rr := range out {
							got = append(got, rr.String())
						}
						r.Fail("dedup/escaped-letter-case", "Dedup of owners %v (list %s) returned %d records %q, the statement's grouping gives %d", owners, desc, len(out), got, len(order))
						return
					}
					for i, k := range order {
						if out[i] != in[groups[k].pos] || out[i].Header().Ttl != groups[k].ttl {
							r.Fail("dedup/escaped-letter-case", "Dedup (list %s): representative %d is %q, want the record at position %d with TTL %d", desc, i, out[i], groups[k].pos, groups[k].ttl)
						}
					}
				})
			}
		})
	c.Space("dedup-private", "all lists of length ≤ 4 over the pool {private-type record P with TTL 5, P with TTL 2, the same type with another payload (TTL 7), an MX record (TTL 3)} (records of a type registered through PrivateHandle never compare as duplicates, Dedup goes by their text): one representative per group in input order, the first record of the group, carrying the group's smallest TTL; non-trivial: the list holds P twice", true,
		func(emit func(func(*fw.R))) {
			mk := func(i int) dns.RR {
				if i == 3 {
					return &dns.MX{Hdr: dns.RR_Header{Name: "other.example.org.", Rrtype: dns.TypeMX, Class: dns.ClassINET, Ttl: 3}, Preference: 10, Mx: "mail.example.org."}
				}
				p := dns.TypeToRR[c01PrivType]().(*dns.PrivateRR)
				p.Hdr = dns.RR_Header{Name: "p.example.org.", Rrtype: c01PrivType, Class: dns.ClassINET, Ttl: []uint32{5, 2, 7}[i]}
				p.Data = &c01PrivRdata{[]byte([]string{"same", "same", "other"}[i])}
				return p
			}
			group := []int{0, 0, 1, 2}
			var lists [][]int
			var rec func(cur []int)
			rec = func(cur []int) {
				if len(cur) > 0 {
					lists = append(lists, append([]int(nil), cur...))
				}
				if len(cur) == 4 {
					return
				}
				for i := 0; i < 4; i++ {
					rec(append(cur, i))
				}
			}
			rec(nil)
			for _, l := range lists {
				l := l
				emit(func(r *fw.R) {
					dns.PrivateHandle("VPRIV", c01PrivType, func() dns.PrivateRdata { return new(c01PrivRdata) })
					defer dns.PrivateHandleRemove(c01PrivType)
					in := make([]dns.RR, len(l))
					type grp struct {
						first int
						ttl   uint32
					}
					g := map[int]*grp{}
					var order []int
					nP := 0
					for pos, idx := range l {
						in[pos] = mk(idx)
						if group[idx] == 0 {
							nP++
						}
						ttl := in[pos].Header().Ttl
						if e, ok := g[group[idx]]; ok {
							if ttl < e.ttl {
								e.ttl = ttl
							}
							continue
						}
						g[group[idx]] = &grp{pos, ttl}
						order = append(order, group[idx])
					}
					if nP > 1 {
						r.Nontrivial()
					}
					orig := append([]dns.RR(nil), in...)
					out := dns.Dedup(in, nil)
					show := func() string {
						var o []string
						for _, x := range out {
							o = append(o, x.String())
						}
						return fmt.Sprintf("pool indices %v; result %q", l, o)
					}
					if len(out) != len(order) {
						r.Fail("dedup/length/private", "Dedup returned %d records, expected %d (one per group of equal text); %s", len(out), len(order), show())
						return
					}
					for i, id := range order {
						e := g[id]
						if out[i] != orig[e.first] {
							r.Fail("dedup/representative/private", "result[%d] is not the first input record of its group (input position %d); %s", i, e.first, show())
						} else if out[i].Header().Ttl != e.ttl {
							r.Fail("dedup/ttl/private", "result[%d] has TTL %d, the smallest TTL of its group is %d; %s", i, out[i].Header().Ttl, e.ttl, show())
						}
					}
				})
			}
		})

	c.Space("xtype", "all ordered pairs of base records of all types (same owner, class, TTL), built and from the wire: duplicates exactly when the types are equal; one case per first type, all are non-trivial", true,
		func(emit func(func(*fw.R))) {
			for i := range all {
				i := i
				emit(func(r *fw.R) {
					r.Nontrivial()
					r.Sample(func() any { return fmt.Sprintf("%s base record against the base records of all %d types", all[i].name, len(all)) })
					mk := func(t *c20Type) (*c20Rec, bool) {
						v := t.build(c20Owner, dns.ClassINET, c20TTL, -1, 0)
						if err := c20WireKey(v); err != nil {
							r.Fail("model/pack/"+t.name, "%s base: %v", t.name, err)
							return v, false
						}
						return v, true
					}
					a, ok := mk(all[i])
					if !ok {
						return
					}
					for j := range all {
						b, ok := mk(all[j])
						if !ok {
							continue
						}
						exp := i == j
						for _, p := range [][2]dns.RR{{a.rr, b.rr}, {b.rr, a.rr}, {a.x, b.x}, {a.rr, b.x}, {a.x, b.rr}} {
							r.Count("pairs", 1)
							if got := dns.IsDuplicate(p[0], p[1]); got != exp {
								r.Fail("isDuplicate/"+all[i].name+"/header/type", "IsDuplicate = %v, expected %v; a = %s; b = %s", got, exp, c20Show(p[0]), c20Show(p[1]))
							}
						}
					}
				})
			}
		})

	maxLen := 5
	if c.Thorough {
		maxLen = 6
	}
	pool := len(c20PoolGroup)
	c.Space("dedup", fmt.Sprintf("all lists of length ≤ %d over a pool of %d records (2 groups, differing only in the letter case of the name inside the RDATA, × TTL {5,9} × owner {lower,upper}; a TXT at the same owner; the first group's MX at another owner), every position a fresh record (and once with equal entries being the same record value), each list with a nil map, a fresh pre-allocated map, and a map that an earlier Dedup call (on a list without / with duplicates) has used; expected: first record of each group in input order, same pointer, smallest TTL of the group, otherwise unchanged; one case per 2-element prefix; non-trivial: some group occurs twice", maxLen, pool), true,
		func(emit func(func(*fw.R))) {
			emit(func(r *fw.R) {
				// the pool's groups by construction are the statement's groups by text
				for i := 0; i < pool; i++ {
					for j := 0; j < pool; j++ {
						byText := c20TextGroup(c20Pool(i)) == c20TextGroup(c20Pool(j))
						if byText != (c20PoolGroup[i] == c20PoolGroup[j]) {
							r.Fail("model/dedup-groups", "pool %d %q and %d %q: same group by text = %v, by construction = %v", i, c20Pool(i), j, c20Pool(j), byText, !byText)
						}
					}
				}
				c20Dedup(r, nil)
				for i := 0; i < pool; i++ {
					c20Dedup(r, []int{i})
				}
				r.Count("lists", int64(1+pool))
			})
			for a := 0; a < pool; a++ {
				for b := 0; b < pool; b++ {
					a, b := a, b
					emit(func(r *fw.R) {
						list := []int{a, b}
						var rec func()
						rec = func() {
							c20Dedup(r, list)
							r.Count("lists", 1)
							if len(list) == maxLen {
								return
							}
							for x := 0; x < pool; x++ {
								list = append(list, x)
								rec()
								list = list[:len(list)-1]
							}
						}
						rec()
						r.Sample(func() any { return fmt.Sprintf("all lists starting with pool records %d,%d", a, b) })
					})
				}
			}
		})
}
