package main

import (
	"bytes"
	"fmt"
	"time"

	"github.com/miekg/dns"
	"verif/harness/fw"
	rt "verif/harness/ref/tsig"
)

// C11 envelope chains (RFC 8945 §5.3.1): the first envelope is signed over the request MAC and the full
// TSIG variables, every following one over the previous envelope's MAC and the timers only — exactly
// what xfr.go / server.go do with tsigRequestMAC and tsigTimersOnly.

func c11AxfrQuestion() dns.Question {
	return dns.Question{Name: "example.org.", Qtype: dns.TypeAXFR, Qclass: dns.ClassINET}
}

func c11SOA() dns.RR {
	return &dns.SOA{Hdr: dns.RR_Header{Name: "example.org.", Rrtype: dns.TypeSOA, Class: dns.ClassINET, Ttl: 3600}, Ns: "ns1.example.org.", Mbox: "root.example.org.",
		Serial: 2026092401, Refresh: 7200, Retry: 3600, Expire: 1209600, Minttl: 300}
}

// c11Envelope is the i-th of n AXFR reply messages (without TSIG): SOA first in the first, SOA last in the
// last, two address records each in between.
func c11Envelope(i, n int) *dns.Msg {
	m := new(dns.Msg)
	m.Id = 0x1234
	m.Response, m.Authoritative = true, true
	m.Question = []dns.Question{c11AxfrQuestion()}
	if i == 0 {
		m.Answer = append(m.Answer, c11SOA())
	}
	for k := 0; k < 2; k++ {
		m.Answer = append(m.Answer, &dns.A{Hdr: dns.RR_Header{Name: fmt.Sprintf("h%d-%d.example.org.", i, k), Rrtype: dns.TypeA, Class: dns.ClassINET, Ttl: 300}, A: []byte{192, 0, 2, byte(10*i + k)}})
	}
	if i == n-1 {
		m.Answer = append(m.Answer, c11SOA())
	}
	return m
}

func c11AxfrQuery() *dns.Msg {
	m := new(dns.Msg)
	m.Id = 0x1234
	m.Question = []dns.Question{c11AxfrQuestion()}
	return m
}

func c11Stub(m *dns.Msg, key, alg string, fudge uint16, ts uint64) *dns.Msg {
	m.Extra = append(m.Extra, &dns.TSIG{Hdr: dns.RR_Header{Name: key, Rrtype: dns.TypeTSIG, Class: dns.ClassANY}, Algorithm: alg, Fudge: fudge, TimeSigned: ts, OrigId: m.Id})
	return m
}

func c11SpaceChain(c *fw.Ctx) {
	secrets := 1
	if c.Thorough {
		secrets = 2
	}
	c.Space("chain", fmt.Sprintf("chains of n = 1..4 envelopes signed by TsigGenerate (first: request MAC of a signed query or none, full variables; following: previous MAC, timers only) × 5 algorithms × %d secret(s) × path {secret, provider} × position i < n: every MAC = reference HMAC over the previous MAC; then envelope i is altered (every single-bit flip), removed, duplicated, swapped with i+1, stripped of its TSIG, or re-signed in the wrong mode, and the chain is verified envelope by envelope with the MAC carried over: the first failing envelope must be the one the reference names (both directions; for bit-altered envelopes: library accepts ⇒ reference accepts); non-trivial: every case", secrets), true,
		func(emit func(func(*fw.R))) {
			for _, alg := range c11Algs {
				for n := 1; n <= 4; n++ {
					for withQuery := 0; withQuery < 2; withQuery++ {
						for secret := 0; secret < secrets; secret++ {
							for path := 0; path < 2; path++ {
								for pos := 0; pos < n; pos++ {
									alg, n, withQuery, secret, path, pos := alg, n, withQuery, secret, path, pos
									emit(func(r *fw.R) { c11Chain(r, alg, n, withQuery == 1, secret, path, pos) })
								}
							}
						}
					}
				}
			}
		})
}

func c11Chain(r *fw.R, alg string, n int, withQuery bool, secret, path, pos int) {
	r.Nontrivial()
	s := c11NewSide(path, secret)
	T := uint64(time.Now().Unix())
	ctx := fmt.Sprintf("chain{alg=%s n=%d signed-query=%v secret#%d position=%d signed at %d} via %s", alg, n, withQuery, secret, pos, T, s)
	var first []byte
	if withQuery {
		q, _, err := s.generate(c11Stub(c11AxfrQuery(), c11K1, alg, 300, T), nil, false)
		if err != nil {
			r.Fail("generate/error", "TsigGenerate(query): %v; %s", err, ctx)
			return
		}
		_, t, ok := c11Unsign(q)
		if !ok {
			r.Fail("model/split", "cannot split the signed query %s", c11Hex(q))
			return
		}
		first = t.MAC
	}
	// sign the chain with the library, each MAC against the reference
	sign := func(i int, prev []byte, timers bool) ([]byte, []byte, bool) {
		out, mac, err := s.generate(c11Stub(c11Envelope(i, n), c11K1, alg, 300, T), prev, timers)
		if err != nil {
			r.Fail("generate/error", "TsigGenerate(envelope %d): %v; %s", i, err, ctx)
			return nil, nil, false
		}
		body, perr := c11Envelope(i, n).Pack()
		if perr != nil {
			r.Fail("model/pack", "Pack: %v", perr)
			return nil, nil, false
		}
		rec := rt.Rec{Name: c11Labels(c11K1), Class: rt.ClassANY, Alg: c11Labels(alg), Time: T, Fudge: 300, OrigID: 0x1234}
		want, wmac, _ := rt.Sign(body, rec, c11Secret(secret), prev, timers)
		if !bytes.Equal(out, want) {
			r.Fail("chain/mac", "envelope %d (previous MAC %x, timersOnly=%v): TsigGenerate MAC %s, RFC 8945 HMAC %x; %s\n got  %s\n want %s", i, prev, timers, mac, wmac, ctx, c11Hex(out), c11Hex(want))
			return nil, nil, false
		}
		return out, wmac, true
	}
	envs := make([][]byte, n)
	macs := make([][]byte, n)
	prev := first
	for i := 0; i < n; i++ {
		var ok bool
		if envs[i], macs[i], ok = sign(i, prev, i > 0); !ok {
			return
		}
		prev = macs[i]
	}

	// receive runs the library and the reference in lock-step over a list of envelopes; tampered[i] says
	// that envelope i has altered octets (then only "library accepts ⇒ reference accepts" is demanded).
	// Returns the index of the first envelope the reference rejects (−1: none), or −2 after a violation.
	receive := func(list [][]byte, tampered int, what string) int {
		prev := first
		for i, e := range list {
			lib, now := s.verify(e, prev, i > 0)
			ref, why := rt.Verify(e, s.lookup, prev, i > 0, now)
			if lib == nil && !ref {
				r.Fail("accept/"+c11Diagnose(e, s.lookup, prev, i > 0, now, why), "%s: envelope %d verified by TsigVerify (previous MAC %x, timersOnly=%v, now=%d) but the reference rejects (%s); %s; envelopes %s",
					what, i, prev, i > 0, now, why, ctx, c11HexList(list))
				return -2
			}
			if lib != nil && ref && i != tampered {
				r.Fail("chain/rejects-valid", "%s: envelope %d rejected by TsigVerify (%v; previous MAC %x, timersOnly=%v) but it is valid at this point of the chain; %s; envelopes %s",
					what, i, lib, prev, i > 0, ctx, c11HexList(list))
				return -2
			}
			if lib != nil {
				if ref {
					return -3 // tampered envelope, rejected by the library only: the chain has failed at it
				}
				return i
			}
			if _, t, why := rt.Split(e); why == "" {
				prev = t.MAC
			}
		}
		return -1
	}
	if at := receive(envs, -1, "unaltered chain"); at != -1 {
		if at >= 0 {
			r.Fail("model/chain-rejected", "reference rejects envelope %d of the unaltered chain; %s", at, ctx)
		}
		return
	}
	r.Sample(func() any { return ctx + ": " + c11HexList(envs) })

	// structural faults at position pos
	without := func(list [][]byte, i int) [][]byte {
		return append(append([][]byte{}, list[:i]...), list[i+1:]...)
	}
	expectAt := func(list [][]byte, what string, wantFail bool) {
		at := receive(list, -1, what)
		if at == -2 {
			return
		}
		if wantFail && (at < pos) {
			r.Fail("model/chain-fault-undetected", "%s: reference fails at %d, expected at or after %d; %s", what, at, pos, ctx)
		}
		if !wantFail && at != -1 {
			r.Fail("model/chain-fault-detected", "%s: reference fails at %d, expected no TSIG failure; %s", what, at, ctx)
		}
		r.Count("structural-faults", 1)
	}
	expectAt(without(envs, pos), fmt.Sprintf("envelope %d removed", pos), pos != n-1)
	dup := append(append(append([][]byte{}, envs[:pos+1]...), envs[pos]), envs[pos+1:]...)
	expectAt(dup, fmt.Sprintf("envelope %d duplicated", pos), true)
	if pos+1 < n {
		sw := append([][]byte{}, envs...)
		sw[pos], sw[pos+1] = sw[pos+1], sw[pos]
		expectAt(sw, fmt.Sprintf("envelopes %d and %d swapped", pos, pos+1), true)
	}
	if pre, _, ok := c11Unsign(envs[pos]); ok {
		un := append([][]byte{}, envs...)
		un[pos] = pre
		expectAt(un, fmt.Sprintf("envelope %d stripped of its TSIG", pos), true)
	}
	{
		prevMAC := first
		if pos > 0 {
			prevMAC = macs[pos-1]
		}
		if wrong, _, ok := sign2(s, pos, n, alg, T, prevMAC, pos == 0); ok {
			wm := append([][]byte{}, envs...)
			wm[pos] = wrong
			expectAt(wm, fmt.Sprintf("envelope %d signed in the wrong mode (timersOnly=%v)", pos, pos == 0), true)
		}
		if pos > 0 {
			older := first
			if pos > 1 {
				older = macs[pos-2]
			}
			if wrong, _, ok := sign2(s, pos, n, alg, T, older, true); ok {
				wm := append([][]byte{}, envs...)
				wm[pos] = wrong
				expectAt(wm, fmt.Sprintf("envelope %d signed over the MAC of envelope %d instead of %d", pos, pos-2, pos-1), true)
			}
		}
	}

	// every single-bit flip of envelope pos
	orig := envs[pos]
	var flips, okBoth int64
	for i := range orig {
		for bit := 0; bit < 8; bit++ {
			alt := append([]byte{}, orig...)
			alt[i] ^= 1 << bit
			list := append([][]byte{}, envs...)
			list[pos] = alt
			flips++
			at := receive(list, pos, fmt.Sprintf("bit %d of octet %d of envelope %d flipped", bit, i, pos))
			switch {
			case at == -1:
				okBoth++ // excluded positions (ID, name case, fields outside the timers digest)
			case at >= 0 && at < pos:
				r.Fail("model/chain-fault-undetected", "flip in envelope %d: reference fails at %d; %s", pos, at, ctx)
			}
		}
	}
	r.Count("flips", flips)
	r.Count("flipped-chains-accepted-by-both", okBoth)
}

// sign2 signs envelope i with the library without comparing (used to build wrongly signed envelopes).
func sign2(s *c11Side, i, n int, alg string, T uint64, prev []byte, timers bool) ([]byte, string, bool) {
	out, mac, err := s.generate(c11Stub(c11Envelope(i, n), c11K1, alg, 300, T), prev, timers)
	return out, mac, err == nil
}

func c11HexList(l [][]byte) string {
	s := ""
	for i, e := range l {
		s += fmt.Sprintf("[%d] %s ", i, c11Hex(e))
	}
	return s
}
