package main

import (
	"bytes"
	"encoding/hex"
	"fmt"
	"sort"
	"strings"

	"github.com/miekg/dns"
	"verif/harness/bind"
	"verif/harness/enum"
	"verif/harness/fw"
	"verif/harness/ref/wire"
)

// C01 — wire encoding lossless and RFC-shaped (DESIGN §5 C01).

func init() {
	fw.Register(&fw.Check{Prop: "C01", Level: "exploration",
		Assume: []string{
			"oracle: ref/wire (hand-written RFC layouts per type, encoder + strict decoder); binding to the library only through Go field names (package bind)",
			"names are given to the library in its own presentation form (UnpackDomainName of the reference wire form; that link is property C03)",
			"equality after unpacking is judged on abstract values (re-read from the Go struct by package bind), not on Go-level spelling",
			"non-canonical option payloads (UL with explicit zero key-lease, KEEPALIVE with explicit zero timeout) need only decode to the same value, not re-encode identically",
		},
		Spaces: c01Spaces})
}

var packBuf = make([]byte, 70000)

func regTypes() []uint16 {
	var ts []uint16
	for t := range dns.TypeToRR {
		ts = append(ts, t)
	}
	sort.Slice(ts, func(i, j int) bool { return ts[i] < ts[j] })
	return ts
}

func rrDesc(r *wire.RR) string {
	rd := r.Rdata()
	if len(rd) > 600 {
		return fmt.Sprintf("type %d owner %q class %d ttl %d rdata[%d] %x…", r.Type, r.Name, r.Class, r.TTL, len(rd), rd[:300])
	}
	return fmt.Sprintf("type %d owner %q class %d ttl %d rdata %x", r.Type, r.Name, r.Class, r.TTL, rd)
}

// c01RR checks one abstract record in all directions. canonical: re-encoding the decoded record must
// reproduce the octets.
func c01RR(r *fw.R, ar *wire.RR, tn string, canonical bool) {
	want, err := wire.EncodeRR(nil, ar)
	if err != nil {
		return
	}
	rr, err := bind.ToGo(ar)
	if err != nil {
		if strings.Contains(err.Error(), "cannot represent the empty (query) form") {
			// RFC 9660 §2: OPTION-LENGTH is 0 in queries. The library has no value for it; at least it must decode.
			if _, _, uerr := dns.UnpackRR(want, 0); uerr != nil {
				r.Fail("unpack-error/OPT/zoneversion-empty", "UnpackRR(%x) (OPT with the empty ZONEVERSION option of a query, RFC 9660 §2) fails: %v", want, uerr)
			}
			return
		}
		r.Fail("bind/"+tn, "cannot build library record for %s: %v", rrDesc(ar), err)
		return
	}
	// (1) pack == reference layout
	off, perr := dns.PackRR(rr, packBuf, 0, nil, false)
	if perr != nil {
		r.Fail("pack-error/"+tn, "PackRR(%T %s) failed: %v", rr, rrDesc(ar), perr)
	} else if got := packBuf[:off]; !bytes.Equal(got, want) {
		r.Fail("pack-layout/"+tn, "PackRR(%T) = %x\nreference layout   %x\nrecord: %s", rr, got, want, rrDesc(ar))
	} else if l := dns.Len(rr); l < off {
		r.Fail("len-underestimates/"+tn, "Len = %d < packed %d for %s", l, off, rrDesc(ar))
	}
	// (1b) the same record as the only (= last) record of a message, through Msg.Pack, which sizes its own buffer
	if perr == nil {
		m := &dns.Msg{MsgHdr: dns.MsgHdr{Id: 1, Response: true}, Answer: []dns.RR{rr}}
		if ar.Type == 41 {
			m.Answer, m.Extra = nil, []dns.RR{rr}
		}
		mb, err := m.Pack()
		if err != nil {
			r.Fail("msg-pack-error/"+tn, "Msg.Pack of a message whose last record is %s failed: %v", rrDesc(ar), err)
		} else if !bytes.Equal(mb[12:], want) {
			r.Fail("msg-pack-layout/"+tn, "Msg.Pack body %x differs from the reference %x", mb[12:], want)
		}
	}
	// (1c) the same record converted to its RFC 3597 form carries the same RDATA
	if _, isUnknown := rr.(*dns.RFC3597); perr == nil && !isUnknown && ar.Type != 41 && !ar.NoRdata {
		g := new(dns.RFC3597)
		if err := g.ToRFC3597(rr); err != nil {
			r.Fail("ToRFC3597/"+tn, "ToRFC3597(%s): %v", rrDesc(ar), err)
		} else if rd, _ := hex.DecodeString(g.Rdata); !bytes.Equal(rd, ar.Rdata()) {
			r.Fail("ToRFC3597/"+tn, "ToRFC3597(%s).Rdata = %s; reference rdata %x", rrDesc(ar), g.Rdata, ar.Rdata())
		}
	}
	// (2) unpack(reference octets) == original
	// (from a buffer of the caller's that is overwritten right after the call: the record may not keep
	// looking at it)
	scratch := append(make([]byte, 0, len(want)), want...)
	rr2, off2, uerr := dns.UnpackRR(scratch, 0)
	for i := range scratch {
		scratch[i] = ^scratch[i]
	}
	if uerr != nil || off2 != len(want) {
		r.Fail("unpack-error/"+tn, "UnpackRR(%x) = off %d, err %v; record %s", want, off2, uerr, rrDesc(ar))
		return
	}
	back, err := bind.FromGo(rr2)
	if err != nil {
		r.Fail("unpack-malformed/"+tn, "UnpackRR(%x) gave a %T that is not a well-formed value: %v", want, rr2, err)
		return
	}
	if d := bind.EqualRR(ar, back); d != "" {
		r.Fail("unpack-differs/"+tn, "UnpackRR(%x) differs from the original: %s", want, d)
	}
	// (3) pack(unpack(o)) == o
	if canonical {
		off3, err := dns.PackRR(rr2, packBuf, 0, nil, false)
		if err != nil || !bytes.Equal(packBuf[:off3], want) {
			r.Fail("repack-differs/"+tn, "Pack(Unpack(o)) = %x, %v\no                = %x", packBuf[:max(off3, 0)], err, want)
		}
	}
}

func optCanonical(vals []wire.Val) bool {
	for _, v := range vals {
		for _, o := range v.Opts {
			if (o.Code == 2 && len(o.Data) == 8 && bytes.Equal(o.Data[4:], []byte{0, 0, 0, 0})) || (o.Code == 11 && len(o.Data) == 2 && o.Data[0] == 0 && o.Data[1] == 0) {
				return false
			}
		}
	}
	return true
}

func c01Spaces(c *fw.Ctx) {
	k, fullLimit := 3, 50000
	if c.Thorough {
		k, fullLimit = 4, 2000000
	}
	types := regTypes()
	// registry vs table
	c.Space("registry", "every type code in the library's registry must have a layout in the reference table and vice versa; non-trivial: all", true,
		func(emit func(func(*fw.R))) {
			for _, t := range types {
				t := t
				emit(func(r *fw.R) {
					r.Nontrivial()
					s := wire.Specs[t]
					if s == nil {
						r.Fail("table-missing-type", "registry has type %d (%s) but ref/wire has no layout for it", t, dns.TypeToString[t])
					} else if s.Mnem != dns.TypeToString[t] {
						r.Fail("mnemonic", "type %d: library mnemonic %q, reference %q", t, dns.TypeToString[t], s.Mnem)
					}
				})
			}
		})

	for _, t := range types {
		s := wire.Specs[t]
		if s == nil {
			continue
		}
		tn := s.Mnem
		owner := enum.Names[0]
		class, ttl := uint16(1), uint32(3600)
		if t == 41 {
			owner, class, ttl = nil, 1232, 0
		}
		c.Space("rr/"+tn, fmt.Sprintf("type %s: full product of field alphabets if ≤ %d vectors else all vectors with ≤ %d deviations from the default; pack==layout, unpack==original, repack==octets; non-trivial: ≥1 deviation", tn, fullLimit, k), true,
			func(emit func(func(*fw.R))) {
				enum.Vectors(s, k, fullLimit, func(vals []wire.Val, devs int) {
					emit(func(r *fw.R) {
						if devs > 0 {
							r.Nontrivial()
						}
						ar := &wire.RR{Name: owner, Type: t, Class: class, TTL: ttl, Vals: vals}
						c01RR(r, ar, tn, optCanonical(vals))
						r.Sample(func() any { return rrDesc(ar) })
					})
				})
			})
	}

	c.Space("rr-header", "owner × class × TTL alphabets on an A record, an unknown-type record and an MX; non-trivial: non-default header", true,
		func(emit func(func(*fw.R))) {
			for _, own := range enum.Names {
				for _, cl := range []uint16{1, 0, 3, 254, 255, 65535} {
					for _, ttl := range []uint32{3600, 0, 1, 1 << 31, 1<<32 - 1} {
						own, cl, ttl := own, cl, ttl
						emit(func(r *fw.R) {
							r.Nontrivial()
							c01RR(r, &wire.RR{Name: own, Type: 1, Class: cl, TTL: ttl, Vals: enum.Default(wire.Specs[1])}, "A", true)
							c01RR(r, &wire.RR{Name: own, Type: 15, Class: cl, TTL: ttl, Vals: enum.Default(wire.Specs[15])}, "MX", true)
							c01RR(r, &wire.RR{Name: own, Type: 65280, Class: cl, TTL: ttl, Raw: []byte{1, 2, 3}}, "TYPE65280", true)
						})
					}
				}
			}
		})

	c.Space("no-rdata", "every registered type with RDLENGTH 0 (RFC 2136 form): reference octets unpack to a record with that header; the library's RDATA-less representations (ANY struct / RR_Header carrying the type) pack to RDLENGTH 0; non-trivial: all", true,
		func(emit func(func(*fw.R))) {
			for _, t := range types {
				t := t
				emit(func(r *fw.R) {
					r.Nontrivial()
					for _, cl := range []uint16{255, 254, 1} {
						ar := &wire.RR{Name: enum.Names[0], Type: t, Class: cl, TTL: 0, NoRdata: true}
						want, _ := wire.EncodeRR(nil, ar)
						rr, off, err := dns.UnpackRR(want, 0)
						if err != nil || off != len(want) {
							r.Fail("no-rdata/unpack", "UnpackRR(%x) (type %d, RDLENGTH 0) = %v, off %d", want, t, err, off)
							continue
						}
						h := rr.Header()
						if h.Rrtype != t || h.Class != cl || h.Ttl != 0 || h.Rdlength != 0 || h.Name != bind.LibName(ar.Name) {
							r.Fail("no-rdata/header", "UnpackRR(%x) header = %+v", want, *h)
						}
						// the typed record Unpack returned for RDLENGTH 0 can be packed again as the last record of a message
						if mb, err := (&dns.Msg{Answer: []dns.RR{rr}}).Pack(); err != nil {
							r.Fail("no-rdata/typed-repack", "Msg.Pack of the %T returned by UnpackRR for RDLENGTH 0 fails: %v", rr, err)
						} else if !bytes.Equal(mb[12:], want) {
							// the converse clause: an RFC 2136 message is canonical and well-formed, Pack(Unpack(o)) must be o
							r.Fail("no-rdata/typed-repack-differs/"+typeName(t), "Pack(Unpack(o)) of an RDATA-less %s record (class %d) = %x\no = %x: the %T returned for RDLENGTH 0 packs its fixed-width fields", typeName(t), cl, mb[12:], want, rr)
						}
						for _, x := range []dns.RR{&dns.ANY{Hdr: dns.RR_Header{Name: h.Name, Rrtype: t, Class: cl}}, &dns.RR_Header{Name: h.Name, Rrtype: t, Class: cl}} {
							n, err := dns.PackRR(x, packBuf, 0, nil, false)
							if err != nil || !bytes.Equal(packBuf[:n], want) {
								r.Fail("no-rdata/pack", "PackRR(%T type %d) = %x, %v; reference %x", x, t, packBuf[:max(n, 0)], err, want)
							}
							// the RFC 3597 form of the RDATA-less record, converted into a fresh receiver and into one that
							// held a record with RDATA before: both pack to the same octets (nothing of the earlier record stays)
							for _, used := range []bool{false, true} {
								g := new(dns.RFC3597)
								if used {
									if err := g.ToRFC3597(&dns.A{Hdr: dns.RR_Header{Name: "earlier.example.", Rrtype: dns.TypeA, Class: 1, Ttl: 9}, A: []byte{192, 0, 2, 1}}); err != nil {
										r.Fail("no-rdata/ToRFC3597", "ToRFC3597 of an A record: %v", err)
										continue
									}
								}
								if err := g.ToRFC3597(x); err != nil {
									r.Fail("no-rdata/ToRFC3597", "ToRFC3597(%T type %d, RDATA-less) into a receiver used before=%v: %v", x, t, used, err)
									continue
								}
								n, err := dns.PackRR(g, packBuf, 0, nil, false)
								if err != nil || !bytes.Equal(packBuf[:n], want) {
									r.Fail("no-rdata/ToRFC3597", "ToRFC3597(%T type %d, RDATA-less) into a receiver used before=%v packs to %x, %v; reference %x", x, t, used, packBuf[:max(n, 0)], err, want)
								}
							}
						}
					}
				})
			}
		})

	c.Space("rfc3597", "all 65536 type codes × RDATA {empty, 1 octet, 3 octets, 256 counting octets}: unregistered codes are carried as RFC 3597 data (pack==layout, unpack==original, repack); registered ones: ToRFC3597 of the default record packs to the same octets; non-trivial: unregistered code", true,
		func(emit func(func(*fw.R))) {
			blobs := [][]byte{{}, {0}, {1, 2, 3}, nil}
			blobs[3] = make([]byte, 256)
			for i := range blobs[3] {
				blobs[3][i] = byte(i)
			}
			for t := 0; t < 65536; t++ {
				t := uint16(t)
				emit(func(r *fw.R) {
					if _, reg := dns.TypeToRR[t]; !reg {
						r.Nontrivial()
						for _, b := range blobs {
							ar := &wire.RR{Name: enum.Names[0], Type: t, Class: 1, TTL: 5, Raw: b, NoRdata: len(b) == 0}
							c01RR(r, ar, "TYPEnnn", true)
						}
						return
					}
					s := wire.Specs[t]
					if s == nil || t == 41 {
						return
					}
					ar := &wire.RR{Name: enum.Names[0], Type: t, Class: 1, TTL: 5, Vals: enum.Default(s)}
					rr, err := bind.ToGo(ar)
					if err != nil {
						return
					}
					want, _ := wire.EncodeRR(nil, ar)
					g := new(dns.RFC3597)
					if err := g.ToRFC3597(rr); err != nil {
						r.Fail("ToRFC3597/"+s.Mnem, "ToRFC3597(%s): %v", rrDesc(ar), err)
						return
					}
					n, err := dns.PackRR(g, packBuf, 0, nil, false)
					if err != nil || !bytes.Equal(packBuf[:n], want) {
						r.Fail("ToRFC3597/"+s.Mnem, "ToRFC3597(%s) packs to %x, %v; reference %x", rrDesc(ar), packBuf[:max(n, 0)], err, want)
					}
					if rd, _ := hex.DecodeString(g.Rdata); !bytes.Equal(rd, ar.Rdata()) {
						r.Fail("ToRFC3597/"+s.Mnem, "ToRFC3597(%s).Rdata = %s; reference rdata %x", rrDesc(ar), g.Rdata, ar.Rdata())
					}
				})
			}
		})

	c.Space("flags", "all 2^16 header flag/opcode/rcode words × ID ∈ {0, 0x1234, 0xffff} with one question: Pack==layout, Unpack==original; non-trivial: all (distinct words)", true,
		func(emit func(func(*fw.R))) {
			for w := 0; w < 65536; w++ {
				w := uint16(w)
				emit(func(r *fw.R) {
					r.Nontrivial()
					for _, id := range []uint16{0, 0x1234, 0xffff} {
						c01Msg(r, &wire.Msg{ID: id, Flags: w, Q: []wire.Question{{Name: enum.Names[0], Type: 1, Class: 1}}}, "flags")
					}
				})
			}
		})

	c.Space("rcode", "all RCODEs 0..4095 × {OPT present (with and without other flags/version), absent}: low 4 bits in the header, high 8 bits in the OPT TTL top octet, re-joined on unpack; error exactly when rcode>15 without OPT; non-trivial: rcode > 15", true,
		func(emit func(func(*fw.R))) {
			for rc := 0; rc < 4096; rc++ {
				rc := rc
				emit(func(r *fw.R) {
					if rc > 15 {
						r.Nontrivial()
					}
					c01Rcode(r, rc)
				})
			}
		})

	pool := c01Pool()
	c.Space("sections", "section sizes (q,an,ns,ar) ∈ {0,1,2,3}^4 over a 6-record pool rotated by position (+ OPT last when ar>0 in half of the cases): Pack==layout, Unpack==original, Pack(Unpack)==octets; non-trivial: ≥2 non-empty sections", true,
		func(emit func(func(*fw.R))) {
			for q := 0; q < 4; q++ {
				for an := 0; an < 4; an++ {
					for ns := 0; ns < 4; ns++ {
						for ar := 0; ar < 4; ar++ {
							for rot := 0; rot < 3; rot++ {
								q, an, ns, ar, rot := q, an, ns, ar, rot
								emit(func(r *fw.R) {
									ne := 0
									for _, n := range []int{q, an, ns, ar} {
										if n > 0 {
											ne++
										}
									}
									if ne >= 2 {
										r.Nontrivial()
									}
									m := &wire.Msg{ID: uint16(q<<12 | an<<8 | ns<<4 | ar), Flags: 0x8180}
									for i := 0; i < q; i++ {
										m.Q = append(m.Q, wire.Question{Name: enum.Names[(i+rot)%4], Type: uint16(1 + i), Class: 1})
									}
									p := rot
									for s, n := range []int{an, ns, ar} {
										for i := 0; i < n; i++ {
											m.Sec[s] = append(m.Sec[s], pool[p%len(pool)])
											p++
										}
									}
									if ar > 0 && rot == 1 {
										m.Sec[2][ar-1] = wire.RR{Type: 41, Class: 4096, TTL: 0x8000, Vals: enum.Default(wire.Specs[41])}
									}
									c01Msg(r, m, "sections")
									r.Sample(func() any { return fmt.Sprintf("q=%d an=%d ns=%d ar=%d rot=%d", q, an, ns, ar, rot) })
								})
							}
						}
					}
				}
			}
		})

	c.Space("rdata-64k", "RDATA filling RDLENGTH up to 65535 and one octet beyond, for NULL, TXT, unknown type and OPT: ≤65535 packs to the layout and round-trips, 65536 is refused (not wrapped); non-trivial: all", true,
		func(emit func(func(*fw.R))) {
			for _, n := range []int{65534, 65535, 65536, 65537} {
				n := n
				emit(func(r *fw.R) {
					r.Nontrivial()
					blob := make([]byte, n)
					for i := range blob {
						blob[i] = byte(i * 7)
					}
					cases := []*wire.RR{
						{Name: nil, Type: 10, Class: 1, Vals: []wire.Val{{B: blob}}},
						{Name: nil, Type: 65280, Class: 1, Raw: blob},
						{Name: nil, Type: 41, Class: 512, Vals: []wire.Val{{Opts: []wire.Option{{Code: 12, Data: blob[:n-4]}}}}},
					}
					// TXT: n octets as 256-octet chunks (255 data + length)
					var chunks [][]byte
					left := n
					for left > 0 {
						c := 256
						if left < c {
							c = left
						}
						chunks = append(chunks, blob[:c-1])
						left -= c
					}
					cases = append(cases, &wire.RR{Name: nil, Type: 16, Class: 1, Vals: []wire.Val{{L: chunks}}})
					for _, ar := range cases {
						if n <= 65535 {
							c01RR(r, ar, fmt.Sprintf("64k-%d", ar.Type), true)
							continue
						}
						rr, err := bind.ToGo(ar)
						if err != nil {
							r.Fail("bind/64k", "%v", err)
							continue
						}
						buf := make([]byte, 140000)
						off, err := dns.PackRR(rr, buf, 0, nil, false)
						if err == nil {
							r.Fail("rdata-overflow-accepted", "PackRR of type %d with %d octets of RDATA succeeded (off %d, RDLENGTH field %x)", ar.Type, n, off, buf[9:11])
						}
					}
				})
			}
		})

	c.Space("two-of-a-type", "for every registered type (OPT excepted): a message whose answer section holds the default record X, a record Y of the same type with one field moved to another alphabet value (every such Y), and X again — anything a codec shares between records of one type (a template, a scratch value, a cached decoder result) shows when two different records of the type are alive in one message: Pack==layout, Unpack==original, Pack(Unpack)==octets; non-trivial: all", true,
		func(emit func(func(*fw.R))) {
			for _, t := range types {
				s := wire.Specs[t]
				if s == nil || t == 41 {
					continue
				}
				t := t
				def := enum.Default(s)
				enum.Vectors(s, 1, 0, func(vals []wire.Val, devs int) {
					if devs != 1 {
						return
					}
					emit(func(r *fw.R) {
						r.Nontrivial()
						x := wire.RR{Name: enum.Names[0], Type: t, Class: 1, TTL: 300, Vals: def}
						y := wire.RR{Name: enum.Names[1], Type: t, Class: 1, TTL: 301, Vals: vals}
						m := &wire.Msg{ID: 0x0102, Flags: 0x8400, Q: []wire.Question{{Name: enum.Names[0], Type: t, Class: 1}}}
						m.Sec[0] = []wire.RR{x, y, x}
						c01Msg(r, m, "two-of-a-type/"+s.Mnem)
					})
				})
			}
		})

	c.Space("private-pairs", "the registered private type: every ordered pair of the 6 payloads as two records of one message (Pack==layout; Unpack gives each record its own payload; repack), and as two successive UnpackRR / NewRR calls whose first result is looked at after the second call; non-trivial: the payloads differ", true,
		func(emit func(func(*fw.R))) {
			pls := [][]byte{{}, {'a'}, {0}, {0xff, '"'}, bytes.Repeat([]byte{'z'}, 255), []byte("hello world")}
			for i := range pls {
				for j := range pls {
					a, b := pls[i], pls[j]
					emit(func(r *fw.R) {
						if !bytes.Equal(a, b) {
							r.Nontrivial()
						}
						c01PrivatePair(r, a, b)
					})
				}
			}
		})

	c.Space("subnet-prefixes", "OPT with a client-subnet option for every source prefix length 0..32 (IPv4) and 0..128 (IPv6) of the all-ones address and of 192.0.2.0 / 2001:db8:: patterns (address cut to ⌈n/8⌉ octets, bits behind the prefix zero, RFC 7871 §6), scope 0 and scope = source: pack==layout, unpack==original, repack==octets; non-trivial: the prefix length is not a multiple of 8", true,
		func(emit func(func(*fw.R))) {
			pats := map[uint16][][]byte{1: {{255, 255, 255, 255}, {192, 0, 2, 129}}, 2: {bytes.Repeat([]byte{0xff}, 16), {0x20, 0x01, 0x0d, 0xb8, 0xca, 0xfe, 0x81, 0x7f, 1, 2, 3, 4, 5, 6, 7, 0x99}}}
			for fam := uint16(1); fam <= 2; fam++ {
				maxp := 32
				if fam == 2 {
					maxp = 128
				}
				for n := 0; n <= maxp; n++ {
					fam, n := fam, n
					emit(func(r *fw.R) {
						if n%8 != 0 {
							r.Nontrivial()
						}
						for _, pat := range pats[fam] {
							for _, scope := range []int{0, n} {
								addr := append([]byte(nil), pat[:(n+7)/8]...)
								if n%8 != 0 {
									addr[len(addr)-1] &= 0xff << (8 - n%8)
								}
								data := append([]byte{0, byte(fam), byte(n), byte(scope)}, addr...)
								ar := &wire.RR{Name: nil, Type: 41, Class: 1232, TTL: 0, Vals: []wire.Val{{Opts: []wire.Option{{Code: 8, Data: data}}}}}
								c01RR(r, ar, "OPT", true)
							}
						}
					})
				}
			}
		})

	c.Space("opt-edited", "an OPT record unpacked from octets with option list A (its header then holds A's RDLENGTH), whose Option list is then replaced by list B — every ordered pair of the option alphabet: PackRR and Msg.Pack give the reference octets for B, Len(rr) ≥ the packed length; the same with B packed first by PackRR (which stores B's RDLENGTH) and A assigned afterwards; non-trivial: the lists differ in length", true,
		func(emit func(func(*fw.R))) {
			s := wire.Specs[41]
			var lists [][]wire.Option
			for _, v := range enum.Alphabet(s, 0) {
				if optCanonical([]wire.Val{v}) {
					lists = append(lists, v.Opts)
				}
			}
			mkOPT := func(opts []wire.Option) (dns.RR, []byte) {
				ar := &wire.RR{Name: nil, Type: 41, Class: 1232, TTL: 0, Vals: []wire.Val{{Opts: opts}}}
				w, _ := wire.EncodeRR(nil, ar)
				rr, err := bind.ToGo(ar)
				if err != nil {
					return nil, nil
				}
				return rr, w
			}
			for ai := range lists {
				ai := ai
				emit(func(r *fw.R) {
					for bi := range lists {
						_, wa := mkOPT(lists[ai])
						rb, wb := mkOPT(lists[bi])
						if wa == nil || rb == nil {
							continue
						}
						if len(wa) != len(wb) {
							r.Nontrivial()
						}
						for mode := 0; mode < 2; mode++ {
							var used *dns.OPT
							if mode == 0 {
								u, _, err := dns.UnpackRR(wa, 0)
								if err != nil {
									continue
								}
								used = u.(*dns.OPT)
							} else {
								ra, _ := mkOPT(lists[ai])
								dns.PackRR(ra, make([]byte, 70000), 0, nil, false)
								used = ra.(*dns.OPT)
							}
							used.Option = rb.(*dns.OPT).Option
							// measured and packed by Msg.Pack first: PackRR would bring the header's RDLENGTH up to date
							stale := used.Hdr.Rdlength
							l := dns.Len(used)
							m := &dns.Msg{MsgHdr: dns.MsgHdr{Id: 1, Response: true}, Extra: []dns.RR{used}}
							ml := m.Len()
							mb, err := m.Pack()
							if err != nil || !bytes.Equal(mb[12:], wb) {
								r.Fail("opt-edited/msg-pack", "Msg.Pack with an OPT that held options %v (header RDLENGTH %d, mode %d) and was given %v: %v", lists[ai], stale, mode, lists[bi], err)
							} else if ml < len(mb) || l < len(wb) {
								r.Fail("opt-edited/len", "Len(rr) = %d / Msg.Len = %d for %d / %d octets packed: an OPT that held options %v (header RDLENGTH %d) and was given %v", l, ml, len(wb), len(mb), lists[ai], stale, lists[bi])
							}
							buf := make([]byte, 70000)
							n, err := dns.PackRR(used, buf, 0, nil, false)
							if err != nil || !bytes.Equal(buf[:n], wb) {
								r.Fail("opt-edited/pack", "an OPT that held options %v (mode %d) and was given %v packs to %x, %v; reference %x", lists[ai], mode, lists[bi], buf[:max(n, 0)], err, wb)
							}
						}
					}
				})
			}
		})

	c.Space("optional-fields", "RDATA layouts with an optional trailing field that the reference table writes in full: ISDN without its sub-address (RFC 1183 §3.2: <ISDN-address> alone is well-formed) — unpacks to the address, and packing the result reproduces the octets; non-trivial: all", true,
		func(emit func(func(*fw.R))) {
			emit(func(r *fw.R) {
				r.Nontrivial()
				w := []byte{1, 'a', 0, 0, 20, 0, 1, 0, 0, 0, 5, 0, 4, 3, '1', '2', '3'}
				rr, off, err := dns.UnpackRR(w, 0)
				if err != nil || off != len(w) {
					r.Fail("unpack-error/ISDN/absent-sub-address", "UnpackRR(%x) = %v, off %d", w, err, off)
					return
				}
				if i, ok := rr.(*dns.ISDN); !ok || i.Address != "123" || i.SubAddress != "" {
					r.Fail("unpack-differs/ISDN/absent-sub-address", "UnpackRR(%x) = %v", w, rr)
				}
				b := make([]byte, 64)
				n, err := dns.PackRR(rr, b, 0, nil, false)
				if err != nil || !bytes.Equal(b[:n], w) {
					r.Fail("repack-differs/ISDN/absent-sub-address", "Pack(Unpack(o)) = %x, %v; o = %x (ISDN with the sub-address absent)", b[:max(n, 0)], err, w)
				}
			})
		})

	ncList := c16NonCanonical()
	c.Space("go-forms", fmt.Sprintf("%d records in forms only the Go structs can hold (parameter / option lists in every order, 16-octet IPv4 forms, unmasked prefixes, mixed case, names the packer completes): whatever PackRR emits for them is accepted by UnpackRR and re-packs to the same octets (the library does not emit what it rejects), SVCB / HTTPS parameters leave in strictly increasing key order (RFC 9460 §2.2) and every ordering of the same parameters packs to the same octets; non-trivial: PackRR succeeds", len(ncList)), true,
		func(emit func(func(*fw.R))) {
			first := map[string][]byte{}
			for _, nc := range ncList {
				nc := nc
				tn := strings.Fields(nc.what)[0]
				var ref []byte
				if strings.HasPrefix(nc.what, "SVCB params") || strings.HasPrefix(nc.what, "HTTPS params") {
					if first[tn] == nil {
						b := make([]byte, 2048)
						if n, err := dns.PackRR(c16FirstOfType(ncList, tn), b, 0, nil, false); err == nil {
							first[tn] = b[:n]
						}
					}
					ref = first[tn]
				}
				emit(func(r *fw.R) {
					rr := nc.mk()
					buf := make([]byte, 4096)
					n, err := dns.PackRR(rr, buf, 0, nil, false)
					if err != nil {
						r.Count("PackRR refuses the form", 1)
						return
					}
					r.Nontrivial()
					w := buf[:n]
					rr2, off, uerr := dns.UnpackRR(w, 0)
					if uerr != nil || off != n {
						r.Fail("go-forms/emits-what-it-rejects/"+tn, "PackRR of {%s} gives %x, which UnpackRR refuses: %v (off %d of %d)", nc.what, w, uerr, off, n)
						return
					}
					b2 := make([]byte, 4096)
					if n2, err := dns.PackRR(rr2, b2, 0, nil, false); err != nil || !bytes.Equal(b2[:n2], w) {
						r.Fail("go-forms/repack/"+tn, "Pack(Unpack(Pack({%s}))) = %x, %v; first packing %x", nc.what, b2[:max(n2, 0)], err, w)
					}
					if ref != nil && !bytes.Equal(ref, w) {
						r.Fail("go-forms/order-dependent/"+tn, "{%s} packs to %x, the same parameters in another order to %x", nc.what, w, ref)
					}
					if tn == "SVCB" || tn == "HTTPS" {
						// owner (wire) + 10 header octets, then priority, target, parameters
						p := 0
						for w[p] != 0 {
							p += int(w[p]) + 1
						}
						p += 1 + 10 + 2
						for w[p] != 0 {
							p += int(w[p]) + 1
						}
						p++
						last := -1
						for p+4 <= n {
							k := int(w[p])<<8 | int(w[p+1])
							l := int(w[p+2])<<8 | int(w[p+3])
							if k <= last {
								r.Fail("go-forms/svcb-key-order/"+tn, "{%s} packs to %x: SvcParamKey %d follows %d", nc.what, w, k, last)
								break
							}
							last = k
							p += 4 + l
						}
					}
				})
			}
		})

	c.Space("private", "a private type registered through PrivateHandle (rdata = 1 length-prefixed string): pack==layout, unpack==original for 6 payloads; non-trivial: all", true,
		func(emit func(func(*fw.R))) {
			for i, pl := range [][]byte{{}, {'a'}, {0}, {0xff, '"'}, bytes.Repeat([]byte{'z'}, 255), []byte("hello world")} {
				i, pl := i, pl
				emit(func(r *fw.R) {
					r.Nontrivial()
					c01Private(r, i, pl)
				})
			}
		})
}

func c01Pool() []wire.RR {
	mk := func(t uint16, owner [][]byte) wire.RR {
		return wire.RR{Name: owner, Type: t, Class: 1, TTL: 300, Vals: enum.Default(wire.Specs[t])}
	}
	return []wire.RR{mk(1, enum.Names[0]), mk(15, enum.Names[2]), mk(16, enum.Names[3]), mk(6, enum.Names[0]), mk(33, enum.Names[4]), {Name: enum.Names[2], Type: 65280, Class: 1, TTL: 1, Raw: []byte{9, 8, 7}}}
}

// c01Msg: Pack == reference layout (no compression), Unpack(reference) == original, Pack(Unpack) == octets.
func c01Msg(r *fw.R, m *wire.Msg, tag string) {
	want, err := wire.EncodeMsg(m)
	if err != nil {
		return
	}
	g, err := bind.ToGoMsg(m)
	if err != nil {
		r.Fail("bind/msg", "%v", err)
		return
	}
	got, err := g.Pack()
	if err != nil {
		r.Fail("msg-pack-error/"+tag, "Pack: %v for message id %#x flags %#04x sections %d/%d/%d/%d", err, m.ID, m.Flags, len(m.Q), len(m.Sec[0]), len(m.Sec[1]), len(m.Sec[2]))
		return
	}
	if !bytes.Equal(got, want) {
		r.Fail("msg-pack-layout/"+tag, "Pack = %x\nreference = %x", got, want)
	}
	if l := g.Len(); l < len(got) {
		r.Fail("msg-len-underestimates/"+tag, "Len %d < packed %d", l, len(got))
	}
	u := new(dns.Msg)
	if err := u.Unpack(want); err != nil {
		r.Fail("msg-unpack-error/"+tag, "Unpack(%x): %v", want, err)
		return
	}
	back, err := bind.FromGoMsg(u)
	if err != nil {
		r.Fail("msg-unpack-malformed/"+tag, "Unpack(%x): %v", want, err)
		return
	}
	if d := bind.EqualMsg(m, back); d != "" {
		r.Fail("msg-unpack-differs/"+tag, "Unpack(%x): %s", want, d)
	}
	again, err := u.Pack()
	if err != nil || !bytes.Equal(again, want) {
		r.Fail("msg-repack-differs/"+tag, "Pack(Unpack(o)) = %x, %v\no = %x", again, err, want)
	}
}

func c01Rcode(r *fw.R, rc int) {
	q := []wire.Question{{Name: enum.Names[0], Type: 1, Class: 1}}
	// without OPT
	g := &dns.Msg{MsgHdr: bind.HdrToGo(7, 0x8000), Question: []dns.Question{{Name: bind.LibName(enum.Names[0]), Qtype: 1, Qclass: 1}}}
	g.Rcode = rc
	b, err := g.Pack()
	if rc > 15 {
		if err == nil {
			r.Fail("rcode/ext-without-opt", "Pack with Rcode %d and no OPT succeeded: %x", rc, b)
		}
	} else {
		want, _ := wire.EncodeMsg(&wire.Msg{ID: 7, Flags: 0x8000 | uint16(rc), Q: q})
		if err != nil || !bytes.Equal(b, want) {
			r.Fail("rcode/plain", "Pack with Rcode %d = %x, %v; reference %x", rc, b, err, want)
		}
	}
	// with OPT: TTL = ext-rcode(8) | version(8) | DO(1) Z(15)
	for _, base := range []uint32{0, 0x00008000, 0x00ff7fff, 0xab000000} { // the last one: stale ext-rcode bits already in the TTL
		opt := &dns.OPT{Hdr: dns.RR_Header{Name: ".", Rrtype: dns.TypeOPT, Class: 1232, Ttl: base}}
		g := &dns.Msg{MsgHdr: bind.HdrToGo(7, 0x8000), Question: []dns.Question{{Name: bind.LibName(enum.Names[0]), Qtype: 1, Qclass: 1}}, Extra: []dns.RR{opt}}
		g.Rcode = rc
		b, err := g.Pack()
		wantTTL := uint32(rc>>4)<<24 | base&0x00ffffff
		want, _ := wire.EncodeMsg(&wire.Msg{ID: 7, Flags: 0x8000 | uint16(rc&0xf), Q: q, Sec: [3][]wire.RR{nil, nil, {{Type: 41, Class: 1232, TTL: wantTTL, Vals: []wire.Val{{}}}}}})
		if err != nil || !bytes.Equal(b, want) {
			r.Fail("rcode/split", "Pack with Rcode %d, OPT TTL %#x = %x, %v\nreference (header nibble %d, OPT TTL %#x) = %x", rc, base, b, err, rc&0xf, wantTTL, want)
			continue
		}
		u := new(dns.Msg)
		if err := u.Unpack(want); err != nil {
			r.Fail("rcode/unpack", "Unpack(%x): %v", want, err)
			continue
		}
		if u.Rcode != rc {
			r.Fail("rcode/rejoin", "Unpack(%x).Rcode = %d, want %d", want, u.Rcode, rc)
		}
		if o := u.IsEdns0(); o == nil || o.Hdr.Ttl != wantTTL || o.ExtendedRcode() != rc&^0xf && o.ExtendedRcode() != rc {
			r.Fail("rcode/opt", "after Unpack(%x): OPT = %v", want, o)
		}
	}
}

// private type: rdata is one character-string
type c01PrivRdata struct{ s []byte }

func (p *c01PrivRdata) String() string { return fmt.Sprintf("%q", p.s) }
func (p *c01PrivRdata) Parse(t []string) error {
	p.s = nil
	for _, x := range t {
		p.s = append(p.s, x...)
	}
	return nil
}
func (p *c01PrivRdata) Pack(b []byte) (int, error) {
	if len(b) < 1+len(p.s) {
		return 0, dns.ErrBuf
	}
	b[0] = byte(len(p.s))
	copy(b[1:], p.s)
	return 1 + len(p.s), nil
}
func (p *c01PrivRdata) Unpack(b []byte) (int, error) {
	if len(b) < 1 || len(b) < 1+int(b[0]) {
		return 0, dns.ErrBuf
	}
	p.s = append([]byte(nil), b[1:1+int(b[0])]...)
	return 1 + int(b[0]), nil
}
func (p *c01PrivRdata) Copy(d dns.PrivateRdata) error {
	d.(*c01PrivRdata).s = append([]byte(nil), p.s...)
	return nil
}
func (p *c01PrivRdata) Len() int { return 1 + len(p.s) }

const c01PrivType = 65281

func c01PrivatePair(r *fw.R, a, b []byte) {
	dns.PrivateHandle("VPRIV", c01PrivType, func() dns.PrivateRdata { return new(c01PrivRdata) })
	defer dns.PrivateHandleRemove(c01PrivType)
	mk := func(owner [][]byte, pl []byte) wire.RR {
		return wire.RR{Name: owner, Type: c01PrivType, Class: 1, TTL: 60, Raw: append([]byte{byte(len(pl))}, pl...)}
	}
	ra, rb := mk(enum.Names[0], a), mk(enum.Names[1], b)
	m := &wire.Msg{ID: 9, Flags: 0x8000}
	m.Sec[0] = []wire.RR{ra, rb}
	want, err := wire.EncodeMsg(m)
	if err != nil {
		panic(err)
	}
	lib := func(x wire.RR, pl []byte) dns.RR {
		return &dns.PrivateRR{Hdr: dns.RR_Header{Name: bind.LibName(x.Name), Rrtype: c01PrivType, Class: 1, Ttl: 60}, Data: &c01PrivRdata{pl}}
	}
	g := &dns.Msg{MsgHdr: bind.HdrToGo(9, 0x8000), Answer: []dns.RR{lib(ra, a), lib(rb, b)}}
	got, err := g.Pack()
	if err != nil || !bytes.Equal(got, want) {
		r.Fail("private/msg-pack", "Pack of two private records = %x, %v; reference %x", got, err, want)
	}
	u := new(dns.Msg)
	if err := u.Unpack(want); err != nil || len(u.Answer) != 2 {
		r.Fail("private/msg-unpack", "Unpack(%x): %v, %d answers", want, err, len(u.Answer))
		return
	}
	for i, pl := range [][]byte{a, b} {
		p, ok := u.Answer[i].(*dns.PrivateRR)
		if !ok || !bytes.Equal(p.Data.(*c01PrivRdata).s, pl) {
			r.Fail("private/msg-unpack", "Unpack(%x): answer %d is %v, want payload %q (the other record's is %q)", want, i, u.Answer[i], pl, [][]byte{b, a}[i])
		}
	}
	if again, err := u.Pack(); err != nil || !bytes.Equal(again, want) {
		r.Fail("private/msg-repack", "Pack(Unpack(o)) = %x, %v; o = %x", again, err, want)
	}
	// two successive calls, the first result inspected after the second call
	wa, _ := wire.EncodeRR(nil, &ra)
	wb, _ := wire.EncodeRR(nil, &rb)
	first, _, err1 := dns.UnpackRR(wa, 0)
	_, _, err2 := dns.UnpackRR(wb, 0)
	if err1 != nil || err2 != nil {
		r.Fail("private/unpack", "UnpackRR: %v / %v", err1, err2)
	} else if p, ok := first.(*dns.PrivateRR); !ok || !bytes.Equal(p.Data.(*c01PrivRdata).s, a) {
		r.Fail("private/unpack-shares-state", "a private record unpacked with payload %q reads %v after another record of the type (payload %q) was unpacked", a, first, b)
	}
	ta := fmt.Sprintf("a.example. 60 IN VPRIV %s", "pa")
	tb := fmt.Sprintf("b.example. 60 IN VPRIV %s", "pb")
	n1, e1 := dns.NewRR(ta)
	_, e2 := dns.NewRR(tb)
	if e1 != nil || e2 != nil {
		r.Fail("private/parse", "NewRR: %v / %v", e1, e2)
	} else if p, ok := n1.(*dns.PrivateRR); !ok || string(p.Data.(*c01PrivRdata).s) != "pa" {
		r.Fail("private/parse-shares-state", "a private record parsed from %q reads %v after %q was parsed", ta, n1, tb)
	}
}

func c01Private(r *fw.R, i int, payload []byte) {
	dns.PrivateHandle("VPRIV", c01PrivType, func() dns.PrivateRdata { return new(c01PrivRdata) })
	defer dns.PrivateHandleRemove(c01PrivType)
	ar := &wire.RR{Name: enum.Names[0], Type: c01PrivType, Class: 1, TTL: 60, Raw: append([]byte{byte(len(payload))}, payload...)}
	want, _ := wire.EncodeRR(nil, ar)
	rr := &dns.PrivateRR{Hdr: dns.RR_Header{Name: bind.LibName(ar.Name), Rrtype: c01PrivType, Class: 1, Ttl: 60}, Data: &c01PrivRdata{payload}}
	n, err := dns.PackRR(rr, packBuf, 0, nil, false)
	if err != nil || !bytes.Equal(packBuf[:n], want) {
		r.Fail("private/pack", "PackRR(private) = %x, %v; reference %x", packBuf[:max(n, 0)], err, want)
	}
	if l := dns.Len(rr); l < n {
		r.Fail("private/len", "Len %d < packed %d", l, n)
	}
	rr2, off, err := dns.UnpackRR(want, 0)
	if err != nil || off != len(want) {
		r.Fail("private/unpack", "UnpackRR(%x): %v off %d", want, err, off)
		return
	}
	p2, ok := rr2.(*dns.PrivateRR)
	if !ok || !bytes.Equal(p2.Data.(*c01PrivRdata).s, payload) || p2.Hdr.Name != rr.Hdr.Name || p2.Hdr.Ttl != 60 || p2.Hdr.Class != 1 || p2.Hdr.Rrtype != c01PrivType {
		r.Fail("private/unpack", "UnpackRR(%x) = %T %v", want, rr2, rr2)
		return
	}
	n, err = dns.PackRR(rr2, packBuf, 0, nil, false)
	if err != nil || !bytes.Equal(packBuf[:n], want) {
		r.Fail("private/repack", "repack = %x, %v; want %x", packBuf[:max(n, 0)], err, want)
	}
}

func c16FirstOfType(list []c16NC, tn string) dns.RR {
	for _, nc := range list {
		if strings.Fields(nc.what)[0] == tn {
			return nc.mk()
		}
	}
	return nil
}

func typeName(t uint16) string {
	if s := wire.Specs[t]; s != nil {
		return s.Mnem
	}
	return fmt.Sprintf("TYPE%d", t)
}
