package main

import (
	"fmt"
	"io/fs"
	"os"
	"path/filepath"
	"sort"
	"strings"
	"testing/fstest"

	"github.com/miekg/dns"
	"verif/harness/fw"
	rn "verif/harness/ref/name"
	"verif/harness/ref/zone"
)

// C06 — zone files denote what RFC 1035 §5 says (DESIGN §5 C06).
//
// c06.go: running the real ZoneParser, reading typed records abstractly, the oracle.
// c06_spaces.go: the enumerated spaces.

func init() {
	fw.Register(&fw.Check{Prop: "C06", Level: "exploration",
		Assume: []string{
			"reference model ref/zone (RFC 1035 §5.1, RFC 2308 §4, BIND ARM $GENERATE, as restated in the C06 statement) is the oracle; it shares no code with scan.go/generate.go",
			"records are compared abstractly from the typed fields (*dns.A.A, *dns.MX.Preference/Mx, *dns.TXT.Txt, *dns.SOA.*, *dns.NS.Ns, *dns.CNAME.Target), names as wire labels via ref/name, TXT strings after un-escaping \\DDD and \\X with the harness's own reader",
			"not demanded (DESIGN C06): the TTL a $GENERATE body inherits when no TTL is in force at all (no $TTL, none stated, none configured); owner/TTL carry-over across the end of an $INCLUDE or $GENERATE; the owner an omitted owner repeats when no owner was stated before in the same file; $INCLUDE nesting deeper than the documented 7; negative ${offset} values; in these places the model marks the field or the rest of the program unspecified and only agreement between renderings is checked",
			"every non-plain rendering is compared with the plain rendering of the same program (which is compared with the model), so a semantic finding is reported once under its own key and not once per rendering",
			"relative $INCLUDE paths: all files live in the directory of the including file, so that no resolution rule is assumed",
		},
		Spaces: c06Spaces})
}

// ---------------------------------------------------------------------------------------------
// running the parser

type c06Cfg struct {
	origin string
	defTTL *uint32
	inc    int // 0: includes off; 1: allowed, fstest.MapFS; 2: allowed, files on disk (os.Open path)
}

func (c c06Cfg) String() string {
	d := "unset"
	if c.defTTL != nil {
		d = fmt.Sprint(*c.defTTL)
	}
	return fmt.Sprintf("origin=%q defaultTTL=%s includes=%s", c.origin, d, [...]string{"off", "MapFS", "disk"}[c.inc])
}

type c06Obs struct {
	recs  []zone.Rec
	prob  []string // per record: "" or why the record could not be read abstractly
	oprob []string // per record: "" or why the owner is not an absolute name
	err   error
}

// c06Unescape reads a presentation string with \DDD and \X escapes into octets.
func c06Unescape(s string) ([]byte, bool) {
	var o []byte
	for i := 0; i < len(s); i++ {
		if s[i] != '\\' {
			o = append(o, s[i])
			continue
		}
		if i+1 >= len(s) {
			return o, false
		}
		d := func(k int) bool { return i+k < len(s) && s[i+k] >= '0' && s[i+k] <= '9' }
		if d(1) && d(2) && d(3) {
			v := int(s[i+1]-'0')*100 + int(s[i+2]-'0')*10 + int(s[i+3]-'0')
			if v > 255 {
				return o, false
			}
			o = append(o, byte(v))
			i += 3
		} else {
			o = append(o, s[i+1])
			i++
		}
	}
	return o, true
}

func c06FromRR(rr dns.RR) (rec zone.Rec, prob, oprob string) {
	h := rr.Header()
	rec = zone.Rec{TTL: h.Ttl, Class: h.Class, Type: h.Rrtype}
	name := func(s string) [][]byte {
		p := rn.Parse(s)
		if !p.OK || !p.FQDN || p.BigDDD {
			prob += fmt.Sprintf("name %q is not an absolute name; ", s)
			return nil
		}
		return p.Labels
	}
	rec.Owner = name(h.Name)
	oprob, prob = prob, ""
	switch v := rr.(type) {
	case *dns.A:
		ip := v.A.To4()
		if ip == nil {
			prob += fmt.Sprintf("A.A = %v; ", v.A)
		} else {
			copy(rec.Data.IP[:], ip)
		}
	case *dns.NS:
		rec.Data.Names = [][][]byte{name(v.Ns)}
	case *dns.CNAME:
		rec.Data.Names = [][][]byte{name(v.Target)}
	case *dns.MX:
		rec.Data.Ints = []uint32{uint32(v.Preference)}
		rec.Data.Names = [][][]byte{name(v.Mx)}
	case *dns.SOA:
		rec.Data.Names = [][][]byte{name(v.Ns), name(v.Mbox)}
		rec.Data.Ints = []uint32{v.Serial, v.Refresh, v.Retry, v.Expire, v.Minttl}
	case *dns.TXT:
		for _, s := range v.Txt {
			b, ok := c06Unescape(s)
			if !ok {
				prob += fmt.Sprintf("TXT string %q has a bad escape; ", s)
			}
			rec.Data.Strs = append(rec.Data.Strs, b)
		}
	default:
		prob += fmt.Sprintf("unexpected Go type %T; ", rr)
	}
	return rec, prob, oprob
}

// c06Env holds what a worker process needs for $INCLUDE: rendered include files as MapFS and on disk.
type c06Env struct {
	dir string // on-disk directory ("" until needed)
}

var c06env c06Env

func (e *c06Env) diskDir() string {
	if e.dir == "" {
		d, err := os.MkdirTemp("", "vcheck-c06-")
		if err != nil {
			panic(err)
		}
		e.dir = d
	}
	return e.dir
}

func (e *c06Env) cleanup() {
	if e.dir != "" {
		os.RemoveAll(e.dir)
		e.dir = ""
	}
}

// c06Files renders the include files of p (plain) for FS kind inc. MapFS: returned as fs; disk: written
// below dir/sub (sub distinguishes file sets; written once per set and process).
type c06FileSet struct {
	name  string
	files map[string][]zone.Line
	mapfs fstest.MapFS
	disk  string // directory on disk, "" until written
}

func newFileSet(name string, files map[string][]zone.Line) *c06FileSet {
	return &c06FileSet{name: name, files: files}
}

func (fsx *c06FileSet) ids() []string {
	var ids []string
	for k := range fsx.files {
		ids = append(ids, k)
	}
	sort.Strings(ids)
	return ids
}

func (fsx *c06FileSet) mapFS() fstest.MapFS {
	if fsx.mapfs == nil {
		fsx.mapfs = fstest.MapFS{}
		for _, id := range fsx.ids() {
			t, ok := zone.Render(fsx.files[id], zone.Style{Dir: ""})
			if !ok {
				panic("include file does not render")
			}
			fsx.mapfs[id] = &fstest.MapFile{Data: []byte(t)}
		}
	}
	return fsx.mapfs
}

func (fsx *c06FileSet) diskDir() string {
	if fsx.disk == "" {
		d := filepath.Join(c06env.diskDir(), fsx.name)
		if err := os.MkdirAll(d, 0o755); err != nil {
			panic(err)
		}
		for _, id := range fsx.ids() {
			t, ok := zone.Render(fsx.files[id], zone.Style{Dir: d})
			if !ok {
				panic("include file does not render")
			}
			if err := os.WriteFile(filepath.Join(d, id), []byte(t), 0o644); err != nil {
				panic(err)
			}
		}
		fsx.disk = d
	}
	return fsx.disk
}

// dirFor is the directory absolute include paths are rooted in for FS kind inc.
func (fsx *c06FileSet) dirFor(inc int) string {
	if inc == 2 && fsx != nil {
		return fsx.diskDir()
	}
	return ""
}

func c06Parse(text string, cfg c06Cfg, fsx *c06FileSet) c06Obs {
	file := "main.zone"
	var fsys fs.FS
	if fsx != nil {
		switch cfg.inc {
		case 1:
			fsys = fsx.mapFS()
		case 2:
			file = filepath.Join(fsx.diskDir(), "main.zone")
		}
	}
	zp := dns.NewZoneParser(strings.NewReader(text), cfg.origin, file)
	if cfg.defTTL != nil {
		zp.SetDefaultTTL(*cfg.defTTL)
	}
	if cfg.inc != 0 {
		zp.SetIncludeAllowed(true)
		if fsys != nil {
			zp.SetIncludeFS(fsys)
		}
	}
	var o c06Obs
	for rr, ok := zp.Next(); ok; rr, ok = zp.Next() {
		rec, prob, oprob := c06FromRR(rr)
		o.recs = append(o.recs, rec)
		o.prob = append(o.prob, prob)
		o.oprob = append(o.oprob, oprob)
	}
	o.err = zp.Err()
	if rr, ok := zp.Next(); ok || rr != nil {
		o.prob = append(o.prob, "Next returned a record after it had returned (nil,false)")
		o.oprob = append(o.oprob, "")
		o.recs = append(o.recs, zone.Rec{})
	}
	return o
}

// ---------------------------------------------------------------------------------------------
// oracle

func c06Shape(l *zone.Line) string {
	if l == nil {
		return "?"
	}
	if l.Kind != zone.Record {
		return [...]string{"record", "origin", "ttl", "generate", "include"}[l.Kind]
	}
	s := "noowner"
	if l.HasOwner {
		s = "owner"
	}
	a, b := "", ""
	if l.TTL != "" {
		a = "-ttl"
	}
	if l.Class != "" {
		b = "-class"
	}
	if l.ClassFirst && a != "" && b != "" {
		a, b = b, a
	}
	return s + a + b + "-type"
}

func c06Dump(o c06Obs) string {
	var sb strings.Builder
	for i, r := range o.recs {
		fmt.Fprintf(&sb, "\n      [%d] %s", i, r)
		if o.prob[i] != "" || o.oprob[i] != "" {
			sb.WriteString(" PROBLEM: " + o.oprob[i] + o.prob[i])
		}
	}
	fmt.Fprintf(&sb, "\n      Err() = %v", o.err)
	return sb.String()
}

func c06DumpModel(m zone.Result) string {
	var sb strings.Builder
	for i, r := range m.Recs {
		fmt.Fprintf(&sb, "\n      [%d] %s", i, r)
	}
	switch {
	case m.Err != "":
		fmt.Fprintf(&sb, "\n      then INVALID (%s): %s", m.ErrKind, m.Err)
	case m.Unspec != "":
		fmt.Fprintf(&sb, "\n      then unspecified: %s", m.Unspec)
	default:
		sb.WriteString("\n      end")
	}
	return sb.String()
}

// c06AgainstModel compares what the parser returned with the denotation. ctx renders the input.
// tag, when not empty, replaces the violation key (used where one known cause shows up as several kinds
// of difference).
func c06AgainstModel(r *fw.R, m zone.Result, o c06Obs, tag string, ctx func() string) bool {
	fail := func(key, what string) bool {
		if tag != "" {
			key = tag
		}
		if c06Failed[key]++; c06Failed[key] > 40 {
			r.Fail(key, "%s (details suppressed after 40 failures of this kind in this worker)", what)
			return false
		}
		r.Fail(key, "%s\n   %s\n   model:%s\n   parser:%s", what, ctx(), c06DumpModel(m), c06Dump(o))
		return false
	}
	n := len(o.recs)
	if len(m.Recs) < n {
		n = len(m.Recs)
	}
	for i, p := range o.prob {
		if p != "" && i < n {
			return fail("record/unreadable", fmt.Sprintf("record %d: %s", i, p))
		}
	}
	for i := 0; i < n; i++ {
		a, b := m.Recs[i], o.recs[i]
		switch {
		case !a.OwnerUnspec && o.oprob[i] != "":
			return fail("record/unreadable", fmt.Sprintf("record %d: %s", i, o.oprob[i]))
		case !a.OwnerUnspec && !rn.Equal(a.Owner, b.Owner):
			return fail("record/owner", fmt.Sprintf("record %d: owner differs", i))
		case !a.TTLUnspec && a.TTL != b.TTL:
			return fail("record/ttl", fmt.Sprintf("record %d: TTL differs", i))
		case a.Class != b.Class:
			return fail("record/class", fmt.Sprintf("record %d: class differs", i))
		case a.Type != b.Type:
			return fail("record/type", fmt.Sprintf("record %d: type differs", i))
		case !a.Data.Equal(b.Data):
			return fail("record/rdata", fmt.Sprintf("record %d: RDATA differs", i))
		}
	}
	switch {
	case len(o.recs) < len(m.Recs):
		if o.err != nil {
			return fail("valid-rejected", fmt.Sprintf("parser stopped with an error before denoted record %d", len(o.recs)))
		}
		return fail("record/missing", fmt.Sprintf("parser ended without error before denoted record %d", len(o.recs)))
	case m.Unspec != "":
		return true
	case m.Err != "":
		key := "invalid-accepted/" + m.ErrKind
		if m.ErrKind == "missing-ttl" {
			// the parser has an explicit test for this in one line shape; keep the others apart
			if sh := c06Shape(m.ErrLine); sh == "owner-type" {
				key += "/owner-type"
			} else {
				key += "/other-shapes"
			}
		}
		if len(o.recs) > len(m.Recs) {
			return fail(key, "the program is invalid after the denoted records, but the parser returned a further record")
		}
		if o.err == nil {
			return fail(key, "the program is invalid after the denoted records, but the parser reported no error")
		}
	default:
		if len(o.recs) > len(m.Recs) {
			return fail("record/extra", "parser returned more records than denoted")
		}
		if o.err != nil {
			return fail("valid-rejected", "parser reported an error for a valid program")
		}
	}
	return true
}

var c06Failed = map[string]int{}

// c06Same: two renderings of one program must give the same records and agree on error / no error.
func c06Same(a, b c06Obs) bool {
	if len(a.recs) != len(b.recs) || (a.err == nil) != (b.err == nil) {
		return false
	}
	for i := range a.recs {
		x, y := a.recs[i], b.recs[i]
		if !rn.Equal(x.Owner, y.Owner) || x.TTL != y.TTL || x.Class != y.Class || x.Type != y.Type || !x.Data.Equal(y.Data) {
			return false
		}
		if (a.prob[i] == "") != (b.prob[i] == "") || (a.oprob[i] == "") != (b.oprob[i] == "") {
			return false
		}
	}
	return true
}

func c06DevName(d zone.Dev) string {
	switch d.Kind {
	case zone.LowerDirective:
		return "lower-directive"
	case zone.LowerClass:
		return "lower-class"
	case zone.LowerType:
		return "lower-type"
	case zone.BlankBefore:
		return "blank-line"
	case zone.BlankAfter:
		return "blank-line"
	case zone.Comment:
		return fmt.Sprintf("comment%d", d.Arg)
	case zone.Paren:
		return "paren-" + [...]string{"indent", "comment", "col0", "each-indent", "each-col0", "close-own-line", "each-comment", "each-glued-comment"}[d.Arg%zone.NParenVariants]
	case zone.Blanks:
		return "blanks"
	case zone.Unquote:
		return "unquote"
	case zone.SwapTTLClass:
		return "swap-ttl-class"
	case zone.HeaderParen:
		return "header-paren-" + [...]string{"one-line", "each-indent", "each-comment", "each-glued-comment"}[d.Arg]
	}
	return "?"
}

// c06Renderings runs the plain rendering against the model and every rendering in devsets against the
// plain one. It returns the number of texts parsed.
func c06Renderings(r *fw.R, p *zone.Program, cfg c06Cfg, fsx *c06FileSet, mcfg zone.Config, devsets func(yield func([]zone.Dev))) int {
	return c06RenderingsTag(r, p, cfg, fsx, mcfg, devsets, "")
}

func c06RenderingsTag(r *fw.R, p *zone.Program, cfg c06Cfg, fsx *c06FileSet, mcfg zone.Config, devsets func(yield func([]zone.Dev)), tag string) int {
	dir := fsx.dirFor(cfg.inc)
	plain, _ := zone.Render(p.Main, zone.Style{Dir: dir})
	m := zone.Interpret(p, mcfg)
	po := c06Parse(plain, cfg, fsx)
	n := 1
	c06AgainstModel(r, m, po, tag, func() string { return fmt.Sprintf("config: %s\n   text: %q", cfg, plain) })
	if devsets == nil {
		return n
	}
	devsets(func(ds []zone.Dev) {
		text, ok := zone.Render(p.Main, zone.Style{Dir: dir, Devs: ds})
		if !ok {
			return
		}
		n++
		o := c06Parse(text, cfg, fsx)
		if c06Same(po, o) {
			return
		}
		// attribute to a single deviation when one alone already changes the result
		key, culprit := "", ds
		for _, d := range ds {
			t1, ok := zone.Render(p.Main, zone.Style{Dir: dir, Devs: []zone.Dev{d}})
			if ok && !c06Same(po, c06Parse(t1, cfg, fsx)) {
				key, culprit, text, o = c06DevName(d), []zone.Dev{d}, t1, c06Parse(t1, cfg, fsx)
				break
			}
		}
		if key == "" {
			var names []string
			for _, d := range ds {
				names = append(names, c06DevName(d))
			}
			sort.Strings(names)
			key = strings.Join(names, "+")
		}
		r.Fail("rendering/"+key, "two renderings of one program differ\n   config: %s\n   deviations: %v\n   plain text: %q\n   parser on plain:%s\n   text: %q\n   parser:%s\n   model:%s",
			cfg, culprit, plain, c06Dump(po), text, c06Dump(o), c06DumpModel(m))
	})
	return n
}
