package main

import (
	"bytes"
	"fmt"
	"strings"

	"github.com/miekg/dns"
	"verif/harness/fw"
)

// Completion at the 255-octet limit: "relative names are completed with the current origin" — what a zone file
// denotes is the completed name, and a completed name of more than 255 wire octets is no domain name: the entry is
// an error, not a record with an owner (or target) that can never be packed. A relative name and an origin that are
// both valid by themselves are enumerated so that the completed wire length runs over 250..260, in every position
// where the parser completes a name, spelled plainly and with every octet as \DDD (text four times the wire length,
// so that a test on the text's length instead of the wire length is seen too).
func c06CompletionLimitSpace(c *fw.Ctx) {
	type pos struct {
		name string
		text func(rel, origin string) string // zone text
		want func(full []byte) []byte        // wire form of the one record, given the completed name
	}
	a4 := []byte{192, 0, 2, 1}
	poss := []pos{
		{"owner", func(rel, o string) string { return "$ORIGIN " + o + "\n" + rel + " 5 IN A 192.0.2.1\n" },
			func(f []byte) []byte { return c06RRWire(f, 1, 5, a4) }},
		{"cname-target", func(rel, o string) string { return "$ORIGIN " + o + "\nx. 5 IN CNAME " + rel + "\n" },
			func(f []byte) []byte { return c06RRWire(c06WireName("x"), 5, 5, f) }},
		{"mx-target", func(rel, o string) string { return "$ORIGIN " + o + "\nx. 5 IN MX 7 " + rel + "\n" },
			func(f []byte) []byte { return c06RRWire(c06WireName("x"), 15, 5, append([]byte{0, 7}, f...)) }},
		{"origin-argument", func(rel, o string) string { return "$ORIGIN " + o + "\n$ORIGIN " + rel + "\n@ 5 IN A 192.0.2.1\n" },
			func(f []byte) []byte { return c06RRWire(f, 1, 5, a4) }},
		{"parser-origin", func(rel, o string) string { return rel + " 5 IN A 192.0.2.1\n" }, // origin handed to NewZoneParser
			func(f []byte) []byte { return c06RRWire(f, 1, 5, a4) }},
	}
	origins := [][]string{{strings.Repeat("c", 40)}, {strings.Repeat("c", 63), "d"}, {"e"}, {}}
	c.Space("completion-limit", "a valid relative name completed with a valid origin to a wire length of 250..260 octets, as owner, CNAME target, MX target, $ORIGIN argument and under the origin given to the parser; origins of 42, 67, 3 octets and the root; labels plain and with every octet spelled \\DDD: up to 255 octets the record carries exactly the completed name, beyond that an error is reported and no record with that name is returned; one case per (position, origin, length, spelling); non-trivial: all", true,
		func(emit func(func(*fw.R))) {
			for _, p := range poss {
				for _, ol := range origins {
					for total := 250; total <= 260; total++ {
						for _, ddd := range []bool{false, true} {
							p, ol, total, ddd := p, ol, total, ddd
							emit(func(r *fw.R) {
								r.Nontrivial()
								owire := 1
								for _, l := range ol {
									owire += 1 + len(l)
								}
								// relative labels: 63-octet labels, then the remainder (at least 1 octet)
								left := total - owire
								var rel []string
								for left > 0 {
									n := left - 1
									if n > 63 {
										n = 63
									}
									if left-1-n == 1 { // would leave room for a length octet only
										n--
									}
									rel = append(rel, strings.Repeat("a", n))
									left -= 1 + n
								}
								spell := func(l string) string {
									if !ddd {
										return l
									}
									var sb strings.Builder
									for i := 0; i < len(l); i++ {
										fmt.Fprintf(&sb, "\\%03d", l[i])
									}
									return sb.String()
								}
								var rt []string
								for _, l := range rel {
									rt = append(rt, spell(l))
								}
								relText := strings.Join(rt, ".")
								oText := strings.Join(ol, ".") + "."
								full := c06WireName(append(append([]string{}, rel...), ol...)...)
								if len(full) != total {
									r.Fail("internal/completion-limit", "built %d octets, wanted %d", len(full), total)
									return
								}
								text := p.text(relText, oText)
								porigin := ""
								if p.name == "parser-origin" {
									porigin = oText
								}
								zp := dns.NewZoneParser(strings.NewReader(text), porigin, "z")
								var got [][]byte
								for rr, ok := zp.Next(); ok; rr, ok = zp.Next() {
									buf := make([]byte, 70000)
									if off, err := dns.PackRR(rr, buf, 0, nil, false); err == nil {
										got = append(got, buf[:off])
									} else {
										got = append(got, []byte("unpackable: "+rr.Header().Name+" "+err.Error()))
									}
								}
								id := fmt.Sprintf("%s, origin of %d octets, completed length %d, \\DDD spelling %v: %s", p.name, owire, total, ddd, c07Show(text))
								if total <= 255 {
									if zp.Err() != nil || len(got) != 1 || !bytes.Equal(got[0], p.want(full)) {
										r.Fail("completion/within-limit/"+p.name, "%s: want the record with the completed name (%d octets), got %d records, Err() = %v", id, total, len(got), zp.Err())
									}
									return
								}
								if len(got) != 0 {
									r.Fail("completion/over-limit-record/"+p.name, "%s: a record was returned (%q…) although the completed name has %d octets", id, clipBytes(got[0], 40), total)
								}
								if zp.Err() == nil {
									r.Fail("completion/over-limit-no-error/"+p.name, "%s: no error although the completed name has %d octets (%d records)", id, total, len(got))
								}
							})
						}
					}
				}
			}
		})
}

func clipBytes(b []byte, n int) []byte {
	if len(b) > n {
		return b[:n]
	}
	return b
}
