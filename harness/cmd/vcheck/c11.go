package main

import (
	"bytes"
	"crypto/hmac"
	"encoding/base64"
	"encoding/binary"
	"encoding/hex"
	"fmt"
	"strings"
	"time"

	"github.com/miekg/dns"
	"verif/harness/fw"
	rn "verif/harness/ref/name"
	rt "verif/harness/ref/tsig"
)

// C11 — TSIG (DESIGN §5 C11): TsigGenerate / TsigVerify (+ provider variants, dns.Conn, dns.Transfer)
// against the independent RFC 8945 model in ref/tsig.

func init() {
	fw.Register(&fw.Check{Prop: "C11", Level: "fault_enumeration",
		Assume: []string{
			"reference model ref/tsig (RFC 8945 §4.2, §4.3, §5.2, §5.3.1; crypto/hmac of the standard library) is the oracle; it shares no code with the library",
			"dns.Msg.Pack of the message without TSIG is plumbing: the property is about the octets TsigGenerate adds and digests, not about packing (C01/C04)",
			"untampered TsigGenerate output: TsigVerify must agree with the reference in both directions; tampered messages: only 'library accepts ⇒ reference accepts' is demanded (rejecting more is allowed), except flips of the two ID octets where both directions are demanded (RFC 8945 §4.3.2: the digest is over the Original ID)",
			"excluded from 'altered must fail' because RFC 8945 does not cover them with the MAC (counted in the evidence as accepted-*): flips of the two header ID octets; flips that only change the ASCII case of a letter in the key name or algorithm name (canonicalised in the digest); in timers-only mode (§5.3.1) every TSIG field outside Time Signed / Fudge / MAC / Original ID / algorithm (key name, class, TTL, error, other data)",
			"octets behind the last counted RR are not part of the DNS message (RFC 1035 §4.1): a signed message with trailing octets is accepted by the reference and by the library; counted as trailing-octets-accepted, not a violation",
			"removal of the last envelope of a chain is not detectable by TSIG (it is C15's end-of-transfer rule); the chain oracle expects no TSIG failure there",
			"truncated MACs (RFC 8945 §5.2.2.1) are treated as non-matching: the property demands MAC equality",
			"hmac-md5 is documented as unsupported by the library: it must give an error, like an unknown algorithm",
			"stable-second protocol around every TsigVerify call: time.Now().Unix() is read before and after, the call is repeated until both agree; window edges are re-signed until signing and verification saw the same second",
			"Conn.ReadMsg returns a nil error for an unsigned reply (it only verifies when IsTsig() != nil); 'reported as verified' is taken as err == nil ∧ IsTsig() != nil",
			"server side: 'verified' for a handler is IsTsig() != nil ∧ TsigStatus() == nil (TsigStatus is nil for unsigned requests); the server runs on real goroutines, every hand-over to it is a channel operation and no timeout is involved",
		},
		Spaces: c11Spaces})
}

// ---------------------------------------------------------------------------------------------
// fixed material

var c11Algs = []string{dns.HmacSHA1, dns.HmacSHA224, dns.HmacSHA256, dns.HmacSHA384, dns.HmacSHA512}

const (
	c11AlgMD5     = dns.HmacMD5
	c11AlgUnknown = "hmac-sha3-256."
)

// two secrets: a short one, and one longer than every HMAC block size (so the key is hashed first)
func c11Secret(i int) []byte {
	n := 16
	if i == 1 {
		n = 140
	}
	b := make([]byte, n)
	for k := range b {
		b[k] = byte(0x35 + 7*k + 91*i)
	}
	return b
}

// request MACs: none, 20 and 64 octets
func c11ReqMAC(i int) []byte {
	n := []int{0, 20, 64}[i]
	b := make([]byte, n)
	for k := range b {
		b[k] = byte(0xA0 + 3*k)
	}
	return b
}

// key names known to the two-key provider (k3 deliberately shares k1's secret: only the name in the
// digest tells them apart)
const (
	c11K1 = "axfr-key.example."
	c11K2 = "other-key.example."
	c11K3 = "third.example."
)

var c11OtherData = []byte{0x00, 0x00, 0x65, 0x43, 0x21, 0x0f} // 48-bit server time, BADTIME

func c11Labels(s string) [][]byte { return rn.Parse(s).Labels }

func c11Case(s string, variant int) string {
	// variant 0: as is (lower); 1: every other letter upper; 2: all upper
	switch variant {
	case 1:
		b := []byte(s)
		for i := range b {
			if i%2 == 0 && b[i] >= 'a' && b[i] <= 'z' {
				b[i] -= 32
			}
		}
		return string(b)
	case 2:
		return strings.ToUpper(s)
	}
	return s
}

// ---------------------------------------------------------------------------------------------
// message shapes

const c11NShapes = 6

var c11ShapeNames = []string{"query", "reply", "opt", "compressed", "noquestion", "big"}

func c11Shape(i int) *dns.Msg {
	m := new(dns.Msg)
	m.Id = 0x1234
	hdr := func(n string, t uint16, ttl uint32) dns.RR_Header {
		return dns.RR_Header{Name: n, Rrtype: t, Class: dns.ClassINET, Ttl: ttl}
	}
	q := dns.Question{Name: "www.example.org.", Qtype: dns.TypeA, Qclass: dns.ClassINET}
	answers := func() {
		m.Answer = []dns.RR{
			&dns.CNAME{Hdr: hdr("www.example.org.", dns.TypeCNAME, 300), Target: "host.example.org."},
			&dns.A{Hdr: hdr("host.example.org.", dns.TypeA, 300), A: []byte{192, 0, 2, 1}},
			&dns.MX{Hdr: hdr("example.org.", dns.TypeMX, 3600), Preference: 10, Mx: "mail.example.org."},
			&dns.TXT{Hdr: hdr("example.org.", dns.TypeTXT, 60), Txt: []string{"v=spf1 -all", ""}},
		}
		m.Ns = []dns.RR{&dns.NS{Hdr: hdr("example.org.", dns.TypeNS, 3600), Ns: "ns1.example.org."}}
		m.Extra = []dns.RR{&dns.AAAA{Hdr: hdr("ns1.example.org.", dns.TypeAAAA, 3600), AAAA: []byte{0x20, 1, 0xd, 0xb8, 0, 0, 0, 0, 0, 0, 0, 0, 0, 0, 0, 1}}}
	}
	switch i {
	case 0:
		m.RecursionDesired = true
		m.Question = []dns.Question{q}
	case 1:
		m.Response, m.Authoritative = true, true
		m.Question = []dns.Question{q}
		answers()
	case 2:
		m.RecursionDesired = true
		m.Question = []dns.Question{q}
		o := &dns.OPT{Hdr: dns.RR_Header{Name: ".", Rrtype: dns.TypeOPT}}
		o.SetUDPSize(4096)
		o.SetDo()
		o.Option = []dns.EDNS0{&dns.EDNS0_NSID{Code: dns.EDNS0NSID, Nsid: "c0ffee"}}
		m.Extra = []dns.RR{o}
	case 3:
		m.Response, m.Authoritative = true, true
		m.Compress = true
		m.Question = []dns.Question{q}
		answers()
		m.Extra = append(m.Extra, &dns.A{Hdr: hdr("mail.example.org.", dns.TypeA, 300), A: []byte{192, 0, 2, 25}})
	case 4:
		m.Response = true
		m.Opcode = dns.OpcodeNotify
		m.Answer = []dns.RR{&dns.SOA{Hdr: hdr("example.org.", dns.TypeSOA, 3600), Ns: "ns1.example.org.", Mbox: "root.example.org.",
			Serial: 2026092401, Refresh: 7200, Retry: 3600, Expire: 1209600, Minttl: 300}}
	case 5:
		// near 64 KiB: 65395 octets packed, so that the signed message stays below 65536 for every algorithm
		m.Response, m.Authoritative = true, true
		m.Question = []dns.Question{{Name: "big.example.org.", Qtype: dns.TypeTXT, Qclass: dns.ClassINET}}
		const target = 65395
		size := 12 + 17 + 4
		full := strings.Repeat("x", 255)
		per := 17 + 10 + 256
		for size+per <= target-30 {
			m.Answer = append(m.Answer, &dns.TXT{Hdr: hdr("big.example.org.", dns.TypeTXT, 1), Txt: []string{full}})
			size += per
		}
		rd := target - size - 27 // RDATA octets of the last record: 3..285
		var txt []string
		if rd-1 > 255 {
			txt = append(txt, full[:100])
			rd -= 101
		}
		txt = append(txt, full[:rd-1])
		m.Answer = append(m.Answer, &dns.TXT{Hdr: hdr("big.example.org.", dns.TypeTXT, 1), Txt: txt})
	}
	return m
}

// ---------------------------------------------------------------------------------------------
// signing parameters and the two paths (secret passed directly / TsigProvider)

type c11Params struct {
	shape   int
	alg     string // lower-case presentation form
	secret  int
	req     int
	timers  bool
	ncase   int // bit 0: key name mixed case, bit 1: algorithm name upper case
	other   bool
	fudge   uint16
	key     string // lower-case key name
	origID  int    // -1: same as the message ID
	timeSig uint64
}

func (p c11Params) String() string {
	return fmt.Sprintf("{shape=%s alg=%s secret#%d(%d octets, base64 %s) requestMAC=%x timersOnly=%v key=%q algname=%q other=%v fudge=%d timeSigned=%d origID=%d}",
		c11ShapeNames[p.shape], p.alg, p.secret, len(c11Secret(p.secret)), base64.StdEncoding.EncodeToString(c11Secret(p.secret)),
		c11ReqMAC(p.req), p.timers, p.keyName(), p.algName(), p.other, p.fudge, p.timeSig, p.origID)
}

func (p c11Params) keyName() string {
	if p.ncase&1 != 0 {
		return c11Case(p.key, 1)
	}
	return p.key
}

func (p c11Params) algName() string {
	if p.ncase&2 != 0 {
		return c11Case(p.alg, 2)
	}
	return p.alg
}

// msg builds the message with the stub TSIG as TsigGenerate wants it.
func (p c11Params) msg() *dns.Msg {
	m := c11Shape(p.shape)
	t := &dns.TSIG{Hdr: dns.RR_Header{Name: p.keyName(), Rrtype: dns.TypeTSIG, Class: dns.ClassANY, Ttl: 0},
		Algorithm: p.algName(), Fudge: p.fudge, TimeSigned: p.timeSig, OrigId: m.Id}
	if p.origID >= 0 {
		t.OrigId = uint16(p.origID)
	}
	if p.other {
		t.Error = dns.RcodeBadTime
		t.OtherLen = uint16(len(c11OtherData))
		t.OtherData = hex.EncodeToString(c11OtherData)
	}
	m.Extra = append(m.Extra, t)
	return m
}

// rec is the TSIG record the RFC prescribes for these parameters (MAC to be filled in).
func (p c11Params) rec() rt.Rec {
	t := rt.Rec{Name: c11Labels(p.keyName()), Class: rt.ClassANY, TTL: 0, Alg: c11Labels(p.algName()),
		Time: p.timeSig, Fudge: p.fudge, OrigID: 0x1234}
	if t.Fudge == 0 {
		t.Fudge = 300 // the library documents 0 as "use the default of 300"
	}
	if p.origID >= 0 {
		t.OrigID = uint16(p.origID)
	}
	if p.other {
		t.Error = 18
		t.Other = c11OtherData
	}
	return t
}

// body packs the message without TSIG (plumbing).
func (p c11Params) body() ([]byte, error) { return c11Shape(p.shape).Pack() }

func (p c11Params) supported() bool {
	for _, a := range c11Algs {
		if a == p.alg {
			return true
		}
	}
	return false
}

// c11Provider is a TsigProvider holding several keys, looked up by (case-insensitive) owner name. It
// computes the HMAC with the reference model's HMAC and records the digest input the library hands over.
type c11Provider struct {
	keys      map[string][]byte
	lastInput []byte
}

func (p *c11Provider) Generate(msg []byte, t *dns.TSIG) ([]byte, error) {
	p.lastInput = append([]byte{}, msg...)
	sec, ok := p.keys[strings.ToLower(t.Hdr.Name)]
	if !ok {
		return nil, dns.ErrSecret
	}
	mac, ok := rt.HMAC(c11Labels(t.Algorithm), sec, msg)
	if !ok {
		return nil, dns.ErrKeyAlg
	}
	return mac, nil
}

func (p *c11Provider) Verify(msg []byte, t *dns.TSIG) error {
	want, err := p.Generate(msg, t)
	if err != nil {
		return err
	}
	got, err := hex.DecodeString(t.MAC)
	if err != nil {
		return err
	}
	if !hmac.Equal(want, got) {
		return dns.ErrSig
	}
	return nil
}

// c11Side bundles how the library is called (path 0: secret string; path 1: provider) with the matching
// reference key lookup.
type c11Side struct {
	path   int
	secret []byte // path 0
	prov   *c11Provider
}

func c11NewSide(path, secret int) *c11Side {
	s := &c11Side{path: path, secret: c11Secret(secret)}
	if path == 1 {
		s.prov = &c11Provider{keys: map[string][]byte{c11K1: c11Secret(secret), c11K2: c11Secret(1 - secret), c11K3: c11Secret(secret)}}
	}
	return s
}

func (s *c11Side) String() string {
	if s.path == 1 {
		return fmt.Sprintf("provider{%s,%s: %x; %s: %x}", c11K1, c11K3, s.prov.keys[c11K1], c11K2, s.prov.keys[c11K2])
	}
	return fmt.Sprintf("secret %s", base64.StdEncoding.EncodeToString(s.secret))
}

func (s *c11Side) lookup(name [][]byte) ([]byte, bool) {
	if s.path == 0 {
		return s.secret, true // the caller named the secret: every key name is "the named key"
	}
	sec, ok := s.prov.keys[strings.ToLower(rn.Escape(name, true))]
	return sec, ok
}

func (s *c11Side) generate(m *dns.Msg, req []byte, timers bool) ([]byte, string, error) {
	if s.path == 1 {
		return dns.TsigGenerateWithProvider(m, s.prov, hex.EncodeToString(req), timers)
	}
	return dns.TsigGenerate(m, base64.StdEncoding.EncodeToString(s.secret), hex.EncodeToString(req), timers)
}

// verify runs the library's verification on a private copy of msg under the stable-second protocol and
// returns the second the call provably saw.
func (s *c11Side) verify(msg []byte, req []byte, timers bool) (error, uint64) {
	reqHex := hex.EncodeToString(req)
	b64 := base64.StdEncoding.EncodeToString(s.secret)
	for {
		cp := append([]byte{}, msg...)
		a := time.Now().Unix()
		var err error
		if s.path == 1 {
			err = dns.TsigVerifyWithProvider(cp, s.prov, reqHex, timers)
		} else {
			err = dns.TsigVerify(cp, b64, reqHex, timers)
		}
		if time.Now().Unix() == a {
			return err, uint64(a)
		}
	}
}

// judge compares one library verdict with the reference. both: demand agreement in both directions.
// Returns the reference verdict.
func (s *c11Side) judge(r *fw.R, msg, req []byte, timers, both bool, what string, ctx fmt.Stringer) (lib error, ref bool) {
	lib, now := s.verify(msg, req, timers)
	ref, why := rt.Verify(msg, s.lookup, req, timers, now)
	if lib == nil && !ref {
		r.Fail("accept/"+c11Diagnose(msg, s.lookup, req, timers, now, why),
			"TsigVerify returned nil but the RFC 8945 reference rejects (%s); %s; verify(%s, requestMAC=%x, timersOnly=%v) at now=%d; signing parameters %v; message octets %s",
			why, what, s, req, timers, now, ctx, c11Hex(msg))
	}
	if both && lib != nil && ref {
		r.Fail("verify/rejects-valid", "TsigVerify returned %q but the reference accepts; %s; verify(%s, requestMAC=%x, timersOnly=%v) at now=%d; signing parameters %v; message octets %s",
			lib, what, s, req, timers, now, ctx, c11Hex(msg))
	}
	return lib, ref
}

// c11Diagnose names the class of an acceptance the reference does not share.
func c11Diagnose(msg []byte, lookup rt.Lookup, req []byte, timers bool, now uint64, why string) string {
	body, t, swhy := rt.Split(msg)
	if swhy == "" {
		if sec, ok := lookup(t.Name); ok {
			try := func(mod func(*rt.Rec)) bool {
				t2 := *t
				mod(&t2)
				ok, _ := rt.Check(body, &t2, t.MAC, sec, req, timers, now)
				return ok
			}
			switch {
			case t.Class != rt.ClassANY && try(func(x *rt.Rec) { x.Class = rt.ClassANY }):
				return "tsig-class-not-any-digested-as-any"
			case t.Fudge == 0 && try(func(x *rt.Rec) { x.Fudge = 300 }):
				return "fudge-0-digested-as-300"
			case t.Time == 0 && try(func(x *rt.Rec) { x.Time = now }):
				return "time-signed-0-digested-as-now"
			}
		}
	}
	if swhy == "malformed TSIG" {
		// Other Len pointing behind the RDATA?
		if l, ok := rt.Walk(msg); ok {
			ts := l.RRs[len(l.RRs)-1]
			if _, off, ok := rt.ReadName(msg, ts.RdStart); ok && off+10 <= ts.End {
				off += 10 + int(binary.BigEndian.Uint16(msg[off+8:])) + 4
				if off+2 <= ts.End && off+2+int(binary.BigEndian.Uint16(msg[off:])) > ts.End {
					return "tsig-other-len-exceeds-rdata"
				}
			}
		}
		// RDLENGTH of the TSIG cut short so that trailing fields lie outside the RDATA?
		if l, ok := rt.Walk(msg); ok {
			ts := l.RRs[len(l.RRs)-1]
			for ext := 1; ext <= 16 && ts.End+ext <= len(msg); ext++ {
				cp := append([]byte{}, msg...)
				binary.BigEndian.PutUint16(cp[ts.RdStart-2:], uint16(ts.End-ts.RdStart+ext))
				if ok, _ := rt.Verify(cp, lookup, req, timers, now); ok {
					return "tsig-rdlength-short-missing-fields-read-as-zero"
				}
			}
		}
	}
	return strings.NewReplacer(" ", "-", "/", "-").Replace(why)
}

// c11Unsign removes the TSIG (last additional RR) from a signed message with the reference walker:
// the remaining octets with ARCOUNT decremented (header ID untouched) and the record.
func c11Unsign(msg []byte) ([]byte, *rt.Rec, bool) {
	_, t, why := rt.Split(msg)
	l, ok := rt.Walk(msg)
	if why != "" || !ok {
		return nil, nil, false
	}
	pre := append([]byte{}, msg[:l.RRs[len(l.RRs)-1].Start]...)
	binary.BigEndian.PutUint16(pre[10:], uint16(l.AR-1))
	return pre, t, true
}

func c11Hex(b []byte) string {
	if len(b) > 1500 {
		return fmt.Sprintf("%x…%x (%d octets)", b[:600], b[len(b)-600:], len(b))
	}
	return hex.EncodeToString(b)
}

// ---------------------------------------------------------------------------------------------
// spaces

func c11Spaces(c *fw.Ctx) {
	c11SpaceSign(c)
	c11SpaceTime(c)
	c11SpaceFlip(c)
	c11SpaceTrunc(c)
	c11SpaceField(c)
	c11SpaceAbsent(c)
	c11SpaceChain(c)
	c11SpaceConn(c)
	c11SpaceXfr(c)
	c11SpaceServer(c)
}

// sign: TsigGenerate output against the reference, then verification with the right and with wrong
// parameters.
func c11SpaceSign(c *fw.Ctx) {
	algs := append(append([]string{}, c11Algs...), c11AlgMD5, c11AlgUnknown)
	fudges := []uint16{0, 1, 300, 65535}
	c.Space("sign", "6 message shapes × {5 HMAC algorithms, hmac-md5, unknown} × 2 secrets × request MAC {none,20,64 octets} × timers-only × 4 name-case variants × other data {none, 6 octets BADTIME} × fudge {0,1,300,65535}: output octets and MAC = reference; verified through the secret and the provider path with the right parameters and with wrong secret / key name / request MAC / timers flag; non-trivial: supported algorithm (octets compared, MAC recomputed)", true,
		func(emit func(func(*fw.R))) {
			for shape := 0; shape < c11NShapes; shape++ {
				for _, alg := range algs {
					for secret := 0; secret < 2; secret++ {
						for req := 0; req < 3; req++ {
							for _, timers := range []bool{false, true} {
								for ncase := 0; ncase < 4; ncase++ {
									for _, other := range []bool{false, true} {
										for _, fudge := range fudges {
											p := c11Params{shape: shape, alg: alg, secret: secret, req: req, timers: timers, ncase: ncase, other: other, fudge: fudge, key: c11K1, origID: -1}
											emit(func(r *fw.R) { c11Sign(r, p) })
										}
									}
								}
							}
						}
					}
				}
			}
		})
}

func c11Sign(r *fw.R, p c11Params) {
	p.timeSig = uint64(time.Now().Unix())
	req := c11ReqMAC(p.req)
	direct, prov := c11NewSide(0, p.secret), c11NewSide(1, p.secret)

	out, mac, err := direct.generate(p.msg(), req, p.timers)
	if !p.supported() {
		if err == nil {
			r.Fail("generate/unsupported-alg-signed", "TsigGenerate signed with algorithm %q (MAC %s); %v", p.alg, mac, p)
		}
		if _, _, err := prov.generate(p.msg(), req, p.timers); err == nil {
			r.Fail("generate/unsupported-alg-signed", "TsigGenerateWithProvider signed with algorithm %q; %v", p.alg, p)
		}
		// a message claiming that algorithm must not verify, whatever its MAC
		body, perr := p.body()
		if perr != nil {
			r.Fail("model/pack", "Pack: %v", perr)
			return
		}
		for _, n := range []int{0, 16, 20, 32} {
			t := p.rec()
			t.MAC = bytes.Repeat([]byte{0x5a}, n)
			msg := rt.Attach(body, &t)
			for _, s := range []*c11Side{direct, prov} {
				if lib, _ := s.verify(msg, req, p.timers); lib == nil {
					r.Fail("verify/unsupported-alg-accepted", "TsigVerify accepted algorithm %q with a %d-octet MAC; %v; %s", p.alg, n, p, c11Hex(msg))
				}
			}
		}
		return
	}
	r.Nontrivial()
	if err != nil {
		r.Fail("generate/error", "TsigGenerate: %v; %v", err, p)
		return
	}
	body, perr := p.body()
	if perr != nil {
		r.Fail("model/pack", "Pack: %v", perr)
		return
	}
	if p.shape == 5 && len(body) != 65395 {
		r.Fail("model/big-size", "near-64-KiB shape packs to %d octets", len(body))
	}
	want, wantMAC, _ := rt.Sign(body, p.rec(), c11Secret(p.secret), req, p.timers)
	if mac != hex.EncodeToString(wantMAC) {
		r.Fail("generate/mac", "TsigGenerate MAC %s, RFC 8945 HMAC %x; %v", mac, wantMAC, p)
	}
	if !bytes.Equal(out, want) {
		r.Fail("generate/octets", "TsigGenerate output differs from Pack(msg) ‖ TSIG RR with ARCOUNT+1; %v\n got  %s\n want %s", p, c11Hex(out), c11Hex(want))
	}
	r.Sample(func() any { return fmt.Sprintf("%v → %d octets, MAC %s", p, len(out), mac) })

	// provider path: same octets; and the digest input the library assembled is the RFC's
	pout, pmac, err := prov.generate(p.msg(), req, p.timers)
	if err != nil || !bytes.Equal(pout, out) || pmac != mac {
		r.Fail("generate/provider-differs", "TsigGenerateWithProvider = %s, %s, %v; TsigGenerate gave %s; %v", c11Hex(pout), pmac, err, c11Hex(out), p)
	}
	rec := p.rec()
	idBody := append([]byte{}, body...)
	binary.BigEndian.PutUint16(idBody, rec.OrigID)
	if in := rt.DigestInput(idBody, &rec, req, p.timers); !bytes.Equal(prov.prov.lastInput, in) {
		r.Fail("generate/digest-input", "digest input handed to the provider differs from RFC 8945 §4.3; %v\n got  %s\n want %s", p, c11Hex(prov.prov.lastInput), c11Hex(in))
	}

	// TimeSigned 0 in the stub means "now": the record must carry the second in which it was signed
	if p.shape != 5 {
		for try := 0; ; try++ {
			q := p
			q.timeSig = 0
			a := time.Now().Unix()
			o2, _, err := direct.generate(q.msg(), req, p.timers)
			if time.Now().Unix() != a && try < 50 {
				continue
			}
			q.timeSig = uint64(a)
			w2, _, _ := rt.Sign(body, q.rec(), c11Secret(p.secret), req, p.timers)
			if err != nil || !bytes.Equal(o2, w2) {
				r.Fail("generate/time-zero", "TsigGenerate with TimeSigned=0 at second %d: %v\n got  %s\n want %s; %v", a, err, c11Hex(o2), c11Hex(w2), p)
			}
			break
		}
	}

	// a stub whose Original ID differs from the header ID (e.g. a hand-built stub that leaves OrigId 0):
	// the digest is over the Original ID, the emitted message keeps its own ID
	if p.shape != 5 && p.ncase == 0 && p.fudge == 300 && !p.other {
		for _, oid := range []int{0, 0x4321} {
			q := p
			q.origID = oid
			o3, m3, err := direct.generate(q.msg(), req, p.timers)
			w3, wm3, _ := rt.Sign(body, q.rec(), c11Secret(p.secret), req, p.timers)
			switch {
			case err != nil:
				r.Fail("generate/error", "TsigGenerate: %v; %v", err, q)
			case m3 != hex.EncodeToString(wm3):
				r.Fail("generate/mac-original-id", "TsigGenerate MAC %s, RFC 8945 HMAC (over the Original ID) %x; %v", m3, wm3, q)
			case !bytes.Equal(o3, w3) && len(o3) == len(w3) && bytes.Equal(o3[2:], w3[2:]):
				r.Fail("generate/header-id-replaced-by-original-id", "message ID %#04x, stub OrigId %#04x: TsigGenerate emitted header ID %#04x (the rest of the octets and the MAC are as the reference says); %v\n got  %s\n want %s",
					0x1234, oid, binary.BigEndian.Uint16(o3), q, c11Hex(o3), c11Hex(w3))
			case !bytes.Equal(o3, w3):
				r.Fail("generate/octets", "TsigGenerate output differs from Pack(msg) ‖ TSIG RR with ARCOUNT+1; %v\n got  %s\n want %s", q, c11Hex(o3), c11Hex(w3))
			}
			if err == nil {
				// whatever ID is on the wire, the receiver restores the Original ID: must verify
				direct.judge(r, w3, req, p.timers, true, "reference-signed message whose header ID differs from the Original ID", q)
			}
		}
	}

	// verification: right parameters (both directions), then every single wrong parameter
	for _, s := range []*c11Side{direct, prov} {
		s.judge(r, out, req, p.timers, true, "untampered TsigGenerate output", p)
		s.judge(r, out, req, !p.timers, false, "wrong timers-only flag", p)
		for wr := 0; wr < 3; wr++ {
			if wr != p.req {
				s.judge(r, out, c11ReqMAC(wr), p.timers, false, "wrong request MAC", p)
			}
		}
		if len(req) > 0 {
			x := append([]byte{}, req...)
			x[len(x)-1] ^= 1
			s.judge(r, out, x, p.timers, false, "request MAC with one bit changed", p)
			s.judge(r, out, req[:len(req)-1], p.timers, false, "request MAC one octet short", p)
		}
	}
	wrong := c11NewSide(0, 1-p.secret)
	wrong.judge(r, out, req, p.timers, false, "wrong secret", p)
	// provider path, other key names: k3 has the same secret (only the name in the digest differs), k2
	// another secret, the last one is unknown to the provider
	stripped, t, ok := c11Unsign(out)
	if !ok {
		return // already reported as generate/octets
	}
	for _, name := range []string{c11K3, c11K2, "unknown.example."} {
		t2 := *t
		t2.Name = c11Labels(name)
		alt := rt.Attach(stripped, &t2)
		lib, ref := prov.judge(r, alt, req, p.timers, false, "key name replaced by "+name, p)
		if name == "unknown.example." && (lib == nil || ref) {
			r.Fail("verify/unknown-key-accepted", "key %q is unknown to the provider but verification gave lib=%v reference=%v; %v; %s", name, lib, ref, p, c11Hex(alt))
		}
	}
}

// time: the fudge window edges.
func c11SpaceTime(c *fw.Ctx) {
	fudges := []uint16{0, 1, 300, 65535}
	c.Space("time", "5 algorithms × fudge {0→300,1,300,65535} × timers-only × request MAC {none,20} × path {secret, provider}: signed at now+{−f−1,−f,−1,0,+1,+f,+f+1} and at 1 and 2^48−1, verified in the same wall-clock second (stable-second protocol, re-signed when the second changed): nil exactly when |now − signed| ≤ fudge; non-trivial: every case (each has accepting and rejecting edges)", true,
		func(emit func(func(*fw.R))) {
			for _, alg := range c11Algs {
				for _, fudge := range fudges {
					for _, timers := range []bool{false, true} {
						for req := 0; req < 2; req++ {
							for path := 0; path < 2; path++ {
								p := c11Params{shape: 1, alg: alg, req: req, timers: timers, fudge: fudge, key: c11K1, origID: -1}
								path := path
								emit(func(r *fw.R) { c11Time(r, p, path) })
							}
						}
					}
				}
			}
		})
}

func c11Time(r *fw.R, p c11Params, path int) {
	r.Nontrivial()
	s := c11NewSide(path, p.secret)
	req := c11ReqMAC(p.req)
	f := int64(p.fudge)
	if f == 0 {
		f = 300
	}
	deltas := []int64{-f - 1, -f, -1, 0, 1, f, f + 1}
restart:
	for try := 0; try < 100; try++ {
		T := time.Now().Unix()
		times := []uint64{1, 1<<48 - 1}
		for _, d := range deltas {
			times = append(times, uint64(T+d))
		}
		var msgs [][]byte
		for _, ts := range times {
			q := p
			q.timeSig = ts
			out, _, err := s.generate(q.msg(), req, p.timers)
			if err != nil {
				r.Fail("generate/error", "TsigGenerate: %v; %v", err, q)
				return
			}
			msgs = append(msgs, out)
		}
		type res struct {
			err error
			ts  uint64
		}
		var results []res
		for i, m := range msgs {
			err, now := s.verify(m, req, p.timers)
			if now != uint64(T) {
				continue restart
			}
			results = append(results, res{err, times[i]})
		}
		for i, x := range results {
			d := int64(x.ts) - T
			if d < 0 {
				d = -d
			}
			want := d <= f
			ref, why := rt.Verify(msgs[i], s.lookup, req, p.timers, uint64(T))
			if ref != want {
				r.Fail("model/time", "reference verdict %v (%s) for signed=%d now=%d fudge=%d", ref, why, x.ts, T, f)
			}
			if (x.err == nil) != want {
				r.Fail("time/window-edge", "TsigVerify at now=%d of a message signed at %d (now%+d) with fudge %d returned %v; want accept=%v; via %s; %v; %s",
					T, x.ts, int64(x.ts)-T, f, x.err, want, s, p, c11Hex(msgs[i]))
			}
		}
		r.Count("edges", int64(len(results)))
		r.Sample(func() any {
			return fmt.Sprintf("%v via %s at now=%d: signed-now ∈ %v and signed ∈ {1, 2^48−1}", p, s, T, deltas)
		})
		return
	}
	r.Fail("model/time-unstable", "no stable second in 100 attempts")
}
