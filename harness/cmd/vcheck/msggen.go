package main

import (
	"bytes"
	"fmt"

	"verif/harness/bind"
	"verif/harness/enum"
	rn "verif/harness/ref/name"
	"verif/harness/ref/wire"
)

// Shared message generator for C04 (compression) and C08 (Len): messages whose owner and RDATA names
// range over a small universe built to collide (shared suffixes, case-only differences, a label
// containing a dot vs two labels, a name that is a suffix of another).

var msgNames = [][][]byte{
	enum.L("example"),
	enum.L("a", "example"),
	enum.L("A", "example"),
	enum.L("b", "a", "example"),
	{[]byte("a.example")},             // one label with a dot inside: presentation a\.example.
	{{0, 'z', 200}, []byte("example")}, // \DDD escapes in front of a shared suffix
	{{'z', 200}, []byte("example")},    // equals a mis-cut presentation suffix of the previous name
	enum.L("EXAMPLE"),
	nil, // root
	enum.L("x"),
	enum.L("a", "b", "example"),
	enum.L("ample"),
}

// nameFieldIdx returns the indices of name-valued fields of s.
func nameFieldIdx(s *wire.Spec) []int {
	var o []int
	for i, f := range s.Fields {
		if f.K == wire.Name || f.K == wire.CName {
			o = append(o, i)
		}
	}
	return o
}

// nameTypes lists the registered types with at least one plain name field, plus HIP (name list) and the
// gateway types set to "host".
func nameTypes() []uint16 {
	var ts []uint16
	for _, t := range regTypes() {
		s := wire.Specs[t]
		if s == nil || t == 250 || t == 249 { // TSIG/TKEY are meta records handled separately
			continue
		}
		if len(nameFieldIdx(s)) > 0 || t == 55 || t == 45 || t == 260 {
			ts = append(ts, t)
		}
	}
	return ts
}

// mkRR builds a record of type t with owner and its name fields set from names (cyclically).
func mkRR(t uint16, owner [][]byte, names ...[][]byte) wire.RR {
	s := wire.Specs[t]
	vals := enum.Default(s)
	k := 0
	for i, f := range s.Fields {
		switch f.K {
		case wire.Name, wire.CName:
			vals[i] = wire.Val{L: names[k%len(names)], Root: true}
			k++
		case wire.Names:
			vals[i] = wire.Val{N: [][][]byte{names[k%len(names)], names[(k+1)%len(names)]}}
			k++
		case wire.Gateway:
			vals[i] = wire.Val{L: names[k%len(names)], Root: true}
			k++
		}
	}
	return wire.RR{Name: owner, Type: t, Class: 1, TTL: 300, Vals: vals}
}

// commonExact: the types for which C08 demands Len == len(Pack) (with escape-free content).
var commonExact = map[uint16]bool{1: true, 28: true, 2: true, 5: true, 6: true, 12: true, 15: true, 33: true, 16: true, 39: true, 14: true, 17: true, 18: true, 36: true, 35: true, 13: true}

func escapeFreeLabels(l [][]byte) bool {
	for _, x := range l {
		for _, c := range x {
			if c <= ' ' || c > '~' || bytes.IndexByte([]byte(`.\"();@'$`), c) >= 0 {
				return false
			}
		}
	}
	return true
}

// msgEscapeFree reports whether every name and string in m is free of characters needing escapes and
// every record is of a common type.
func msgPlain(m *wire.Msg) bool {
	for _, q := range m.Q {
		if !escapeFreeLabels(q.Name) {
			return false
		}
	}
	for s := 0; s < 3; s++ {
		for _, r := range m.Sec[s] {
			if !commonExact[r.Type] || !escapeFreeLabels(r.Name) {
				return false
			}
			for i, f := range wire.Specs[r.Type].Fields {
				v := r.Vals[i]
				switch f.K {
				case wire.Name, wire.CName:
					if !escapeFreeLabels(v.L) {
						return false
					}
				case wire.Str:
					if !escapeFreeLabels([][]byte{v.B}) && len(v.B) > 0 {
						return false
					}
				case wire.Txt:
					if !escapeFreeLabels(v.L) {
						return false
					}
				}
			}
		}
	}
	return true
}

func msgDesc(m *wire.Msg) string {
	s := fmt.Sprintf("id=%#x flags=%#04x", m.ID, m.Flags)
	for _, q := range m.Q {
		s += fmt.Sprintf(" Q[%q t%d]", q.Name, q.Type)
	}
	for i, sec := range m.Sec {
		for _, r := range sec {
			s += fmt.Sprintf(" S%d[%s]", i, rrDesc(&r))
		}
	}
	if len(s) > 3000 {
		s = s[:3000] + "…"
	}
	return s
}

// genPairs: Q(qn) + RR1(type t, owner o1, rdata names n1,n2=rot) + RR2(NS, owner o2, target n3), for
// every name-bearing type and every assignment of universe names.
func genPairs(nU int, yield func(m *wire.Msg)) {
	U := msgNames[:nU]
	for _, t := range nameTypes() {
		for qi := range U {
			for o1 := range U {
				for n1 := range U {
					for o2 := range U {
						for n3 := range U {
							m := &wire.Msg{ID: 1, Flags: 0x8400}
							m.Q = []wire.Question{{Name: U[qi], Type: t, Class: 1}}
							m.Sec[0] = []wire.RR{mkRR(t, U[o1], U[n1], U[(n1+n3+1)%len(U)])}
							m.Sec[1] = []wire.RR{mkRR(2, U[o2], U[n3])}
							yield(m)
						}
					}
				}
			}
		}
	}
}

// genRoot: the pairs generator over {root, example, a.example}: questions for the root, records owned by the
// root, the root as RDATA name (the root is never written as a pointer), plus an OPT-like root-owned tail.
func genRoot(withOPT bool, yield func(m *wire.Msg)) {
	U := [][][]byte{nil, enum.L("example"), enum.L("a", "example")}
	for _, t := range nameTypes() {
		for qi := range U {
			for o1 := range U {
				for n1 := range U {
					for o2 := range U {
						for n3 := range U {
							m := &wire.Msg{ID: 1, Flags: 0x8400}
							m.Q = []wire.Question{{Name: U[qi], Type: t, Class: 1}}
							m.Sec[0] = []wire.RR{mkRR(t, U[o1], U[n1], U[(n1+n3+1)%len(U)])}
							m.Sec[1] = []wire.RR{mkRR(2, U[o2], U[n3]), mkRR(2, nil, U[n1])}
							if withOPT {
								m.Sec[2] = []wire.RR{{Name: nil, Type: 41, Class: 1232, TTL: 0, Vals: enum.Default(wire.Specs[41])}}
							}
							yield(m)
						}
					}
				}
			}
		}
	}
}

// genSections: 2 questions + up to 4 records of RFC 1035 types (NS, CNAME, MX, SOA, PTR, MINFO, TXT, A)
// with owners/targets over the universe: all type/name assignments for ≤ 2 records, ≤ dev deviations from
// a base assignment for 3 and 4.
func genSections(nU, dev int, yield func(m *wire.Msg)) {
	U := msgNames[:nU]
	types := []uint16{2, 5, 15, 6, 12, 14, 16, 1}
	type slot struct{ t, o, n int }
	build := func(qs []int, rs []slot) *wire.Msg {
		m := &wire.Msg{ID: 2, Flags: 0x8180}
		for _, q := range qs {
			m.Q = append(m.Q, wire.Question{Name: U[q], Type: 255, Class: 1})
		}
		for i, r := range rs {
			m.Sec[i%3] = append(m.Sec[i%3], mkRR(types[r.t], U[r.o], U[r.n], U[(r.n+r.o+1)%len(U)]))
		}
		return m
	}
	// 2 questions, 0..2 records: everything
	for q1 := range U {
		for q2 := range U {
			yield(build([]int{q1, q2}, nil))
			for t := range types {
				for o := range U {
					for n := range U {
						yield(build([]int{q1, q2}, []slot{{t, o, n}}))
					}
				}
			}
		}
	}
	for t1 := range types {
		for o1 := range U {
			for n1 := range U {
				for t2 := range types {
					for o2 := range U {
						for n2 := range U {
							yield(build([]int{0}, []slot{{t1, o1, n1}, {t2, o2, n2}}))
						}
					}
				}
			}
		}
	}
	// 3 and 4 records: bounded deviations from the base (all NS, owner U[1], target U[3])
	for n := 3; n <= 4; n++ {
		base := make([]slot, n)
		for i := range base {
			base[i] = slot{0, 1, 3}
		}
		var rec func(start, d int)
		rec = func(start, d int) {
			yield(build([]int{1}, append([]slot(nil), base...)))
			if d == dev {
				return
			}
			for i := start; i < 3*n; i++ {
				ri, fi := i/3, i%3
				lim := []int{len(types), len(U), len(U)}[fi]
				old := base[ri]
				for v := 0; v < lim; v++ {
					cur := []int{old.t, old.o, old.n}
					if cur[fi] == v {
						continue
					}
					cur[fi] = v
					base[ri] = slot{cur[0], cur[1], cur[2]}
					rec(i+1, d+1)
				}
				base[ri] = old
			}
		}
		rec(0, 0)
	}
}

// genOffsets: a filler record sized so that the next owner name starts at every offset lo..hi (around the
// 16384 pointer limit), followed by records that could point at it and at earlier names.
func genOffsets(lo, hi int, yield func(m *wire.Msg, nameAt int)) {
	for at := lo; at <= hi; at++ {
		for variant := 0; variant < 5; variant++ {
			m := &wire.Msg{ID: 3, Flags: 0x8400}
			m.Q = []wire.Question{{Name: msgNames[1], Type: 16, Class: 1}}
			// header 12 + question (len(name)+4); filler: owner root(1)+10 hdr + rdata
			qlen := wire_nameLen(msgNames[1]) + 4
			fillerHdr := 1 + 10
			rd := at - 12 - qlen - fillerHdr
			var filler wire.RR
			if variant == 0 || variant == 4 {
				filler = wire.RR{Name: nil, Type: 10, Class: 1, TTL: 1, Vals: []wire.Val{{B: bytes.Repeat([]byte{'f'}, rd)}}}
			} else {
				// TXT: chunks of 255+1
				var chunks [][]byte
				left := rd
				for left > 0 {
					c := 256
					if left < c {
						c = left
					}
					chunks = append(chunks, bytes.Repeat([]byte{'t'}, c-1))
					left -= c
				}
				filler = wire.RR{Name: nil, Type: 16, Class: 1, TTL: 1, Vals: []wire.Val{{L: chunks}}}
			}
			m.Sec[0] = []wire.RR{filler,
				mkRR(2, enum.L("late", "zone"), enum.L("ns", "late", "zone")),
				mkRR(15, enum.L("late", "zone"), enum.L("mx", "late", "zone")),
				mkRR(5, enum.L("w", "late", "zone"), msgNames[1])}
			if variant == 2 {
				m.Sec[1] = []wire.RR{mkRR(6, enum.L("zone"), enum.L("ns", "late", "zone"), enum.L("h", "ns", "late", "zone"))}
			}
			if variant >= 3 {
				// the late names carry octets that need escapes in their text *behind* their first labels (a dot inside a
				// label, a NUL, a backslash): text offsets and wire offsets of the label starts differ around the limit, and
				// the records behind own names that are suffixes of the first one
				esc := [][]byte{[]byte("z.z"), {0, 'q', '\\'}}
				if variant == 4 {
					esc = [][]byte{{'\\', '\\', '.'}, []byte("end")}
				}
				n1 := append([][]byte{[]byte("x"), []byte("yy")}, esc...)
				m.Sec[0] = []wire.RR{filler,
					mkRR(2, n1, append([][]byte{[]byte("ns")}, n1[1:]...)),
					mkRR(15, n1[1:], append([][]byte{[]byte("mx")}, n1[2:]...)),
					mkRR(5, append([][]byte{[]byte("w")}, n1[2:]...), n1)}
			}
			yield(m, at)
		}
	}
}

// genOffsetsTyped: like genOffsets, but the record that starts at the swept offset is one of every
// name-bearing type, its RDATA names carry a suffix not seen earlier in the message, and the records
// behind it own names below that suffix: whether those may be written as pointers depends on where
// exactly the RDATA names of the typed record stand relative to the 16384 pointer limit.
func genOffsetsTyped(lo, hi int, yield func(m *wire.Msg, nameAt int, t uint16)) {
	for _, t := range nameTypes() {
		for at := lo; at <= hi; at++ {
			m := &wire.Msg{ID: 3, Flags: 0x8400}
			m.Q = []wire.Question{{Name: msgNames[1], Type: 16, Class: 1}}
			qlen := wire_nameLen(msgNames[1]) + 4
			rd := at - 12 - qlen - (1 + 10)
			var chunks [][]byte
			for left := rd; left > 0; {
				c := 256
				if left < c {
					c = left
				}
				chunks = append(chunks, bytes.Repeat([]byte{'t'}, c-1))
				left -= c
			}
			filler := wire.RR{Name: nil, Type: 16, Class: 1, TTL: 1, Vals: []wire.Val{{L: chunks}}}
			m.Sec[0] = []wire.RR{filler,
				mkRR(t, enum.L("late", "zone"), enum.L("x", "fresh", "tld"), enum.L("y", "other", "tld")),
				mkRR(2, enum.L("fresh", "tld"), enum.L("q", "x", "fresh", "tld")),
				mkRR(15, enum.L("a", "x", "fresh", "tld"), enum.L("other", "tld")),
				mkRR(5, enum.L("w", "late", "zone"), enum.L("b", "y", "other", "tld"))}
			yield(m, at, t)
		}
	}
}

func wire_nameLen(l [][]byte) int {
	n := 1
	for _, x := range l {
		n += 1 + len(x)
	}
	return n
}

// genTails: names whose presentation form holds escapes, together with every name that is a tail of that
// presentation text cut at an arbitrary octet (what an offset computed in the wrong coordinate system — text
// instead of wire, a sub-slice instead of the string — would take for one of the name's suffixes).
func genTails(yield func(m *wire.Msg, what string)) {
	esc := [][][]byte{
		{[]byte("a.example")},
		{[]byte("first.last"), []byte("example"), []byte("org")},
		{{0, 'z', 200}, []byte("example")},
		{[]byte("a\\b.c"), []byte("d.e"), []byte("example")},
		{[]byte("www"), {'x', 200, '.', 'y'}, []byte("fresh"), []byte("zone")},
	}
	for _, e := range esc {
		text := bind.LibName(e)
		seen := map[string]bool{}
		for k := 1; k < len(text)-1; k++ {
			p := rn.Parse(text[k:])
			if !p.OK || !p.FQDN || p.Root || seen[string(rn.Wire(p.Labels))] {
				continue
			}
			seen[string(rn.Wire(p.Labels))] = true
			for _, tail := range [][][]byte{p.Labels, append([][]byte{[]byte("www")}, p.Labels...)} {
				what := fmt.Sprintf("%s with tail %q", text, bind.LibName(tail))
				m1 := &wire.Msg{ID: 7, Flags: 0x8400, Q: []wire.Question{{Name: e, Type: 2, Class: 1}}}
				m1.Sec[0] = []wire.RR{mkRR(2, tail, tail)}
				yield(m1, what+" (question, then NS tail → tail)")
				m2 := &wire.Msg{ID: 7, Flags: 0x8400, Q: []wire.Question{{Name: tail, Type: 6, Class: 1}}}
				m2.Sec[0] = []wire.RR{mkRR(6, e, e, e)}
				m2.Sec[1] = []wire.RR{mkRR(2, tail, e), mkRR(2, e, tail)}
				yield(m2, what+" (tail first, SOA with the name as owner, MNAME and RNAME, NS both ways)")
				m3 := &wire.Msg{ID: 7, Flags: 0x8400, Q: []wire.Question{{Name: enum.L("q"), Type: 17, Class: 1}}}
				m3.Sec[0] = []wire.RR{mkRR(17, enum.L("q"), e, e)}
				m3.Sec[1] = []wire.RR{mkRR(2, tail, tail), mkRR(15, tail, e)}
				yield(m3, what+" (the name only inside never-compressed RP RDATA, then NS and MX)")
			}
		}
	}
}
