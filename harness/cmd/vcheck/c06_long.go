package main

import (
	"bytes"
	"encoding/base64"
	"encoding/hex"
	"fmt"
	"strings"

	"github.com/miekg/dns"
	"verif/harness/fw"
)

// Long tokens: the lexer's token and comment buffers start at 512 octets and grow in steps of 512. A token that
// crosses a growth step, with a comment glued onto it, behind it, or carried along inside parentheses, must give
// the record it denotes (C06: comments, parentheses and blank space do not change the result).

type c06LongCase struct {
	kind string
	n    int
	head string // text before the long token
	tok  string // the long token (n octets)
	want []byte // the record's wire form
}

func c06WireName(labels ...string) []byte {
	var b []byte
	for _, l := range labels {
		b = append(b, byte(len(l)))
		b = append(b, l...)
	}
	return append(b, 0)
}

func c06RRWire(owner []byte, typ uint16, ttl uint32, rdata []byte) []byte {
	b := append([]byte(nil), owner...)
	b = append(b, byte(typ>>8), byte(typ), 0, 1, byte(ttl>>24), byte(ttl>>16), byte(ttl>>8), byte(ttl), byte(len(rdata)>>8), byte(len(rdata)))
	return append(b, rdata...)
}

// c06LongName builds a name whose presentation form is exactly n octets (n ≥ 6): labels of ≤ 63 octets written
// with \DDD escapes (4 characters an octet) and plain letters, ending in the root dot.
func c06LongName(n int) (text string, wire []byte, ok bool) {
	// n = 4·e + p + labels (one dot each), e escaped octets, p plain octets, e+p ≤ 63 per label, total wire ≤ 255
	var sb strings.Builder
	var labels []string
	left := n
	wireLen := 1
	for left > 0 {
		// fill one label: as many escaped octets as fit, then plain octets to land exactly
		if left < 2 {
			return "", nil, false
		}
		budget := left - 1 // the dot
		e := budget / 4
		if e > 63 {
			e = 63
		}
		p := 0
		if e < 63 {
			p = budget - 4*e
			if e+p > 63 {
				return "", nil, false
			}
		} else if budget-4*e < 2 && budget-4*e > 0 {
			// what is left behind this label could not form a label plus dot: make this one shorter
			e = 62
		}
		if e+p == 0 {
			return "", nil, false
		}
		lab := strings.Repeat("A", e) + strings.Repeat("b", p)
		sb.WriteString(strings.Repeat("\\065", e) + strings.Repeat("b", p) + ".")
		labels = append(labels, lab)
		wireLen += 1 + e + p
		left -= 4*e + p + 1
	}
	if wireLen > 255 || sb.Len() != n {
		return "", nil, false
	}
	return sb.String(), c06WireName(labels...), true
}

func c06LongCases(n int) []c06LongCase {
	var cs []c06LongCase
	ow := c06WireName("a")
	raw := func(k int) []byte {
		b := make([]byte, k)
		for i := range b {
			b[i] = byte(i*7 + 3)
		}
		return b
	}
	if n%4 == 0 && n > 0 {
		r := raw(n / 4 * 3)
		cs = append(cs, c06LongCase{"OPENPGPKEY-base64", n, "a. 5 IN OPENPGPKEY ", base64.StdEncoding.EncodeToString(r), c06RRWire(ow, 61, 5, r)})
	}
	if n%2 == 0 && n > 0 {
		r := raw(n / 2)
		cs = append(cs, c06LongCase{"DS-hex", n, "a. 5 IN DS 1 8 2 ", hex.EncodeToString(r), c06RRWire(ow, 43, 5, append([]byte{0, 1, 8, 2}, r...))})
		cs = append(cs, c06LongCase{"generic-hex", n, fmt.Sprintf("a. 5 IN TYPE65280 \\# %d ", n/2), hex.EncodeToString(r), c06RRWire(ow, 65280, 5, r)})
	}
	if t, w, ok := c06LongName(n); ok {
		cs = append(cs, c06LongCase{"NS-target", n, "a. 5 IN NS ", t, c06RRWire(ow, 2, 5, w)})
		cs = append(cs, c06LongCase{"owner", n, "", t, nil})
		cs[len(cs)-1].want = c06RRWire(w, 1, 5, []byte{192, 0, 2, 1})
	}
	if n >= 2 {
		// a quoted string of n-2 octets: TXT strings of 255 octets and the rest
		body := strings.Repeat("t", n-2)
		var rd []byte
		for s := body; ; {
			k := min(len(s), 255)
			rd = append(rd, byte(k))
			rd = append(rd, s[:k]...)
			s = s[k:]
			if len(s) == 0 {
				break
			}
		}
		if n > 2 {
			cs = append(cs, c06LongCase{"TXT-quoted", n, "a. 5 IN TXT ", `"` + body + `"`, c06RRWire(ow, 16, 5, rd)})
		}
	}
	return cs
}

var c06LongVariants = []struct {
	name string
	f    func(head, tok, tail string) string
}{
	{"plain", func(h, t, tl string) string { return h + t + tl + "\n" }},
	{"comment-glued", func(h, t, tl string) string { return h + t + ";c" + "\n" + c06After(tl) }},
	{"comment-after-blank", func(h, t, tl string) string { return h + t + " ;c" + "\n" + c06After(tl) }},
	{"long-comment-glued", func(h, t, tl string) string { return h + t + ";" + strings.Repeat("c", 600) + "\n" + c06After(tl) }},
	{"parens-comment-glued", func(h, t, tl string) string { return c06Paren(h, " ( ") + t + ";c\n )" + tl + "\n" }},
	{"parens-two-comments", func(h, t, tl string) string { return c06Paren(h, " ( ;first\n ") + t + ";c\n ) ;last" + tl + "\n" }},
	{"token-on-own-line", func(h, t, tl string) string { return c06Paren(h, " (\n\t") + t + "\n\t)" + tl + "\n" }},
}

// the owner case has the record's rest behind the token: a comment cannot sit between owner and rest outside
// parentheses, so for it the commented variants put the rest on the same line first
func c06After(tail string) string { return "" }

// c06Paren opens a parenthesis in front of the long token; for the owner case (empty head) the parenthesis can
// only open behind the owner, so the token stays first
func c06Paren(head, open string) string {
	if head == "" {
		return ""
	}
	return head + open
}

func c06LongSpace(c *fw.Ctx) {
	var ns []int
	if c.Thorough {
		for n := 1; n <= 2100; n++ {
			ns = append(ns, n)
		}
		for n := 4080; n <= 4110; n++ {
			ns = append(ns, n)
		}
	} else {
		for _, w := range [][2]int{{250, 262}, {500, 530}, {1012, 1040}, {1530, 1545}, {2040, 2056}} {
			for n := w[0]; n <= w[1]; n++ {
				ns = append(ns, n)
			}
		}
	}
	c.Space("long-tokens", fmt.Sprintf("one record whose last (or, for 'owner', first) token has n octets, n ∈ %s: base64 of OPENPGPKEY, hex of DS and of the RFC 3597 form, an NS target and an owner written with \\DDD escapes, a quoted TXT string (cut into 255-octet strings); × 7 renderings (plain; a comment glued onto the token; behind a blank; a 600-octet comment; inside parentheses with one and with two comments; alone on a continuation line): one record, no error, its wire form equals the octets written out by the harness; non-trivial: n ≥ 512", c06NsDesc(c.Thorough)), true,
		func(emit func(func(*fw.R))) {
			for _, n := range ns {
				n := n
				emit(func(r *fw.R) {
					if n >= 512 {
						r.Nontrivial()
					}
					for _, cs := range c06LongCases(n) {
						for _, v := range c06LongVariants {
							head, tail := cs.head, ""
							if cs.kind == "owner" {
								tail = " 5 IN A 192.0.2.1"
								if v.name != "plain" {
									// owner first: only the renderings that keep the rest of the record on the owner's line
									// make sense; write them with the comment at the end of the line
									switch v.name {
									case "comment-glued", "comment-after-blank", "long-comment-glued":
										text := cs.tok + tail + strings.TrimSuffix(v.f("", "", ""), "\n") + "\n"
										c06LongOne(r, cs, v.name, text)
									}
									continue
								}
							}
							c06LongOne(r, cs, v.name, v.f(head, cs.tok, tail))
						}
					}
				})
			}
		})
}

func c06NsDesc(thorough bool) string {
	if thorough {
		return "1..2100 and 4080..4110"
	}
	return "250..262, 500..530, 1012..1040, 1530..1545, 2040..2056"
}

func c06LongOne(r *fw.R, cs c06LongCase, variant, text string) {
	r.Count("texts_parsed", 1)
	zp := dns.NewZoneParser(strings.NewReader(text), ".", "long.zone")
	var got []dns.RR
	for rr, ok := zp.Next(); ok; rr, ok = zp.Next() {
		got = append(got, rr)
	}
	key := fmt.Sprintf("long-token/%s/%s", cs.kind, variant)
	show := func() string {
		if len(text) > 160 {
			return fmt.Sprintf("%q … %q (%d octets, token of %d)", text[:60], text[len(text)-80:], len(text), cs.n)
		}
		return fmt.Sprintf("%q", text)
	}
	if err := zp.Err(); err != nil {
		r.Fail(key, "n=%d: error %v for %s", cs.n, err, show())
		return
	}
	if len(got) != 1 {
		r.Fail(key, "n=%d: %d records for %s", cs.n, len(got), show())
		return
	}
	buf := make([]byte, len(cs.want)+300)
	off, err := dns.PackRR(got[0], buf, 0, nil, false)
	if err != nil || !bytes.Equal(buf[:off], cs.want) {
		r.Fail(key, "n=%d: the record read packs to (err %v)\n %x\nwritten out\n %x\nfor %s", cs.n, err, buf[:max(off, 0)], cs.want, show())
	}
}
