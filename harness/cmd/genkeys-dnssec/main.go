// genkeys-dnssec writes the fixed DNSSEC keys used by checks C10 and C17 into a directory (default
// /verif/keys) as dnssec-<name>.key (DNSKEY RR text) and dnssec-<name>.private (BIND v1.3 text).
// It uses only the Go standard library and ref/canon's own writers, not the library under test. It is run
// once; existing files are never overwritten, so the committed keys stay fixed.
package main

import (
	"crypto"
	"crypto/ecdsa"
	"crypto/ed25519"
	"crypto/elliptic"
	"crypto/rand"
	"crypto/rsa"
	"encoding/base64"
	"fmt"
	"os"
	"path/filepath"

	"verif/harness/ref/canon"
)

type spec struct {
	name  string
	alg   uint8
	bits  int
	flags uint16
	cond  string // "", "d0" (private scalar has a leading zero octet), "x0" (public X has a leading zero octet)
}

func main() {
	dir := "/verif/keys"
	if len(os.Args) > 1 {
		dir = os.Args[1]
	}
	os.MkdirAll(dir, 0o755)
	specs := []spec{
		{"rsasha1-1024", canon.AlgRSASHA1, 1024, 256, ""},
		{"rsasha1nsec3-1024", canon.AlgRSASHA1NSEC, 1024, 256, ""},
		{"rsasha256-1024", canon.AlgRSASHA256, 1024, 256, ""},
		{"rsasha512-1024", canon.AlgRSASHA512, 1024, 257, ""},
		{"rsasha1-2048", canon.AlgRSASHA1, 2048, 257, ""},
		{"rsasha256-2048", canon.AlgRSASHA256, 2048, 257, ""},
		{"rsasha512-2048", canon.AlgRSASHA512, 2048, 256, ""},
		{"ecdsap256", canon.AlgECDSAP256, 256, 257, ""},
		{"ecdsap256-d0", canon.AlgECDSAP256, 256, 256, "d0"},
		{"ecdsap256-x0", canon.AlgECDSAP256, 256, 256, "x0"},
		{"ecdsap384", canon.AlgECDSAP384, 384, 257, ""},
		{"ecdsap384-d0", canon.AlgECDSAP384, 384, 256, "d0"},
		{"ed25519", canon.AlgED25519, 256, 257, ""},
		// the largest modulus the library takes (512 octets)
		{"rsasha256-4096", canon.AlgRSASHA256, 4096, 257, ""},
	}
	for _, s := range specs {
		kf := filepath.Join(dir, "dnssec-"+s.name+".key")
		pf := filepath.Join(dir, "dnssec-"+s.name+".private")
		if _, err := os.Stat(kf); err == nil {
			fmt.Println("kept", kf)
			continue
		}
		priv := gen(s)
		pub, err := canon.EncodePublicKey(s.alg, canon.PublicOf(priv))
		must(err)
		txt, err := canon.FormatPrivateKey(s.alg, priv)
		must(err)
		rr := fmt.Sprintf("example.\t3600\tIN\tDNSKEY\t%d 3 %d %s\n", s.flags, s.alg, base64.StdEncoding.EncodeToString(pub))
		must(os.WriteFile(kf, []byte(rr), 0o644))
		must(os.WriteFile(pf, []byte(txt), 0o644))
		fmt.Println("wrote", kf)
	}
}

func gen(s spec) crypto.PrivateKey {
	switch s.alg {
	case canon.AlgRSASHA1, canon.AlgRSASHA1NSEC, canon.AlgRSASHA256, canon.AlgRSASHA512:
		k, err := rsa.GenerateKey(rand.Reader, s.bits)
		must(err)
		return k
	case canon.AlgECDSAP256, canon.AlgECDSAP384:
		c, sz := elliptic.P256(), 32
		if s.alg == canon.AlgECDSAP384 {
			c, sz = elliptic.P384(), 48
		}
		for {
			k, err := ecdsa.GenerateKey(c, rand.Reader)
			must(err)
			d0 := len(k.D.Bytes()) < sz
			x0 := len(k.X.Bytes()) < sz
			switch s.cond {
			case "d0":
				if !d0 {
					continue
				}
			case "x0":
				if !x0 {
					continue
				}
			default:
				if d0 || x0 || len(k.Y.Bytes()) < sz {
					continue
				}
			}
			return k
		}
	case canon.AlgED25519:
		_, k, err := ed25519.GenerateKey(rand.Reader)
		must(err)
		return k
	}
	panic("alg")
}

func must(err error) {
	if err != nil {
		fmt.Fprintln(os.Stderr, err)
		os.Exit(1)
	}
}
