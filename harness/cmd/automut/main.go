// automut enumerates first-order mutants of one Go source file (self-validation of the checks, DESIGN §10.6).
// usage: automut <file.go> <outdir> [stride] — writes <outdir>/<n>.go (full mutated file) and <outdir>/index.jsonl.
// Mutation operators (all purely textual at token offsets, the rest of the file stays byte-identical):
//
//	rel   relational operator moved to its neighbour (< <=, > >=, == !=)
//	lit   integer literal next to an arithmetic / relational operator or inside an index / slice: n -> n+1 (and n-1 in indices)
//	and   a && b -> a, -> b ;  or  a || b -> a, -> b
//	ifF   if cond -> if false && (cond)   (guard dropped) ; ifT  if cond -> if true || (cond)
//	del   expression statement, inc/dec statement or plain assignment deleted
//	clone cloneSlice(x) / copyNet-like helper -> x
package main

import (
	"encoding/json"
	"fmt"
	"go/ast"
	"go/parser"
	"go/token"
	"os"
	"path/filepath"
	"strconv"
)

type mut struct {
	Op         string `json:"op"`
	Line       int    `json:"line"`
	Func       string `json:"func"`
	Desc       string `json:"desc"`
	start, end int
	repl       string
}

func main() {
	file, out := os.Args[1], os.Args[2]
	stride := 1
	if len(os.Args) > 3 {
		stride, _ = strconv.Atoi(os.Args[3])
	}
	src, err := os.ReadFile(file)
	if err != nil {
		panic(err)
	}
	fs := token.NewFileSet()
	f, err := parser.ParseFile(fs, file, src, parser.ParseComments)
	if err != nil {
		panic(err)
	}
	off := func(p token.Pos) int { return fs.Position(p).Offset }
	text := func(n ast.Node) string { return string(src[off(n.Pos()):off(n.End())]) }
	var muts []mut
	curFunc := ""
	add := func(op string, at token.Pos, s, e int, repl, desc string) {
		muts = append(muts, mut{Op: op, Line: fs.Position(at).Line, Func: curFunc, Desc: desc, start: s, end: e, repl: repl})
	}
	relSwap := map[token.Token]string{token.LSS: "<=", token.LEQ: "<", token.GTR: ">=", token.GEQ: ">", token.EQL: "!=", token.NEQ: "=="}
	litMut := func(l *ast.BasicLit, ctx string, both bool) {
		if l.Kind != token.INT {
			return
		}
		n, err := strconv.ParseInt(l.Value, 0, 64)
		if err != nil {
			return
		}
		add("lit", l.Pos(), off(l.Pos()), off(l.End()), strconv.FormatInt(n+1, 10), fmt.Sprintf("%s: %s -> %d", ctx, l.Value, n+1))
		if both && n >= 1 {
			add("lit", l.Pos(), off(l.Pos()), off(l.End()), strconv.FormatInt(n-1, 10), fmt.Sprintf("%s: %s -> %d", ctx, l.Value, n-1))
		}
	}
	for _, d := range f.Decls {
		fd, ok := d.(*ast.FuncDecl)
		if !ok || fd.Body == nil {
			continue
		}
		curFunc = fd.Name.Name
		if fd.Recv != nil && len(fd.Recv.List) > 0 {
			curFunc = text(fd.Recv.List[0].Type) + "." + curFunc
		}
		ast.Inspect(fd.Body, func(n ast.Node) bool {
			switch x := n.(type) {
			case *ast.BinaryExpr:
				if r, ok := relSwap[x.Op]; ok {
					add("rel", x.OpPos, off(x.OpPos), off(x.OpPos)+len(x.Op.String()), r, fmt.Sprintf("%s  =>  %s", text(x), r))
				}
				switch x.Op {
				case token.LAND, token.LOR:
					op := "and"
					if x.Op == token.LOR {
						op = "or"
					}
					add(op, x.OpPos, off(x.Pos()), off(x.End()), text(x.X), fmt.Sprintf("%s  =>  lhs only", text(x)))
					add(op, x.OpPos, off(x.Pos()), off(x.End()), text(x.Y), fmt.Sprintf("%s  =>  rhs only", text(x)))
				case token.ADD, token.SUB, token.LSS, token.LEQ, token.GTR, token.GEQ, token.EQL, token.NEQ, token.SHL, token.SHR, token.AND, token.REM, token.QUO, token.MUL:
					if l, ok := x.Y.(*ast.BasicLit); ok {
						litMut(l, text(x), false)
					}
					if l, ok := x.X.(*ast.BasicLit); ok {
						litMut(l, text(x), false)
					}
				}
			case *ast.IndexExpr:
				if l, ok := x.Index.(*ast.BasicLit); ok {
					litMut(l, text(x), true)
				}
			case *ast.SliceExpr:
				for _, e := range []ast.Expr{x.Low, x.High, x.Max} {
					if l, ok := e.(*ast.BasicLit); ok {
						litMut(l, text(x), true)
					}
				}
			case *ast.IfStmt:
				c := text(x.Cond)
				add("ifF", x.Cond.Pos(), off(x.Cond.Pos()), off(x.Cond.End()), "false && ("+c+")", "guard never taken: if "+c)
				add("ifT", x.Cond.Pos(), off(x.Cond.Pos()), off(x.Cond.End()), "true || ("+c+")", "guard always taken: if "+c)
			case *ast.ExprStmt:
				add("del", x.Pos(), off(x.Pos()), off(x.End()), "", "statement deleted: "+text(x))
			case *ast.IncDecStmt:
				add("del", x.Pos(), off(x.Pos()), off(x.End()), "", "statement deleted: "+text(x))
			case *ast.AssignStmt:
				if x.Tok != token.DEFINE {
					add("del", x.Pos(), off(x.Pos()), off(x.End()), "", "statement deleted: "+text(x))
				}
			case *ast.CallExpr:
				if id, ok := x.Fun.(*ast.Ident); ok && len(x.Args) == 1 && (id.Name == "cloneSlice" || id.Name == "copyNet") {
					add("clone", x.Pos(), off(x.Pos()), off(x.End()), text(x.Args[0]), "no copy: "+text(x))
				}
			}
			return true
		})
	}
	os.MkdirAll(out, 0o755)
	idx, _ := os.Create(filepath.Join(out, "index.jsonl"))
	defer idx.Close()
	enc := json.NewEncoder(idx)
	n := 0
	for i, m := range muts {
		if i%stride != 0 {
			continue
		}
		if len(m.Desc) > 200 {
			m.Desc = m.Desc[:200]
		}
		b := append(append(append([]byte{}, src[:m.start]...), m.repl...), src[m.end:]...)
		name := fmt.Sprintf("%d.go", i)
		os.WriteFile(filepath.Join(out, name), b, 0o644)
		enc.Encode(map[string]any{"n": i, "file": filepath.Base(file), "op": m.Op, "line": m.Line, "func": m.Func, "desc": m.Desc})
		n++
	}
	fmt.Printf("%s: %d mutation sites, %d written\n", file, len(muts), n)
}
