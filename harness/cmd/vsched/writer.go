//go:build verif

package main

import (
	"net"

	"github.com/miekg/dns"
)

type recWriterE2 struct{}

func (recWriterE2) LocalAddr() net.Addr         { return &net.UDPAddr{} }
func (recWriterE2) RemoteAddr() net.Addr        { return &net.UDPAddr{} }
func (recWriterE2) WriteMsg(m *dns.Msg) error   { return nil }
func (recWriterE2) Write(b []byte) (int, error) { return len(b), nil }
func (recWriterE2) Close() error                { return nil }
func (recWriterE2) TsigStatus() error           { return nil }
func (recWriterE2) TsigTimersOnly(bool)         {}
func (recWriterE2) Hijack()                     {}
