//go:build verif

// vsched runs the controlled-scheduler checks (engine E2): the real server.go / serve_mux.go, rewritten at
// build time to run on package vsched, explored exhaustively up to a preemption bound.
package main

import (
	"fmt"
	"os"
	"strconv"
	"strings"

	"verif/harness/e2x"
	"verif/harness/fw"
)

func main() { fw.Main() }

// exploreSpace registers one fw space per scenario: the schedule tree is partitioned into subtrees
// (deterministically, two levels), each subtree is one case explored depth-first in one worker process.
func exploreSpace(c *fw.Ctx, prop string, sc *e2x.Scenario, bound int, maxExecPerPart int64, what string) {
	if b, err := strconv.Atoi(os.Getenv("VERIF_E2_BOUND")); err == nil {
		bound = b // calibration runs only (never set by a registered command)
	}
	rule := fmt.Sprintf("%s — all schedules with ≤ %d preemptions (stateless DFS over scheduling points of the real code; tree split into subtrees, one case each); non-trivial: executions that contain at least one preemption or end in a distinct outcome class are all counted as executions", what, bound)
	c.Space(sc.Name, rule, true, func(emit func(func(*fw.R))) {
		parts, internal := e2x.Partition(sc, bound, 2)
		if internal != "" {
			emit(func(r *fw.R) { r.Fail("internal/"+sc.Name, "partition: %s", internal) })
			return
		}
		for _, pt := range parts {
			pt := pt
			emit(func(r *fw.R) {
				st := e2x.NewStats()
				st.Tick = r.Alive
				e2x.ExplorePart(sc, pt, bound, st, maxExecPerPart)
				if st.Internal != "" {
					r.Fail("internal/"+sc.Name, "%s", st.Internal)
					return
				}
				r.Evals(st.Executions - 1)
				r.NontrivialN(st.Executions - 1)
				r.Nontrivial()
				r.Count("executions", st.Executions)
				r.Count("transitions", st.Transitions)
				r.Count("states", int64(len(st.States)))
				for o, n := range st.Outcomes {
					r.Count("outcome: "+o, n)
				}
				if st.Capped {
					r.Count("subtrees cut by the per-subtree execution cap", 1)
					r.NotExhaustive()
				}
				for _, v := range st.Violations {
					r.Fail(v.Key+"/"+sc.Name, "%s\nchoices: %v\nschedule:\n%s", v.Detail, v.Choices, v.Schedule)
				}
				r.Sample(func() any {
					return map[string]any{"scenario": sc.Name, "subtree_prefix": pt.Prefix, "leaf": pt.Leaf, "executions": st.Executions, "outcomes": keys(st.Outcomes), "first_schedule_of_this_subtree": st.FirstSchedule}
				})
			})
		}
	})
}

// exploreSpaceSleep: every interleaving (no preemption bound), one representative per class of executions that
// differ only in the order of independent transitions (sleep sets, e2x.ExploreSleep).
func exploreSpaceSleep(c *fw.Ctx, prop string, sc *e2x.Scenario, maxExecPerPart int64, what string) {
	name := sc.Name + "/all-interleavings"
	rule := fmt.Sprintf("%s — ALL schedules, no preemption bound: stateless DFS with sleep sets over the scheduling points of the real code, one representative of every class of executions that differ only in the order of independent transitions (independent = operations on different synchronisation / I/O objects, neither global, the executed one neither logging nor observing scheduler-wide state); tree split into subtrees, one case each; executions cut short because every enabled thread is asleep are counted as pruned, not judged", what)
	c.Space(name, rule, true, func(emit func(func(*fw.R))) {
		parts, internal := e2x.PartitionSleep(sc, 2)
		if internal != "" {
			emit(func(r *fw.R) { r.Fail("internal/"+name, "partition: %s", internal) })
			return
		}
		for _, pt := range parts {
			pt := pt
			emit(func(r *fw.R) {
				st := e2x.NewStats()
				st.Tick = r.Alive
				e2x.ExplorePartSleep(sc, pt, st, maxExecPerPart)
				if st.Internal != "" {
					r.Fail("internal/"+name, "%s", st.Internal)
					return
				}
				if st.Executions > 0 {
					r.Evals(st.Executions - 1)
					r.NontrivialN(st.Executions - 1)
				}
				r.Nontrivial()
				r.Count("executions", st.Executions)
				r.Count("executions pruned by sleep sets", st.Pruned)
				r.Count("transitions", st.Transitions)
				r.Count("states", int64(len(st.States)))
				for o, n := range st.Outcomes {
					r.Count("outcome: "+o, n)
				}
				if st.Capped {
					r.Count("subtrees cut by the per-subtree execution cap", 1)
					r.NotExhaustive()
				}
				for _, v := range st.Violations {
					r.Fail(v.Key+"/"+sc.Name, "%s\nchoices: %v\nschedule:\n%s", v.Detail, v.Choices, v.Schedule)
				}
				r.Sample(func() any {
					return map[string]any{"scenario": sc.Name, "subtree_prefix": pt.Prefix, "leaf": pt.Leaf, "executions": st.Executions, "outcomes": keys(st.Outcomes), "first_schedule_of_this_subtree": st.FirstSchedule}
				})
			})
		}
	})
}

func keys(m map[string]int64) []string {
	var k []string
	for s := range m {
		k = append(k, s)
	}
	return k
}

func has(log []string, s string) bool {
	for _, l := range log {
		if l == s {
			return true
		}
	}
	return false
}

func idx(log []string, s string) int {
	for i, l := range log {
		if l == s {
			return i
		}
	}
	return -1
}

func countPrefix(log []string, p string) int {
	n := 0
	for _, l := range log {
		if strings.HasPrefix(l, p) {
			n++
		}
	}
	return n
}
