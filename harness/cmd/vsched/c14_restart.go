package main

import (
	"fmt"

	"github.com/miekg/dns"
	"github.com/miekg/dns/verifshim/simnet"
	"github.com/miekg/dns/verifshim/vsched"
	"verif/harness/fw"
)

// Admission across lives of one Server value: a Server that has been started and shut down is started again on a
// fresh socket with another UDPSize. Every datagram that fits the UDPSize in force, passes the policy and decodes
// must reach the handler whole — whatever an earlier life left behind in the Server (receive buffers of the
// earlier size, for one).

var c14Sizes = []int{0, 512, 1232, 4096, 65535}

func c14Query(id uint16, size int) []byte {
	m := new(dns.Msg)
	m.SetQuestion("restart.example.", dns.TypeTXT)
	m.Id = id
	o := &dns.OPT{Hdr: dns.RR_Header{Name: ".", Rrtype: dns.TypeOPT, Class: 4096}}
	m.Extra = []dns.RR{o}
	base, _ := m.Pack()
	if size <= len(base)+4 {
		return base
	}
	o.Option = []dns.EDNS0{&dns.EDNS0_PADDING{Padding: make([]byte, size-len(base)-4)}}
	b, _ := m.Pack()
	return b
}

func c14RestartRun(size1, size2 int, lens []int) (seen []int, invalid int, bad string) {
	body := func() {
		srv := &dns.Server{}
		started := false
		srv.NotifyStartedFunc = func() { started = true }
		srv.MsgInvalidFunc = func(m []byte, err error) { invalid++ }
		srv.Handler = dns.HandlerFunc(func(w dns.ResponseWriter, q *dns.Msg) {
			seen = append(seen, q.Len())
			m := new(dns.Msg)
			m.SetReply(q)
			w.WriteMsg(m)
		})
		life := func(n, size int, pkts [][]byte) {
			pc := simnet.NewPacketConn(fmt.Sprintf("pc%d", n))
			srv.PacketConn = pc
			srv.UDPSize = size
			started = false
			ret := false
			vsched.GoNamed(fmt.Sprintf("serve%d", n), func() { srv.ActivateAndServe(); ret = true })
			vsched.Point("await-started", func() bool { return started })
			for _, p := range pkts {
				pc.Inject(p, "cl")
				vsched.AwaitQuiescence()
			}
			srv.Shutdown()
			vsched.Point("await-serve-return", func() bool { return ret })
		}
		life(1, size1, [][]byte{c14Query(1, 40), c14Query(2, 41)})
		seen, invalid = nil, 0
		var pk [][]byte
		for i, l := range lens {
			pk = append(pk, c14Query(uint16(10+i), l))
		}
		life(2, size2, pk)
	}
	x := vsched.Run(nil, body)
	switch {
	case x.Panic != "":
		bad = "panic: " + x.Panic
	case x.Deadlock:
		bad = fmt.Sprintf("deadlock: %v", x.Blocked)
	case x.Diverged != "":
		bad = x.Diverged
	}
	return
}

func c14RestartSpace(c *fw.Ctx) {
	c.Space("e2/admission/restart-sizes", fmt.Sprintf("one Server value, two lives (ActivateAndServe … Shutdown, then again on a fresh PacketConn) with UDPSize ∈ %v in each (0 = default 512): the first life serves two small queries, the second receives valid queries (question + OPT with padding) of L, 44 and L octets for each L ∈ {40, 512, 513, 1232, 1233, 4096, 65535} that fits its UDPSize (one run per L): each reaches the handler whole, none is reported invalid; non-trivial: the sizes differ", c14Sizes), true,
		func(emit func(func(*fw.R))) {
			for _, s1 := range c14Sizes {
				for _, s2 := range c14Sizes {
					s1, s2 := s1, s2
					emit(func(r *fw.R) {
						if s1 != s2 {
							r.Nontrivial()
						}
						eff := s2
						if eff == 0 {
							eff = dns.MinMsgSize
						}
						var lens []int
						for _, l := range []int{40, 512, 513, 1232, 1233, 4096, 65535} {
							if l <= eff {
								lens = append(lens, l)
							}
						}
						// what an earlier life leaves behind meets the first datagrams of the next: each length comes first once
						for _, first := range lens {
							order := []int{first, 40, first}
							seen, invalid, bad := c14RestartRun(s1, s2, order)
							if bad != "" {
								r.Fail("admission/restart/server-failed", "UDPSize %d then %d: %s", s1, s2, bad)
								return
							}
							r.Evals(1)
							if invalid != 0 || len(seen) != len(order) {
								r.Fail("admission/restart/valid-datagram-not-handled", "Server restarted with UDPSize %d after a life with UDPSize %d: %d valid queries of %v octets sent, the handler saw %d (lengths %v), %d were reported invalid", s2, s1, len(order), order, len(seen), seen, invalid)
								continue
							}
							for i := range order {
								if want := len(c14Query(uint16(10+i), order[i])); seen[i] != want {
									r.Fail("admission/restart/request-cut", "Server restarted with UDPSize %d after a life with UDPSize %d: the handler saw a request of %d octets for the datagram of %d", s2, s1, seen[i], want)
								}
							}
						}
					})
				}
			}
		})
}
