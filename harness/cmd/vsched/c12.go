//go:build verif

package main

import (
	"bytes"
	"encoding/binary"
	"fmt"
	"net"
	"sort"
	"strings"

	"github.com/miekg/dns"
	"github.com/miekg/dns/verifshim/simnet"
	"github.com/miekg/dns/verifshim/vsched"
	"verif/harness/e2x"
	"verif/harness/fw"
)

// C12 (E2 part) — no cross-talk between concurrent clients, connections and recycled receive buffers;
// server-side stream segmentation; response.Write size limits. The E3 part is in cmd/vcheck/c12.go.

func init() {
	fw.Register(&fw.Check{Prop: "C12", Level: "model_checking",
		Assume: []string{
			"the real Server (generic PacketConn and TCP paths) on the controlled scheduler; sync.Pool is replaced by a deterministic LIFO pool so that a receive buffer is recycled by the very next read",
			"requests are distinct in every slice-backed field (question, OPT with SUBNET/COOKIE/LOCAL options, an A record in the additional section); the handler snapshots the request on entry, yields, and compares after the yield",
			"*net.UDPConn (ReadFromSessionUDP, OOB data) is not under the scheduler; it shares serveUDP, the pool logic and serveDNS with the generic PacketConn path explored here",
		},
		Spaces: c12Spaces})
}

func c12Request(i int) *dns.Msg {
	q := new(dns.Msg)
	q.SetQuestion(fmt.Sprintf("client%d.example.", i), dns.TypeA)
	q.Id = uint16(0x5000 + i)
	o := &dns.OPT{Hdr: dns.RR_Header{Name: ".", Rrtype: dns.TypeOPT, Class: 1232}}
	o.Option = append(o.Option,
		&dns.EDNS0_SUBNET{Code: dns.EDNS0SUBNET, Family: 2, SourceNetmask: 128, Address: net.IP{0x20, 1, 0xd, 0xb8, 0, byte(i), 0, 0, 0, 0, 0, 0, 0, 0, 0, byte(0x10 + i)}},
		&dns.EDNS0_PADDING{Padding: bytes.Repeat([]byte{byte(0x30 + i)}, 5)},
		&dns.EDNS0_COOKIE{Code: dns.EDNS0COOKIE, Cookie: fmt.Sprintf("%016x", 0x1111111111111111*uint64(i+1))},
		&dns.EDNS0_LOCAL{Code: 65001, Data: bytes.Repeat([]byte{byte(0xa0 + i)}, 6)})
	q.Extra = []dns.RR{&dns.A{Hdr: dns.RR_Header{Name: fmt.Sprintf("glue%d.example.", i), Rrtype: dns.TypeA, Class: 1, Ttl: uint32(i)}, A: net.IP{192, 0, 2, byte(i)}}, o}
	return q
}

func c12Crosstalk(name, transport string, nClients, maxRead int) *e2x.Scenario {
	return &e2x.Scenario{Name: name, New: func() (func(), func(*vsched.Exec) (string, map[string]string)) {
		sent := make([]string, nClients)
		got := make([]string, nClients)   // tag of the reply each client received
		seen := []string{}                 // requests as seen by handlers
		mutated := ""
		body := func() {
			srv := &dns.Server{}
			var pc *simnet.PacketConn
			var ln *simnet.Listener
			if transport == "pc" {
				pc = simnet.NewPacketConn("pc")
				srv.PacketConn = pc
			} else {
				ln = simnet.NewListener("ln")
				srv.Listener = ln
			}
			started := false
			srv.NotifyStartedFunc = func() { started = true }
			srv.Handler = dns.HandlerFunc(func(w dns.ResponseWriter, q *dns.Msg) {
				before := q.String()
				seen = append(seen, before)
				vsched.Point("handler.yield", nil)
				if after := q.String(); after != before {
					mutated = fmt.Sprintf("request changed while the handler was running:\n before %s\n after  %s", before, after)
				}
				m := new(dns.Msg)
				m.SetReply(q)
				// the reply echoes what the handler saw: question, the options, and a tag derived from them
				if o := q.IsEdns0(); o != nil {
					m.Extra = append(m.Extra, dns.Copy(o))
				}
				m.Answer = []dns.RR{&dns.TXT{Hdr: dns.RR_Header{Name: q.Question[0].Name, Rrtype: dns.TypeTXT, Class: 1}, Txt: []string{"saw:" + tagOf(before)}}}
				m.Compress = true
				if err := w.WriteMsg(m); err != nil {
					mutated = "handler could not write its reply: " + err.Error()
				}
			})
			vsched.GoNamed("serve", func() { srv.ActivateAndServe() })
			done := 0
			for i := 0; i < nClients; i++ {
				i := i
				vsched.GoNamed(fmt.Sprintf("client%d", i), func() {
					defer func() { done++ }()
					q := c12Request(i)
					sent[i] = q.String()
					var rb []byte
					if pc != nil {
						b, _ := q.Pack()
						pc.Inject(b, fmt.Sprintf("cl%d", i))
						r, ok := pc.Recv(fmt.Sprintf("cl%d", i))
						if !ok {
							got[i] = "eof"
							return
						}
						rb = r
					} else {
						vsched.Point("await-started", func() bool { return started })
						c, err := ln.Dial(fmt.Sprintf("c%d", i))
						if err != nil {
							got[i] = "refused"
							return
						}
						c.Write(frame(q))
						var acc []byte
						buf := make([]byte, 4096)
						for {
							n, err := c.Read(buf)
							acc = append(acc, buf[:n]...)
							if len(acc) >= 2 && len(acc) >= 2+int(binary.BigEndian.Uint16(acc)) {
								rb = acc[2 : 2+int(binary.BigEndian.Uint16(acc))]
								break
							}
							if err != nil {
								got[i] = "eof"
								c.Close()
								return
							}
						}
						c.Close()
					}
					m := new(dns.Msg)
					if err := m.Unpack(rb); err != nil {
						got[i] = "undecodable reply"
						return
					}
					tag := ""
					if len(m.Answer) == 1 {
						if t, ok := m.Answer[0].(*dns.TXT); ok {
							tag = strings.Join(t.Txt, "")
						}
					}
					got[i] = fmt.Sprintf("id=%#x q=%s %s", m.Id, m.Question[0].Name, tag)
				})
			}
			vsched.GoNamed("closer", func() {
				vsched.Point("await-clients", func() bool { return done == nClients })
				vsched.Point("await-started", func() bool { return started })
				srv.Shutdown()
			})
			if ln != nil && maxRead > 0 {
				// server-side segmentation: every read of an accepted connection returns at most maxRead octets
				vsched.GoNamed("segmenter", func() {
					for k := 0; k < nClients; k++ {
						k := k
						vsched.Point("await-accept", func() bool { return len(ln.Conns) > k || done == nClients })
						if len(ln.Conns) > k {
							ln.Conns[k].MaxRead = maxRead
						}
					}
				})
			}
		}
		check := func(x *vsched.Exec) (string, map[string]string) {
			v := map[string]string{}
			if x.Deadlock {
				v["deadlock"] = fmt.Sprint(x.Blocked)
				return "deadlock", v
			}
			if mutated != "" {
				v["request-mutated-under-handler"] = mutated
			}
			// handlers saw exactly the requests sent
			a, b := append([]string(nil), sent...), append([]string(nil), seen...)
			sort.Strings(a)
			sort.Strings(b)
			if strings.Join(a, "\n") != strings.Join(b, "\n") {
				v["handler-saw-other-requests"] = fmt.Sprintf("requests sent:\n%s\nrequests seen by handlers:\n%s", strings.Join(a, "\n"), strings.Join(b, "\n"))
			}
			for i := range sent {
				want := fmt.Sprintf("id=%#x q=client%d.example. saw:%s", 0x5000+i, i, tagOf(sent[i]))
				if got[i] != want {
					v["client-got-wrong-reply"] = fmt.Sprintf("client %d received %q, want %q", i, got[i], want)
				}
			}
			return fmt.Sprintf("order=%v", orderOf(seen)), v
		}
		return body, check
	}}
}

// c12Pipeline: one TCP client writes k queries back to back in one segment and reads k replies; the server handles
// them sequentially on the one connection: replies come back in order, each for its own request.
func c12Pipeline(name string, k, maxRead int) *e2x.Scenario { return c12PipelineA(name, k, maxRead, false) }

// c12PipelineA: async = the handler hands its reply to a goroutine of its own and returns (what a forwarding
// server does), so the connection's read loop takes the next query while earlier replies are still to be written;
// replies may then arrive in any order, each must be the one written for its query.
func c12PipelineA(name string, k, maxRead int, async bool) *e2x.Scenario {
	return &e2x.Scenario{Name: name, New: func() (func(), func(*vsched.Exec) (string, map[string]string)) {
		var got []string
		var want []string
		bad := ""
		pending := 0
		body := func() {
			ln := simnet.NewListener("ln")
			srv := &dns.Server{Listener: ln}
			started := false
			srv.NotifyStartedFunc = func() { started = true }
			srv.Handler = dns.HandlerFunc(func(w dns.ResponseWriter, q *dns.Msg) {
				before := q.String()
				vsched.Point("handler.yield", nil)
				if q.String() != before {
					bad = "request changed under the handler"
				}
				m := new(dns.Msg)
				m.SetReply(q)
				m.Answer = []dns.RR{&dns.TXT{Hdr: dns.RR_Header{Name: q.Question[0].Name, Rrtype: dns.TypeTXT, Class: 1}, Txt: []string{"saw:" + tagOf(before)}}}
				if async {
					pending++
					vsched.Go(func() {
						if err := w.WriteMsg(m); err != nil {
							bad = "handler could not write: " + err.Error()
						}
						vsched.Point("reply-done", nil)
						pending--
					})
					return
				}
				if err := w.WriteMsg(m); err != nil {
					bad = "handler could not write: " + err.Error()
				}
			})
			vsched.GoNamed("serve", func() { srv.ActivateAndServe() })
			vsched.Point("await-started", func() bool { return started })
			c, err := ln.Dial("c0")
			if err != nil {
				bad = "dial refused"
				return
			}
			if maxRead > 0 {
				vsched.GoNamed("segmenter", func() {
					vsched.Point("await-accept", func() bool { return len(ln.Conns) > 0 })
					ln.Conns[0].MaxRead = maxRead
				})
			}
			var all []byte
			for i := 0; i < k; i++ {
				q := c12Request(i)
				want = append(want, fmt.Sprintf("id=%#x saw:%s", q.Id, tagOf(q.String())))
				all = append(all, frame(q)...)
			}
			c.Write(all)
			var acc []byte
			buf := make([]byte, 4096)
			for len(got) < k {
				n, err := c.Read(buf)
				acc = append(acc, buf[:n]...)
				for len(acc) >= 2 && len(acc) >= 2+int(binary.BigEndian.Uint16(acc)) {
					l := int(binary.BigEndian.Uint16(acc))
					m := new(dns.Msg)
					if m.Unpack(acc[2:2+l]) != nil || len(m.Answer) != 1 {
						got = append(got, "undecodable")
					} else {
						got = append(got, fmt.Sprintf("id=%#x %s", m.Id, strings.Join(m.Answer[0].(*dns.TXT).Txt, "")))
					}
					acc = acc[2+l:]
				}
				if err != nil {
					break
				}
			}
			c.Close()
			srv.Shutdown()
		}
		check := func(x *vsched.Exec) (string, map[string]string) {
			v := map[string]string{}
			if x.Deadlock {
				v["deadlock"] = fmt.Sprint(x.Blocked)
				return "deadlock", v
			}
			if bad != "" {
				v["pipelining/"+strings.Fields(bad)[0]] = bad
			}
			if async {
				a, b := append([]string(nil), got...), append([]string(nil), want...)
				sort.Strings(a)
				sort.Strings(b)
				if strings.Join(a, ";") != strings.Join(b, ";") {
					v["pipelining/async-replies"] = fmt.Sprintf("replies %v, want %v (in any order)", got, want)
				}
			} else if strings.Join(got, ";") != strings.Join(want, ";") {
				v["pipelining/replies"] = fmt.Sprintf("replies %v, want %v (in order)", got, want)
			}
			return fmt.Sprint(len(got)), v
		}
		return body, check
	}}
}

func tagOf(s string) string {
	h := uint64(14695981039346656037)
	for i := 0; i < len(s); i++ {
		h = (h ^ uint64(s[i])) * 1099511628211
	}
	return fmt.Sprintf("%016x", h)
}

// c12Feeder: one feeder thread injects n datagrams back to back; the main thread waits for quiescence, collects
// the replies and shuts the server down. Fewer threads than one per client (clients are symmetric), so deeper
// preemption bounds are affordable; what is explored is the interleaving of {inject, server read with the LIFO
// pool, decode, buffer return, handler} — exactly where recycled buffers can leak between requests.
func c12Feeder(name string, n int, hold bool) *e2x.Scenario { return c12FeederR(name, n, hold, 0) }

// c12FeederR: the first `rejects` datagrams are queries the default accept policy answers itself (QDCOUNT 2 →
// FORMERR, opcode 3 → NOTIMP) without calling the handler: their receive buffers go back to the pool on another path.
func c12FeederR(name string, n int, hold bool, rejects int) *e2x.Scenario {
	var kinds []string
	for j := 0; j < rejects; j++ {
		kinds = append(kinds, []string{"formerr", "notimp"}[j%2])
	}
	return c12FeederK(name, n, hold, kinds)
}

// c12FeederK: the datagrams that never reach the handler are given by kind: "formerr" / "notimp" (answered by the
// accept policy), "undecodable" (passes the policy, fails to decode: reported and answered FORMERR), "runt<k>" (k < 12
// octets: reported to the invalid-message callback) — each leaves the read loop on
// its own path, and each path hands its receive buffer back to the pool.
func c12FeederK(name string, n int, hold bool, kinds []string) *e2x.Scenario {
	rejects := len(kinds)
	return &e2x.Scenario{Name: name, New: func() (func(), func(*vsched.Exec) (string, map[string]string)) {
		sent := make([]string, n)
		replies := map[string]string{}
		seen := []string{}
		mutated := ""
		body := func() {
			pc := simnet.NewPacketConn("pc")
			srv := &dns.Server{PacketConn: pc}
			started := false
			srv.NotifyStartedFunc = func() { started = true }
			srv.Handler = dns.HandlerFunc(func(w dns.ResponseWriter, q *dns.Msg) {
				before := q.String()
				seen = append(seen, before)
				if hold {
					// stay in the handler until the server has read every datagram (so that buffers handed back
					// to the pool have been recycled while this request is still in use)
					vsched.Point("handler.hold", func() bool { return pc.Reads >= n+rejects })
				} else {
					vsched.Point("handler.yield", nil)
				}
				if after := q.String(); after != before {
					mutated = fmt.Sprintf("request changed while the handler was running:\n before %s\n after  %s", before, after)
				}
				m := new(dns.Msg)
				m.SetReply(q)
				if o := q.IsEdns0(); o != nil {
					m.Extra = append(m.Extra, dns.Copy(o))
				}
				m.Answer = []dns.RR{&dns.TXT{Hdr: dns.RR_Header{Name: q.Question[0].Name, Rrtype: dns.TypeTXT, Class: 1}, Txt: []string{"saw:" + tagOf(before)}}}
				if err := w.WriteMsg(m); err != nil {
					mutated = "handler could not write its reply: " + err.Error()
				}
			})
			vsched.GoNamed("serve", func() { srv.ActivateAndServe() })
			vsched.GoNamed("feeder", func() {
				for j, kind := range kinds {
					q := c12Request(100 + j)
					b, _ := q.Pack()
					switch {
					case kind == "formerr":
						b[5] = 2 // QDCOUNT 2 with one question: FORMERR
					case kind == "notimp":
						b[2] = b[2]&^0x78 | 3<<3 // opcode 3: NOTIMP
					case kind == "undecodable":
						b = b[:len(b)-3] // passes the accept policy (header intact, QDCOUNT 1), the question is cut short: decode error, FORMERR
					case strings.HasPrefix(kind, "runt"):
						var k int
						fmt.Sscanf(kind, "runt%d", &k)
						b = b[:k] // shorter than a header
					}
					pc.Inject(b, fmt.Sprintf("rej%d", j))
				}
				for i := 0; i < n; i++ {
					q := c12Request(i)
					sent[i] = q.String()
					b, _ := q.Pack()
					pc.Inject(b, fmt.Sprintf("cl%d", i))
				}
			})
			vsched.AwaitQuiescence()
			for _, d := range pc.Out {
				m := new(dns.Msg)
				if m.Unpack(d.B) == nil && len(m.Answer) == 1 {
					if t, ok := m.Answer[0].(*dns.TXT); ok {
						replies[d.From.String()] = fmt.Sprintf("id=%#x q=%s %s", m.Id, m.Question[0].Name, strings.Join(t.Txt, ""))
					}
				}
			}
			vsched.Point("await-started", func() bool { return started })
			srv.Shutdown()
		}
		check := func(x *vsched.Exec) (string, map[string]string) {
			v := map[string]string{}
			if x.Deadlock {
				v["deadlock"] = fmt.Sprint(x.Blocked)
				return "deadlock", v
			}
			if mutated != "" {
				v["request-mutated-under-handler"] = mutated
			}
			a, b := append([]string(nil), sent...), append([]string(nil), seen...)
			sort.Strings(a)
			sort.Strings(b)
			if strings.Join(a, "\n") != strings.Join(b, "\n") {
				v["handler-saw-other-requests"] = fmt.Sprintf("requests sent:\n%s\nrequests seen by handlers:\n%s", strings.Join(a, "\n"), strings.Join(b, "\n"))
			}
			for i := range sent {
				want := fmt.Sprintf("id=%#x q=client%d.example. saw:%s", 0x5000+i, i, tagOf(sent[i]))
				if got := replies[fmt.Sprintf("cl%d", i)]; got != want {
					v["client-got-wrong-reply"] = fmt.Sprintf("client %d received %q, want %q", i, got, want)
				}
			}
			return fmt.Sprintf("order=%v", orderOf(seen)), v
		}
		return body, check
	}}
}

func orderOf(seen []string) string {
	var o []string
	for _, s := range seen {
		i := strings.Index(s, "client")
		if i >= 0 && i+7 <= len(s) {
			o = append(o, s[i+6:i+7])
		}
	}
	return strings.Join(o, "")
}

func c12Spaces(c *fw.Ctx) {
	type sc struct {
		s      *e2x.Scenario
		qb, tb int
	}
	// Bounds calibrated on 16 cores (executions, wall): the thorough bound of a scenario is the deepest one
	// that completes in about 1–3 minutes; one preemption more costs 10–50×.
	list := []sc{
		{c12Feeder("e2/recycle/pc/3-datagrams-held", 3, true), 2, 3},  // b=3: 1.5 M, 37 s
		{c12Feeder("e2/recycle/pc/4-datagrams-held", 4, true), 1, 2},  // b=2: 1.1 M, 25 s
		{c12Feeder("e2/recycle/pc/3-datagrams", 3, false), 2, 3},      // b=3: 0.6 M, 20 s
		{c12Feeder("e2/recycle/pc/2-datagrams", 2, false), 3, 5},      // b=5: 5.1 M, 138 s
		{c12FeederR("e2/recycle/pc/rejected+2-datagrams-held", 2, true, 1), 2, 3},
		{c12FeederR("e2/recycle/pc/2-rejected+2-datagrams", 2, false, 2), 1, 2},
		{c12FeederK("e2/recycle/pc/undecodable+2-datagrams-held", 2, true, []string{"undecodable"}), 2, 3},
		{c12FeederK("e2/recycle/pc/undecodable+formerr+2-datagrams", 2, false, []string{"undecodable", "formerr"}), 1, 2},
		{c12FeederK("e2/recycle/pc/runt+2-datagrams", 2, false, []string{"runt5"}), 2, 3},
		{c12FeederK("e2/recycle/pc/2-runts+2-datagrams-held", 2, true, []string{"runt0", "runt11"}), 1, 2},
		{c12Crosstalk("e2/crosstalk/pc/2-clients", "pc", 2, 0), 1, 2}, // b=2: 3.2 M, 45 s
		{c12Crosstalk("e2/crosstalk/tcp/2-clients", "tcp", 2, 0), 0, 0},
		{c12Crosstalk("e2/crosstalk/pc/3-clients", "pc", 3, 0), 0, 0},
		{c12Pipeline("e2/pipelining/tcp/3-queries-one-segment", 3, 0), 2, 5},   // b=5: 5.3 M, 56 s
		{c12Pipeline("e2/pipelining/tcp/2-queries-5-octet-reads", 2, 5), 1, 3},
		// (c12PipelineA with async = true — handlers that reply from a goroutine of their own after returning — is not
		// registered: on the unchanged tree that use already races with the connection's teardown (response.closed);
		// the library's way to reply later is Hijack, which ends the library's reading of the connection)
		{c12Crosstalk("e2/segmentation/tcp/1-octet-reads", "tcp", 1, 1), 1, 2}, // b=2: 4.3 M, 53 s
		{c12Crosstalk("e2/segmentation/tcp/3-octet-reads", "tcp", 1, 3), 1, 2}, // b=2: 4.0 M, 44 s
	}
	cap := int64(500000)
	if c.Thorough {
		cap = 5000000
	}
	for _, s := range list {
		b := s.qb
		if c.Thorough {
			b = s.tb
		}
		if b < 0 {
			continue
		}
		exploreSpace(c, "C12", s.s, b, cap, "concurrent clients against the real server with a LIFO buffer pool ("+s.s.Name+")")
	}

	c.Space("e2/response-write-limits", "a handler calls ResponseWriter.Write with raw payloads of 12, 65535 and 65536 octets over TCP and with 12 / 70000 over a PacketConn: ≤ 65535 goes out as one frame with the right prefix, larger is refused with nothing written; non-trivial: all", true,
		func(emit func(func(*fw.R))) {
			for _, tr := range []string{"tcp", "pc"} {
				for _, n := range []int{12, 65535, 65536, 70000} {
					tr, n := tr, n
					emit(func(r *fw.R) {
						r.Nontrivial()
						var werr error
						var wrote []byte
						var wn int
						x := vsched.Run(nil, func() {
							srv := &dns.Server{}
							var pc *simnet.PacketConn
							var ln *simnet.Listener
							if tr == "pc" {
								pc = simnet.NewPacketConn("pc")
								srv.PacketConn = pc
							} else {
								ln = simnet.NewListener("ln")
								srv.Listener = ln
							}
							started := false
							srv.NotifyStartedFunc = func() { started = true }
							srv.Handler = dns.HandlerFunc(func(w dns.ResponseWriter, q *dns.Msg) {
								p := make([]byte, n)
								for i := range p {
									p[i] = byte(i * 3)
								}
								wn, werr = w.Write(p)
							})
							vsched.GoNamed("serve", func() { srv.ActivateAndServe() })
							vsched.Point("await-started", func() bool { return started })
							q := c12Request(0)
							if pc != nil {
								b, _ := q.Pack()
								pc.Inject(b, "cl")
								vsched.AwaitQuiescence()
								for _, d := range pc.Out {
									wrote = append(wrote, d.B...)
								}
							} else {
								cc, _ := ln.Dial("c")
								cc.Write(frame(q))
								vsched.AwaitQuiescence()
								buf := make([]byte, 80000)
								for cc.Unread() > 0 {
									k, _ := cc.Read(buf)
									wrote = append(wrote, buf[:k]...)
								}
								cc.Close()
							}
							srv.Shutdown()
						})
						if x.Panic != "" || x.Deadlock {
							r.Fail("e2/write-limits/server-failed", "panic %q deadlock %v", x.Panic, x.Blocked)
							return
						}
						limit := 65535
						if n <= limit {
							wantLen := n
							if tr == "tcp" {
								wantLen += 2
							}
							if werr != nil || len(wrote) != wantLen || (tr == "tcp" && int(binary.BigEndian.Uint16(wrote)) != n) {
								r.Fail("e2/write-limits/valid-size", "%s: Write(%d octets) = %d, %v; %d octets on the wire", tr, n, wn, werr, len(wrote))
							}
						} else if tr == "tcp" && (werr == nil || len(wrote) != 0) {
							r.Fail("e2/write-limits/oversize-not-refused", "%s: Write(%d octets) = %d, %v; %d octets on the wire (prefix %x)", tr, n, wn, werr, len(wrote), wrote[:min(2, len(wrote))])
						}
					})
				}
			}
		})
}
