//go:build verif

package main

import (
	"reflect"
	"context"
	"os"
	"crypto/tls"
	"encoding/binary"
	"fmt"
	"net"
	"regexp"
	"sort"
	"strings"
	"time"

	"github.com/miekg/dns"
	"github.com/miekg/dns/verifshim/simnet"
	"github.com/miekg/dns/verifshim/vsched"
	"verif/harness/e2x"
	"verif/harness/fw"
)

// C13 — server start / shutdown (DESIGN §5 C13).

func init() {
	fw.Register(&fw.Check{Prop: "C13", Level: "model_checking",
		Assume: []string{
			"the real server.go runs on a cooperative scheduler; scheduling points = every operation on RWMutex/WaitGroup/Once/Pool, channel close/select, goroutine spawn/exit and every method of the simulated net.Listener/Conn/PacketConn",
			"time model: a read deadline before harness start (aLongTimeAgo) is expired, any later deadline is pending and never fires by itself: read/idle time-outs are configuration and may be arbitrarily long, so a Shutdown that can only finish because one expires shows up as a deadlock",
			"races: vector-clock happens-before check on instrumented reads/writes of Server/response fields inside every explored schedule (a cooperative scheduler blinds -race)",
			"not under the scheduler: *net.UDPConn (ReadFromSessionUDP) and crypto/tls connections",
		},
		Spaces: c13Spaces})
}

// threads spawned by the library itself (through the rewritten go statements) are named t<N>
var libThread = regexp.MustCompile(`^t[0-9]+@`)

type hctx struct {
	done chan struct{}
}

func (h *hctx) Deadline() (time.Time, bool) { return time.Time{}, false }
func (h *hctx) Done() <-chan struct{}       { return h.done }
func (h *hctx) Err() error {
	select {
	case <-h.done:
		return context.Canceled
	default:
		return nil
	}
}
func (h *hctx) Value(any) any { return nil }

func frame(m *dns.Msg) []byte {
	b, _ := m.Pack()
	return append([]byte{byte(len(b) >> 8), byte(len(b))}, b...)
}

// tcpClient: connect, send one framed query (optionally only half of it / nothing), wait for the reply or EOF, close.
func tcpClient(ln *simnet.Listener, i int, mode string) {
	name := fmt.Sprintf("c%d", i)
	c, err := ln.Dial(name)
	if err != nil {
		vsched.Logf("%s refused", name)
		return
	}
	q := new(dns.Msg)
	q.SetQuestion(fmt.Sprintf("q%d.example.", i), dns.TypeA)
	q.Id = uint16(100 + i)
	fr := frame(q)
	switch mode {
	case "silent":
	case "half":
		c.Write(fr[:len(fr)/2])
	default:
		c.Write(fr)
	}
	// read the reply
	var got []byte
	buf := make([]byte, 512)
	for {
		n, err := c.Read(buf)
		got = append(got, buf[:n]...)
		if len(got) >= 2 && len(got) >= 2+int(binary.BigEndian.Uint16(got)) {
			m := new(dns.Msg)
			if m.Unpack(got[2:2+int(binary.BigEndian.Uint16(got))]) == nil {
				vsched.Logf("%s reply id=%d", name, m.Id)
			}
			break
		}
		if err != nil {
			vsched.Logf("%s eof", name)
			break
		}
	}
	c.Close()
}

func udpClient(pc *simnet.PacketConn, i int) {
	name := fmt.Sprintf("c%d", i)
	q := new(dns.Msg)
	q.SetQuestion(fmt.Sprintf("q%d.example.", i), dns.TypeA)
	q.Id = uint16(100 + i)
	b, _ := q.Pack()
	pc.Inject(b, name)
	if r, ok := pc.Recv(name); ok {
		m := new(dns.Msg)
		if m.Unpack(r) == nil {
			vsched.Logf("%s reply id=%d", name, m.Id)
		}
	} else {
		vsched.Logf("%s eof", name)
	}
}

type c13Opt struct {
	transport string   // "tcp" | "pc"
	clients   []string // per client: "full" | "silent" | "half"
	blockHandler bool  // S2: handler waits for release; ShutdownContext with a context the environment cancels
	secondStart  bool  // S3
	secondShutdown bool
	fireDeadline   bool // S4: an environment thread lets one pending read deadline expire at any point
	badReader      bool // S5: DecorateReader returns a Reader without ReadPacketConn: the serve call fails at once
	ownCloseErr    bool // the listener's Accept reports its closing with an error of its own (as wrapping listeners do), not net.ErrClosed
	restart        bool // S9: the Server value has been through a complete start / Shutdown cycle before the scenario proper
	both           bool // S8: the Server holds a PacketConn and a Listener
	handlerCloses  bool // S7: the handler closes the connection through ResponseWriter.Close after (or instead of) its reply
	maxQueries     int  // Server.MaxTCPQueries (0: the default; -1: no limit — another arm of the per-connection loop condition)
	hijack         bool // S10: the handler takes the connection over (ResponseWriter.Hijack) after its reply; it is no longer the server's
}

// plainReader hides the PacketConnReader half of the default reader.
type plainReader struct{ r dns.Reader }

func (p plainReader) ReadTCP(c net.Conn, t time.Duration) ([]byte, error) { return p.r.ReadTCP(c, t) }
func (p plainReader) ReadUDP(c *net.UDPConn, t time.Duration) ([]byte, *dns.SessionUDP, error) {
	return p.r.ReadUDP(c, t)
}

func c13Scenario(name string, o c13Opt) *e2x.Scenario {
	classify := func(x *vsched.Exec, viol map[string]string) map[string]string {
		// A second ActivateAndServe racing with a Shutdown is either refused, or admitted once the first run has
		// drained (then it is a new life of the Server, and what the one Shutdown of the scenario owes concerns the
		// first run only). One root cause gets one key: a second start admitted while the first run is still winding
		// down re-initialises the Server under it — goroutines of the first run alive when the second announces itself
		// ("overlap"), double close of srv.shutdown (panic), unsynchronised access to it, Shutdown waiting on the
		// wrong channel. Executions in which one of the two starts was refused keep their ordinary keys.
		if !o.secondStart {
			return viol
		}
		refused := 0
		for _, l := range x.Log {
			if strings.HasSuffix(l, "-returned dns: server already started") || strings.HasSuffix(l, "-returned dns: server still shutting down") {
				refused++
			}
		}
		if refused > 0 {
			return viol
		}
		// both admitted: the relations between "Shutdown returned" and handlers / goroutines / connections cannot be
		// attributed to a run from the log (they are judged in every execution with one admitted start, and in the S9
		// scenarios for a second life); everything else stays
		hard := map[string]string{}
		for k, v := range viol {
			switch k {
			case "goroutine-alive-after-shutdown", "handler-started-after-shutdown-returned", "shutdown-returned-before-handler-exit", "connection-open-after-shutdown", "connection-tracked-after-shutdown", "reply-lost":
			default:
				hard[k] = v
			}
		}
		if len(hard) == 0 {
			return hard
		}
		var ks []string
		for k := range hard {
			ks = append(ks, k)
		}
		sort.Strings(ks)
		return map[string]string{"restart-admitted-during-shutdown": fmt.Sprintf("both ActivateAndServe calls were admitted in one execution (restart around a Shutdown); symptoms in this schedule: %v; first: %s", ks, hard[ks[0]])}
	}
	return &e2x.Scenario{Name: name, Classify: classify, New: func() (func(), func(*vsched.Exec) (string, map[string]string)) {
		var (
			ln  *simnet.Listener
			pc  *simnet.PacketConn
			srv *dns.Server
			started, released bool
			serveErr, serve2Err, shutErr, shut2Err error
			serveRet, serve2Ret, shutRet, shut2Ret bool
			conns []*simnet.Conn
		)
		_ = conns
		body := func() {
			srv = &dns.Server{}
			if o.transport == "tcp" {
				ln = simnet.NewListener("ln")
				ln.OwnCloseError = o.ownCloseErr
				srv.Listener = ln
			} else {
				pc = simnet.NewPacketConn("pc")
				srv.PacketConn = pc
			}
			if o.both {
				// a Server value that holds a Listener as well (left from an earlier run, or set by the caller): the
				// PacketConn is served; Shutdown closes what the Server holds
				ln = simnet.NewListener("ln")
				srv.Listener = ln
			}
			nStarted := 0
			srv.NotifyStartedFunc = func() {
				vsched.Point("notify-started", nil)
				nStarted++
				if nStarted > 1 {
					// a further life of this Server begins: nothing of an earlier one may be left (a goroutine that has
					// signalled completion and is about to exit apart)
					for _, l := range vsched.Live() {
						if libThread.MatchString(l) && !strings.HasSuffix(l, "@wg.Done") && !strings.HasSuffix(l, "@exit") {
							vsched.Logf("overlap %s", l)
						}
					}
				}
				started = true
				vsched.Logf("started")
			}
			if o.badReader {
				srv.DecorateReader = func(r dns.Reader) dns.Reader { return plainReader{r} }
			}
			srv.MaxTCPQueries = o.maxQueries
			srv.Handler = dns.HandlerFunc(func(w dns.ResponseWriter, q *dns.Msg) {
				vsched.Logf("enter %d", q.Id)
				if o.blockHandler {
					vsched.Point("handler.block", func() bool { return released })
				} else {
					vsched.Point("handler.yield", nil)
				}
				m := new(dns.Msg)
				m.SetReply(q)
				if err := w.WriteMsg(m); err != nil {
					vsched.Logf("write-error %d", q.Id)
				} else {
					vsched.Logf("wrote %d", q.Id)
				}
				if o.handlerCloses {
					w.Close()
					w.Close() // a second Close must be harmless
					vsched.Logf("handler-closed %d", q.Id)
				}
				if o.hijack {
					w.Hijack()
					vsched.Logf("hijacked %d", q.Id)
				}
				vsched.Logf("exit %d", q.Id)
			})
			if o.restart {
				// first life of the Server value: start, wait until it runs, shut it down, wait for the serve call
				var firstErr error
				firstRet := false
				vsched.GoNamed("serve0", func() {
					firstErr = srv.ActivateAndServe()
					firstRet = true
				})
				vsched.Point("await-first-start", func() bool { return started })
				if err := srv.Shutdown(); err != nil {
					vsched.Logf("first-shutdown-error %v", err)
				}
				vsched.Point("await-first-serve-return", func() bool { return firstRet })
				if firstErr != nil {
					vsched.Logf("first-serve-error %v", firstErr)
				}
				// second life on fresh sockets
				started = false
				if o.transport == "tcp" {
					ln = simnet.NewListener("ln2")
					srv.Listener = ln
				} else {
					pc = simnet.NewPacketConn("pc2")
					srv.PacketConn = pc
				}
			}
			vsched.GoNamed("serve", func() {
				serveErr = srv.ActivateAndServe()
				serveRet = true
				vsched.Logf("serve-returned %v", serveErr)
			})
			if o.secondStart {
				vsched.GoNamed("serve2", func() {
					serve2Err = srv.ActivateAndServe()
					serve2Ret = true
					vsched.Logf("serve2-returned %v", serve2Err)
				})
			}
			for i, mode := range o.clients {
				i, mode := i, mode
				vsched.GoNamed(fmt.Sprintf("client%d", i), func() {
					if o.transport == "tcp" && !o.both {
						tcpClient(ln, i, mode)
					} else {
						udpClient(pc, i)
					}
				})
			}
			var ctx *hctx
			if o.blockHandler {
				ctx = &hctx{done: make(chan struct{})}
				vsched.GoNamed("env", func() {
					vsched.Close(ctx.done) // the caller's context expires
					vsched.Logf("ctx-cancelled")
					vsched.Point("release", nil)
					released = true
					vsched.Logf("released")
				})
			}
			shutdown := func(tag string, err *error, ret *bool) {
				call := func() error {
					if ctx != nil {
						return srv.ShutdownContext(ctx)
					}
					return srv.Shutdown()
				}
				*err = call()
				if *err != nil && strings.Contains((*err).Error(), "not started") {
					vsched.Logf("%s-early-error", tag)
					if o.badReader {
						// the serve call fails; nothing to wait for but its return, then one more Shutdown: it may
						// succeed or refuse, it may not block
						vsched.Point("await-serve-return", func() bool { return serveRet })
						*err = call()
					} else if !o.secondShutdown || tag == "shutdown" {
						// close the scenario: try again once the server runs
						vsched.Point("await-started", func() bool { return started })
						*err = call()
					}
				}
				*ret = true
				// a harness point of its own: what follows reads scheduler-wide state (the position of every thread,
				// the state of every connection) and so must count as dependent on every other transition
				vsched.Point("observe-after-shutdown", nil)
				if *err == nil {
					// (vi) at the moment a successful Shutdown returns, nothing of the server is left: no goroutine the
					// library spawned (other than one that has just signalled completion and is about to exit) and no open
					// connection it accepted
					for _, l := range vsched.Live() {
						if libThread.MatchString(l) && !strings.HasSuffix(l, "@wg.Done") && !strings.HasSuffix(l, "@exit") {
							vsched.Logf("left-goroutine %s", l)
						}
					}
					if ln != nil {
						for _, c := range ln.Conns {
							if o.hijack && has(vsched.X.Log, "hijacked 100") {
								// the connection belongs to the handler's owner now: the server may not have closed it
								if c.Closed {
									vsched.Logf("hijacked-conn-closed %s", c.Name)
								}
								continue
							}
							if !c.Closed {
								vsched.Logf("left-conn %s", c.Name)
							}
						}
					}
					// whatever the Server keeps to find its connections again (a map keyed by net.Conn, found by
					// reflection so that the field may be called anything) is empty
					if n := trackedConns(srv); n > 0 {
						vsched.Logf("tracked-conns %d", n)
					}
				}
				vsched.Logf("%s-returned %v", tag, *err)
			}
			if o.fireDeadline {
				vsched.GoNamed("timer", func() {
					if pc != nil {
						vsched.Point("await-read-armed", func() bool { return pc.Reads > 0 || started })
						if pc.Fire() {
							vsched.Logf("timer-fired pc")
						}
						return
					}
					vsched.Point("await-accepted", func() bool { return len(ln.Conns) > 0 || ln.Closed })
					if len(ln.Conns) > 0 && ln.Conns[0].Fire() {
						vsched.Logf("timer-fired %s", ln.Conns[0].Name)
					}
				})
			}
			vsched.GoNamed("shutdown", func() { shutdown("shutdown", &shutErr, &shutRet) })
			if o.secondShutdown {
				vsched.GoNamed("shutdown2", func() { shutdown("shutdown2", &shut2Err, &shut2Ret) })
			}
		}
		check := func(x *vsched.Exec) (string, map[string]string) {
			v := map[string]string{}
			log := x.Log
			if x.Deadlock {
				v["deadlock"] = fmt.Sprintf("no thread enabled, blocked: %v", x.Blocked)
			}
			// (i) + (iii): handlers vs. the return of a successful shutdown
			for _, tag := range []string{"shutdown", "shutdown2"} {
				at := idx(log, tag+"-returned <nil>")
				if at < 0 {
					continue
				}
				for i, l := range log {
					if strings.HasPrefix(l, "enter ") {
						id := strings.TrimPrefix(l, "enter ")
						ex := idx(log, "exit "+id)
						if i > at {
							v["handler-started-after-shutdown-returned"] = fmt.Sprintf("handler for %s entered after %s returned nil", id, tag)
						} else if ex < 0 || ex > at {
							v["shutdown-returned-before-handler-exit"] = fmt.Sprintf("%s returned nil while the handler for %s was still running", tag, id)
						}
					}
				}
			}
			// (vii) context expiry: if ShutdownContext returned the context's error, fine; nil requires (i)
			// (ii) replies written by handlers reach their clients
			for _, l := range log {
				if strings.HasPrefix(l, "wrote ") {
					id := strings.TrimPrefix(l, "wrote ")
					var n int
					fmt.Sscan(id, &n)
					if !has(log, fmt.Sprintf("c%d reply id=%s", n-100, id)) && !x.Deadlock {
						v["reply-lost"] = fmt.Sprintf("handler wrote the reply for %s without error but client c%d did not receive it", id, n-100)
					}
				}
			}
			for _, l := range log {
				if strings.HasPrefix(l, "first-shutdown-error") || strings.HasPrefix(l, "first-serve-error") {
					v["first-life-failed"] = "the start / Shutdown cycle before the scenario proper did not go through: " + l
				}
				if strings.HasPrefix(l, "overlap ") {
					v["run-overlap"] = "a further run of the Server announced itself (NotifyStartedFunc) while a goroutine spawned by an earlier run was still running: " + strings.TrimPrefix(l, "overlap ")
				}
				if strings.HasPrefix(l, "left-goroutine ") {
					v["goroutine-alive-after-shutdown"] = "when Shutdown returned nil a goroutine spawned by the server was still running: " + strings.TrimPrefix(l, "left-goroutine ")
				}
				if strings.HasPrefix(l, "tracked-conns ") {
					v["connection-tracked-after-shutdown"] = "when Shutdown returned nil the Server still tracked connections (entries in a map keyed by net.Conn): " + strings.TrimPrefix(l, "tracked-conns ")
				}
				if strings.HasPrefix(l, "hijacked-conn-closed ") {
					v["hijacked-connection-closed-by-server"] = "the connection the handler took over with Hijack was closed by the server: " + strings.TrimPrefix(l, "hijacked-conn-closed ")
				}
				if strings.HasPrefix(l, "left-conn ") {
					v["connection-open-after-shutdown"] = "when Shutdown returned nil an accepted connection was still open: " + strings.TrimPrefix(l, "left-conn ")
				}
			}
			// (iv) serve returns nil after a shutdown
			if !x.Deadlock {
				okShut := has(log, "shutdown-returned <nil>") || has(log, "shutdown2-returned <nil>") || has(log, "shutdown-returned context canceled") || has(log, "shutdown2-returned context canceled")
				if !serveRet {
					v["serve-did-not-return"] = "ActivateAndServe has not returned at the end of the execution"
				} else if o.badReader {
					if serveErr == nil {
						v["serve-returned-nil-without-serving"] = "ActivateAndServe returned nil although the decorated Reader cannot read from a PacketConn"
					}
				} else if okShut && serveErr != nil && !o.secondStart {
					v["serve-returned-error"] = fmt.Sprintf("ActivateAndServe returned %v after a shutdown", serveErr)
				}
				if !shutRet {
					v["shutdown-did-not-return"] = "Shutdown has not returned"
				}
				// (vi) nothing left behind
				if ln != nil && !ln.Closed {
					v["listener-left-open"] = "the listener is still open after shutdown"
				}
				if pc != nil && !pc.Closed && !o.blockHandler {
					v["packetconn-left-open"] = "the PacketConn is still open after shutdown"
				}
			}
			if o.secondStart && serveRet && serve2Ret && serveErr == nil && serve2Err == nil && countPrefix(log, "started") < 2 {
				// both returned nil although only one serve loop ran: the second start must have been refused with an error
				v["second-start-not-refused"] = "two ActivateAndServe calls returned nil but the server started once"
			}
			served := countPrefix(log, "exit ")
			out := fmt.Sprintf("served=%d/%d replies=%d early=%v serveErr=%v shutErr=%v", served, len(o.clients), countPrefix(log, "c")-countPrefix(log, "ctx"), has(log, "shutdown-early-error"), serveErr, shutErr)
			if o.secondStart {
				out += fmt.Sprintf(" serve2Err=%v", serve2Err)
			}
			if o.secondShutdown {
				out += fmt.Sprintf(" shut2Err=%v", shut2Err)
			}
			return out, v
		}
		return body, check
	}}
}

// c13FailScenario (S6): a thread that makes two starts that fail before any serve loop runs, interleaved in every
// way with a thread that calls Shutdown twice on the same Server. A server whose start failed is not started:
// Shutdown must refuse at once ("shutting down one that is not [started] returns an error instead of blocking"),
// and every start must return without blocking. The listen errors come from the real net package with addresses
// that fail without touching the network (port 99999), a missing TLS configuration, an unknown network name, or a
// Server with neither Listener nor PacketConn.
func c13FailScenario(name, mode string) *e2x.Scenario {
	return &e2x.Scenario{Name: name, New: func() (func(), func(*vsched.Exec) (string, map[string]string)) {
		var errs [4]error
		var ret [4]bool
		body := func() {
			srv := &dns.Server{Handler: dns.HandlerFunc(func(w dns.ResponseWriter, q *dns.Msg) {})}
			start := srv.ListenAndServe
			switch mode {
			case "bad-network":
				srv.Net, srv.Addr = "bogus", "127.0.0.1:0"
			case "tcp-bad-port":
				srv.Net, srv.Addr = "tcp", "127.0.0.1:99999"
			case "udp-bad-port":
				srv.Net, srv.Addr = "udp", "127.0.0.1:99999"
			case "tls-no-config":
				srv.Net, srv.Addr = "tcp-tls", "127.0.0.1:0"
			case "tls-bad-port":
				srv.Net, srv.Addr = "tcp-tls", "127.0.0.1:99999"
				srv.TLSConfig = &tls.Config{GetCertificate: func(*tls.ClientHelloInfo) (*tls.Certificate, error) { return nil, nil }}
			case "activate-nothing":
				start = srv.ActivateAndServe
			}
			call := func(i int, tag string, f func() error) {
				errs[i] = f()
				ret[i] = true
				vsched.Logf("%s-returned %v", tag, errs[i])
			}
			// two threads, two calls each: every interleaving of (start; start2) with (shutdown; shutdown2)
			vsched.GoNamed("starter", func() { call(0, "start", start); call(1, "start2", start) })
			vsched.GoNamed("stopper", func() { call(2, "shutdown", srv.Shutdown); call(3, "shutdown2", srv.Shutdown) })
		}
		check := func(x *vsched.Exec) (string, map[string]string) {
			v := map[string]string{}
			if x.Deadlock {
				v["deadlock"] = fmt.Sprintf("a call on a Server whose start failed blocks: %v", x.Blocked)
			}
			for i, tag := range []string{"start", "start2"} {
				if ret[i] && errs[i] == nil {
					v["failed-start-returned-nil"] = tag + " returned nil although nothing could be served"
				}
				if ret[i] && errs[i] != nil && strings.Contains(errs[i].Error(), "already started") {
					v["failed-start-leaves-server-started"] = tag + " was refused with 'server already started' although no start has succeeded"
				}
			}
			for i, tag := range []string{"shutdown", "shutdown2"} {
				if ret[i+2] && (errs[i+2] == nil || !strings.Contains(errs[i+2].Error(), "not started")) {
					v["shutdown-of-failed-start"] = fmt.Sprintf("%s returned %v for a Server whose start failed (want the 'server not started' error)", tag, errs[i+2])
				}
			}
			return fmt.Sprintf("start=%v start2=%v shutdown=%v shutdown2=%v", errs[0], errs[1], errs[2], errs[3]), v
		}
		return body, check
	}}
}

// scenarios that are also explored without a preemption bound (sleep sets)
var c13SleepSet = map[string]bool{}

func c13Spaces(c *fw.Ctx) {
	cap := int64(600000)
	if c.Thorough {
		cap = 6000000
	}
	type sc struct {
		name   string
		o      c13Opt
		qb, tb int // preemption bound: quick, thorough
	}
	list := []sc{
		{"S1/tcp/0-clients", c13Opt{transport: "tcp"}, 100, 100}, // every interleaving (9 k executions)
		{"S1/pc/0-clients", c13Opt{transport: "pc"}, 100, 100},   // every interleaving (163 k executions)
		{"S1/tcp/1-client", c13Opt{transport: "tcp", clients: []string{"full"}}, 2, 3},
		{"S1/pc/1-client", c13Opt{transport: "pc", clients: []string{"full"}}, 2, 4},
		{"S1/tcp/silent-client", c13Opt{transport: "tcp", clients: []string{"silent"}}, 2, 4},
		{"S1/tcp/half-frame-client", c13Opt{transport: "tcp", clients: []string{"half"}}, 2, 3},
		{"S1/tcp/2-clients", c13Opt{transport: "tcp", clients: []string{"full", "full"}}, 0, 1},
		{"S1/pc/2-clients", c13Opt{transport: "pc", clients: []string{"full", "full"}}, 1, 2},
		{"S2/tcp/in-flight+ctx", c13Opt{transport: "tcp", clients: []string{"full"}, blockHandler: true}, 1, 2},
		{"S2/pc/in-flight+ctx", c13Opt{transport: "pc", clients: []string{"full"}, blockHandler: true}, 1, 2},
		{"S4/tcp/silent-client+read-timeout", c13Opt{transport: "tcp", clients: []string{"silent"}, fireDeadline: true}, 1, 2},
		{"S4/tcp/1-client+idle-timeout", c13Opt{transport: "tcp", clients: []string{"full"}, fireDeadline: true}, 1, 2},
		{"S4/pc/1-client+read-timeout", c13Opt{transport: "pc", clients: []string{"full"}, fireDeadline: true}, 1, 2},
		{"S7/tcp/handler-closes-connection", c13Opt{transport: "tcp", clients: []string{"full"}, handlerCloses: true}, 2, 3},
		{"S7/pc/handler-closes-writer", c13Opt{transport: "pc", clients: []string{"full"}, handlerCloses: true}, 1, 2},
		{"S10/tcp/handler-hijacks-connection", c13Opt{transport: "tcp", clients: []string{"full"}, hijack: true}, 2, 3},
		{"S1/tcp/0-clients/listener-with-own-close-error", c13Opt{transport: "tcp", ownCloseErr: true}, 100, 100},
		{"S1/tcp/1-client/listener-with-own-close-error", c13Opt{transport: "tcp", ownCloseErr: true, clients: []string{"full"}}, 1, 2},
		{"S9/tcp/restarted-server+1-client", c13Opt{transport: "tcp", restart: true, clients: []string{"full"}}, 2, 3},
		{"S9/pc/restarted-server+1-client", c13Opt{transport: "pc", restart: true, clients: []string{"full"}}, 2, 3},
		{"S8/pc+listener/1-client", c13Opt{transport: "pc", both: true, clients: []string{"full"}}, 1, 2},
		{"S8/pc+listener/0-clients", c13Opt{transport: "pc", both: true}, 100, 100},
		{"S5/pc/reader-without-ReadPacketConn", c13Opt{transport: "pc", badReader: true}, 100, 100},
		{"S3/tcp/silent-client+second-start", c13Opt{transport: "tcp", clients: []string{"silent"}, secondStart: true}, 1, 2},
		{"S3/pc/1-client+second-start", c13Opt{transport: "pc", clients: []string{"full"}, secondStart: true}, 1, 2},
		{"S12/tcp/silent-client/unlimited-queries", c13Opt{transport: "tcp", clients: []string{"silent"}, maxQueries: -1}, 2, 3},
		{"S12/tcp/1-client/unlimited-queries", c13Opt{transport: "tcp", clients: []string{"full"}, maxQueries: -1}, 1, 2},
		{"S12/tcp/1-client/one-query-per-connection", c13Opt{transport: "tcp", clients: []string{"full"}, maxQueries: 1}, 1, 2},
		{"S11/tcp/in-flight+ctx+second-start", c13Opt{transport: "tcp", clients: []string{"full"}, blockHandler: true, secondStart: true}, 0, 1},
		{"S11/pc/in-flight+ctx+second-start", c13Opt{transport: "pc", clients: []string{"full"}, blockHandler: true, secondStart: true}, 0, 1},
		{"S3/tcp/double-start-double-shutdown", c13Opt{transport: "tcp", secondStart: true, secondShutdown: true}, 2, 3},
		{"S3/pc/double-start-double-shutdown", c13Opt{transport: "pc", secondStart: true, secondShutdown: true}, 1, 2},
	}
	for _, mode := range []string{"bad-network", "tcp-bad-port", "udp-bad-port", "tls-no-config", "tls-bad-port", "activate-nothing"} {
		exploreSpace(c, "C13", c13FailScenario("S6/failed-start/"+mode, mode), 100, cap, "(failing start; failing start) ∥ (Shutdown; Shutdown) on one Server, every interleaving (S6/failed-start/"+mode+")")
	}
	for _, s := range list {
		b := s.qb
		if c.Thorough {
			b = s.tb
		}
		exploreSpace(c, "C13", c13Scenario(s.name, s.o), b, cap, "serve ∥ clients ∥ Shutdown on the real Server ("+s.name+")")
		if os.Getenv("VERIF_E2_SLEEP") == "all" || c13SleepSet[s.name] {
			exploreSpaceSleep(c, "C13", c13Scenario(s.name, s.o), 20*cap, "serve ∥ clients ∥ Shutdown on the real Server ("+s.name+")")
		}
	}
}

var netConnType = reflect.TypeOf((*net.Conn)(nil)).Elem()

// trackedConns counts the entries of every map-typed field of the Server whose key type is a network connection.
func trackedConns(srv *dns.Server) int {
	n := 0
	v := reflect.ValueOf(srv).Elem()
	for i := 0; i < v.NumField(); i++ {
		f := v.Field(i)
		if f.Kind() == reflect.Map && f.Type().Key().Implements(netConnType) {
			n += f.Len()
		}
	}
	return n
}
