//go:build verif

package main

import (
	"bytes"
	"encoding/binary"
	"fmt"
	"sort"
	"strings"

	"github.com/miekg/dns"
	"github.com/miekg/dns/verifshim/simnet"
	"github.com/miekg/dns/verifshim/vsched"
	"verif/harness/bind"
	"verif/harness/e2x"
	"verif/harness/fw"
	"verif/harness/ref/wire"
)

// C14 (admission + concurrent mux, engine E2). The routing part is in cmd/vcheck/c14.go.

func init() {
	fw.Register(&fw.Check{Prop: "C14", Level: "model_checking",
		Assume: []string{
			"admission: the real Server runs on the controlled scheduler over simulated sockets in its default schedule; after each inbound packet the harness waits for quiescence (no thread enabled), which gives a deterministic 'what happened to this packet' without timing",
			"admission oracle (ref/accept) is written from the property statement and the documented default policy; the authority-count threshold (documentation says >0, an IXFR query legitimately carries 1) is left open: NSCOUNT=1 is not enumerated",
			"concurrent mux: all interleavings of 3 threads × ≤2 operations (no preemption bound needed); the call/return history of every schedule is checked for linearizability against a plain map by brute force over the ≤720 orders (porcupine is not needed at this size)",
		},
		Spaces: c14Spaces})
}

// ---------------------------------------------------------------------------------------------
// admission

type pktCase struct {
	b      []byte
	decodes bool   // the body matches the counts and decodes
	desc   string
}

// refAccept: the default accept policy as documented.
func refAccept(flags uint16, qd, an, ns, ar int) string {
	if flags&0x8000 != 0 {
		return "ignore"
	}
	if op := int(flags>>11) & 0xf; op != 0 && op != 4 {
		return "notimp"
	}
	if qd != 1 || an > 1 || ns > 1 || ar > 2 {
		return "reject"
	}
	return "accept"
}

func hdrBytes(id, flags uint16, qd, an, ns, ar int) []byte {
	b := make([]byte, 12)
	binary.BigEndian.PutUint16(b[0:], id)
	binary.BigEndian.PutUint16(b[2:], flags)
	binary.BigEndian.PutUint16(b[4:], uint16(qd))
	binary.BigEndian.PutUint16(b[6:], uint16(an))
	binary.BigEndian.PutUint16(b[8:], uint16(ns))
	binary.BigEndian.PutUint16(b[10:], uint16(ar))
	return b
}

var qBytes = []byte{1, 'q', 7, 'e', 'x', 'a', 'm', 'p', 'l', 'e', 0, 0, 1, 0, 1}
var rrBytes = []byte{0xC0, 12, 0, 1, 0, 1, 0, 0, 0, 9, 0, 4, 192, 0, 2, 1}

func bodyFor(qd, an, ns, ar int) []byte {
	var b []byte
	for i := 0; i < qd; i++ {
		b = append(b, qBytes...)
	}
	for i := 0; i < an+ns+ar; i++ {
		if qd > 0 {
			b = append(b, rrBytes...)
		} else {
			b = append(b, 0, 0, 1, 0, 1, 0, 0, 0, 9, 0, 4, 192, 0, 2, 1)
		}
	}
	return b
}

type outcome struct {
	handler  int
	invalid  int
	replies  [][]byte
	handlerReq *dns.Msg
}

// admissionRun feeds pkts one at a time to a fresh real server over the given transport with the given accept
// policy and returns one outcome per packet.
func admissionRun(transport string, policy dns.MsgAcceptFunc, pkts [][]byte) ([]outcome, string) {
	outs := make([]outcome, len(pkts))
	body := func() {
		var cur *outcome
		srv := &dns.Server{}
		var pc *simnet.PacketConn
		var ln *simnet.Listener
		if transport == "pc" {
			pc = simnet.NewPacketConn("pc")
			srv.PacketConn = pc
		} else {
			ln = simnet.NewListener("ln")
			srv.Listener = ln
		}
		started := false
		srv.NotifyStartedFunc = func() { started = true }
		srv.MsgAcceptFunc = policy
		// the invalid-message callback is installed through the Server's field or — for the cases whose first packet has
		// an odd octet sum — process-wide through dns.DefaultMsgInvalidFunc with the field left nil (Server.init fills it in)
		viaGlobal := false
		if len(pkts) > 0 {
			sum := 0
			for _, b := range pkts[0] {
				sum += int(b)
			}
			viaGlobal = sum%2 == 1
		}
		if viaGlobal {
			old := dns.DefaultMsgInvalidFunc
			dns.DefaultMsgInvalidFunc = func(m []byte, err error) { cur.invalid++ }
			defer func() { dns.DefaultMsgInvalidFunc = old }()
		} else {
			srv.MsgInvalidFunc = func(m []byte, err error) { cur.invalid++ }
		}
		srv.Handler = dns.HandlerFunc(func(w dns.ResponseWriter, q *dns.Msg) {
			cur.handler++
			cur.handlerReq = q.Copy()
			m := new(dns.Msg)
			m.SetReply(q)
			m.Rcode = dns.RcodeNameError // tag: a reply written by the handler, not by the library
			w.WriteMsg(m)
		})
		vsched.GoNamed("serve", func() { srv.ActivateAndServe() })
		vsched.Point("await-started", func() bool { return started })
		for i, p := range pkts {
			cur = &outs[i]
			if pc != nil {
				pc.Inject(p, "cl")
				vsched.AwaitQuiescence()
				for len(pc.Out) > 0 {
					cur.replies = append(cur.replies, pc.Out[0].B)
					pc.Out = pc.Out[1:]
				}
			} else {
				c, err := ln.Dial(fmt.Sprintf("c%d", i))
				if err != nil {
					return
				}
				// segmentation rotates with the packet number: whole frame; first prefix octet alone; both prefix octets
				// alone and the body in two halves — after each segment the server runs until it blocks in its next read
				fr := append([]byte{byte(len(p) >> 8), byte(len(p))}, p...)
				var segs [][]byte
				switch i % 3 {
				case 0:
					segs = [][]byte{fr}
				case 1:
					segs = [][]byte{fr[:1], fr[1:]}
				default:
					h := 2 + len(p)/2
					segs = [][]byte{fr[:1], fr[1:2], fr[2:h], fr[h:]}
				}
				for _, sg := range segs {
					if len(sg) > 0 {
						c.Write(sg)
						vsched.AwaitQuiescence()
					}
				}
				var got []byte
				buf := make([]byte, 70000)
				for c.Unread() > 0 {
					n, _ := c.Read(buf)
					got = append(got, buf[:n]...)
				}
				for len(got) >= 2 {
					n := int(binary.BigEndian.Uint16(got))
					if len(got) < 2+n {
						break
					}
					cur.replies = append(cur.replies, got[2:2+n])
					got = got[2+n:]
				}
				c.Close()
				vsched.AwaitQuiescence()
			}
		}
		srv.Shutdown()
	}
	x := vsched.Run(nil, body)
	if x.Panic != "" {
		return outs, "panic: " + x.Panic
	}
	if x.Deadlock {
		return outs, fmt.Sprintf("deadlock: %v", x.Blocked)
	}
	if x.Diverged != "" {
		return outs, x.Diverged
	}
	return outs, ""
}

func admissionCheck(r *fw.R, transport, polName string, policy dns.MsgAcceptFunc, polRef func(flags uint16, qd, an, ns, ar int) string, cases []pktCase) {
	pk := make([][]byte, len(cases))
	for i := range cases {
		pk[i] = cases[i].b
	}
	outs, bad := admissionRun(transport, policy, pk)
	if bad != "" {
		r.Fail("admission/server-failed/"+transport, "%s (policy %s, %d packets, first %x)", bad, polName, len(pk), pk[0])
		return
	}
	r.Evals(int64(len(cases)) - 1)
	for i, c := range cases {
		o := outs[i]
		p := c.b
		ctx := fmt.Sprintf("%s policy=%s packet %x (%s)", transport, polName, p, c.desc)
		total := o.handler + o.invalid + len(o.replies)
		_ = total
		if len(p) < 12 {
			if o.handler != 0 || len(o.replies) != 0 || o.invalid != 1 {
				r.Fail("admission/short-packet", "packet shorter than a header: handler=%d invalid-callback=%d replies=%d, want 0/1/0; %s", o.handler, o.invalid, len(o.replies), ctx)
			}
			continue
		}
		flags := binary.BigEndian.Uint16(p[2:])
		qd, an, ns, ar := int(binary.BigEndian.Uint16(p[4:])), int(binary.BigEndian.Uint16(p[6:])), int(binary.BigEndian.Uint16(p[8:])), int(binary.BigEndian.Uint16(p[10:]))
		act := polRef(flags, qd, an, ns, ar)
		want := act
		// "decodes" is the library's own notion (Msg.Unpack is deliberately lenient: a bare header, a question cut
		// after its name, rdata cut at a field boundary are accepted); what is checked here is admission, not decoding.
		libDecodes := new(dns.Msg).Unpack(append([]byte(nil), p...)) == nil
		if c.decodes && !libDecodes {
			r.Fail("admission/internal-case-classification", "case built as decodable is rejected by Msg.Unpack; %s", ctx)
			continue
		}
		if act == "accept" && !libDecodes {
			want = "undecodable"
		}
		r.Count("expected "+want, 1)
		if want != "ignore" {
			r.NontrivialN(1)
		}
		// library-made replies (the handler's own reply is tagged NXDOMAIN)
		var lib, own []*dns.Msg
		for _, rb := range o.replies {
			m := new(dns.Msg)
			if err := m.Unpack(rb); err != nil {
				r.Fail("admission/reply-undecodable", "the server wrote %x which does not unpack: %v; %s", rb, err, ctx)
				continue
			}
			if m.Rcode == dns.RcodeNameError {
				own = append(own, m)
			} else {
				lib = append(lib, m)
			}
		}
		fail := func(key, f string, a ...any) { r.Fail("admission/"+key+"/"+transport, f+"; "+ctx, a...) }
		switch want {
		case "ignore":
			if o.handler != 0 || o.invalid != 0 || len(o.replies) != 0 {
				fail("ignored-message-not-silent", "handler=%d invalid-callback=%d replies=%d for a message the policy ignores", o.handler, o.invalid, len(o.replies))
			}
		case "reject", "notimp", "undecodable":
			if o.handler != 0 {
				fail("handler-called-for-rejected", "handler called %d times for a message that is %s", o.handler, want)
			}
			wantInv := 0
			if want == "undecodable" {
				wantInv = 1
			}
			if o.invalid != wantInv {
				fail("invalid-callback-count", "invalid-message callback called %d times, want %d (%s)", o.invalid, wantInv, want)
			}
			if len(lib) != 1 || len(own) != 0 {
				fail("reject-reply-count", "%d library replies (+%d handler replies), want exactly 1 (%s)", len(lib), len(own), want)
				continue
			}
			m := lib[0]
			wantRc := dns.RcodeFormatError
			if want == "notimp" {
				wantRc = dns.RcodeNotImplemented
			}
			var bad []string
			if m.Id != binary.BigEndian.Uint16(p) {
				bad = append(bad, "ID")
			}
			if !m.Response {
				bad = append(bad, "QR")
			}
			if m.Rcode != wantRc {
				bad = append(bad, fmt.Sprintf("rcode %d want %d", m.Rcode, wantRc))
			}
			if want == "notimp" && m.Opcode != int(flags>>11)&0xf {
				bad = append(bad, "opcode not echoed")
			}
			if len(m.Answer)+len(m.Ns)+len(m.Extra) != 0 {
				bad = append(bad, "records present")
			}
			if len(bad) > 0 {
				fail("reject-reply-skeleton", "reply wrong in %v: %v", bad, m)
			}
		case "accept":
			if o.handler != 1 || o.invalid != 0 {
				fail("handler-count", "handler called %d times (invalid-callback %d) for an accepted, decodable message", o.handler, o.invalid)
				continue
			}
			if len(lib) != 0 || len(own) != 1 {
				fail("accept-reply-count", "%d library replies, %d handler replies; want 0/1", len(lib), len(own))
			}
			// the request seen by the handler equals the reference decode
			ref, _, err := wire.DecodeMsg(p)
			if err != nil {
				u := new(dns.Msg)
				u.Unpack(append([]byte(nil), p...))
				if u.String() != o.handlerReq.String() {
					fail("handler-request-differs", "the handler saw %v, Unpack of the packet gives %v", o.handlerReq, u)
				}
			} else {
				back, err := bind.FromGoMsg(o.handlerReq)
				if err != nil {
					fail("handler-request-malformed", "%v", err)
				} else if d := bind.EqualMsg(ref, back); d != "" {
					fail("handler-request-differs", "the handler saw a request different from the packet: %s", d)
				}
			}
			if own[0].Id != binary.BigEndian.Uint16(p) {
				fail("reply-id", "handler reply has id %d", own[0].Id)
			}
		}
	}
}

// custom policies: every action for every message
func constPolicy(a dns.MsgAcceptAction) dns.MsgAcceptFunc {
	return func(dns.Header) dns.MsgAcceptAction { return a }
}

func c14Spaces(c *fw.Ctx) {
	defer c14RestartSpace(c)
	// "the handler is invoked exactly once with the decoded request" when requests overlap: the admission spaces below
	// run one packet at a time; here a datagram that the server answers itself (it passes the policy and does not decode;
	// the policy refuses it) is followed by two requests whose handlers overlap with the next read — every path out of
	// serveDNS hands its receive buffer back exactly once (the scenarios are C12's feeder scenarios, bound 2 / 1)
	defer func() {
		exploreSpace(c, "C14", c12FeederK("e2/admission/overlap/undecodable+2-datagrams-held", 2, true, []string{"undecodable"}), 2, 3000000, "a datagram that does not decode, then 2 requests held in their handlers until every datagram has been read")
		exploreSpace(c, "C14", c12FeederK("e2/admission/overlap/formerr+undecodable+2-datagrams", 2, false, []string{"formerr", "undecodable"}), 1, 3000000, "a refused and an undecodable datagram, then 2 requests")
	}()
	transports := []string{"pc", "tcp"}
	counts := []int{0, 1, 2, 3}
	nsCounts := []int{0, 2, 3}
	c.Space("e2/admission/headers", "every (QR, opcode) pair × remaining flag bits {none, all, Z only} × counts (qd,an,ns,ar) ∈ {0,1,2,3}×{0,1,2,3}×{0,2,3}×{0,1,2,3} × bodies {nothing, exactly the counted sections, one octet short, trailing garbage octet, owner with a pointer loop}, over PacketConn and TCP with the default policy: outcome ∈ {handler once with the reference-decoded request, FORMERR/NOTIMP reply skeleton, silence, invalid-callback + FORMERR}; non-trivial: not ignored", true,
		func(emit func(func(*fw.R))) {
			for _, tr := range transports {
				for qr := 0; qr < 2; qr++ {
					for op := 0; op < 16; op++ {
						for fl := 0; fl < 3; fl++ {
							tr, qr, op, fl := tr, qr, op, fl
							emit(func(r *fw.R) {
								flags := uint16(qr)<<15 | uint16(op)<<11 | []uint16{0, 0x07f0, 0x0040}[fl]
								var cases []pktCase
								id := uint16(1)
								for _, qd := range counts {
									for _, an := range counts {
										for _, ns := range nsCounts {
											for _, ar := range counts {
												h := func() []byte { id++; return hdrBytes(id, flags, qd, an, ns, ar) }
												full := bodyFor(qd, an, ns, ar)
												cases = append(cases, pktCase{append(h(), full...), true, "exact body"})
												if len(full) > 0 {
													cases = append(cases, pktCase{h(), true, "header only: the library deliberately accepts a bare header whatever the counts say (msg.go: 'we should return just the header')"})
													cases = append(cases, pktCase{append(h(), full[:len(full)-1]...), false, "one octet short"})
													loop := append([]byte(nil), full...)
													if qd > 0 {
														loop[0], loop[1] = 0xC0, 12 // question name points at itself
														cases = append(cases, pktCase{append(h(), loop...), false, "pointer loop"})
													}
												}
											}
										}
									}
								}
								admissionCheck(r, tr, "default", nil, refAccept, cases)
								r.Sample(func() any { return fmt.Sprintf("%s flags=%#04x: %d packets, e.g. %x", tr, flags, len(cases), cases[1].b) })
							})
						}
					}
				}
			}
		})
	c.Space("e2/admission/truncations", "every truncation (0..len) of 4 valid messages (plain query, query+OPT, NOTIFY with SOA answer, IXFR-style query with authority SOA) over PacketConn and TCP; non-trivial: ≥ 12 octets", true,
		func(emit func(func(*fw.R))) {
			mk := func(f func(m *dns.Msg)) []byte {
				m := new(dns.Msg)
				m.SetQuestion("www.example.org.", dns.TypeA)
				m.Id = 4242
				f(m)
				b, _ := m.Pack()
				return b
			}
			soa, _ := dns.NewRR("example.org. 3600 IN SOA ns. hm. 1 2 3 4 5")
			msgs := [][]byte{
				mk(func(m *dns.Msg) {}),
				mk(func(m *dns.Msg) { m.SetEdns0(1232, true) }),
				mk(func(m *dns.Msg) { m.Opcode = dns.OpcodeNotify; m.Answer = []dns.RR{soa} }),
				mk(func(m *dns.Msg) { m.Question[0].Qtype = dns.TypeIXFR; m.Ns = []dns.RR{soa} }),
			}
			for _, tr := range transports {
				for mi, mb := range msgs {
					tr, mi, mb := tr, mi, mb
					emit(func(r *fw.R) {
						var cases []pktCase
						for n := 0; n <= len(mb); n++ {
							if tr == "tcp" && n == 0 {
								continue // a zero-length frame
							}
							cases = append(cases, pktCase{mb[:n], n == len(mb) || n == 12, fmt.Sprintf("message %d cut to %d of %d (a bare header is accepted by design)", mi, n, len(mb))})
						}
						admissionCheck(r, tr, "default", nil, refAccept, cases)
					})
				}
			}
		})
	c.Space("e2/admission/custom-policy", "custom accept policies returning each of the four actions for every message × 24 header/body shapes, both transports; non-trivial: all", true,
		func(emit func(func(*fw.R))) {
			acts := []struct {
				name string
				a    dns.MsgAcceptAction
				ref  string
			}{{"always-accept", dns.MsgAccept, "accept"}, {"always-reject", dns.MsgReject, "reject"}, {"always-ignore", dns.MsgIgnore, "ignore"}, {"always-notimp", dns.MsgRejectNotImplemented, "notimp"}}
			for _, tr := range transports {
				for _, a := range acts {
					tr, a := tr, a
					emit(func(r *fw.R) {
						var cases []pktCase
						id := uint16(7)
						for _, flags := range []uint16{0, 0x8000, 0x2800, 0xa800, 0x0100, 0x7800} {
							for _, cnt := range [][4]int{{1, 0, 0, 0}, {0, 0, 0, 0}, {2, 1, 0, 3}, {1, 2, 2, 0}} {
								id++
								full := bodyFor(cnt[0], cnt[1], cnt[2], cnt[3])
								cases = append(cases, pktCase{append(hdrBytes(id, flags, cnt[0], cnt[1], cnt[2], cnt[3]), full...), true, "exact"})
								if len(full) > 0 {
									id++
									cases = append(cases, pktCase{append(hdrBytes(id, flags, cnt[0], cnt[1], cnt[2], cnt[3]), full[:len(full)-1]...), false, "short"})
								}
							}
						}
						admissionCheck(r, tr, a.name, constPolicy(a.a), func(uint16, int, int, int, int) string { return a.ref }, cases)
					})
				}
			}
		})

	// ------------------------------------------------------------------------------------------ concurrent mux
	type op struct{ kind, pat string }
	progs := [][][]op{
		{{{"handle1", "a.example."}, {"serve", "x.a.example."}}, {{"remove", "a.example."}, {"serve", "x.a.example."}}, {{"handle2", "a.example."}}},
		{{{"handle1", "example."}, {"remove", "a.example."}}, {{"handle2", "a.example."}, {"serve", "x.a.example."}}, {{"serve", "x.a.example."}, {"serve", "b.example."}}},
		{{{"handle1", "a.example."}}, {{"handle2", "A.EXAMPLE."}}, {{"serve", "x.a.example."}, {"serve", "x.a.example."}}},
		{{{"remove", "a.example."}, {"handle1", "a.example."}}, {{"remove", "a.example."}, {"handle2", "a.example."}}, {{"serve", "a.example."}}},
	}
	mkMux := func(name string, prog [][]op) *e2x.Scenario {
		return &e2x.Scenario{Name: name, New: func() (func(), func(*vsched.Exec) (string, map[string]string)) {
			mux := dns.NewServeMux()
			type ev struct {
				call, ret int
				o         op
				res       string
			}
			var hist []*ev
			clock := 0
			body := func() {
				mux.HandleFunc("a.example.", func(w dns.ResponseWriter, m *dns.Msg) { w.(*muxW).hit = "h0" })
				for ti, ops := range prog {
					ops := ops
					vsched.GoNamed(fmt.Sprintf("m%d", ti), func() {
						for _, o := range ops {
							e := &ev{o: o}
							clock++
							e.call = clock
							hist = append(hist, e)
							switch o.kind {
							case "handle1":
								mux.HandleFunc(o.pat, func(w dns.ResponseWriter, m *dns.Msg) { w.(*muxW).hit = "h1" })
							case "handle2":
								mux.HandleFunc(o.pat, func(w dns.ResponseWriter, m *dns.Msg) { w.(*muxW).hit = "h2" })
							case "remove":
								mux.HandleRemove(o.pat)
							case "serve":
								w := &muxW{hit: "none"}
								q := new(dns.Msg)
								q.SetQuestion(o.pat, dns.TypeA)
								mux.ServeDNS(w, q)
								if w.refused {
									e.res = "refused"
								} else {
									e.res = w.hit
								}
							}
							clock++
							e.ret = clock
						}
					})
				}
			}
			check := func(x *vsched.Exec) (string, map[string]string) {
				v := map[string]string{}
				if x.Deadlock {
					v["mux-deadlock"] = fmt.Sprint(x.Blocked)
				}
				// brute-force linearizability against a map: pattern (lower-cased) → handler tag
				n := len(hist)
				perm := make([]int, 0, n)
				used := make([]bool, n)
				found := false
				var rec func()
				rec = func() {
					if found {
						return
					}
					if len(perm) == n {
						model := map[string]string{"a.example.": "h0"}
						for _, i := range perm {
							e := hist[i]
							key := strings.ToLower(e.o.pat)
							switch e.o.kind {
							case "handle1":
								model[key] = "h1"
							case "handle2":
								model[key] = "h2"
							case "remove":
								delete(model, key)
							case "serve":
								want := "refused"
								q := key
								for {
									if h, ok := model[q]; ok {
										want = h
										break
									}
									j := strings.Index(q, ".")
									if j < 0 || j+1 >= len(q) {
										break
									}
									q = q[j+1:]
								}
								if want != e.res {
									return
								}
							}
						}
						found = true
						return
					}
					for i := 0; i < n; i++ {
						if used[i] {
							continue
						}
						// real-time order: i may come next only if no unused j returned before i was called
						ok := true
						for j := 0; j < n; j++ {
							if !used[j] && j != i && hist[j].ret != 0 && hist[j].ret < hist[i].call {
								ok = false
							}
						}
						if !ok {
							continue
						}
						used[i] = true
						perm = append(perm, i)
						rec()
						perm = perm[:len(perm)-1]
						used[i] = false
					}
				}
				rec()
				var hs []string
				for _, e := range hist {
					hs = append(hs, fmt.Sprintf("[%d,%d]%s(%s)=%s", e.call, e.ret, e.o.kind, e.o.pat, e.res))
				}
				if !found && !x.Deadlock {
					v["mux-not-linearizable"] = "no sequential order of the operations on a map explains this history: " + strings.Join(hs, " ")
				}
				var res []string
				for _, e := range hist {
					if e.o.kind == "serve" {
						res = append(res, e.res)
					}
				}
				sort.Strings(res)
				return strings.Join(res, ","), v
			}
			return body, check
		}}
	}
	for pi, prog := range progs {
		sc := mkMux(fmt.Sprintf("e2/mux/program-%d", pi), prog)
		exploreSpace(c, "C14", sc, 100, 3000000, "3 threads × ≤2 operations {Handle(h1|h2), HandleRemove, ServeDNS} on one ServeMux with colliding patterns (program "+fmt.Sprint(pi)+"); unbounded preemptions")
	}

	// every program over a 6-operation alphabet (not only the four above): one case per program, its whole
	// schedule tree explored inside the case
	alpha := []op{{"handle1", "a.example."}, {"handle2", "A.EXAMPLE."}, {"remove", "a.example."}, {"serve", "x.a.example."}, {"handle1", "example."}, {"serve", "b.example."}}
	shapes := [][]int{{2, 2}, {1, 1, 1}}
	shapeDesc := "2 threads × 2 operations and 3 threads × 1 operation"
	if c.Thorough {
		shapes = append(shapes, []int{2, 2, 1})
		shapeDesc += " and 3 threads × (2, 2, 1) operations"
	}
	c.Space("e2/mux/all-programs", "every program of "+shapeDesc+" over {Handle(h1, a.example.), Handle(h2, A.EXAMPLE.), HandleRemove(a.example.), ServeDNS(x.a.example.), Handle(h1, example.), ServeDNS(b.example.)} on one ServeMux that already routes a.example. (threads of equal length up to permutation): every interleaving (no preemption bound) of the real code, every history checked for linearizability against a map by brute force; one case per program; non-trivial: the program contains a ServeDNS and a write", true,
		func(emit func(func(*fw.R))) {
			var gen func(shape []int, ti int, prog [][]op)
			gen = func(shape []int, ti int, prog [][]op) {
				if ti == len(shape) {
					p := make([][]op, len(prog))
					for i := range prog {
						p[i] = append([]op(nil), prog[i]...)
					}
					emit(func(r *fw.R) {
						serve, write := false, false
						name := ""
						for _, t := range p {
							name += "|"
							for _, o := range t {
								name += " " + o.kind + "(" + o.pat + ")"
								if o.kind == "serve" {
									serve = true
								} else {
									write = true
								}
							}
						}
						sc := mkMux("e2/mux/all-programs", p)
						st := e2x.NewStats()
						st.Tick = r.Alive
						// a program's whole schedule tree takes ≤ 20 k executions on the pinned tree; the cap keeps the run
						// bounded when a change under test adds synchronisation to ServeDNS (reported as not exhaustive)
						e2x.Explore(sc, nil, 100, st, 300000)
						if st.Internal != "" {
							r.Fail("internal/e2/mux/all-programs", "%s: %s", name, st.Internal)
							return
						}
						if st.Capped {
							r.Count("programs cut by the per-program execution cap (300000)", 1)
							r.NotExhaustive()
						}
						if serve && write {
							r.Nontrivial()
						}
						r.Count("executions", st.Executions)
						r.Count("transitions", st.Transitions)
						r.Count("states", int64(len(st.States)))
						for _, v := range st.Violations {
							r.Fail(v.Key+"/e2/mux/all-programs", "program%s\n%s\nchoices: %v\nschedule:\n%s", name, v.Detail, v.Choices, v.Schedule)
						}
						r.Sample(func() any {
							return map[string]any{"program": name, "executions": st.Executions, "outcomes": keys(st.Outcomes)}
						})
					})
					return
				}
				var ops func(k int, cur []op)
				ops = func(k int, cur []op) {
					if k == shape[ti] {
						// threads of equal length in non-decreasing order (the program is a multiset of such threads)
						if ti > 0 && shape[ti-1] == shape[ti] && fmt.Sprint(prog[ti-1]) > fmt.Sprint(cur) {
							return
						}
						gen(shape, ti+1, append(prog, cur))
						return
					}
					for _, o := range alpha {
						ops(k+1, append(append([]op(nil), cur...), o))
					}
				}
				ops(0, nil)
			}
			for _, sh := range shapes {
				gen(sh, 0, nil)
			}
		})
	_ = bytes.Equal
}

type muxW struct {
	recWriterE2
	hit     string
	refused bool
}

func (w *muxW) WriteMsg(m *dns.Msg) error {
	if m.Rcode == dns.RcodeRefused {
		w.refused = true
	}
	return nil
}
