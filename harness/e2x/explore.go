//go:build verif

// Package e2x is the stateless explorer over the controlled scheduler: depth-first enumeration of all
// schedules of a closed scenario up to a preemption bound, replay-twice discipline for violations,
// partition of the schedule tree into subtrees for process sharding.
package e2x

import (
	"fmt"
	"strings"

	"github.com/miekg/dns/verifshim/vsched"
)

// Scenario builds one fresh instance: body runs as thread 0; check judges the finished execution and
// returns an outcome class (for the distinct-outcome count) and violations (key → detail).
type Scenario struct {
	Name string
	New  func() (body func(), check func(x *vsched.Exec) (outcome string, viol map[string]string))
	// Classify may re-key the violations of one execution (after panics and races have been added), e.g. to
	// gather all symptoms of one known root cause under one key.
	Classify func(x *vsched.Exec, viol map[string]string) map[string]string
}

type Violation struct {
	Key, Detail string
	Choices     []int
	Schedule    string
}

type Stats struct {
	Executions, Transitions int64
	States                  map[uint64]struct{}
	Outcomes                map[string]int64
	Violations              []Violation
	Internal                string // replay divergence etc.
	MaxPoints               int
	Capped                  bool
	Tick                    func() // called once per execution (liveness signal for the watchdog)
	FirstSchedule           string // the first execution of this part, written out (for the evidence samples)
}

func NewStats() *Stats {
	return &Stats{States: map[uint64]struct{}{}, Outcomes: map[string]int64{}}
}

func preemptions(x *vsched.Exec, upto int) int {
	n := 0
	for i := 0; i < upto && i < len(x.Points); i++ {
		if p := x.Points[i]; p.RunningStill && p.Chosen != 0 {
			n++
		}
	}
	return n
}

// RunOne executes the scenario under prefix and records it.
func RunOne(sc *Scenario, prefix []int, st *Stats) *vsched.Exec {
	body, check := sc.New()
	x := vsched.Run(prefix, body)
	st.Executions++
	st.Transitions += int64(len(x.Points))
	if len(x.Points) > st.MaxPoints {
		st.MaxPoints = len(x.Points)
	}
	for h := range x.States {
		st.States[h] = struct{}{}
	}
	if x.Diverged != "" {
		st.Internal = x.Diverged
		return x
	}
	if st.FirstSchedule == "" {
		sum := x.Summary()
		if len(sum) > 1500 {
			sum = sum[:1500] + "…"
		}
		st.FirstSchedule = sum + "log: " + strings.Join(x.Log, " | ")
	}
	outcome, viol := check(x)
	st.Outcomes[outcome]++
	if x.Panic != "" {
		if viol == nil {
			viol = map[string]string{}
		}
		viol["panic"] = x.Panic
	}
	for _, r := range x.Races {
		if viol == nil {
			viol = map[string]string{}
		}
		viol["race/"+r.Label] = fmt.Sprintf("conflicting accesses not ordered by happens-before: %s || %s", r.A, r.B)
	}
	if sc.Classify != nil && len(viol) > 0 {
		viol = sc.Classify(x, viol)
	}
	if st.Tick != nil {
		st.Tick()
	}
	if len(viol) > 0 && len(st.Violations) < 40 {
		// replay twice: observations must be identical
		ch := x.Choices()
		sig := strings.Join(x.Log, "\n") + x.Summary()
		for i := 0; i < 2; i++ {
			b2, _ := sc.New()
			y := vsched.Run(ch, b2)
			if y.Diverged != "" || strings.Join(y.Log, "\n")+y.Summary() != sig {
				st.Internal = fmt.Sprintf("scenario %s is not deterministic under replay of %v: %s", sc.Name, ch, y.Diverged)
				return x
			}
		}
		for k, d := range viol {
			dup := false
			for _, v := range st.Violations {
				if v.Key == k {
					dup = true
				}
			}
			if !dup {
				st.Violations = append(st.Violations, Violation{Key: k, Detail: d, Choices: ch, Schedule: x.Summary() + "log:\n" + strings.Join(x.Log, "\n")})
			}
		}
	}
	return x
}

// Explore enumerates the execution for prefix and all its descendants (alternatives at positions
// ≥ len(prefix)) with at most bound preemptions in total. maxExec caps the number of executions (0 = none).
func Explore(sc *Scenario, prefix []int, bound int, st *Stats, maxExec int64) {
	if st.Internal != "" || (maxExec > 0 && st.Executions >= maxExec) {
		if maxExec > 0 && st.Executions >= maxExec {
			st.Capped = true
		}
		return
	}
	x := RunOne(sc, prefix, st)
	if st.Internal != "" {
		return
	}
	ch := x.Choices()
	pre := preemptions(x, len(prefix))
	for i := len(prefix); i < len(x.Points); i++ {
		p := x.Points[i]
		cost := pre
		if p.RunningStill {
			cost++
		}
		if cost <= bound {
			for alt := 1; alt < len(p.Enabled); alt++ {
				np := append(append([]int(nil), ch[:i]...), alt)
				Explore(sc, np, bound, st, maxExec)
			}
		}
		if p.RunningStill && p.Chosen != 0 {
			pre++
		}
	}
}

// Part is one element of a partition of the schedule tree: a single execution (Leaf) or a whole subtree.
type Part struct {
	Prefix []int
	Leaf   bool
}

// Partition splits the tree below the root into parts by expanding `levels` levels (deterministic).
func Partition(sc *Scenario, bound, levels int) ([]Part, string) {
	parts := []Part{{Prefix: nil, Leaf: false}}
	for l := 0; l < levels || (len(parts) < 400 && l < 6); l++ {
		var next []Part
		for _, pt := range parts {
			if pt.Leaf {
				next = append(next, pt)
				continue
			}
			st := NewStats()
			body, _ := sc.New()
			x := vsched.Run(pt.Prefix, body)
			if x.Diverged != "" {
				return nil, x.Diverged
			}
			_ = st
			next = append(next, Part{Prefix: pt.Prefix, Leaf: true})
			ch := x.Choices()
			pre := preemptions(x, len(pt.Prefix))
			for i := len(pt.Prefix); i < len(x.Points); i++ {
				p := x.Points[i]
				cost := pre
				if p.RunningStill {
					cost++
				}
				if cost <= bound {
					for alt := 1; alt < len(p.Enabled); alt++ {
						next = append(next, Part{Prefix: append(append([]int(nil), ch[:i]...), alt)})
					}
				}
				if p.RunningStill && p.Chosen != 0 {
					pre++
				}
			}
		}
		parts = next
	}
	return parts, ""
}

// ExplorePart explores one part.
func ExplorePart(sc *Scenario, pt Part, bound int, st *Stats, maxExec int64) {
	if pt.Leaf {
		RunOne(sc, pt.Prefix, st)
		return
	}
	Explore(sc, pt.Prefix, bound, st, maxExec)
}
