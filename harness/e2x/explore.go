//go:build verif

// Package e2x is the stateless explorer over the controlled scheduler: depth-first enumeration of all
// schedules of a closed scenario up to a preemption bound, replay-twice discipline for violations,
// partition of the schedule tree into subtrees for process sharding.
package e2x

import (
	"fmt"
	"strings"

	"github.com/miekg/dns/verifshim/vsched"
)

// Scenario builds one fresh instance: body runs as thread 0; check judges the finished execution and
// returns an outcome class (for the distinct-outcome count) and violations (key → detail).
type Scenario struct {
	Name string
	New  func() (body func(), check func(x *vsched.Exec) (outcome string, viol map[string]string))
	// Classify may re-key the violations of one execution (after panics and races have been added), e.g. to
	// gather all symptoms of one known root cause under one key.
	Classify func(x *vsched.Exec, viol map[string]string) map[string]string
}

type Violation struct {
	Key, Detail string
	Choices     []int
	Schedule    string
}

type Stats struct {
	Executions, Transitions int64
	States                  map[uint64]struct{}
	Outcomes                map[string]int64
	Violations              []Violation
	Internal                string // replay divergence etc.
	MaxPoints               int
	Capped                  bool
	Pruned                  int64  // executions cut short because every enabled thread was asleep (sleep-set mode)
	Tick                    func() // called once per execution (liveness signal for the watchdog)
	FirstSchedule           string // the first execution of this part, written out (for the evidence samples)
}

func NewStats() *Stats {
	return &Stats{States: map[uint64]struct{}{}, Outcomes: map[string]int64{}}
}

func preemptions(x *vsched.Exec, upto int) int {
	n := 0
	for i := 0; i < upto && i < len(x.Points); i++ {
		if p := x.Points[i]; p.RunningStill && p.Chosen != 0 {
			n++
		}
	}
	return n
}

// RunOne executes the scenario under prefix and records it.
func RunOne(sc *Scenario, prefix []int, st *Stats) *vsched.Exec {
	body, check := sc.New()
	x := vsched.Run(prefix, body)
	st.Executions++
	st.Transitions += int64(len(x.Points))
	if len(x.Points) > st.MaxPoints {
		st.MaxPoints = len(x.Points)
	}
	for h := range x.States {
		st.States[h] = struct{}{}
	}
	if x.Diverged != "" {
		st.Internal = x.Diverged
		return x
	}
	if st.FirstSchedule == "" {
		sum := x.Summary()
		if len(sum) > 1500 {
			sum = sum[:1500] + "…"
		}
		st.FirstSchedule = sum + "log: " + strings.Join(x.Log, " | ")
	}
	outcome, viol := check(x)
	st.Outcomes[outcome]++
	if x.Panic != "" {
		if viol == nil {
			viol = map[string]string{}
		}
		viol["panic"] = x.Panic
	}
	for _, r := range x.Races {
		if viol == nil {
			viol = map[string]string{}
		}
		viol["race/"+r.Label] = fmt.Sprintf("conflicting accesses not ordered by happens-before: %s || %s", r.A, r.B)
	}
	if sc.Classify != nil && len(viol) > 0 {
		viol = sc.Classify(x, viol)
	}
	if st.Tick != nil {
		st.Tick()
	}
	if len(viol) > 0 && len(st.Violations) < 40 {
		// replay twice: observations must be identical
		ch := x.Choices()
		sig := strings.Join(x.Log, "\n") + x.Summary()
		for i := 0; i < 2; i++ {
			b2, _ := sc.New()
			y := vsched.Run(ch, b2)
			if y.Diverged != "" || strings.Join(y.Log, "\n")+y.Summary() != sig {
				st.Internal = fmt.Sprintf("scenario %s is not deterministic under replay of %v: %s", sc.Name, ch, y.Diverged)
				return x
			}
		}
		for k, d := range viol {
			dup := false
			for _, v := range st.Violations {
				if v.Key == k {
					dup = true
				}
			}
			if !dup {
				st.Violations = append(st.Violations, Violation{Key: k, Detail: d, Choices: ch, Schedule: x.Summary() + "log:\n" + strings.Join(x.Log, "\n")})
			}
		}
	}
	return x
}

// Explore enumerates the execution for prefix and all its descendants (alternatives at positions
// ≥ len(prefix)) with at most bound preemptions in total. maxExec caps the number of executions (0 = none).
func Explore(sc *Scenario, prefix []int, bound int, st *Stats, maxExec int64) {
	if st.Internal != "" || (maxExec > 0 && st.Executions >= maxExec) {
		if maxExec > 0 && st.Executions >= maxExec {
			st.Capped = true
		}
		return
	}
	x := RunOne(sc, prefix, st)
	if st.Internal != "" {
		return
	}
	ch := x.Choices()
	pre := preemptions(x, len(prefix))
	for i := len(prefix); i < len(x.Points); i++ {
		p := x.Points[i]
		cost := pre
		if p.RunningStill {
			cost++
		}
		if cost <= bound {
			for alt := 1; alt < len(p.Enabled); alt++ {
				np := append(append([]int(nil), ch[:i]...), alt)
				Explore(sc, np, bound, st, maxExec)
			}
		}
		if p.RunningStill && p.Chosen != 0 {
			pre++
		}
	}
}

// Part is one element of a partition of the schedule tree: a single execution (Leaf) or a whole subtree.
type Part struct {
	Prefix []int
	Leaf   bool
}

// Partition splits the tree below the root into parts by expanding `levels` levels (deterministic).
func Partition(sc *Scenario, bound, levels int) ([]Part, string) {
	parts := []Part{{Prefix: nil, Leaf: false}}
	for l := 0; l < levels || (len(parts) < 400 && l < 6); l++ {
		var next []Part
		for _, pt := range parts {
			if pt.Leaf {
				next = append(next, pt)
				continue
			}
			st := NewStats()
			body, _ := sc.New()
			x := vsched.Run(pt.Prefix, body)
			if x.Diverged != "" {
				return nil, x.Diverged
			}
			_ = st
			next = append(next, Part{Prefix: pt.Prefix, Leaf: true})
			ch := x.Choices()
			pre := preemptions(x, len(pt.Prefix))
			for i := len(pt.Prefix); i < len(x.Points); i++ {
				p := x.Points[i]
				cost := pre
				if p.RunningStill {
					cost++
				}
				if cost <= bound {
					for alt := 1; alt < len(p.Enabled); alt++ {
						next = append(next, Part{Prefix: append(append([]int(nil), ch[:i]...), alt)})
					}
				}
				if p.RunningStill && p.Chosen != 0 {
					pre++
				}
			}
		}
		parts = next
	}
	return parts, ""
}

// ExplorePart explores one part.
func ExplorePart(sc *Scenario, pt Part, bound int, st *Stats, maxExec int64) {
	if pt.Leaf {
		RunOne(sc, pt.Prefix, st)
		return
	}
	Explore(sc, pt.Prefix, bound, st, maxExec)
}

// ---------------------------------------------------------------------------------------------
// Exploration without a preemption bound, with sleep sets (Godefroid): at a state, once the subtree below the
// transition of thread a has been explored, a is put to sleep in the subtrees of its later siblings and stays
// asleep there until a transition is executed that depends on a's pending operation. Every complete execution
// that is cut this way is a reordering of independent transitions of one that is explored, so every Mazurkiewicz
// trace keeps a representative. Dependence (conservative): the executed transition logged something, made a
// scheduler-wide observation or was an environment choice; either operation is global (object 0: harness points,
// spawn, exit, select, Once, Cond, Close and deadline operations of the simulated sockets); or both work on the
// same object (mutex, wait group, pool, atomic location, pipe half, packet socket, listener, channel).
// The oracle of a scenario may only look at the log, at the final state, and at scheduler-wide state read behind a
// harness point — all of which these rules order.

type sleepFrame struct {
	pend   []vsched.Pending
	sleep  map[int]vsched.Pending // asleep at entry to this state
	chosen int
	choose bool // an environment choice (Choose): every alternative is explored, nothing sleeps through it
}

func independent(t vsched.Pending, logged, global bool, u vsched.Pending) bool {
	if logged || global || t.Obj == 0 || u.Obj == 0 {
		return false
	}
	return t.Obj != u.Obj
}

// runSleep executes the scenario under prefix; beyond the prefix it takes, at every point, the first enabled
// thread that is not asleep. It returns the frames of the path. redundant: the prefix itself runs into a sleeping
// transition (the whole subtree is covered elsewhere).
func runSleep(sc *Scenario, prefix []int) (x *vsched.Exec, frames []*sleepFrame, check func(*vsched.Exec) (string, map[string]string), redundant bool) {
	body, chk := sc.New()
	vsched.Chooser = func(x *vsched.Exec, rec *vsched.PointRec, prescribed int) int {
		f := &sleepFrame{pend: rec.Pend, sleep: map[int]vsched.Pending{}, choose: strings.HasPrefix(rec.Op, "choose:")}
		if n := len(frames); n > 0 {
			p := frames[n-1]
			if !p.choose && !f.choose {
				t := p.pend[p.chosen]
				prev := x.Points[n-1]
				logged := rec.LogLen > prev.LogLen
				carry := func(u vsched.Pending) {
					if u.Tid != t.Tid && independent(t, logged, rec.Global, u) {
						f.sleep[u.Tid] = u
					}
				}
				for _, u := range p.sleep {
					carry(u)
				}
				for j := 0; j < p.chosen; j++ { // earlier siblings: explored before this one
					if _, asleep := p.sleep[p.pend[j].Tid]; !asleep {
						carry(p.pend[j])
					}
				}
			}
		}
		pick := -1
		if prescribed >= 0 {
			pick = prescribed
			if !f.choose {
				if _, asleep := f.sleep[rec.Pend[pick].Tid]; asleep {
					redundant = true
					return -1
				}
			}
		} else if f.choose {
			pick = 0
		} else {
			for j, u := range rec.Pend {
				if _, asleep := f.sleep[u.Tid]; !asleep {
					pick = j
					break
				}
			}
		}
		if pick < 0 {
			return -1 // every enabled thread is asleep: this execution is a reordering of one already explored
		}
		f.chosen = pick
		frames = append(frames, f)
		return pick
	}
	x = vsched.Run(prefix, body)
	vsched.Chooser = nil
	return x, frames, chk, redundant
}

// stepSleep runs and judges the one execution that prefix (followed by first-awake choices) denotes.
func stepSleep(sc *Scenario, prefix []int, st *Stats) (x *vsched.Exec, frames []*sleepFrame, ok bool) {
	x, frames, check, redundant := runSleep(sc, prefix)
	if redundant {
		return x, nil, false
	}
	st.Executions++
	st.Transitions += int64(len(x.Points))
	if len(x.Points) > st.MaxPoints {
		st.MaxPoints = len(x.Points)
	}
	for h := range x.States {
		st.States[h] = struct{}{}
	}
	if x.Diverged != "" {
		st.Internal = x.Diverged
		return x, nil, false
	}
	if st.Tick != nil {
		st.Tick()
	}
	if x.Pruned {
		st.Pruned++
	} else {
		judge(sc, x, check, st, func(ch []int) *vsched.Exec {
			// replay without the chooser: the plain scheduler follows the complete choice sequence
			b2, _ := sc.New()
			return vsched.Run(ch, b2)
		})
		if st.Internal != "" {
			return x, nil, false
		}
	}
	return x, frames, true
}

// children lists the prefixes of the subtrees that branch off the execution (x, frames) at positions ≥ from.
func childrenSleep(x *vsched.Exec, frames []*sleepFrame, from int) [][]int {
	var out [][]int
	ch := x.Choices()
	for i := from; i < len(frames); i++ {
		f := frames[i]
		for alt := f.chosen + 1; alt < len(f.pend); alt++ {
			if !f.choose {
				if _, asleep := f.sleep[f.pend[alt].Tid]; asleep {
					continue
				}
			}
			out = append(out, append(append([]int(nil), ch[:i]...), alt))
		}
	}
	return out
}

// ExploreSleep enumerates, without a preemption bound, one representative of every class of executions below prefix.
func ExploreSleep(sc *Scenario, prefix []int, st *Stats, maxExec int64) {
	if st.Internal != "" || (maxExec > 0 && st.Executions >= maxExec) {
		if maxExec > 0 && st.Executions >= maxExec {
			st.Capped = true
		}
		return
	}
	x, frames, ok := stepSleep(sc, prefix, st)
	if !ok {
		return
	}
	for _, np := range childrenSleep(x, frames, len(prefix)) {
		ExploreSleep(sc, np, st, maxExec)
	}
}

// PartitionSleep splits the sleep-set tree into parts (deterministic) for process sharding.
func PartitionSleep(sc *Scenario, levels int) ([]Part, string) {
	parts := []Part{{Prefix: nil}}
	for l := 0; l < levels || (len(parts) < 200 && l < 8); l++ {
		var next []Part
		grew := false
		for _, pt := range parts {
			if pt.Leaf {
				next = append(next, pt)
				continue
			}
			st := NewStats()
			x, frames, ok := stepSleep(sc, pt.Prefix, st)
			if st.Internal != "" {
				return nil, st.Internal
			}
			if !ok {
				continue // redundant prefix
			}
			next = append(next, Part{Prefix: pt.Prefix, Leaf: true})
			for _, np := range childrenSleep(x, frames, len(pt.Prefix)) {
				next = append(next, Part{Prefix: np})
				grew = true
			}
		}
		parts = next
		if !grew {
			break
		}
	}
	return parts, ""
}

// ExplorePartSleep explores one part: a leaf is the single execution its prefix denotes.
func ExplorePartSleep(sc *Scenario, pt Part, st *Stats, maxExec int64) {
	if pt.Leaf {
		stepSleep(sc, pt.Prefix, st)
		return
	}
	ExploreSleep(sc, pt.Prefix, st, maxExec)
}

// judge applies the scenario's oracle to a complete execution (shared by both explorers).
func judge(sc *Scenario, x *vsched.Exec, check func(*vsched.Exec) (string, map[string]string), st *Stats, replay func([]int) *vsched.Exec) {
	if st.FirstSchedule == "" {
		sum := x.Summary()
		if len(sum) > 1500 {
			sum = sum[:1500] + "…"
		}
		st.FirstSchedule = sum + "log: " + strings.Join(x.Log, " | ")
	}
	outcome, viol := check(x)
	st.Outcomes[outcome]++
	if x.Panic != "" {
		if viol == nil {
			viol = map[string]string{}
		}
		viol["panic"] = x.Panic
	}
	for _, r := range x.Races {
		if viol == nil {
			viol = map[string]string{}
		}
		viol["race/"+r.Label] = fmt.Sprintf("conflicting accesses not ordered by happens-before: %s || %s", r.A, r.B)
	}
	if sc.Classify != nil && len(viol) > 0 {
		viol = sc.Classify(x, viol)
	}
	if len(viol) > 0 && len(st.Violations) < 40 {
		ch := x.Choices()
		sig := strings.Join(x.Log, "\n") + x.Summary()
		for i := 0; i < 2; i++ {
			y := replay(ch)
			if y.Diverged != "" || strings.Join(y.Log, "\n")+y.Summary() != sig {
				st.Internal = fmt.Sprintf("scenario %s is not deterministic under replay of %v: %s", sc.Name, ch, y.Diverged)
				return
			}
		}
		for k, d := range viol {
			dup := false
			for _, v := range st.Violations {
				if v.Key == k {
					dup = true
				}
			}
			if !dup {
				st.Violations = append(st.Violations, Violation{Key: k, Detail: d, Choices: ch, Schedule: x.Summary() + "log:\n" + strings.Join(x.Log, "\n")})
			}
		}
	}
}
