// Package name is the reference model of domain names: wire label sequences and RFC 1035 §5.1
// presentation strings. It is written from the RFC text and shares no code with the library.
package name

import "bytes"

// Parsed is the denotation of a presentation string.
type Parsed struct {
	Labels  [][]byte // wire labels in order, without the root
	FQDN    bool     // ends in an unescaped dot
	OK      bool     // syntactically a name: no dangling backslash, no empty label (other than the root)
	BigDDD  bool     // contains \DDD with DDD > 255 (no wire form in RFC 1035)
	Root    bool     // the string "."
	Escapes int      // number of escape sequences used
}

func digit(b byte) bool { return b >= '0' && b <= '9' }

// Parse reads a presentation-format name: "\DDD" is the octet with decimal value DDD, "\X" for any
// other X is X itself, an unescaped "." ends a label.
func Parse(s string) Parsed {
	var p Parsed
	if s == "" {
		return p
	}
	if s == "." {
		return Parsed{FQDN: true, OK: true, Root: true}
	}
	p.OK = true
	var cur []byte
	curEmpty := true // no octet in the current label yet
	for i := 0; i < len(s); {
		c := s[i]
		switch {
		case c == '\\':
			p.Escapes++
			if i+1 >= len(s) {
				p.OK = false // dangling
				p.FQDN = false
				i++
				continue
			}
			if i+3 < len(s) && digit(s[i+1]) && digit(s[i+2]) && digit(s[i+3]) {
				v := int(s[i+1]-'0')*100 + int(s[i+2]-'0')*10 + int(s[i+3]-'0')
				if v > 255 {
					p.BigDDD = true
				}
				cur = append(cur, byte(v))
				i += 4
			} else {
				cur = append(cur, s[i+1])
				i += 2
			}
			curEmpty = false
			p.FQDN = false
		case c == '.':
			if curEmpty {
				p.OK = false // empty label
			}
			p.Labels = append(p.Labels, cur)
			cur = nil
			curEmpty = true
			p.FQDN = true
			i++
		default:
			cur = append(cur, c)
			curEmpty = false
			p.FQDN = false
			i++
		}
	}
	if !curEmpty {
		p.Labels = append(p.Labels, cur)
	}
	return p
}

// Wire is the uncompressed wire form of labels followed by the root.
func Wire(labels [][]byte) []byte {
	var b []byte
	for _, l := range labels {
		b = append(b, byte(len(l)))
		b = append(b, l...)
	}
	return append(b, 0)
}

// WireLen is len(Wire(labels)) without building it.
func WireLen(labels [][]byte) int {
	n := 1
	for _, l := range labels {
		n += 1 + len(l)
	}
	return n
}

// ValidWire reports whether labels respect RFC 1035 §2.3.4: 1..63 octets per label, 255 in total.
func ValidWire(labels [][]byte) bool {
	for _, l := range labels {
		if len(l) == 0 || len(l) > 63 {
			return false
		}
	}
	return WireLen(labels) <= 255
}

// ParseWire reads an uncompressed name at the start of b. ok is false for pointers, reserved label
// types, overruns or names longer than 255 octets.
func ParseWire(b []byte) (labels [][]byte, n int, ok bool) {
	for {
		if n >= len(b) {
			return nil, 0, false
		}
		c := int(b[n])
		n++
		if c == 0 {
			return labels, n, n <= 255
		}
		if c > 63 || n+c > len(b) {
			return nil, 0, false
		}
		labels = append(labels, b[n:n+c])
		n += c
	}
}

// Escape renders labels in a canonical presentation form of this model's own choosing (backslash
// before . and \, \DDD outside 0x21..0x7e and for the characters special in master files).
func Escape(labels [][]byte, fqdn bool) string {
	if len(labels) == 0 {
		return "."
	}
	var o []byte
	for i, l := range labels {
		if i > 0 {
			o = append(o, '.')
		}
		for _, c := range l {
			switch {
			case c == '.' || c == '\\':
				o = append(o, '\\', c)
			case c <= ' ' || c > '~' || c == '"' || c == ';' || c == '(' || c == ')' || c == '@' || c == '$' || c == '\'':
				o = append(o, '\\', '0'+c/100, '0'+c/10%10, '0'+c%10)
			default:
				o = append(o, c)
			}
		}
	}
	if fqdn {
		o = append(o, '.')
	}
	return string(o)
}

// EqualFold compares two label sequences ignoring ASCII case.
func EqualFold(a, b [][]byte) bool {
	if len(a) != len(b) {
		return false
	}
	for i := range a {
		if !LabelEqualFold(a[i], b[i]) {
			return false
		}
	}
	return true
}

func lower(c byte) byte {
	if c >= 'A' && c <= 'Z' {
		return c + 32
	}
	return c
}

func LabelEqualFold(a, b []byte) bool {
	if len(a) != len(b) {
		return false
	}
	for i := range a {
		if lower(a[i]) != lower(b[i]) {
			return false
		}
	}
	return true
}

// Lower returns a lower-cased copy (ASCII letters only).
func Lower(labels [][]byte) [][]byte {
	o := make([][]byte, len(labels))
	for i, l := range labels {
		o[i] = append([]byte(nil), l...)
		for j := range o[i] {
			o[i][j] = lower(o[i][j])
		}
	}
	return o
}

// CommonSuffix is the number of trailing labels a and b share, ignoring ASCII case.
func CommonSuffix(a, b [][]byte) int {
	n := 0
	for n < len(a) && n < len(b) && LabelEqualFold(a[len(a)-1-n], b[len(b)-1-n]) {
		n++
	}
	return n
}

func Equal(a, b [][]byte) bool {
	if len(a) != len(b) {
		return false
	}
	for i := range a {
		if !bytes.Equal(a[i], b[i]) {
			return false
		}
	}
	return true
}

// LabelStarts returns the offsets in the presentation string s at which labels start (forward scan:
// a backslash consumes the next character, or three digits). The root "." has none.
func LabelStarts(s string) []int {
	if s == "." || s == "" {
		return nil
	}
	starts := []int{0}
	for i := 0; i < len(s); {
		switch {
		case s[i] == '\\':
			if i+3 < len(s) && digit(s[i+1]) && digit(s[i+2]) && digit(s[i+3]) {
				i += 4
			} else {
				i += 2
			}
		case s[i] == '.':
			i++
			if i < len(s) {
				starts = append(starts, i)
			}
		default:
			i++
		}
	}
	return starts
}
