// Package canon is the reference model of the DNSSEC octet strings and closed forms:
//
//   - RFC 4034 §6.1/§6.2/§6.3 canonical name form, canonical RR form, canonical RR ordering within an RRset
//   - RFC 4034 §3.1.8.1 / RFC 4035 §5.3.2 signed data (RRSIG RDATA prefix | RR(1) | RR(2) ...)
//   - RFC 4034 Appendix B key tag, §5.1.4 DS digest (RFC 4509 SHA-256, RFC 6605 SHA-384)
//   - RFC 5155 §5 NSEC3 hash, §1.3/§7.2/§8 "matches" / "covers"
//   - RFC 3110 (RSA), RFC 6605 (ECDSA), RFC 8080 (Ed25519) public key and signature formats
//   - the BIND "Private-key-format: v1.x" text file
//
// It is written from the RFC text with the Go standard library only (plus ref/name of this harness for
// label handling) and shares no code with github.com/miekg/dns.
package canon

import (
	"bytes"
	"crypto"
	"crypto/ecdsa"
	"crypto/ed25519"
	"crypto/elliptic"
	"crypto/rand"
	"crypto/rsa"
	"crypto/sha1"
	"crypto/sha256"
	"crypto/sha512"
	"encoding/base32"
	"errors"
	"fmt"
	"hash"
	"math/big"
	"sort"

	rn "verif/harness/ref/name"
)

// ---------------------------------------------------------------------------------------------
// types (numbers from the IANA registry; only what this model needs)

const (
	TypeNS     = 2
	TypeMD     = 3
	TypeMF     = 4
	TypeCNAME  = 5
	TypeSOA    = 6
	TypeMB     = 7
	TypeMG     = 8
	TypeMR     = 9
	TypePTR    = 12
	TypeHINFO  = 13
	TypeMINFO  = 14
	TypeMX     = 15
	TypeRP     = 17
	TypeAFSDB  = 18
	TypeRT     = 21
	TypeSIG    = 24
	TypePX     = 26
	TypeNXT    = 30
	TypeSRV    = 33
	TypeNAPTR  = 35
	TypeKX     = 36
	TypeDNAME  = 39
	TypeRRSIG  = 46
	TypeNSEC   = 47
	TypeDNSKEY = 48
)

const (
	AlgRSAMD5      = 1
	AlgRSASHA1     = 5
	AlgRSASHA1NSEC = 7
	AlgRSASHA256   = 8
	AlgRSASHA512   = 10
	AlgECDSAP256   = 13
	AlgECDSAP384   = 14
	AlgED25519     = 15
)

// RR is one resource record in uncompressed wire terms.
type RR struct {
	Owner [][]byte // labels, without the root
	Type  uint16
	Class uint16
	TTL   uint32
	RData []byte // uncompressed RDATA
}

// ParseRR splits the uncompressed wire form of a single RR (owner | type | class | ttl | rdlength | rdata).
func ParseRR(w []byte) (RR, error) {
	labels, n, ok := rn.ParseWire(w)
	if !ok {
		return RR{}, errors.New("canon: bad owner name")
	}
	if len(w) < n+10 {
		return RR{}, errors.New("canon: short RR")
	}
	rr := RR{Type: be16(w[n:]), Class: be16(w[n+2:]), TTL: be32(w[n+4:])}
	for _, l := range labels {
		rr.Owner = append(rr.Owner, append([]byte(nil), l...))
	}
	rdl := int(be16(w[n+8:]))
	if len(w) != n+10+rdl {
		return RR{}, fmt.Errorf("canon: rdlength %d but %d octets follow", rdl, len(w)-n-10)
	}
	rr.RData = append([]byte(nil), w[n+10:]...)
	return rr, nil
}

func be16(b []byte) uint16 { return uint16(b[0])<<8 | uint16(b[1]) }
func be32(b []byte) uint32 {
	return uint32(b[0])<<24 | uint32(b[1])<<16 | uint32(b[2])<<8 | uint32(b[3])
}
func put16(b []byte, v uint16) []byte { return append(b, byte(v>>8), byte(v)) }
func put32(b []byte, v uint32) []byte {
	return append(b, byte(v>>24), byte(v>>16), byte(v>>8), byte(v))
}

// ---------------------------------------------------------------------------------------------
// RFC 4034 §6.2 (3): which RDATA fields are domain names, per type

type fieldKind int

const (
	fName    fieldKind = iota // a domain name (uncompressed here)
	fOctets                   // a fixed number of octets
	fCharStr                  // <character-string>
	fRest                     // everything up to the end of the RDATA
)

type field struct {
	kind fieldKind
	n    int
}

var name1 = []field{{fName, 0}}
var u16name = []field{{fOctets, 2}, {fName, 0}}
var name2 = []field{{fName, 0}, {fName, 0}}

// The list of RFC 4034 §6.2 item 3 as amended by RFC 6840 §5.1 (HINFO holds no name; A6 (obsolete,
// RFC 6563) is left out). NXT, RRSIG and NSEC are handled by Reading below.
var layouts = map[uint16][]field{
	TypeNS: name1, TypeMD: name1, TypeMF: name1, TypeCNAME: name1, TypeMB: name1, TypeMG: name1,
	TypeMR: name1, TypePTR: name1, TypeDNAME: name1,
	TypeSOA:   {{fName, 0}, {fName, 0}, {fOctets, 20}},
	TypeMINFO: name2,
	TypeRP:    name2,
	TypeMX:    u16name, TypeAFSDB: u16name, TypeRT: u16name, TypeKX: u16name,
	TypeSIG:   {{fOctets, 18}, {fName, 0}, {fRest, 0}},
	TypePX:    {{fOctets, 2}, {fName, 0}, {fName, 0}},
	TypeNAPTR: {{fOctets, 2}, {fOctets, 2}, {fCharStr, 0}, {fCharStr, 0}, {fCharStr, 0}, {fName, 0}},
	TypeSRV:   {{fOctets, 6}, {fName, 0}},
	TypeNXT:   {{fName, 0}, {fRest, 0}},
}

// Reading selects between RFC 4034 §6.2 as written (RRSIG signer and NSEC next name folded) and the
// RFC 6840 §5.1 amendments / deployed practice (NSEC not folded; RRSIG folded or not).
type Reading struct {
	FoldRRSIGSigner bool
	FoldNSECNext    bool
}

// Readings is every combination; a property that only asks for self-consistency accepts any of them.
var Readings = []Reading{{false, false}, {true, false}, {false, true}, {true, true}}

// HasDisputedName reports whether the canonical form of typ depends on the Reading.
func HasDisputedName(typ uint16) bool { return typ == TypeRRSIG || typ == TypeNSEC }

// HasFoldedName reports whether typ is on the undisputed §6.2 list and carries at least one name.
func HasFoldedName(typ uint16) bool { _, ok := layouts[typ]; return ok }

func layoutFor(typ uint16, rd Reading) []field {
	switch typ {
	case TypeRRSIG:
		if rd.FoldRRSIGSigner {
			return layouts[TypeSIG]
		}
		return nil
	case TypeNSEC:
		if rd.FoldNSECNext {
			return layouts[TypeNXT]
		}
		return nil
	}
	return layouts[typ]
}

// CanonRData returns the RDATA with every domain name of the §6.2 types replaced by its lower-case
// form. RDATA of other types is returned unchanged. An RDATA that does not fit its layout is an error.
func CanonRData(typ uint16, rdata []byte, rd Reading) ([]byte, error) {
	lay := layoutFor(typ, rd)
	if lay == nil {
		return append([]byte(nil), rdata...), nil
	}
	var out []byte
	off := 0
	for _, f := range lay {
		switch f.kind {
		case fOctets:
			if off+f.n > len(rdata) {
				return nil, fmt.Errorf("canon: type %d RDATA short", typ)
			}
			out = append(out, rdata[off:off+f.n]...)
			off += f.n
		case fCharStr:
			if off >= len(rdata) || off+1+int(rdata[off]) > len(rdata) {
				return nil, fmt.Errorf("canon: type %d RDATA bad character-string", typ)
			}
			n := 1 + int(rdata[off])
			out = append(out, rdata[off:off+n]...)
			off += n
		case fRest:
			out = append(out, rdata[off:]...)
			off = len(rdata)
		case fName:
			labels, n, ok := rn.ParseWire(rdata[off:])
			if !ok {
				return nil, fmt.Errorf("canon: type %d RDATA bad name at %d", typ, off)
			}
			out = append(out, rn.Wire(rn.Lower(labels))...)
			off += n
		}
	}
	if off != len(rdata) {
		return nil, fmt.Errorf("canon: type %d RDATA has %d trailing octets", typ, len(rdata)-off)
	}
	return out, nil
}

// ---------------------------------------------------------------------------------------------
// RFC 4034 §3.1.8.1 signed data

// SigFields are the RRSIG RDATA fields that precede the signature.
type SigFields struct {
	TypeCovered uint16
	Algorithm   uint8
	Labels      uint8
	OrigTTL     uint32
	Expiration  uint32
	Inception   uint32
	KeyTag      uint16
	Signer      [][]byte
}

// SigPrefix is RRSIG_RDATA of §3.1.8.1: the RDATA fields with the Signer's Name in canonical form and
// the Signature field excluded.
func SigPrefix(s SigFields) []byte {
	var b []byte
	b = put16(b, s.TypeCovered)
	b = append(b, s.Algorithm, s.Labels)
	b = put32(b, s.OrigTTL)
	b = put32(b, s.Expiration)
	b = put32(b, s.Inception)
	b = put16(b, s.KeyTag)
	return append(b, rn.Wire(rn.Lower(s.Signer))...)
}

// SignedOwner is the owner name that goes into RR(i) (RFC 4035 §5.3.2): the owner itself when it has
// exactly Labels labels, "*." followed by its rightmost Labels labels when it has more (wildcard
// expansion), and an error when it has fewer. Lower-cased.
func SignedOwner(owner [][]byte, labels uint8) ([][]byte, error) {
	n := len(owner)
	switch {
	case int(labels) > n:
		return nil, fmt.Errorf("canon: Labels %d exceeds the owner's %d labels", labels, n)
	case int(labels) == n:
		return rn.Lower(owner), nil
	}
	out := [][]byte{[]byte("*")}
	return append(out, rn.Lower(owner[n-int(labels):])...), nil
}

// CanonicalRRset returns the canonical RDATAs of the set, sorted as left-justified unsigned octet
// strings (absence of an octet sorts first), with duplicates removed (§6.3).
func CanonicalRRset(rrset []RR, rd Reading) ([][]byte, error) {
	var rds [][]byte
	for _, r := range rrset {
		c, err := CanonRData(r.Type, r.RData, rd)
		if err != nil {
			return nil, err
		}
		rds = append(rds, c)
	}
	sort.SliceStable(rds, func(i, j int) bool { return bytes.Compare(rds[i], rds[j]) < 0 })
	var out [][]byte
	for i, c := range rds {
		if i > 0 && bytes.Equal(c, rds[i-1]) {
			continue
		}
		out = append(out, c)
	}
	return out, nil
}

// SignedData is signature input of §3.1.8.1 for the RRset (which must be non-empty; the owner, type
// and class of its first record are used for every RR(i), as the RRset is one by definition).
func SignedData(s SigFields, rrset []RR, rd Reading) ([]byte, error) {
	if len(rrset) == 0 {
		return nil, errors.New("canon: empty RRset")
	}
	if len(rrset) > 0 && int(s.Labels) > 127 {
		return nil, errors.New("canon: impossible Labels value")
	}
	owner, err := SignedOwner(rrset[0].Owner, s.Labels)
	if err != nil {
		return nil, err
	}
	rds, err := CanonicalRRset(rrset, rd)
	if err != nil {
		return nil, err
	}
	ow := rn.Wire(owner)
	data := SigPrefix(s)
	for _, c := range rds {
		if len(c) > 0xffff {
			return nil, errors.New("canon: RDATA too long")
		}
		data = append(data, ow...)
		data = put16(data, rrset[0].Type)
		data = put16(data, rrset[0].Class)
		data = put32(data, s.OrigTTL)
		data = put16(data, uint16(len(c)))
		data = append(data, c...)
	}
	return data, nil
}

// ---------------------------------------------------------------------------------------------
// keys

// Key is a DNSKEY record in abstract terms.
type Key struct {
	Owner     [][]byte
	Class     uint16
	Flags     uint16
	Protocol  uint8
	Algorithm uint8
	PublicKey []byte
}

// RData is Flags | Protocol | Algorithm | Public Key (RFC 4034 §2.1).
func (k Key) RData() []byte {
	b := put16(nil, k.Flags)
	b = append(b, k.Protocol, k.Algorithm)
	return append(b, k.PublicKey...)
}

// KeyTag is RFC 4034 Appendix B (not B.1: algorithm 1 is excluded by the caller).
func KeyTag(rdata []byte) uint16 {
	var ac uint32
	for i, v := range rdata {
		if i&1 == 1 {
			ac += uint32(v)
		} else {
			ac += uint32(v) << 8
		}
	}
	ac += (ac >> 16) & 0xFFFF
	return uint16(ac & 0xFFFF)
}

// DSDigest is digest_algorithm(DNSKEY owner name | DNSKEY RDATA) with the owner in canonical form
// (§5.1.4); ok is false for digest types this model does not define (anything but 1, 2, 4).
func DSDigest(digestType uint8, owner [][]byte, keyRData []byte) (digest []byte, ok bool) {
	var h hash.Hash
	switch digestType {
	case 1:
		h = sha1.New()
	case 2:
		h = sha256.New()
	case 4:
		h = sha512.New384()
	default:
		return nil, false
	}
	h.Write(rn.Wire(rn.Lower(owner)))
	h.Write(keyRData)
	return h.Sum(nil), true
}

// ---------------------------------------------------------------------------------------------
// NSEC3 (RFC 5155)

// NSEC3Hash is IH(salt, owner name, iterations) of §5 with SHA-1; the name is put in canonical form.
func NSEC3Hash(name [][]byte, salt []byte, iterations uint16) [20]byte {
	x := append(rn.Wire(rn.Lower(name)), salt...)
	d := sha1.Sum(x)
	for k := 0; k < int(iterations); k++ {
		d = sha1.Sum(append(append([]byte(nil), d[:]...), salt...))
	}
	return d
}

var b32 = base32.HexEncoding.WithPadding(base32.NoPadding)

// Base32Hex renders octets in the unpadded base32hex form of RFC 5155 §3.3, upper case.
func Base32Hex(b []byte) string { return b32.EncodeToString(b) }

// FromBase32Hex accepts either letter case.
func FromBase32Hex(s string) ([]byte, error) {
	up := []byte(s)
	for i, c := range up {
		if c >= 'a' && c <= 'z' {
			up[i] = c - 32
		}
	}
	return b32.DecodeString(string(up))
}

// NSEC3Relation states how a hash relates to an NSEC3 record with the given owner hash and next hash:
// matches iff h = owner; covered iff h lies strictly between owner and next in circular order (with
// owner = next the interval is the whole circle except that one point, RFC 5155 §7.2 last paragraph
// / a zone with a single NSEC3 record).
func NSEC3Relation(owner, next, h []byte) (matches, covers bool) {
	o, n, x := new(big.Int).SetBytes(owner), new(big.Int).SetBytes(next), new(big.Int).SetBytes(h)
	matches = x.Cmp(o) == 0
	switch o.Cmp(n) {
	case -1:
		covers = o.Cmp(x) < 0 && x.Cmp(n) < 0
	case 1:
		covers = x.Cmp(o) > 0 || x.Cmp(n) < 0
	default:
		covers = x.Cmp(o) != 0
	}
	return
}

// IsSubdomain reports whether child is at or below parent (label-wise, ignoring ASCII case).
func IsSubdomain(parent, child [][]byte) bool {
	return len(child) >= len(parent) && rn.CommonSuffix(parent, child) == len(parent)
}

// ---------------------------------------------------------------------------------------------
// public keys and raw signatures

var (
	ErrAlgorithm = errors.New("canon: algorithm not modelled")
	ErrKeyFormat = errors.New("canon: malformed public key")
)

// ParsePublicKey decodes the DNSKEY Public Key field.
func ParsePublicKey(alg uint8, key []byte) (crypto.PublicKey, error) {
	switch alg {
	case AlgRSASHA1, AlgRSASHA1NSEC, AlgRSASHA256, AlgRSASHA512:
		// RFC 3110 §2: exponent length (1 octet, or 0 followed by 2 octets) | exponent | modulus;
		// leading zero octets are prohibited in both.
		if len(key) < 1 {
			return nil, ErrKeyFormat
		}
		el, off := int(key[0]), 1
		if el == 0 {
			if len(key) < 3 {
				return nil, ErrKeyFormat
			}
			el, off = int(key[1])<<8|int(key[2]), 3
		}
		if el == 0 || off+el >= len(key) {
			return nil, ErrKeyFormat
		}
		e, n := key[off:off+el], key[off+el:]
		if e[0] == 0 || n[0] == 0 {
			return nil, ErrKeyFormat
		}
		E := new(big.Int).SetBytes(e)
		if !E.IsInt64() || E.Int64() > 1<<31-1 {
			return nil, ErrKeyFormat // beyond what crypto/rsa can hold
		}
		return &rsa.PublicKey{N: new(big.Int).SetBytes(n), E: int(E.Int64())}, nil
	case AlgECDSAP256, AlgECDSAP384:
		// RFC 6605 §4: Q = x | y, each of the curve's size
		c, sz := curveOf(alg)
		if len(key) != 2*sz {
			return nil, ErrKeyFormat
		}
		x, y := new(big.Int).SetBytes(key[:sz]), new(big.Int).SetBytes(key[sz:])
		if !c.IsOnCurve(x, y) {
			return nil, ErrKeyFormat
		}
		return &ecdsa.PublicKey{Curve: c, X: x, Y: y}, nil
	case AlgED25519:
		// RFC 8080 §3: the 32-octet public key of RFC 8032
		if len(key) != ed25519.PublicKeySize {
			return nil, ErrKeyFormat
		}
		return ed25519.PublicKey(append([]byte(nil), key...)), nil
	}
	return nil, ErrAlgorithm
}

// EncodePublicKey is the inverse of ParsePublicKey.
func EncodePublicKey(alg uint8, pub crypto.PublicKey) ([]byte, error) {
	switch p := pub.(type) {
	case *rsa.PublicKey:
		e := big.NewInt(int64(p.E)).Bytes()
		var b []byte
		if len(e) <= 255 {
			b = []byte{byte(len(e))}
		} else {
			b = []byte{0, byte(len(e) >> 8), byte(len(e))}
		}
		b = append(b, e...)
		return append(b, p.N.Bytes()...), nil
	case *ecdsa.PublicKey:
		_, sz := curveOf(alg)
		if sz == 0 {
			return nil, ErrAlgorithm
		}
		b := make([]byte, 2*sz)
		p.X.FillBytes(b[:sz])
		p.Y.FillBytes(b[sz:])
		return b, nil
	case ed25519.PublicKey:
		return append([]byte(nil), p...), nil
	}
	return nil, ErrAlgorithm
}

func curveOf(alg uint8) (elliptic.Curve, int) {
	switch alg {
	case AlgECDSAP256:
		return elliptic.P256(), 32
	case AlgECDSAP384:
		return elliptic.P384(), 48
	}
	return nil, 0
}

// digest returns the hash of data for alg (RFC 3110, 5702, 6605) and the crypto.Hash identifier.
func digest(alg uint8, data []byte) ([]byte, crypto.Hash, bool) {
	switch alg {
	case AlgRSASHA1, AlgRSASHA1NSEC:
		d := sha1.Sum(data)
		return d[:], crypto.SHA1, true
	case AlgRSASHA256, AlgECDSAP256:
		d := sha256.Sum256(data)
		return d[:], crypto.SHA256, true
	case AlgECDSAP384:
		d := sha512.Sum384(data)
		return d[:], crypto.SHA384, true
	case AlgRSASHA512:
		d := sha512.Sum512(data)
		return d[:], crypto.SHA512, true
	}
	return nil, 0, false
}

// VerifyRaw checks sig over data under the public key octets of a DNSKEY with algorithm alg.
func VerifyRaw(alg uint8, key, data, sig []byte) error {
	pub, err := ParsePublicKey(alg, key)
	if err != nil {
		return err
	}
	switch p := pub.(type) {
	case *rsa.PublicKey:
		// RFC 3110 §3 / RFC 5702 §3: RSASSA-PKCS1-v1_5
		d, h, _ := digest(alg, data)
		return rsa.VerifyPKCS1v15(p, h, d, sig)
	case *ecdsa.PublicKey:
		// RFC 6605 §4: r | s, each of the curve's size
		_, sz := curveOf(alg)
		if len(sig) != 2*sz {
			return errors.New("canon: ECDSA signature has the wrong length")
		}
		d, _, _ := digest(alg, data)
		if !ecdsa.Verify(p, d, new(big.Int).SetBytes(sig[:sz]), new(big.Int).SetBytes(sig[sz:])) {
			return errors.New("canon: ECDSA signature invalid")
		}
		return nil
	case ed25519.PublicKey:
		if len(sig) != ed25519.SignatureSize || !ed25519.Verify(p, data, sig) {
			return errors.New("canon: Ed25519 signature invalid")
		}
		return nil
	}
	return ErrAlgorithm
}

// SignRaw signs data with priv (*rsa.PrivateKey, *ecdsa.PrivateKey or ed25519.PrivateKey) in the
// DNSSEC signature format of alg.
func SignRaw(alg uint8, priv crypto.PrivateKey, data []byte) ([]byte, error) {
	switch p := priv.(type) {
	case *rsa.PrivateKey:
		d, h, ok := digest(alg, data)
		if !ok || (alg != AlgRSASHA1 && alg != AlgRSASHA1NSEC && alg != AlgRSASHA256 && alg != AlgRSASHA512) {
			return nil, ErrAlgorithm
		}
		return rsa.SignPKCS1v15(rand.Reader, p, h, d)
	case *ecdsa.PrivateKey:
		_, sz := curveOf(alg)
		if sz == 0 {
			return nil, ErrAlgorithm
		}
		d, _, _ := digest(alg, data)
		r, s, err := ecdsa.Sign(rand.Reader, p, d)
		if err != nil {
			return nil, err
		}
		out := make([]byte, 2*sz)
		r.FillBytes(out[:sz])
		s.FillBytes(out[sz:])
		return out, nil
	case ed25519.PrivateKey:
		if alg != AlgED25519 {
			return nil, ErrAlgorithm
		}
		return ed25519.Sign(p, data), nil
	}
	return nil, ErrAlgorithm
}

// ---------------------------------------------------------------------------------------------
// the whole RRSIG validation of the property statement

// Sig is an RRSIG record in abstract terms.
type Sig struct {
	Owner [][]byte
	Class uint16
	SigFields
	Signature []byte
}

// Verify states when an RRSIG validates an RRset under a key: RFC 4035 §5.3.1 checks on key and
// RRset, then the signature over the §3.1.8.1 octet string. With anyReading, the RRSIG/NSEC RDATA
// names may be folded or not (RFC 4034 vs RFC 6840); otherwise rd is used.
func Verify(k Key, s Sig, rrset []RR, rd Reading, anyReading bool) error {
	if len(rrset) == 0 {
		return errors.New("canon: empty RRset")
	}
	r0 := rrset[0]
	for _, r := range rrset[1:] {
		if r.Type != r0.Type || r.Class != r0.Class || !rn.EqualFold(r.Owner, r0.Owner) {
			return errors.New("canon: not an RRset")
		}
	}
	// the key: zone key, protocol 3, tag/algorithm/class/name as in the RRSIG
	if k.Flags&0x0100 == 0 {
		return errors.New("canon: key is not a zone key")
	}
	if k.Protocol != 3 {
		return errors.New("canon: key protocol is not 3")
	}
	if k.Algorithm == AlgRSAMD5 {
		return ErrAlgorithm
	}
	if KeyTag(k.RData()) != s.KeyTag {
		return errors.New("canon: key tag mismatch")
	}
	if k.Algorithm != s.Algorithm {
		return errors.New("canon: algorithm mismatch")
	}
	if k.Class != s.Class {
		return errors.New("canon: key class mismatch")
	}
	if !rn.EqualFold(k.Owner, s.Signer) {
		return errors.New("canon: key owner is not the signer")
	}
	// the RRset: owner, class, covered type as in the RRSIG; Labels not larger than the owner's
	if !rn.EqualFold(r0.Owner, s.Owner) || r0.Class != s.Class || r0.Type != s.TypeCovered {
		return errors.New("canon: RRset does not match the RRSIG")
	}
	if int(s.Labels) > len(r0.Owner) {
		return errors.New("canon: Labels exceeds owner")
	}
	rds := []Reading{rd}
	if anyReading && HasDisputedName(r0.Type) {
		rds = Readings
	}
	var last error
	for _, x := range rds {
		data, err := SignedData(s.SigFields, rrset, x)
		if err != nil {
			return err
		}
		if last = VerifyRaw(k.Algorithm, k.PublicKey, data, s.Signature); last == nil {
			return nil
		}
	}
	return last
}
