package canon

import (
	"crypto"
	"crypto/ecdsa"
	"crypto/ed25519"
	"crypto/rsa"
	"encoding/base64"
	"errors"
	"fmt"
	"math/big"
	"strconv"
	"strings"
)

// The BIND private-key file ("Private-key-format: v1.2" / "v1.3"): lines "Field: value", values in
// base64. RSA: Modulus, PublicExponent, PrivateExponent, Prime1, Prime2, Exponent1, Exponent2,
// Coefficient (minimal big-endian integers). ECDSA: PrivateKey = the scalar as a fixed-width big-endian
// integer of the curve's size. Ed25519: PrivateKey = the 32-octet seed of RFC 8032.

// AlgName is the mnemonic BIND writes after the number.
var AlgName = map[uint8]string{
	AlgRSASHA1: "RSASHA1", AlgRSASHA1NSEC: "RSASHA1-NSEC3-SHA1", AlgRSASHA256: "RSASHA256", AlgRSASHA512: "RSASHA512",
	AlgECDSAP256: "ECDSAP256SHA256", AlgECDSAP384: "ECDSAP384SHA384", AlgED25519: "ED25519",
}

// PrivFile is the parsed content of a private-key file.
type PrivFile struct {
	Format    string
	Algorithm uint8
	AlgText   string            // whatever follows the number on the Algorithm line
	Fields    map[string][]byte // lower-cased field name → decoded octets (for the base64 fields)
	Key       crypto.PrivateKey // *rsa.PrivateKey | *ecdsa.PrivateKey | ed25519.PrivateKey
}

// ParsePrivateKey reads a private-key file strictly.
func ParsePrivateKey(text string) (*PrivFile, error) {
	pf := &PrivFile{Fields: map[string][]byte{}}
	seenAlg := false
	for _, ln := range strings.Split(text, "\n") {
		ln = strings.TrimRight(ln, "\r")
		if strings.TrimSpace(ln) == "" {
			continue
		}
		k, v, ok := strings.Cut(ln, ": ")
		if !ok {
			return nil, fmt.Errorf("canon: private key line without \": \": %q", ln)
		}
		lk := strings.ToLower(k)
		switch lk {
		case "private-key-format":
			pf.Format = v
		case "algorithm":
			num, rest, _ := strings.Cut(v, " ")
			a, err := strconv.ParseUint(num, 10, 8)
			if err != nil {
				return nil, fmt.Errorf("canon: bad Algorithm line %q", ln)
			}
			pf.Algorithm, pf.AlgText, seenAlg = uint8(a), rest, true
		case "created", "publish", "activate", "revoke", "inactive", "delete":
			// timing metadata, not key material
		default:
			b, err := base64.StdEncoding.DecodeString(v)
			if err != nil {
				return nil, fmt.Errorf("canon: field %s is not base64: %v", k, err)
			}
			if _, dup := pf.Fields[lk]; dup {
				return nil, fmt.Errorf("canon: field %s repeated", k)
			}
			pf.Fields[lk] = b
		}
	}
	if pf.Format != "v1.2" && pf.Format != "v1.3" {
		return nil, fmt.Errorf("canon: Private-key-format %q", pf.Format)
	}
	if !seenAlg {
		return nil, errors.New("canon: no Algorithm line")
	}
	num := func(name string) (*big.Int, error) {
		b, ok := pf.Fields[name]
		if !ok || len(b) == 0 {
			return nil, fmt.Errorf("canon: field %s missing", name)
		}
		return new(big.Int).SetBytes(b), nil
	}
	switch pf.Algorithm {
	case AlgRSASHA1, AlgRSASHA1NSEC, AlgRSASHA256, AlgRSASHA512:
		var v [8]*big.Int
		for i, f := range []string{"modulus", "publicexponent", "privateexponent", "prime1", "prime2", "exponent1", "exponent2", "coefficient"} {
			x, err := num(f)
			if err != nil {
				return nil, err
			}
			v[i] = x
		}
		if !v[1].IsInt64() || v[1].Int64() > 1<<31-1 {
			return nil, errors.New("canon: public exponent too large")
		}
		p := &rsa.PrivateKey{PublicKey: rsa.PublicKey{N: v[0], E: int(v[1].Int64())}, D: v[2], Primes: []*big.Int{v[3], v[4]}}
		if err := p.Validate(); err != nil {
			return nil, fmt.Errorf("canon: RSA key inconsistent: %v", err)
		}
		p.Precompute()
		// the CRT values in the file must be the ones that belong to the key
		one := big.NewInt(1)
		if new(big.Int).Mod(v[2], new(big.Int).Sub(v[3], one)).Cmp(v[5]) != 0 ||
			new(big.Int).Mod(v[2], new(big.Int).Sub(v[4], one)).Cmp(v[6]) != 0 ||
			new(big.Int).ModInverse(v[4], v[3]).Cmp(v[7]) != 0 {
			return nil, errors.New("canon: RSA CRT fields do not belong to the key")
		}
		pf.Key = p
	case AlgECDSAP256, AlgECDSAP384:
		c, sz := curveOf(pf.Algorithm)
		b := pf.Fields["privatekey"]
		if len(b) != sz {
			return nil, fmt.Errorf("canon: ECDSA PrivateKey has %d octets, want %d", len(b), sz)
		}
		d := new(big.Int).SetBytes(b)
		if d.Sign() == 0 || d.Cmp(c.Params().N) >= 0 {
			return nil, errors.New("canon: ECDSA scalar out of range")
		}
		p := &ecdsa.PrivateKey{D: d}
		p.Curve = c
		p.X, p.Y = c.ScalarBaseMult(b)
		pf.Key = p
	case AlgED25519:
		b := pf.Fields["privatekey"]
		if len(b) != ed25519.SeedSize {
			return nil, fmt.Errorf("canon: Ed25519 PrivateKey has %d octets, want 32", len(b))
		}
		pf.Key = ed25519.NewKeyFromSeed(b)
	default:
		return nil, ErrAlgorithm
	}
	return pf, nil
}

// FormatPrivateKey writes priv as a v1.3 file.
func FormatPrivateKey(alg uint8, priv crypto.PrivateKey) (string, error) {
	b64 := base64.StdEncoding.EncodeToString
	head := "Private-key-format: v1.3\nAlgorithm: " + strconv.Itoa(int(alg)) + " (" + AlgName[alg] + ")\n"
	switch p := priv.(type) {
	case *rsa.PrivateKey:
		if len(p.Primes) != 2 {
			return "", errors.New("canon: multi-prime RSA")
		}
		one := big.NewInt(1)
		e1 := new(big.Int).Mod(p.D, new(big.Int).Sub(p.Primes[0], one))
		e2 := new(big.Int).Mod(p.D, new(big.Int).Sub(p.Primes[1], one))
		co := new(big.Int).ModInverse(p.Primes[1], p.Primes[0])
		return head +
			"Modulus: " + b64(p.N.Bytes()) + "\n" +
			"PublicExponent: " + b64(big.NewInt(int64(p.E)).Bytes()) + "\n" +
			"PrivateExponent: " + b64(p.D.Bytes()) + "\n" +
			"Prime1: " + b64(p.Primes[0].Bytes()) + "\n" +
			"Prime2: " + b64(p.Primes[1].Bytes()) + "\n" +
			"Exponent1: " + b64(e1.Bytes()) + "\n" +
			"Exponent2: " + b64(e2.Bytes()) + "\n" +
			"Coefficient: " + b64(co.Bytes()) + "\n", nil
	case *ecdsa.PrivateKey:
		_, sz := curveOf(alg)
		if sz == 0 {
			return "", ErrAlgorithm
		}
		return head + "PrivateKey: " + b64(p.D.FillBytes(make([]byte, sz))) + "\n", nil
	case ed25519.PrivateKey:
		return head + "PrivateKey: " + b64(p.Seed()) + "\n", nil
	}
	return "", ErrAlgorithm
}

// SameKey reports whether two private keys are the same key (numerically).
func SameKey(a, b crypto.PrivateKey) bool {
	switch x := a.(type) {
	case *rsa.PrivateKey:
		y, ok := b.(*rsa.PrivateKey)
		if !ok || x.N == nil || y.N == nil || x.D == nil || y.D == nil || len(x.Primes) != 2 || len(y.Primes) != 2 {
			return false
		}
		for i := 0; i < 2; i++ {
			if x.Primes[i] == nil || y.Primes[i] == nil || x.Primes[i].Cmp(y.Primes[i]) != 0 {
				return false
			}
		}
		return x.N.Cmp(y.N) == 0 && x.E == y.E && x.D.Cmp(y.D) == 0
	case *ecdsa.PrivateKey:
		y, ok := b.(*ecdsa.PrivateKey)
		if !ok || x.D == nil || y.D == nil || x.X == nil || y.X == nil || x.Y == nil || y.Y == nil {
			return false
		}
		return x.Curve == y.Curve && x.D.Cmp(y.D) == 0 && x.X.Cmp(y.X) == 0 && x.Y.Cmp(y.Y) == 0
	case ed25519.PrivateKey:
		y, ok := b.(ed25519.PrivateKey)
		return ok && string(x) == string(y)
	}
	return false
}

// PublicOf returns the public half.
func PublicOf(priv crypto.PrivateKey) crypto.PublicKey {
	switch p := priv.(type) {
	case *rsa.PrivateKey:
		return &p.PublicKey
	case *ecdsa.PrivateKey:
		return &p.PublicKey
	case ed25519.PrivateKey:
		return p.Public()
	}
	return nil
}
