package canon

// The reference model is checked against the worked examples printed in the RFCs (no library code).

import (
	"bytes"
	"encoding/base64"
	"encoding/hex"
	"strings"
	"testing"

	rn "verif/harness/ref/name"
)

func b64(t *testing.T, s string) []byte {
	b, err := base64.StdEncoding.DecodeString(strings.Join(strings.Fields(s), ""))
	if err != nil {
		t.Fatal(err)
	}
	return b
}

func labels(s string) [][]byte { return rn.Parse(s).Labels }

func TestRFC4034DS(t *testing.T) {
	// RFC 4034 §5.4
	k := Key{Owner: labels("dskey.example.com."), Class: 1, Flags: 256, Protocol: 3, Algorithm: 5,
		PublicKey: b64(t, `AQOeiiR0GOMYkDshWoSKz9Xz fwJr1AYtsmx3TGkJaNXVbfi/ 2pHm822aJ5iI9BMzNXxeYCmZ DRD99WYwYqUSdjMmmAphXdvx egXd/M5+X7OrzKBaMbCVdFLU Uh6DhweJBjEVv5f2wwjM9Xzc nOf+EPbtG9DMBmADjFDc2w/r ljwvFw==`)}
	if tag := KeyTag(k.RData()); tag != 60485 {
		t.Errorf("key tag %d, RFC says 60485", tag)
	}
	d, ok := DSDigest(1, labels("DSKEY.Example.COM."), k.RData())
	if !ok || strings.ToUpper(hex.EncodeToString(d)) != "2BB183AF5F22588179A53B0A98631FAD1A292118" {
		t.Errorf("DS digest %x", d)
	}
}

func TestRFC5155Hashes(t *testing.T) {
	// RFC 5155 Appendix A: salt aabbccdd, 12 iterations
	salt := []byte{0xaa, 0xbb, 0xcc, 0xdd}
	for name, want := range map[string]string{
		"example.":       "0p9mhaveqvm6t7vbl5lop2u3t2rp3tom",
		"a.example.":     "35mthgpgcu1qg68fab165klnsnk3dpvl",
		"ai.example.":    "gjeqe526plbf1g8mklp59enfd789njgi",
		"ns1.example.":   "2t7b4g4vsa5smi47k61mv5bv1a22bojr",
		"ns2.example.":   "q04jkcevqvmu85r014c7dkba38o0ji5r",
		"w.example.":     "k8udemvp1j2f7eg6jebps17vp3n8i58h",
		"*.w.example.":   "r53bq7cc2uvmubfu5ocmm6pers9tk9en",
		"x.w.example.":   "b4um86eghhds6nea196smvmlo4ors995",
		"y.w.example.":   "ji6neoaepv8b5o6k4ev33abha8ht9fgc",
		"x.y.w.example.": "2vptu5timamqttgl4luu9kg21e0aor3s",
		"xx.example.":    "t644ebqk9bibcna874givr6joj62mlhv",
		"X.Y.W.Example.": "2vptu5timamqttgl4luu9kg21e0aor3s",
	} {
		h := NSEC3Hash(labels(name), salt, 12)
		if got := strings.ToLower(Base32Hex(h[:])); got != want {
			t.Errorf("H(%s) = %s, RFC says %s", name, got, want)
		}
	}
	// RFC 5155 Appendix B.1: x.w.example is covered by b4um86eg… → gjeqe526…? No: the example proves
	// a.c.x.w.example does not exist; its closest encloser x.w.example *matches* b4um86eg…,
	// and the next closer name c.x.w.example (0va5bpr2ou0vk0lbqeeljri88laipsfh) is covered by
	// 0p9mhave… → 2t7b4g4v…
	o, _ := FromBase32Hex("0p9mhaveqvm6t7vbl5lop2u3t2rp3tom")
	n, _ := FromBase32Hex("2t7b4g4vsa5smi47k61mv5bv1a22bojr")
	h := NSEC3Hash(labels("c.x.w.example."), salt, 12)
	if got := strings.ToLower(Base32Hex(h[:])); got != "0va5bpr2ou0vk0lbqeeljri88laipsfh" {
		t.Errorf("H(c.x.w.example.) = %s", got)
	}
	if m, c := NSEC3Relation(o, n, h[:]); m || !c {
		t.Errorf("relation: match %v cover %v", m, c)
	}
}

func TestRFC8080(t *testing.T) {
	// RFC 8080 §6.1, first example
	pf, err := ParsePrivateKey("Private-key-format: v1.2\nAlgorithm: 15 (ED25519)\nPrivateKey: ODIyNjAzODQ2MjgwODAxMjI2NDUxOTAyMDQxNDIyNjI=\n")
	if err != nil {
		t.Fatal(err)
	}
	k := Key{Owner: labels("example.com."), Class: 1, Flags: 257, Protocol: 3, Algorithm: 15,
		PublicKey: b64(t, "l02Woi0iS8Aa25FQkUd9RMzZHJpBoRQwAQEX1SxZJA4=")}
	pub, _ := EncodePublicKey(15, PublicOf(pf.Key))
	if !bytes.Equal(pub, k.PublicKey) {
		t.Errorf("public key from seed %x", pub)
	}
	if tag := KeyTag(k.RData()); tag != 3613 {
		t.Errorf("key tag %d", tag)
	}
	d, _ := DSDigest(2, k.Owner, k.RData())
	if hex.EncodeToString(d) != "3aa5ab37efce57f737fc1627013fee07bdf241bd10f3b1964ab55c78e79a304b" {
		t.Errorf("DS %x", d)
	}
	mx := RR{Owner: labels("example.com."), Type: TypeMX, Class: 1, TTL: 3600,
		RData: append([]byte{0, 10}, rn.Wire(labels("mail.example.com."))...)}
	s := Sig{Owner: labels("example.com."), Class: 1, SigFields: SigFields{TypeCovered: TypeMX, Algorithm: 15, Labels: 2,
		OrigTTL: 3600, Expiration: 1440021600, Inception: 1438207200, KeyTag: 3613, Signer: labels("example.com.")},
		Signature: b64(t, "oL9krJun7xfBOIWcGHi7mag5/hdZrKWw15jPGrHpjQeRAvTdszaPD+QLs3fx8A4M3e23mRZ9VrbpMngwcrqNAg==")}
	if err := Verify(k, s, []RR{mx}, Reading{}, false); err != nil {
		t.Errorf("RFC signature does not verify: %v", err)
	}
	data, _ := SignedData(s.SigFields, []RR{mx}, Reading{})
	sig, _ := SignRaw(15, pf.Key, data)
	if !bytes.Equal(sig, s.Signature) {
		t.Errorf("Ed25519 signature differs from the RFC's")
	}
	// upper-case spelling of owner and exchange, a decremented TTL and a repeated record change nothing
	mx2 := RR{Owner: labels("EXAMPLE.com."), Type: TypeMX, Class: 1, TTL: 7,
		RData: append([]byte{0, 10}, rn.Wire(labels("MAIL.Example.COM."))...)}
	if err := Verify(k, s, []RR{mx2, mx}, Reading{}, false); err != nil {
		t.Errorf("case/TTL/duplicate variant does not verify: %v", err)
	}
}

func TestRFC6605(t *testing.T) {
	// RFC 6605 §6.1
	k := Key{Owner: labels("example.net."), Class: 1, Flags: 257, Protocol: 3, Algorithm: 13,
		PublicKey: b64(t, "GojIhhXUN/u4v54ZQqGSnyhWJwaubCvTmeexv7bR6edb krSqQpF64cYbcB7wNcP+e+MAnLr+Wi9xMWyQLc8NAA==")}
	if tag := KeyTag(k.RData()); tag != 55648 {
		t.Errorf("key tag %d", tag)
	}
	d, _ := DSDigest(2, k.Owner, k.RData())
	if hex.EncodeToString(d) != "b4c8c1fe2e7477127b27115656ad6256f424625bf5c1e2770ce6d6e37df61d17" {
		t.Errorf("DS %x", d)
	}
	pf, err := ParsePrivateKey("Private-key-format: v1.2\nAlgorithm: 13 (ECDSAP256SHA256)\nPrivateKey: GU6SnQ/Ou+xC5RumuIUIuJZteXT2z0O/ok1s38Et6mQ=\n")
	if err != nil {
		t.Fatal(err)
	}
	pub, _ := EncodePublicKey(13, PublicOf(pf.Key))
	if !bytes.Equal(pub, k.PublicKey) {
		t.Errorf("public key from scalar %x", pub)
	}
	a := RR{Owner: labels("www.example.net."), Type: 1, Class: 1, TTL: 3600, RData: []byte{192, 0, 2, 1}}
	// 20100909100439 = 1284026679, 20100812100439 = 1281607479
	s := Sig{Owner: labels("www.example.net."), Class: 1, SigFields: SigFields{TypeCovered: 1, Algorithm: 13, Labels: 3,
		OrigTTL: 3600, Expiration: 1284026679, Inception: 1281607479, KeyTag: 55648, Signer: labels("example.net.")},
		Signature: b64(t, "qx6wLYqmh+l9oCKTN6qIc+bw6ya+KJ8oMz0YP107epXA yGmt+3SNruPFKG7tZoLBLlUzGGus7ZwmwWep666VCw==")}
	if err := Verify(k, s, []RR{a}, Reading{}, false); err != nil {
		t.Errorf("RFC signature does not verify: %v", err)
	}
	data, _ := SignedData(s.SigFields, []RR{a}, Reading{})
	sig, _ := SignRaw(13, pf.Key, data)
	s.Signature = sig
	if err := Verify(k, s, []RR{a}, Reading{}, false); err != nil {
		t.Errorf("own signature does not verify: %v", err)
	}
}

func TestOrderingAndWildcard(t *testing.T) {
	// RFC 4034 §6.3: sort by RDATA as left-justified octet strings; shorter first on a tie
	rrs := []RR{{Type: 16, RData: []byte{2, 'a', 'a'}}, {Type: 16, RData: []byte{1, 'b', 1, 'c', 1, 'd'}}, {Type: 16, RData: []byte{1, 'b'}}, {Type: 16, RData: []byte{2, 'a', 'a'}}}
	got, _ := CanonicalRRset(rrs, Reading{})
	if len(got) != 3 || !bytes.Equal(got[0], []byte{1, 'b'}) || !bytes.Equal(got[1], []byte{1, 'b', 1, 'c', 1, 'd'}) || !bytes.Equal(got[2], []byte{2, 'a', 'a'}) {
		t.Errorf("order %q", got)
	}
	o, err := SignedOwner(labels("A.b.Example."), 1)
	if err != nil || rn.Escape(o, true) != "*.example." {
		t.Errorf("wildcard owner %q %v", rn.Escape(o, true), err)
	}
	if _, err := SignedOwner(labels("example."), 2); err == nil {
		t.Errorf("Labels > owner labels accepted")
	}
	// NAPTR: only the replacement is folded, not the character-strings
	rd := []byte{0, 1, 0, 2, 1, 'U', 3, 'S', 'I', 'P', 0}
	rd = append(rd, rn.Wire(labels("Sip.Example."))...)
	c, err := CanonRData(TypeNAPTR, rd, Reading{})
	want := append([]byte{0, 1, 0, 2, 1, 'U', 3, 'S', 'I', 'P', 0}, rn.Wire(labels("sip.example."))...)
	if err != nil || !bytes.Equal(c, want) {
		t.Errorf("NAPTR canon %q %v", c, err)
	}
}
