// Package tsig is an independent reference model of RFC 8945 (TSIG): locating the TSIG RR in a packed
// DNS message, the digest input of §4.3 and the acceptance rule of §5.2. It uses only the Go standard
// library and shares no code with github.com/miekg/dns.
//
// Digest input (§4.3):
//
//	[ request MAC length (2 octets) ‖ request MAC ]        if a request MAC is present (§4.3.1)
//	‖ DNS message: the received octets up to the TSIG RR, with the ID replaced by the TSIG's
//	  Original ID and ARCOUNT decremented (§4.3.2)
//	‖ TSIG variables (§4.3.3): NAME (canonical: lower case, uncompressed) CLASS TTL of the TSIG RR,
//	  Algorithm Name (canonical), Time Signed (48 bit), Fudge, Error, Other Len, Other Data
//	  — or, for the 2nd and later envelopes of a multi-message reply (§5.3.1), only Time Signed ‖ Fudge.
//
// CLASS and TTL are taken from the TSIG RR as transmitted (the "Source" column of the table in §4.3.3);
// a signer always transmits ANY and 0.
package tsig

import (
	"crypto/hmac"
	"crypto/sha1"
	"crypto/sha256"
	"crypto/sha512"
	"encoding/binary"
	"hash"
)

const (
	TypeTSIG = 250
	ClassANY = 255
)

// ---------------------------------------------------------------------------------------------
// minimal wire walker (RFC 1035 §4.1)

// SkipName returns the offset just behind the (possibly compressed) name that starts at off.
func SkipName(msg []byte, off int) (int, bool) {
	for {
		if off >= len(msg) {
			return 0, false
		}
		c := int(msg[off])
		switch c & 0xC0 {
		case 0x00:
			if c == 0 {
				return off + 1, true
			}
			off += 1 + c
		case 0xC0:
			if off+1 >= len(msg) {
				return 0, false
			}
			return off + 2, true
		default:
			return 0, false
		}
	}
}

// ReadName returns the labels of the name at off (following compression pointers) and the offset behind
// the name's first occurrence.
func ReadName(msg []byte, off int) (labels [][]byte, next int, ok bool) {
	hops, total := 0, 1
	next = -1
	for {
		if off >= len(msg) {
			return nil, 0, false
		}
		c := int(msg[off])
		switch c & 0xC0 {
		case 0x00:
			if c == 0 {
				if next < 0 {
					next = off + 1
				}
				return labels, next, true
			}
			if off+1+c > len(msg) {
				return nil, 0, false
			}
			total += 1 + c
			if total > 255 {
				return nil, 0, false
			}
			labels = append(labels, append([]byte(nil), msg[off+1:off+1+c]...))
			off += 1 + c
		case 0xC0:
			if off+1 >= len(msg) {
				return nil, 0, false
			}
			if next < 0 {
				next = off + 2
			}
			off = (c&0x3F)<<8 | int(msg[off+1])
			hops++
			if hops > 127 {
				return nil, 0, false
			}
		default:
			return nil, 0, false
		}
	}
}

// RR locates one resource record inside a message.
type RR struct {
	Start, RdStart, End int
	Type, Class         uint16
	TTL                 uint32
}

// Layout is the section structure of a message.
type Layout struct {
	QD, AN, NS, AR int
	RRs            []RR // answer, authority and additional records in order
	End            int  // offset behind the last counted record
}

// Walk parses the section structure by the counts of the header.
func Walk(msg []byte) (*Layout, bool) {
	if len(msg) < 12 {
		return nil, false
	}
	l := &Layout{
		QD: int(binary.BigEndian.Uint16(msg[4:])), AN: int(binary.BigEndian.Uint16(msg[6:])),
		NS: int(binary.BigEndian.Uint16(msg[8:])), AR: int(binary.BigEndian.Uint16(msg[10:])),
	}
	off := 12
	for i := 0; i < l.QD; i++ {
		n, ok := SkipName(msg, off)
		if !ok || n+4 > len(msg) {
			return nil, false
		}
		off = n + 4
	}
	for i := 0; i < l.AN+l.NS+l.AR; i++ {
		n, ok := SkipName(msg, off)
		if !ok || n+10 > len(msg) {
			return nil, false
		}
		rdl := int(binary.BigEndian.Uint16(msg[n+8:]))
		if n+10+rdl > len(msg) {
			return nil, false
		}
		l.RRs = append(l.RRs, RR{Start: off, RdStart: n + 10, End: n + 10 + rdl,
			Type: binary.BigEndian.Uint16(msg[n:]), Class: binary.BigEndian.Uint16(msg[n+2:]), TTL: binary.BigEndian.Uint32(msg[n+4:])})
		off = n + 10 + rdl
	}
	l.End = off
	return l, true
}

// ---------------------------------------------------------------------------------------------
// the TSIG RR (RFC 8945 §4.2)

// Rec is a TSIG record in abstract form. Names are label sequences with the case as transmitted.
type Rec struct {
	Name   [][]byte
	Class  uint16
	TTL    uint32
	Alg    [][]byte
	Time   uint64 // 48 bit
	Fudge  uint16
	MAC    []byte
	OrigID uint16
	Error  uint16
	Other  []byte
}

func nameWire(labels [][]byte, lower bool) []byte {
	var b []byte
	for _, l := range labels {
		b = append(b, byte(len(l)))
		for _, c := range l {
			if lower && c >= 'A' && c <= 'Z' {
				c += 'a' - 'A'
			}
			b = append(b, c)
		}
	}
	return append(b, 0)
}

func u16(b []byte, v uint16) []byte { return append(b, byte(v>>8), byte(v)) }
func u48(b []byte, v uint64) []byte {
	return append(b, byte(v>>40), byte(v>>32), byte(v>>24), byte(v>>16), byte(v>>8), byte(v))
}

// Encode gives the uncompressed wire form of the record.
func (t *Rec) Encode() []byte {
	rd := nameWire(t.Alg, false)
	rd = u48(rd, t.Time)
	rd = u16(rd, t.Fudge)
	rd = u16(rd, uint16(len(t.MAC)))
	rd = append(rd, t.MAC...)
	rd = u16(rd, t.OrigID)
	rd = u16(rd, t.Error)
	rd = u16(rd, uint16(len(t.Other)))
	rd = append(rd, t.Other...)
	b := nameWire(t.Name, false)
	b = u16(b, TypeTSIG)
	b = u16(b, t.Class)
	b = append(b, byte(t.TTL>>24), byte(t.TTL>>16), byte(t.TTL>>8), byte(t.TTL))
	b = u16(b, uint16(len(rd)))
	return append(b, rd...)
}

// parseRec decodes the TSIG RR located by rr.
func parseRec(msg []byte, rr RR) (*Rec, bool) {
	t := &Rec{Class: rr.Class, TTL: rr.TTL}
	var ok bool
	if t.Name, _, ok = ReadName(msg, rr.Start); !ok {
		return nil, false
	}
	var off int
	if t.Alg, off, ok = ReadName(msg, rr.RdStart); !ok {
		return nil, false
	}
	if off+10 > rr.End {
		return nil, false
	}
	t.Time = uint64(binary.BigEndian.Uint16(msg[off:]))<<32 | uint64(binary.BigEndian.Uint32(msg[off+2:]))
	t.Fudge = binary.BigEndian.Uint16(msg[off+6:])
	ml := int(binary.BigEndian.Uint16(msg[off+8:]))
	off += 10
	if off+ml+6 > rr.End {
		return nil, false
	}
	t.MAC = append([]byte{}, msg[off:off+ml]...)
	off += ml
	t.OrigID = binary.BigEndian.Uint16(msg[off:])
	t.Error = binary.BigEndian.Uint16(msg[off+2:])
	ol := int(binary.BigEndian.Uint16(msg[off+4:]))
	off += 6
	if off+ol != rr.End {
		return nil, false
	}
	t.Other = append([]byte{}, msg[off:off+ol]...)
	return t, true
}

// Split separates a signed message into the octets that enter the digest (message up to the TSIG RR,
// Original ID restored, ARCOUNT decremented) and the TSIG record. The TSIG must be the last record of
// the additional section and the only TSIG in the message (RFC 8945 §5.2). Octets behind the last
// counted record are not part of the message and are ignored.
func Split(msg []byte) (stripped []byte, t *Rec, why string) {
	l, ok := Walk(msg)
	if !ok {
		return nil, nil, "malformed message"
	}
	if l.AR == 0 {
		return nil, nil, "no additional records"
	}
	for _, rr := range l.RRs[:len(l.RRs)-1] {
		if rr.Type == TypeTSIG {
			return nil, nil, "TSIG not last / more than one TSIG"
		}
	}
	last := l.RRs[len(l.RRs)-1]
	if last.Type != TypeTSIG {
		return nil, nil, "no TSIG"
	}
	t, ok = parseRec(msg, last)
	if !ok {
		return nil, nil, "malformed TSIG"
	}
	stripped = append([]byte{}, msg[:last.Start]...)
	binary.BigEndian.PutUint16(stripped[0:], t.OrigID)
	binary.BigEndian.PutUint16(stripped[10:], uint16(l.AR-1))
	return stripped, t, ""
}

// Variables is the "TSIG variables" block of §4.3.3.
func Variables(t *Rec) []byte {
	b := nameWire(t.Name, true)
	b = u16(b, t.Class)
	b = append(b, byte(t.TTL>>24), byte(t.TTL>>16), byte(t.TTL>>8), byte(t.TTL))
	b = append(b, nameWire(t.Alg, true)...)
	b = u48(b, t.Time)
	b = u16(b, t.Fudge)
	b = u16(b, t.Error)
	b = u16(b, uint16(len(t.Other)))
	return append(b, t.Other...)
}

// Timers is the "TSIG timers" block of §5.3.1.
func Timers(t *Rec) []byte { return u16(u48(nil, t.Time), t.Fudge) }

// DigestInput assembles the octets that are fed to the HMAC. body is the message without TSIG, with the
// original ID and its own ARCOUNT.
func DigestInput(body []byte, t *Rec, reqMAC []byte, timersOnly bool) []byte {
	var b []byte
	if len(reqMAC) > 0 {
		b = u16(b, uint16(len(reqMAC)))
		b = append(b, reqMAC...)
	}
	b = append(b, body...)
	if timersOnly {
		return append(b, Timers(t)...)
	}
	return append(b, Variables(t)...)
}

// AlgName returns the canonical presentation form ("hmac-sha256.") of an algorithm name.
func AlgName(labels [][]byte) string {
	s := ""
	for _, l := range labels {
		for _, c := range l {
			if c >= 'A' && c <= 'Z' {
				c += 'a' - 'A'
			}
			s += string(rune(c))
		}
		s += "."
	}
	if s == "" {
		s = "."
	}
	return s
}

// HMAC computes the MAC for the algorithms of RFC 8945 §6 that the library states it supports
// (hmac-md5 is deliberately absent: the library documents it as unsupported).
func HMAC(alg [][]byte, secret, data []byte) ([]byte, bool) {
	var f func() hash.Hash
	switch AlgName(alg) {
	case "hmac-sha1.":
		f = sha1.New
	case "hmac-sha224.":
		f = sha256.New224
	case "hmac-sha256.":
		f = sha256.New
	case "hmac-sha384.":
		f = sha512.New384
	case "hmac-sha512.":
		f = sha512.New
	default:
		return nil, false
	}
	h := hmac.New(f, secret)
	h.Write(data)
	return h.Sum(nil), true
}

// Sign appends t (whose MAC is computed here) to the packed, TSIG-less message msg. The header ID of the
// result is the ID of msg; the digest is over t.OrigID.
func Sign(msg []byte, t Rec, secret, reqMAC []byte, timersOnly bool) (signed, mac []byte, ok bool) {
	if len(msg) < 12 {
		return nil, nil, false
	}
	body := append([]byte{}, msg...)
	binary.BigEndian.PutUint16(body[0:], t.OrigID)
	mac, ok = HMAC(t.Alg, secret, DigestInput(body, &t, reqMAC, timersOnly))
	if !ok {
		return nil, nil, false
	}
	t.MAC = mac
	return Attach(msg, &t), mac, true
}

// Attach appends the record as last additional RR and raises ARCOUNT.
func Attach(msg []byte, t *Rec) []byte {
	out := append([]byte{}, msg...)
	out = append(out, t.Encode()...)
	binary.BigEndian.PutUint16(out[10:], binary.BigEndian.Uint16(out[10:])+1)
	return out
}

// Lookup finds the secret of a key by its owner name.
type Lookup func(name [][]byte) (secret []byte, ok bool)

// Verify is the acceptance rule: the message carries exactly one TSIG as last additional record, the key
// is known, the algorithm is supported, the MAC equals the full-length HMAC over the digest input
// (truncated MACs, RFC 8945 §5.2.2.1, are not accepted: the property demands equality) and
// |now − Time Signed| ≤ Fudge.
func Verify(msg []byte, lookup Lookup, reqMAC []byte, timersOnly bool, now uint64) (ok bool, why string) {
	body, t, why := Split(msg)
	if why != "" {
		return false, why
	}
	secret, found := lookup(t.Name)
	if !found {
		return false, "unknown key"
	}
	return Check(body, t, t.MAC, secret, reqMAC, timersOnly, now)
}

// Check decides acceptance of an already split message: mac must be the HMAC over body and the fields
// of t, and now must lie in the fudge window.
func Check(body []byte, t *Rec, mac, secret, reqMAC []byte, timersOnly bool, now uint64) (ok bool, why string) {
	want, ok := HMAC(t.Alg, secret, DigestInput(body, t, reqMAC, timersOnly))
	if !ok {
		return false, "unsupported algorithm"
	}
	if !hmac.Equal(want, mac) {
		return false, "MAC mismatch"
	}
	d := now - t.Time
	if now < t.Time {
		d = t.Time - now
	}
	if d > uint64(t.Fudge) {
		return false, "outside fudge window"
	}
	return true, ""
}
