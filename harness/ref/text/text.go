// Package text is an independent reader of RFC 1035 §5.1 master-file text for one record line:
// tokenizer (quotes, \X, \DDD, parentheses, comments) and per-kind field readers driven by the
// layout table of ref/wire. It returns the uncompressed wire form of the record. It does not import
// the library.
package text

import (
	"encoding/base32"
	"encoding/base64"
	"encoding/hex"
	"errors"
	"fmt"
	"net"
	"strconv"
	"strings"

	rn "verif/harness/ref/name"
	"verif/harness/ref/wire"
)

type token struct {
	raw    string // as written (escapes kept)
	quoted bool
}

// Tokenize splits one logical line into tokens: blanks separate, "..." groups, \X and \DDD keep the next
// character(s), ( ) are ignored outside quotes, ; starts a comment.
func Tokenize(s string) ([]token, error) {
	var toks []token
	var cur strings.Builder
	in, quoted, have := false, false, false
	flush := func() {
		if have {
			toks = append(toks, token{cur.String(), quoted})
		}
		cur.Reset()
		have, quoted = false, false
	}
	for i := 0; i < len(s); i++ {
		c := s[i]
		switch {
		case c == '\\':
			if i+1 >= len(s) {
				return nil, errors.New("dangling backslash")
			}
			cur.WriteByte(c)
			cur.WriteByte(s[i+1])
			have = true
			i++
		case c == '"':
			if in {
				in = false
				flush()
			} else {
				flush()
				in, quoted, have = true, true, true
			}
		case in:
			cur.WriteByte(c)
		case c == ' ' || c == '\t' || c == '\n' || c == '\r':
			flush()
		case c == '(' || c == ')':
			flush()
		case c == ';':
			flush()
			for i < len(s) && s[i] != '\n' {
				i++
			}
		default:
			cur.WriteByte(c)
			have = true
		}
	}
	if in {
		return nil, errors.New("unterminated quote")
	}
	flush()
	return toks, nil
}

// unescape turns \DDD and \X into octets.
func unescape(s string) ([]byte, error) {
	var out []byte
	for i := 0; i < len(s); i++ {
		if s[i] != '\\' {
			out = append(out, s[i])
			continue
		}
		if i+1 >= len(s) {
			return nil, errors.New("dangling backslash")
		}
		if s[i+1] >= '0' && s[i+1] <= '9' {
			if i+3 >= len(s) {
				return nil, errors.New("short \\DDD")
			}
			v, err := strconv.Atoi(s[i+1 : i+4])
			if err != nil || v > 255 {
				return nil, errors.New("bad \\DDD")
			}
			out = append(out, byte(v))
			i += 3
		} else {
			out = append(out, s[i+1])
			i++
		}
	}
	return out, nil
}

// plain lists the types whose presentation format is the field sequence in the standard spelling of each
// kind (decimal integers, names, quoted strings, hex, base64, dotted / colon addresses, type mnemonic lists
// are NOT included).
var plain = map[uint16]bool{
	1: true, 2: true, 3: true, 4: true, 5: true, 6: true, 7: true, 8: true, 9: true, 12: true, 13: true, 14: true, 15: true, 16: true,
	17: true, 18: true, 19: true, 20: true, 21: true, 23: true, 26: true, 27: true, 28: true, 33: true, 35: true, 36: true, 39: true,
	43: true, 44: true, 48: true, 25: true, 60: true, 57: true, 49: true, 52: true, 53: true, 56: true, 58: true, 59: true, 61: true, 63: true,
	99: true, 100: true, 101: true, 102: true, 107: true, 105: true, 256: true, 257: true, 258: true, 261: true, 32768: true, 32769: true,
	31: true, 32: true,
}

func Plain(t uint16) bool { return plain[t] }

var b32 = base32.HexEncoding.WithPadding(base32.NoPadding)

// ReadRR reads "owner ttl class type rdata…" and returns the uncompressed wire form.
func ReadRR(line string, s *wire.Spec) ([]byte, error) {
	toks, err := Tokenize(line)
	if err != nil {
		return nil, err
	}
	if len(toks) < 4 {
		return nil, errors.New("too few tokens")
	}
	own := rn.Parse(toks[0].raw)
	if !own.OK || !own.FQDN {
		return nil, fmt.Errorf("owner %q", toks[0].raw)
	}
	ttl, err := strconv.ParseUint(toks[1].raw, 10, 32)
	if err != nil {
		return nil, fmt.Errorf("ttl %q", toks[1].raw)
	}
	class, err := classOf(toks[2].raw)
	if err != nil {
		return nil, err
	}
	if toks[3].raw != s.Mnem {
		return nil, fmt.Errorf("type %q, want %s", toks[3].raw, s.Mnem)
	}
	rest := toks[4:]
	vals := make([]wire.Val, len(s.Fields))
	next := func() (token, error) {
		if len(rest) == 0 {
			return token{}, errors.New("missing field")
		}
		t := rest[0]
		rest = rest[1:]
		return t, nil
	}
	for i, f := range s.Fields {
		switch f.K {
		case wire.U8, wire.U16, wire.U32, wire.U64:
			t, err := next()
			if err != nil {
				return nil, err
			}
			bits := map[wire.Kind]int{wire.U8: 8, wire.U16: 16, wire.U32: 32, wire.U64: 64}[f.K]
			v, err := strconv.ParseUint(t.raw, 10, bits)
			if err != nil {
				return nil, fmt.Errorf("%s: %q is not a %d-bit decimal", f.Go, t.raw, bits)
			}
			vals[i].U = v
		case wire.Name, wire.CName:
			t, err := next()
			if err != nil {
				return nil, err
			}
			p := rn.Parse(t.raw)
			if !p.OK || !p.FQDN || t.quoted {
				return nil, fmt.Errorf("%s: %q is not an absolute name", f.Go, t.raw)
			}
			vals[i].L, vals[i].Root = p.Labels, true
		case wire.Str:
			t, err := next()
			if err != nil {
				return nil, err
			}
			if vals[i].B, err = unescape(t.raw); err != nil || len(vals[i].B) > 255 {
				return nil, fmt.Errorf("%s: %q: %v", f.Go, t.raw, err)
			}
		case wire.Octet:
			t, err := next()
			if err != nil {
				return nil, err
			}
			if vals[i].B, err = unescape(t.raw); err != nil {
				return nil, fmt.Errorf("%s: %q: %v", f.Go, t.raw, err)
			}
		case wire.Txt:
			if len(rest) == 0 {
				return nil, errors.New("TXT without a string")
			}
			for len(rest) > 0 {
				t, _ := next()
				b, err := unescape(t.raw)
				if err != nil || len(b) > 255 {
					return nil, fmt.Errorf("%s: %q: %v", f.Go, t.raw, err)
				}
				vals[i].L = append(vals[i].L, b)
			}
		case wire.Hex:
			var sb strings.Builder
			for len(rest) > 0 {
				t, _ := next()
				sb.WriteString(t.raw)
			}
			if vals[i].B, err = hex.DecodeString(sb.String()); err != nil {
				return nil, fmt.Errorf("%s: %v", f.Go, err)
			}
		case wire.B64:
			var sb strings.Builder
			for len(rest) > 0 {
				t, _ := next()
				sb.WriteString(t.raw)
			}
			if vals[i].B, err = base64.StdEncoding.DecodeString(sb.String()); err != nil {
				return nil, fmt.Errorf("%s: %v", f.Go, err)
			}
		case wire.A:
			t, err := next()
			if err != nil {
				return nil, err
			}
			ip := net.ParseIP(t.raw)
			if ip == nil || ip.To4() == nil || strings.Contains(t.raw, ":") {
				return nil, fmt.Errorf("%s: %q is not a dotted quad", f.Go, t.raw)
			}
			vals[i].B = ip.To4()
		case wire.AAAA:
			t, err := next()
			if err != nil {
				return nil, err
			}
			ip := net.ParseIP(t.raw)
			if ip == nil || !strings.Contains(t.raw, ":") {
				return nil, fmt.Errorf("%s: %q is not an IPv6 address", f.Go, t.raw)
			}
			vals[i].B = ip.To16()
		default:
			return nil, fmt.Errorf("kind of %s not readable by the plain reader", f.Go)
		}
	}
	if len(rest) != 0 {
		return nil, fmt.Errorf("%d tokens left over", len(rest))
	}
	_ = b32
	return wire.EncodeRR(nil, &wire.RR{Name: own.Labels, Type: s.Type, Class: class, TTL: uint32(ttl), Vals: vals})
}

func classOf(s string) (uint16, error) {
	switch s {
	case "IN":
		return 1, nil
	case "CS":
		return 2, nil
	case "CH":
		return 3, nil
	case "HS":
		return 4, nil
	case "NONE":
		return 254, nil
	case "ANY":
		return 255, nil
	}
	if strings.HasPrefix(s, "CLASS") {
		v, err := strconv.ParseUint(s[5:], 10, 16)
		if err == nil {
			return uint16(v), nil
		}
	}
	return 0, fmt.Errorf("class %q", s)
}
